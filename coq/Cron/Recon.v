(** C02: croncontroller.Reconciler (SyncOne / processCronForConfig), ExecutionControl.CreateJob,
    jobconfig.NewJobFromJobConfig's identity fields, under the work queue and the generic
    reconciler.Controller retry loop.  The API server's per-namespace name uniqueness is part
    of the model of the API (create of an existing name fails with AlreadyExists).
    Model file: definitions only. *)
From Furiko Require Export Cron.Keys.
Open Scope list_scope.
Open Scope Z_scope.

Record rjc := mkRJC {
  rc_name : string;
  rc_uid : string;
  rc_forbid : bool;            (* spec.concurrency.policy = Forbid *)
  rc_maxc : Z;                 (* GetMaxConcurrency *)
  rc_queued : Z;               (* status.queued *)
  rc_tmpl_ann : option string; (* the template sets the schedule-time annotation key itself *)
  rc_tmpl_lbl : option string  (* the template sets the jobconfig-uid label key itself *)
}.

Record cjob := mkCJ {
  cj_name : string;
  cj_owner_name : string;
  cj_owner_uid : string;
  cj_label_uid : string;
  cj_ann : string;             (* schedule-time annotation *)
  cj_forbid : bool             (* spec.startPolicy.concurrencyPolicy = Forbid *)
}.

(** NewJobFromJobConfig (type Scheduled) + the start policy set by the reconciler: the
    controller's own label and annotation win over whatever the template carries *)
Definition new_job (jc : rjc) (t : Z) : cjob :=
  mkCJ (gen_name (rc_name jc) t) (rc_name jc) (rc_uid jc) (rc_uid jc) (sched_annotation t) (rc_forbid jc).

Inductive rfault := RFServer | RFInvalid.
Inductive revent := REAdd (name : string) | REDel (name : string).

Record rworld := mkRW {
  rw_jcs : list rjc;              (* JobConfig cache *)
  rw_api : list cjob;             (* Jobs in the API, creation order *)
  rw_cache : list string;         (* names in the Job cache *)
  rw_pending : list revent;       (* Job events not yet delivered to the cache *)
  rw_active : Z;                  (* active-job store count *)
  rw_maxq : option Z;             (* dynamic config maxEnqueuedJobs *)
  rw_ready : list string;         (* work queue, FIFO, no duplicates *)
  rw_delayed : list string;       (* rate-limited re-adds not yet fired *)
  rw_faults : list rfault
}.

Definition mem_str (s : string) (l : list string) : bool := existsb (String.eqb s) l.
Fixpoint find_jc (n : string) (l : list rjc) : option rjc :=
  match l with
  | [] => None
  | x :: r => if String.eqb (rc_name x) n then Some x else find_jc n r
  end.
Definition api_has (n : string) (l : list cjob) : bool := existsb (fun j => String.eqb (cj_name j) n) l.
Definition q_add (k : string) (q : list string) : list string := if mem_str k q then q else q ++ [k].
Fixpoint remove_str (s : string) (l : list string) : list string :=
  match l with
  | [] => []
  | x :: r => if String.eqb x s then r else x :: remove_str s r
  end.

(** outcome: 1 nothing to do (bad JobConfig, policy, found in cache, invalid-create event),
    2 created, 3 error (re-added rate limited) *)
Definition process (w : rworld) (key : string) : rworld * Z :=
  let fail f := (mkRW (rw_jcs w) (rw_api w) (rw_cache w) (rw_pending w) (rw_active w) (rw_maxq w)
                      (rw_ready w) (rw_delayed w ++ [key]) f, 3) in
  match split_key key with
  | None => fail (rw_faults w)
  | Some (name, t) =>
      match find_jc name (rw_jcs w) with
      | None => (w, 1)
      | Some jc =>
          if rc_forbid jc && (rc_maxc jc <? rw_active w + 1) then (w, 1)
          else if match rw_maxq w with Some m => m <=? rc_queued jc | None => false end then (w, 1)
          else
            let j := new_job jc t in
            if mem_str (cj_name j) (rw_cache w) then (w, 1)
            else
              match rw_faults w with
              | RFServer :: f => fail f
              | RFInvalid :: f =>
                  (mkRW (rw_jcs w) (rw_api w) (rw_cache w) (rw_pending w) (rw_active w) (rw_maxq w)
                        (rw_ready w) (rw_delayed w) f, 1)
              | [] =>
                  if api_has (cj_name j) (rw_api w) then fail []
                  else (mkRW (rw_jcs w) (rw_api w ++ [j]) (rw_cache w) (rw_pending w ++ [REAdd (cj_name j)])
                             (rw_active w) (rw_maxq w) (rw_ready w) (rw_delayed w) [], 2)
              end
      end
  end.

Inductive rop :=
| RRequest (key : string)
| RWork
| RFire
| RAdvance
| RFault (f : rfault)
| RRestart
| RDeleteJob (name : string)
| RSetActive (n : Z)
| RSetMaxQ (m : option Z)
| RSetJC (jc : rjc)
| RDelJC (name : string).

Definition rstep (w : rworld) (o : rop) : rworld * Z :=
  match o with
  | RRequest k =>
      (mkRW (rw_jcs w) (rw_api w) (rw_cache w) (rw_pending w) (rw_active w) (rw_maxq w)
            (q_add k (rw_ready w)) (rw_delayed w) (rw_faults w), 0)
  | RWork =>
      match rw_ready w with
      | [] => (w, 0)
      | k :: r =>
          process (mkRW (rw_jcs w) (rw_api w) (rw_cache w) (rw_pending w) (rw_active w) (rw_maxq w)
                        r (rw_delayed w) (rw_faults w)) k
      end
  | RFire =>
      match rw_delayed w with
      | [] => (w, 0)
      | k :: r => (mkRW (rw_jcs w) (rw_api w) (rw_cache w) (rw_pending w) (rw_active w) (rw_maxq w)
                        (q_add k (rw_ready w)) r (rw_faults w), 0)
      end
  | RAdvance =>
      match rw_pending w with
      | [] => (w, 0)
      | REAdd n :: r => (mkRW (rw_jcs w) (rw_api w) (if mem_str n (rw_cache w) then rw_cache w else rw_cache w ++ [n]) r
                              (rw_active w) (rw_maxq w) (rw_ready w) (rw_delayed w) (rw_faults w), 0)
      | REDel n :: r => (mkRW (rw_jcs w) (rw_api w) (remove_str n (rw_cache w)) r
                              (rw_active w) (rw_maxq w) (rw_ready w) (rw_delayed w) (rw_faults w), 0)
      end
  | RFault f =>
      (mkRW (rw_jcs w) (rw_api w) (rw_cache w) (rw_pending w) (rw_active w) (rw_maxq w)
            (rw_ready w) (rw_delayed w) (rw_faults w ++ [f]), 0)
  | RRestart =>
      (* a new process: empty queue, the Job cache is re-listed from the API *)
      (mkRW (rw_jcs w) (rw_api w) (map cj_name (rw_api w)) [] (rw_active w) (rw_maxq w) [] [] (rw_faults w), 0)
  | RDeleteJob n =>
      (if api_has n (rw_api w)
       then mkRW (rw_jcs w) (filter (fun j => negb (String.eqb (cj_name j) n)) (rw_api w)) (rw_cache w)
                 (rw_pending w ++ [REDel n]) (rw_active w) (rw_maxq w) (rw_ready w) (rw_delayed w) (rw_faults w)
       else w, 0)
  | RSetActive n =>
      (mkRW (rw_jcs w) (rw_api w) (rw_cache w) (rw_pending w) n (rw_maxq w) (rw_ready w) (rw_delayed w) (rw_faults w), 0)
  | RSetMaxQ m =>
      (mkRW (rw_jcs w) (rw_api w) (rw_cache w) (rw_pending w) (rw_active w) m (rw_ready w) (rw_delayed w) (rw_faults w), 0)
  | RSetJC jc =>
      (mkRW (jc :: filter (fun x => negb (String.eqb (rc_name x) (rc_name jc))) (rw_jcs w)) (rw_api w) (rw_cache w)
            (rw_pending w) (rw_active w) (rw_maxq w) (rw_ready w) (rw_delayed w) (rw_faults w), 0)
  | RDelJC n =>
      (mkRW (filter (fun x => negb (String.eqb (rc_name x) n)) (rw_jcs w)) (rw_api w) (rw_cache w)
            (rw_pending w) (rw_active w) (rw_maxq w) (rw_ready w) (rw_delayed w) (rw_faults w), 0)
  end.

Definition init_rworld : rworld := mkRW [] [] [] [] 0 (Some 20) [] [] [].   (* built-in default maxEnqueuedJobs *)

Definition robs := (list cjob * list string * list string * Z)%type.
Definition r_observe (w : rworld) (out : Z) : robs := (rw_api w, rw_ready w, rw_delayed w, out).

Fixpoint rrun (w : rworld) (ops : list rop) : list robs :=
  match ops with
  | [] => []
  | o :: r => let '(w', out) := rstep w o in r_observe w' out :: rrun w' r
  end.

Fixpoint rrun_world (w : rworld) (ops : list rop) : rworld :=
  match ops with
  | [] => w
  | o :: r => rrun_world (fst (rstep w o)) r
  end.
