(** C02: work-item keys and Job names of the cron controller.
    Transcribes croncontroller/util.go (JoinJobConfigKeyName,
    SplitJobConfigKeyName, ParseUnix) and jobconfig/name.go (GenerateName),
    jobconfig/job.go (makeAnnotations: schedule-time annotation). *)
From Furiko Require Export Base.Str.

Definition join_key (key : string) (unix : Z) : string :=
  key ++ "." ++ show_Z unix.

(** tokens := strings.Split(key, "."); len < 2 => error; ts := Atoi(last);
    name := Join(tokens[:len-1], ".") *)
Definition split_key (k : string) : option (string * Z) :=
  match split_last "." k with
  | None => None
  | Some (name, last) =>
      match parse_int last with
      | None => None
      | Some t => Some (name, t)
      end
  end.

Definition gen_name (jc_name : string) (unix : Z) : string :=
  jc_name ++ "-" ++ show_Z unix.

Definition sched_annotation (unix : Z) : string := show_Z unix.
