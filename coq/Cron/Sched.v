(** The cron scheduling core: cronschedule/schedule.go (Schedule.New/Pop/Bump/Delete,
    getInitialTimeForScheduling, getNext), cron/expression.go (multiExpression.Next),
    croncontroller/cron_worker.go (Work, refreshUpdatedJobConfigs, syncOne) and
    croncontroller/informer.go (which JobConfig events flush the heap).

    Time is [Z] nanoseconds since the Unix epoch; heap priorities are whole seconds.
    A single cron expression evaluated in the JobConfig's effective timezone is the
    oracle: it is represented by the strictly increasing list of the Unix seconds it
    matches (inside the run's horizon).  Everything furiko itself adds around that
    oracle — earliest-of-many expressions, the notAfter cut, the reference time after a
    restart, the heap, the per-tick cap, the flush channel — is modelled here.

    Model file: definitions only (proofs are in Proofs/). *)
From Coq Require Export List ZArith Bool.
Export ListNotations.
Open Scope Z_scope.

Definition ns (s : Z) : Z := s * 1000000000.

(** cronexpr.Expression.Next(from): the first matching second strictly after [from]. *)
Fixpoint next_in (l : list Z) (from : Z) : option Z :=
  match l with
  | [] => None
  | s :: r => if from <? ns s then Some s else next_in r from
  end.

(** timeutil.MinNonZero *)
Definition min_nonzero (a b : option Z) : option Z :=
  match a, b with
  | None, _ => b
  | _, None => a
  | Some x, Some y => if x <? y then Some x else Some y
  end.

(** multiExpression.Next: left fold, zero results skipped. *)
Fixpoint multi_next_acc (es : list (list Z)) (from : Z) (acc : option Z) : option Z :=
  match es with
  | [] => acc
  | e :: r =>
      multi_next_acc r from
        (match next_in e from with
         | Some n => min_nonzero (Some n) acc
         | None => acc
         end)
  end.
Definition multi_next (es : list (list Z)) (from : Z) : option Z := multi_next_acc es from None.

Record jobconfig := mkJC {
  jc_key : Z;                 (* namespace/name, numbered by the harness *)
  jc_active : bool;           (* spec.schedule != nil && !disabled && cron != nil *)
  jc_exprs : list (list Z);   (* per cron expression: the seconds it matches *)
  jc_nbf : option Z;          (* constraints.notBefore, ns; None = unset or zero *)
  jc_naf : option Z;          (* constraints.notAfter *)
  jc_ls : option Z;           (* status.lastScheduled *)
  jc_lu : option Z            (* spec.schedule.lastUpdated *)
}.

(** getNext: expr.Next; a result before notBefore is replaced by the first match at or
    after notBefore ([expr.Next(nbf - 1ns)]); then the notAfter cut ([next.After(naf)]: a
    time equal to notAfter still fires). Inactive schedules have no expression. *)
Definition get_next (jc : jobconfig) (from : Z) : option Z :=
  if jc_active jc then
    match multi_next (jc_exprs jc) from with
    | None => None
    | Some s =>
        let r :=
          match jc_nbf jc with
          | Some nbf => if ns s <? nbf then multi_next (jc_exprs jc) (nbf - 1) else Some s
          | None => Some s
          end in
        match r with
        | None => None
        | Some s2 =>
            match jc_naf jc with
            | Some naf => if naf <? ns s2 then None else Some s2
            | None => Some s2
            end
        end
    end
  else None.

(** getInitialTimeForScheduling(jobConfig, cfg, now, now). [thr] is the effective
    maxDowntimeThreshold in ns (config value if > 0, else 300 s). *)
Definition eff_threshold (cfg_secs : Z) : Z := if 0 <? cfg_secs then ns cfg_secs else ns 300.

Definition get_initial (jc : jobconfig) (thr now : Z) : Z :=
  let from0 :=
    match jc_ls jc with
    | Some ls => if thr <? now - ls then now - thr else ls
    | None => now
    end in
  let from1 :=
    match jc_lu jc with
    | Some lu => if from0 <? lu then lu else from0
    | None => from0
    end in
  match jc_nbf jc with
  | Some nbf => if from1 <? nbf then nbf - 1 else from1
  | None => from1
  end.

(** The heap, abstractly: a finite map key -> priority (unique keys). *)
Definition heap := list (Z * Z).

Definition h_delete (k : Z) (h : heap) : heap := filter (fun e => negb (fst e =? k)) h.
Definition h_upsert (k p : Z) (h : heap) : heap := (k, p) :: h_delete k h.
Fixpoint h_find (k : Z) (h : heap) : option Z :=
  match h with
  | [] => None
  | (k', p) :: r => if k' =? k then Some p else h_find k r
  end.

(** An entry of minimal priority (ties: the smaller key; any tie-break gives the same
    per-key behaviour, see Proofs/). *)
Definition entry_le (a b : Z * Z) : bool :=
  (snd a <? snd b) || ((snd a =? snd b) && (fst a <=? fst b)).
Fixpoint h_min (h : heap) : option (Z * Z) :=
  match h with
  | [] => None
  | e :: r =>
      match h_min r with
      | None => Some e
      | Some m => if entry_le e m then Some e else Some m
      end
  end.

(** Schedule.Pop(fromTime): the top item unless it is after [fromTime]. *)
Definition pop_due (h : heap) (now : Z) : option (Z * Z * heap) :=
  match h_min h with
  | None => None
  | Some (k, p) => if now <? ns p then None else Some (k, p, h_delete k h)
  end.

(** Schedule.Bump(jobConfig, fromTime) *)
Definition bump (h : heap) (jc : jobconfig) (from : Z) : heap :=
  match get_next jc from with
  | None => h_delete (jc_key jc) h
  | Some s => if ns s <=? from then h else h_upsert (jc_key jc) s h
  end.

(** cronschedule.New over the lister's JobConfigs at clock [now]. *)
Definition new_item (thr now : Z) (jc : jobconfig) : option (Z * Z) :=
  if jc_active jc then
    match get_next jc (get_initial jc thr now) with
    | Some s => Some (jc_key jc, s)
    | None => None
    end
  else None.

Fixpoint new_heap (thr now : Z) (jcs : list jobconfig) : heap :=
  match jcs with
  | [] => []
  | jc :: r =>
      match new_item thr now jc with
      | Some e => e :: new_heap thr now r
      | None => new_heap thr now r
      end
  end.

Fixpoint lookup (k : Z) (jcs : list jobconfig) : option jobconfig :=
  match jcs with
  | [] => None
  | jc :: r => if jc_key jc =? k then Some jc else lookup k r
  end.

(** per-tick counters *)
Definition counts := list (Z * Z).
Fixpoint get_count (k : Z) (c : counts) : Z :=
  match c with
  | [] => 0
  | (k', n) :: r => if k' =? k then n else get_count k r
  end.
Definition incr_count (k : Z) (c : counts) : counts := (k, get_count k c + 1) :: c.

(** refreshUpdatedJobConfigs: at most [n] channel entries, FIFO; Delete then
    Bump(obj carried by the event, now). Returns the heap and the rest of the channel. *)
Fixpoint refresh (n : nat) (h : heap) (chan : list jobconfig) (now : Z) : heap * list jobconfig :=
  match n, chan with
  | O, _ => (h, chan)
  | _, [] => (h, [])
  | S n', jc :: r => refresh n' (bump (h_delete (jc_key jc) h) jc now) r now
  end.

(** The pop loop of Work. [now] is the single clock reading taken at the top of Work
    (used by every Pop and by the cap branch). Third component: true when the fuel ran
    out (the loop did not terminate within the bound). *)
Fixpoint work_loop (fuel : nat) (lister : list jobconfig) (maxc now : Z)
         (h : heap) (c : counts) : heap * list (Z * Z) * bool :=
  match fuel with
  | O => (h, [], true)
  | S fuel' =>
      match pop_due h now with
      | None => (h, [], false)
      | Some (k, p, h') =>
          match lookup k lister with
          | None => work_loop fuel' lister maxc now h' c        (* syncOne error: entry dropped *)
          | Some jc =>
              if maxc <=? get_count k c then
                work_loop fuel' lister maxc now (bump h' jc now) c
              else
                let '(h2, reqs, oof) :=
                  work_loop fuel' lister maxc now (bump h' jc (ns p)) (incr_count k c) in
                (h2, (k, p) :: reqs, oof)
          end
      end
  end.

Definition eff_max_missed (cfg : option Z) : Z := match cfg with Some m => m | None => 5 end.

Record wstate := mkW {
  w_heap : heap;
  w_chan : list jobconfig     (* updatedConfigs channel, oldest first *)
}.

Definition work_fuel (h : heap) (chan : list jobconfig) (maxc : Z) : nat :=
  ((length h + length chan) * (Z.to_nat (Z.max maxc 0) + 2) + 2)%nat.

(** CronWorker.Work at clock reading [now0]. *)
Definition work (lister : list jobconfig) (maxc : Z) (now0 : Z) (st : wstate)
  : wstate * list (Z * Z) * bool :=
  let '(h1, chan1) := refresh 1000 (w_heap st) (w_chan st) now0 in
  let '(h2, reqs, oof) :=
    work_loop (work_fuel h1 (w_chan st) maxc) lister maxc now0 h1 [] in
  (mkW h2 chan1, reqs, oof).

(** ------------------------------------------------------------------ *)
(** The cron world: API/lister JobConfigs, informer events, ticks, restarts. *)

Inductive event :=
| EvAdd (newjc : jobconfig)
| EvUpdate (newjc : jobconfig) (schedule_changed : bool)
| EvDelete (oldjc : jobconfig).

(** InformerWorker.Init registers UpdateFunc and DeleteFunc only. *)
Definition handle_event (e : event) (chan : list jobconfig) : list jobconfig :=
  match e with
  | EvAdd _ => chan                      (* no AddFunc is registered *)
  | EvUpdate jc changed => if changed then chan ++ [jc] else chan
  | EvDelete jc => chan ++ [jc]
  end.

Record world := mkWorld {
  lister : list jobconfig;     (* informer cache = what the worker reads *)
  pending : list event;        (* events not yet delivered to the cron listener *)
  ws : wstate
}.

Definition set_jc (jc : jobconfig) (l : list jobconfig) : list jobconfig :=
  jc :: filter (fun x => negb (jc_key x =? jc_key jc)) l.
Definition del_jc (k : Z) (l : list jobconfig) : list jobconfig :=
  filter (fun x => negb (jc_key x =? k)) l.

Inductive op :=
| OInit (thr_cfg : Z) (now : Z)              (* CronWorker.Init (also: restart) *)
| OTick (maxc_cfg : option Z) (now0 : Z)
| OCreate (jc : jobconfig)                  (* Add event: no handler *)
| OUpdate (jc : jobconfig) (changed : bool)
| ODelete (k : Z)
| ODeliver.                                 (* one pending event reaches the handler *)

Definition step (w : world) (o : op) : world * list (Z * Z) * bool :=
  match o with
  | OInit thr_cfg now =>
      (mkWorld (lister w) [] (mkW (new_heap (eff_threshold thr_cfg) now (lister w)) []), [], false)
  | OTick maxc_cfg now0 =>
      let '(st, reqs, oof) := work (lister w) (eff_max_missed maxc_cfg) now0 (ws w) in
      (mkWorld (lister w) (pending w) st, reqs, oof)
  | OCreate jc => (mkWorld (set_jc jc (lister w)) (pending w ++ [EvAdd jc]) (ws w), [], false)
  | OUpdate jc changed =>
      (mkWorld (set_jc jc (lister w)) (pending w ++ [EvUpdate jc changed]) (ws w), [], false)
  | ODelete k =>
      match lookup k (lister w) with
      | Some old => (mkWorld (del_jc k (lister w)) (pending w ++ [EvDelete old]) (ws w), [], false)
      | None => (w, [], false)
      end
  | ODeliver =>
      match pending w with
      | [] => (w, [], false)
      | e :: r => (mkWorld (lister w) r (mkW (w_heap (ws w)) (handle_event e (w_chan (ws w)))), [], false)
      end
  end.

Definition init_world : world := mkWorld [] [] (mkW [] []).

(** Run a history; observations: per op the requests (in emission order) and the heap
    afterwards. *)
Fixpoint run (w : world) (ops : list op) : list (list (Z * Z) * heap * bool) :=
  match ops with
  | [] => []
  | o :: r =>
      let '(w', reqs, oof) := step w o in
      (reqs, w_heap (ws w'), oof) :: run w' r
  end.
