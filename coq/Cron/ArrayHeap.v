(** pkg/utils/heap: the array heap behind the cron schedule, as it is written - a slice of
    items, the name -> index map kept by Swap / Push / Pop, and the sift loops of Go's
    container/heap (up, down, Init, Push, Pop, Fix, Remove) that drive them.
    Keys are integers (the harness names its items k<id>), priorities are integers.
    Model file: definitions only. *)
From Coq Require Export List ZArith Bool Arith.
Export ListNotations.
Open Scope list_scope.

Definition item := (Z * Z)%type.            (* (key, priority) *)
Definition ikey (x : item) : Z := fst x.
Definition iprio (x : item) : Z := snd x.
Definition dflt : item := (0, 0)%Z.

(** ** the name index: a Go map (missing key reads as 0) *)
Definition nmap := list (Z * nat).
Fixpoint nm_find (k : Z) (m : nmap) : option nat :=
  match m with
  | [] => None
  | (k', v) :: r => if Z.eqb k' k then Some v else nm_find k r
  end.
Definition nm_get (k : Z) (m : nmap) : nat := match nm_find k m with Some v => v | None => O end.
Definition nm_del (k : Z) (m : nmap) : nmap := filter (fun e => negb (Z.eqb (fst e) k)) m.
Definition nm_set (k : Z) (v : nat) (m : nmap) : nmap := (k, v) :: nm_del k m.

Record aheap := mkAH { queue : list item; names : nmap }.

(** ** slice access *)
Definition get (l : list item) (i : nat) : item := nth i l dflt.
Fixpoint upd (l : list item) (i : nat) (x : item) : list item :=
  match l, i with
  | [], _ => []
  | _ :: r, O => x :: r
  | y :: r, S i' => y :: upd r i' x
  end.
Definition swapl (l : list item) (i j : nat) : list item := upd (upd l i (get l j)) j (get l i).

(** priorityQueue.Less / Swap / Push / Pop *)
Definition less (h : aheap) (i j : nat) : bool := Z.ltb (iprio (get (queue h) i)) (iprio (get (queue h) j)).
Definition swap (h : aheap) (i j : nat) : aheap :=
  let q' := swapl (queue h) i j in
  let a := ikey (get q' i) in
  let b := ikey (get q' j) in
  let va := nm_get b (names h) in
  let vb := nm_get a (names h) in
  (* names[a], names[b] = names[b], names[a] : both right-hand sides read first *)
  mkAH q' (nm_set b vb (nm_set a va (names h))).
Definition pq_push (h : aheap) (x : item) : aheap :=
  mkAH (queue h ++ [x]) (nm_set (ikey x) (List.length (queue h)) (names h)).
Definition pq_pop (h : aheap) : aheap * item :=
  let x := get (queue h) (List.length (queue h) - 1) in
  (mkAH (removelast (queue h)) (nm_del (ikey x) (names h)), x).

(** ** container/heap *)
Fixpoint up (fuel : nat) (h : aheap) (j : nat) : aheap :=
  match fuel with
  | O => h
  | S f =>
      let i := (j - 1) / 2 in
      if Nat.eqb i j || negb (less h j i) then h else up f (swap h i j) i
  end.

(** returns the heap and the final position *)
Fixpoint down (fuel : nat) (h : aheap) (i n : nat) : aheap * nat :=
  match fuel with
  | O => (h, i)
  | S f =>
      let j1 := 2 * i + 1 in
      if n <=? j1 then (h, i)
      else
        let j := if (j1 + 1 <? n) && less h (j1 + 1) j1 then j1 + 1 else j1 in
        if negb (less h j i) then (h, i) else down f (swap h i j) j n
  end.

Definition hlen (h : aheap) : nat := List.length (queue h).

Fixpoint init_loop (k : nat) (h : aheap) : aheap :=   (* i = k-1 downto 0 *)
  match k with
  | O => h
  | S i => init_loop i (fst (down (hlen h) h i (hlen h)))
  end.
Definition heap_init (h : aheap) : aheap := init_loop (hlen h / 2) h.

Definition heap_push (h : aheap) (x : item) : aheap :=
  let h1 := pq_push h x in up (hlen h1) h1 (hlen h1 - 1).
Definition heap_pop (h : aheap) : aheap * item :=
  let n := hlen h - 1 in
  let h1 := swap h 0 n in
  let '(h2, _) := down (hlen h) h1 0 n in
  pq_pop h2.
Definition heap_fix (h : aheap) (i : nat) : aheap :=
  let '(h1, i') := down (hlen h) h i (hlen h) in
  if i <? i' then h1 else up (hlen h) h1 i.
Definition heap_remove (h : aheap) (i : nat) : aheap * item :=
  let n := hlen h - 1 in
  let h1 :=
    if Nat.eqb n i then h
    else
      let hs := swap h i n in
      let '(hd, i') := down (hlen h) hs i n in
      if i <? i' then hd else up (hlen h) hd i in
  pq_pop h1.

(** ** Heap (heap.go) *)
Fixpoint index_items (items : list item) (i : nat) : nmap -> nmap :=
  match items with
  | [] => fun m => m
  | x :: r => fun m => index_items r (S i) (nm_set (ikey x) i m)
  end.
Definition h_new (items : list item) : aheap := heap_init (mkAH items (index_items items O [])).
Definition h_push (h : aheap) (k p : Z) : aheap := heap_push h (k, p).
Definition h_pop (h : aheap) : aheap * item := heap_pop h.        (* callers check Len first *)
Definition h_peek (h : aheap) : option item := match queue h with [] => None | x :: _ => Some x end.
Definition h_search (h : aheap) (k : Z) : option Z :=
  match nm_find k (names h) with
  | Some i => Some (iprio (get (queue h) i))
  | None => None
  end.
Definition h_update (h : aheap) (k p : Z) : aheap * bool :=
  match nm_find k (names h) with
  | Some i => (heap_fix (mkAH (upd (queue h) i (ikey (get (queue h) i), p)) (names h)) i, true)
  | None => (h, false)
  end.
Definition h_delete (h : aheap) (k : Z) : aheap * bool :=
  match nm_find k (names h) with
  | Some i => (fst (heap_remove h i), true)
  | None => (h, false)
  end.

(** ** histories *)
Inductive hop := HPush (k p : Z) | HPop | HUpdate (k p : Z) | HDelete (k : Z).
Definition hstep (h : aheap) (o : hop) : aheap :=
  match o with
  | HPush k p => h_push h k p
  | HPop => match queue h with [] => h | _ => fst (h_pop h) end
  | HUpdate k p => fst (h_update h k p)
  | HDelete k => fst (h_delete h k)
  end.
