(** C14 — every parallel index is distinct, complete and gets its own task and variables. *)
From Furiko Require Import Base.Str Job.Index Proofs.IndexP Proofs.OdometerP.
Open Scope list_scope.

(** withCount n expands to exactly 0..n-1 in order; withKeys to the given keys in order *)
Theorem c14_count :
  forall s n, ps_count s = Some n -> 0 <= n ->
    exists l, gen_indexes s = Some l /\ List.length l = Z.to_nat n /\ NoDup l /\
      forall k, (k < Z.to_nat n)%nat -> nth_error l k = Some (INum (Z.of_nat k)).
Proof. exact gen_count. Qed.
Print Assumptions c14_count.

Theorem c14_keys :
  forall s k r, ps_count s = None -> ps_keys s = k :: r -> gen_indexes s = Some (map IKey (k :: r)).
Proof. exact gen_keys. Qed.
Print Assumptions c14_keys.

(** refinement: the index-vector-with-carry loop of GenerateMatrixCombinations enumerates
    exactly the lexicographic cartesian product whenever no value list is empty (mixed-radix
    counter argument, Proofs/OdometerP.v) *)
Theorem c14_odometer_is_product :
  forall m, m <> [] -> (forall kv, In kv m -> snd kv <> []) -> gen_matrix m = Some (product m).
Proof. exact gen_matrix_product. Qed.
Print Assumptions c14_odometer_is_product.

Theorem c14_matrix_expansion :
  forall s, ps_count s = None -> ps_keys s = [] -> ps_matrix s <> [] ->
    (forall kv, In kv (ps_matrix s) -> snd kv <> []) ->
    gen_indexes s = Some (map IMatrix (product (ps_matrix s))).
Proof.
  intros s Hc Hk Hm Hv. unfold gen_indexes. rewrite Hc, Hk.
  destruct (ps_matrix s) as [|x r] eqn:E; [congruence|]. rewrite <- E in *.
  now rewrite (gen_matrix_product _ Hm Hv).
Qed.
Print Assumptions c14_matrix_expansion.

(** the cartesian product (the specification of withMatrix): every combination picks one
    value per key, in key order; every such choice occurs; the number of combinations is the
    product of the list lengths; combinations are pairwise distinct when the value lists are
    duplicate-free. *)
Theorem c14_matrix_product_exact :
  forall m c, In c (product m) <->
    List.length c = List.length m /\
    forall i kv, nth_error m i = Some kv -> exists v, nth_error c i = Some (fst kv, v) /\ In v (snd kv).
Proof. exact product_in. Qed.
Print Assumptions c14_matrix_product_exact.

Theorem c14_matrix_product_count :
  forall m, List.length (product m) = fold_right (fun kv acc => (List.length (snd kv) * acc)%nat) 1%nat m.
Proof. exact product_length. Qed.
Print Assumptions c14_matrix_product_count.

Theorem c14_matrix_product_distinct :
  forall m, (forall kv, In kv m -> NoDup (snd kv)) -> NoDup (product m).
Proof. exact product_nodup. Qed.
Print Assumptions c14_matrix_product_distinct.

(** identity: with distinct hashes distinct indexes never share a task name; the task of an
    index receives that index's values, and those values identify the index *)
Theorem c14_names_distinct :
  forall job h1 r1 h2 r2, 0 <= r1 -> 0 <= r2 ->
    task_name job h1 r1 = task_name job h2 r2 -> h1 = h2 /\ r1 = r2.
Proof. exact task_name_inj. Qed.
Print Assumptions c14_names_distinct.

Theorem c14_vars_identify_index :
  forall i1 i2, valid_index i1 -> valid_index i2 -> index_vars i1 = index_vars i2 -> i1 = i2.
Proof. exact index_vars_inj. Qed.
Print Assumptions c14_vars_identify_index.

(** admission (after the fix 74d66b5): an accepted withCount/withKeys spec expands without
    panic to pairwise distinct valid indexes; an accepted withMatrix spec has only non-empty,
    duplicate-free value lists, hence distinct, complete combinations.  NOT guaranteed by
    admission: distinct HASHES (finding F5c: withCount >= 70 is accepted although indexes 58
    and 69 share the hash ge3dqm) - open, reproduced by the stream on every run. *)
Theorem c14_admission_count_keys :
  forall s, valid_pspec s = true -> ps_matrix s = [] ->
    exists l, gen_indexes s = Some l /\ NoDup l /\ forall i, In i l -> valid_index i.
Proof. exact valid_count_keys_distinct. Qed.
Print Assumptions c14_admission_count_keys.

Theorem c14_admission_matrix :
  forall s, valid_pspec s = true ->
    NoDup (product (ps_matrix s)) /\
    List.length (product (ps_matrix s)) =
      fold_right (fun kv acc => (List.length (snd kv) * acc)%nat) 1%nat (ps_matrix s) /\
    forall kv, In kv (ps_matrix s) -> snd kv <> [] /\ NoDup (snd kv).
Proof. exact valid_matrix_product. Qed.
Print Assumptions c14_admission_matrix.

(** Non-vacuity, and the odometer on a concrete 2x3 matrix equals the product *)
Open Scope string_scope.
Definition ex_m := [("os", ["linux"; "mac"]); ("py", ["3.8"; "3.9"; "3.10"])].
Example c14_nonvacuous :
  valid_pspec (mkPSpec None [] ex_m) = true /\
  gen_matrix ex_m = Some (product ex_m) /\ List.length (product ex_m) = 6%nat.
Proof. repeat split; vm_compute; reflexivity. Qed.
