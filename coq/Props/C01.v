(** C01 — cron fires every due time exactly once, in order, never early or
    off-schedule; the missed-schedule cap.  Statements only.

    Setting: a population [L] of JobConfigs (the lister) whose schedules do not change;
    each cron expression is the oracle list of the Unix seconds it matches, strictly
    increasing ([lister_ok]); [fires jc t] = "t matches one of jc's expressions and
    lies inside notBefore/notAfter, and the schedule is enabled"; [fires_of jc] is the
    ascending list of exactly those t.  [tick_run L maxc h nows] are the requests of
    successive CronWorker.Work() calls at clock readings [nows], starting from heap [h];
    [reqs_of k] projects the requests of JobConfig [k]. *)
From Furiko Require Import Cron.Sched Proofs.OracleP Proofs.HeapP Proofs.WorkerP Proofs.CronP.
From Coq Require Import Sorting.Sorted.

(** furiko's glue around the oracle: getNext is the least enabled, in-window match of
    ANY of the expressions strictly after [from] (multi-expression, notBefore, notAfter). *)
Theorem c01_get_next_least :
  forall jc from, jc_sorted jc -> least_after (fires jc) from (get_next jc from).
Proof. exact get_next_spec. Qed.
Print Assumptions c01_get_next_least.

Theorem c01_fires_of_exact : forall jc t, In t (fires_of jc) <-> fires jc t.
Proof. exact fires_of_in. Qed.
Print Assumptions c01_fires_of_exact.

(** Population independence: whatever else shares the heap, the requests of JobConfig k
    over a whole tick history are those of the one-key specification [key_run]; and the
    pop loop terminates within its fuel (oof = false is part of [work_tick]). *)
Theorem c01_population :
  forall L maxc nows h k jc,
    lister_ok L -> heap_ok L h -> lookup k L = Some jc ->
    map (reqs_of k) (tick_run L maxc h nows) = key_run (fires_of jc) maxc (h_find k h) nows.
Proof. exact tick_run_key. Qed.
Print Assumptions c01_population.

Theorem c01_tick_terminates_and_spec :
  forall L maxc now h st' reqs oof,
    lister_ok L -> heap_ok L h ->
    work L maxc now (mkW h []) = (st', reqs, oof) ->
    oof = false /\ w_chan st' = [] /\ heap_ok L (w_heap st') /\
    forall k, key_result L maxc now h (w_heap st') [] reqs k.
Proof. exact work_tick. Qed.
Print Assumptions c01_tick_terminates_and_spec.

(** (1)+(2) every request is a fire time of the JobConfig (matches, inside the window),
    and is emitted by a tick whose clock has reached it: never early. *)
Theorem c01_sound_never_early :
  forall W maxc nows p i reqs t,
    nth_error (key_run W maxc p nows) i = Some reqs -> In t reqs ->
    exists now, nth_error nows i = Some now /\ In t W /\ ns t <= now.
Proof. exact key_run_sound. Qed.
Print Assumptions c01_sound_never_early.

(** (3) exactly once, in increasing order: over the whole history the requests of one
    JobConfig are strictly increasing (hence duplicate-free). *)
Theorem c01_once_ordered :
  forall W, ssorted W -> forall maxc nows p,
    prio_ok W p -> StronglySorted Z.le nows ->
    StronglySorted Z.lt (concat (key_run W maxc p nows)).
Proof. exact key_run_increasing. Qed.
Print Assumptions c01_once_ordered.

(** (4) completeness and the cap: in a tick at [now], every fire time from the entry's
    priority on that is due is requested — unless the cap was reached, in which case
    exactly [maxc] earlier ones were requested; never more than [maxc]; and a due entry
    resumes at the first fire time strictly after [now]. *)
Theorem c01_complete_or_capped :
  forall W, ssorted W -> forall maxc now p0 t,
    In t W -> p0 <= t -> ns t <= now ->
    In t (tick_reqs W maxc now (Some p0)) \/
    (length (tick_reqs W maxc now (Some p0)) = Z.to_nat maxc /\
     forall r, In r (tick_reqs W maxc now (Some p0)) -> r < t).
Proof. exact tick_reqs_complete. Qed.
Print Assumptions c01_complete_or_capped.

Theorem c01_never_more_than_cap :
  forall W maxc now p, (length (tick_reqs W maxc now p) <= Z.to_nat maxc)%nat.
Proof. exact tick_reqs_length. Qed.
Print Assumptions c01_never_more_than_cap.

Theorem c01_resumes_from_present :
  forall W, ssorted W -> forall now p0,
    ns p0 <= now -> least_after (fun t => In t W) now (tick_next W now (Some p0)).
Proof. exact tick_next_due. Qed.
Print Assumptions c01_resumes_from_present.

(** Non-vacuity: a concrete two-JobConfig population satisfies the hypotheses, and the
    theorems' objects compute to the expected requests (3 due, cap 2). *)
Definition ex_jc1 := mkJC 1 true [[60; 120; 180; 240]; [90]] None (Some (ns 200)) None None.
Definition ex_jc2 := mkJC 2 true [[100; 200]] None None None None.
Example c01_nonvacuous :
  lister_ok [ex_jc1; ex_jc2] /\
  heap_ok [ex_jc1; ex_jc2] (new_heap (ns 300) (ns 50) [ex_jc1; ex_jc2]) /\
  tick_run [ex_jc1; ex_jc2] 2 (new_heap (ns 300) (ns 50) [ex_jc1; ex_jc2]) [ns 130; ns 131; ns 500]
  = [[(1, 60); (1, 90); (2, 100)]; []; [(1, 180); (2, 200)]].
Proof.
  assert (HL : lister_ok [ex_jc1; ex_jc2]).
  { apply lister_ok_forall. repeat constructor. }
  split; [exact HL|split].
  - apply new_heap_ok; [|exact HL].
    simpl. repeat constructor; simpl; intuition discriminate.
  - vm_compute. reflexivity.
Qed.

(** * the array heap under the schedule (pkg/utils/heap)
    The theorems above speak about the schedule as a key -> priority map with "pop an entry of
    least priority".  The implementation is an array heap with a name index, driven by the
    sift loops of container/heap.  Its model (Cron/ArrayHeap.v, compared slot by slot with the
    real heap by the heap stream) refines that map: *)
From Furiko Require Cron.ArrayHeap Proofs.ArrayHeapP Proofs.HeapRefineP.

(** New(items) over distinct names is a well-formed, ordered heap holding exactly the items *)
Theorem c01_array_heap_new :
  forall items, NoDup (ArrayHeapP.keys items) ->
    ArrayHeapP.Good (ArrayHeap.h_new items) /\ HeapRefineP.Refines (ArrayHeap.h_new items) items.
Proof. exact HeapRefineP.refines_new. Qed.
Print Assumptions c01_array_heap_new.

(** Push of an absent name / Update of a present one are h_upsert; Delete is h_delete *)
Theorem c01_array_heap_push :
  forall h a k p, ArrayHeapP.Good h -> HeapRefineP.Refines h a -> ArrayHeap.h_search h k = None ->
    ArrayHeapP.Good (ArrayHeap.h_push h k p) /\ HeapRefineP.Refines (ArrayHeap.h_push h k p) (h_upsert k p a).
Proof. exact HeapRefineP.refines_push. Qed.
Print Assumptions c01_array_heap_push.

Theorem c01_array_heap_update :
  forall h a k p p0, ArrayHeapP.Good h -> HeapRefineP.Refines h a -> ArrayHeap.h_search h k = Some p0 ->
    ArrayHeapP.Good (fst (ArrayHeap.h_update h k p)) /\ HeapRefineP.Refines (fst (ArrayHeap.h_update h k p)) (h_upsert k p a).
Proof. exact HeapRefineP.refines_update. Qed.
Print Assumptions c01_array_heap_update.

Theorem c01_array_heap_delete :
  forall h a k, ArrayHeapP.Good h -> HeapRefineP.Refines h a ->
    ArrayHeapP.Good (fst (ArrayHeap.h_delete h k)) /\ HeapRefineP.Refines (fst (ArrayHeap.h_delete h k)) (h_delete k a).
Proof. exact HeapRefineP.refines_delete. Qed.
Print Assumptions c01_array_heap_delete.

(** Peek / Pop give an entry of the map with the least priority of all, and leave the map
    without that key *)
Theorem c01_array_heap_pop_min :
  forall h a, ArrayHeapP.Good h -> HeapRefineP.Refines h a -> ArrayHeap.queue h <> [] ->
    let x := snd (ArrayHeap.h_pop h) in
    ArrayHeap.h_peek h = Some x /\ h_find (ArrayHeap.ikey x) a = Some (ArrayHeap.iprio x) /\
    (forall k' p', h_find k' a = Some p' -> ArrayHeap.iprio x <= p') /\
    ArrayHeapP.Good (fst (ArrayHeap.h_pop h)) /\
    HeapRefineP.Refines (fst (ArrayHeap.h_pop h)) (h_delete (ArrayHeap.ikey x) a).
Proof. exact HeapRefineP.refines_pop. Qed.
Print Assumptions c01_array_heap_pop_min.

(** over histories: whatever sequence of Push (absent names) / Pop / Update / Delete runs, the
    heap order holds, the index maps every name to its slot and no name occurs twice *)
Theorem c01_array_heap_histories :
  forall ops h, ArrayHeapP.Good h -> ArrayHeapP.hrun_ok h ops -> ArrayHeapP.Good (fold_left ArrayHeap.hstep ops h).
Proof. exact ArrayHeapP.hrun_good. Qed.
Print Assumptions c01_array_heap_histories.

Example c01_array_heap_nonvacuous :
  let items := [(1, 60); (2, 100); (3, 40); (4, 100); (5, 7)] in
  let ops := [ArrayHeap.HPush 6 3; ArrayHeap.HPop; ArrayHeap.HUpdate 2 1; ArrayHeap.HDelete 4; ArrayHeap.HPush 7 50; ArrayHeap.HPop] in
  NoDup (ArrayHeapP.keys items) /\ ArrayHeapP.hrun_ok (ArrayHeap.h_new items) ops /\
  ArrayHeap.h_peek (fold_left ArrayHeap.hstep ops (ArrayHeap.h_new items)) = Some (5, 7).
Proof.
  cbv zeta. split; [|split].
  - unfold ArrayHeapP.keys. simpl. repeat constructor; simpl; intuition discriminate.
  - vm_compute. repeat split; reflexivity.
  - vm_compute. reflexivity.
Qed.
