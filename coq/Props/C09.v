(** C09 — tasks are never forgotten, duplicated or wrongly adopted across crashes/faults. *)
From Furiko Require Import Job.Core Job.Sync Proofs.JobP Proofs.SyncP.

(** One creation attempt issues exactly one create for the request's deterministic name;
    an object already on that name is added to the Job's tasks only if this Job controls it
    (adoption after a crash or a failed status write: the next pass requests the same
    (index, retry) again because the stored status does not list it, gets AlreadyExists,
    and adopts); a foreign object is never adopted and marks the Job with the admission
    error (after the fix b0006c3). *)
Theorem c09_adopt_or_refuse :
  forall s j tasks h r s' j' tasks' res,
    sync_create_task s j tasks h r = (s', j', tasks', res) ->
    exists o, added s s' [ACreate (job_task_name h r) o] /\
      (forall p, In p tasks' -> In p tasks \/ (p_name p = job_task_name h r /\ p_controlled p = true)) /\
      (o = 1 -> forall p, find_pod (job_task_name h r) (cache_pods (ps_w s)) = Some p ->
         p_controlled p = false -> tasks' = tasks /\ j_adm_err j' = true).
Proof. exact create_task_spec. Qed.
Print Assumptions c09_adopt_or_refuse.

(** Same attempt, same name: the request of a pass that runs on a status that does not
    yet list the created task is for the same retry number (it is a function of the stored
    refs only). *)
Theorem c09_same_request_until_recorded :
  forall j rq, In rq (compute_missing j) -> rq_retry rq = next_retry (rq_hash rq) (j_tasks j).
Proof. intros j rq H. now destruct (compute_missing_sound j rq H) as (_ & _ & E & _). Qed.
Print Assumptions c09_same_request_until_recorded.

(** every task ever recorded stays listed, with its last known state after the Pod is gone *)
Theorem c09_listed_forever :
  forall now existing pods e,
    In e existing -> exists r, In r (generate_task_refs now existing pods) /\ tr_name r = tr_name e.
Proof. exact listed_forever. Qed.
Print Assumptions c09_listed_forever.

Theorem c09_tombstone_is_last_known_state :
  forall now e,
    tr_status (vanished_ref now e) =
    match tr_deleted e with
    | Some d => d
    | None => mkSt TDeletedUnknown (st_result (tr_status e)) (st_reason (tr_status e))
    end.
Proof. reflexivity. Qed.
Print Assumptions c09_tombstone_is_last_known_state.

(** a task is recorded as lost (DeletedFinalStateUnknown) only when no Pod of that name is
    among the Pods the pass observed.  The pass observes its Pod CACHE: with a cache that
    lags behind the Job cache the Pod may still exist (finding F4, c09_not_lost_refuted in
    the job stream's corpus). *)
Theorem c09_lost_only_if_unobserved :
  forall now existing pods r,
    In r (generate_task_refs now existing pods) ->
    st_state (tr_status r) = TDeletedUnknown ->
    (forall e, In e existing -> st_state (tr_status e) <> TDeletedUnknown) ->
    (forall e d, In e existing -> tr_deleted e = Some d -> st_state d <> TDeletedUnknown) ->
    has_pod (tr_name r) pods = false.
Proof. exact lost_only_if_absent. Qed.
Print Assumptions c09_lost_only_if_unobserved.

(** REFUTED for the API truth (finding F4): the Pod exists in the API, the Job cache
    already lists the task, the Pod cache has not seen the Pod yet: the pass records the
    task as lost. *)
Open Scope string_scope.
Definition f4_ref := mkRef "j-gezdqo-0" "gezdqo" 0 100 None None (mkSt TStarting RNone ReNone) None.
Theorem c09_not_lost_refuted :
  exists now existing (cache_pods api_pods : list pod),
    has_pod "j-gezdqo-0" api_pods = true /\
    map (fun r => st_state (tr_status r)) (generate_task_refs now existing cache_pods) = [TDeletedUnknown].
Proof.
  exists 100, [f4_ref], [], [new_pod "gezdqo" 0 100]. split; vm_compute; reflexivity.
Qed.
Print Assumptions c09_not_lost_refuted.
