(** C09 — tasks are never forgotten, duplicated or wrongly adopted across crashes/faults. *)
From Furiko Require Import Job.Core Job.Sync Job.World Proofs.JobP Proofs.SyncP Proofs.HistoryP.
From Furiko Require Proofs.UniqueP.

(** One creation attempt issues exactly one create for the request's deterministic name;
    an object already on that name is added to the Job's tasks only if this Job controls it
    (adoption after a crash or a failed status write: the next pass requests the same
    (index, retry) again because the stored status does not list it, gets AlreadyExists,
    and adopts); a foreign object is never adopted and marks the Job with the admission
    error (after the fix b0006c3). *)
Theorem c09_adopt_or_refuse :
  forall s j tasks h r s' j' tasks' res,
    sync_create_task s j tasks h r = (s', j', tasks', res) ->
    exists o, added s s' [ACreate (job_task_name h r) o] /\
      (forall p, In p tasks' -> In p tasks \/ (p_name p = job_task_name h r /\ p_controlled p = true)) /\
      (o = 1 -> forall p, find_pod (job_task_name h r) (cache_pods (ps_w s)) = Some p ->
         p_controlled p = false -> tasks' = tasks /\ j_adm_err j' = true).
Proof. exact create_task_spec. Qed.
Print Assumptions c09_adopt_or_refuse.

(** Same attempt, same name: the request of a pass that runs on a status that does not
    yet list the created task is for the same retry number (it is a function of the stored
    refs only). *)
Theorem c09_same_request_until_recorded :
  forall j rq, In rq (compute_missing j) -> rq_retry rq = next_retry (rq_hash rq) (j_tasks j).
Proof. intros j rq H. now destruct (compute_missing_sound j rq H) as (_ & _ & E & _). Qed.
Print Assumptions c09_same_request_until_recorded.

(** every task ever recorded stays listed, with its last known state after the Pod is gone *)
Theorem c09_listed_forever :
  forall now existing pods e,
    In e existing -> exists r, In r (generate_task_refs now existing pods) /\ tr_name r = tr_name e.
Proof. exact listed_forever. Qed.
Print Assumptions c09_listed_forever.

Theorem c09_tombstone_is_last_known_state :
  forall now e,
    tr_status (vanished_ref now e) =
    match tr_deleted e with
    | Some d => d
    | None => mkSt TDeletedUnknown (st_result (tr_status e)) (st_reason (tr_status e))
    end.
Proof. reflexivity. Qed.
Print Assumptions c09_tombstone_is_last_known_state.

(** a task is recorded as lost (DeletedFinalStateUnknown) only when no Pod of that name is
    among the Pods the pass observed.  The pass observes its Pod CACHE: with a cache that
    lags behind the Job cache the Pod may still exist (finding F4, c09_not_lost_refuted in
    the job stream's corpus). *)
Theorem c09_lost_only_if_unobserved :
  forall now existing pods r,
    In r (generate_task_refs now existing pods) ->
    st_state (tr_status r) = TDeletedUnknown ->
    (forall e, In e existing -> st_state (tr_status e) <> TDeletedUnknown) ->
    (forall e d, In e existing -> tr_deleted e = Some d -> st_state d <> TDeletedUnknown) ->
    has_pod (tr_name r) pods = false.
Proof. exact lost_only_if_absent. Qed.
Print Assumptions c09_lost_only_if_unobserved.

(** REFUTED for the API truth (finding F4): the Pod exists in the API, the Job cache
    already lists the task, the Pod cache has not seen the Pod yet: the pass records the
    task as lost. *)
Open Scope string_scope.
Definition f4_ref := mkRef "j-gezdqo-0" "gezdqo" 0 100 None None (mkSt TStarting RNone ReNone) None.
Theorem c09_not_lost_refuted :
  exists now existing (cache_pods api_pods : list pod),
    has_pod "j-gezdqo-0" api_pods = true /\
    map (fun r => st_state (tr_status r)) (generate_task_refs now existing cache_pods) = [TDeletedUnknown].
Proof.
  exists 100, [f4_ref], [], [new_pod "gezdqo" 0 100]. split; vm_compute; reflexivity.
Qed.
Print Assumptions c09_not_lost_refuted.


(** never forgotten, over histories.  For every history of the one-Job world - reconcile
    passes against caches that lag behind or have lost events, kubelet transitions, foreign
    Pods, start / kill / delete by other actors, injected failures and conflicts of every
    write: a task that is recorded in the Job's status in the API at some moment is recorded
    at every later moment at which the Job still exists, and a Job that is gone stays gone.
    (Every status the controller computes keeps the names it started from, and the API only
    accepts a status computed from the current resourceVersion.) *)
Theorem c09_recorded_forever :
  forall cfg j0 now ops1 ops2,
    let w1 := jrun_world cfg (init_jworld j0 now) ops1 in
    let w2 := jrun_world cfg w1 ops2 in
    (forall a1 a2, api_job w1 = Some a1 -> api_job w2 = Some a2 ->
       forall n, In n (map tr_name (j_tasks a1)) -> In n (map tr_name (j_tasks a2))) /\
    (api_job w1 = None -> api_job w2 = None).
Proof. exact recorded_forever. Qed.
Print Assumptions c09_recorded_forever.

Definition ex_hist_job : job :=
  mkJob ["aaaaaa"] false AllSuccessful 2 0 false false None false None None false true None (Some 10)
        [] 0 0 None (CWaiting WPendingCreation) PhStarting SWaiting.
Definition ex_hist_ops1 : list jop := [JSync; JAdvanceJob 5; JAdvancePods 5].
Definition ex_hist_ops2 : list jop :=
  [JKubelet "j-aaaaaa-0" KFail; JAdvancePods 5; JFault FUpdateStatus; JSync; JSync; JAdvanceJob 5; JAdvancePods 5; JSync].
Example c09_history_nonvacuous :
  let cfg := mkCfg (Some 900) (Some 900) (Some 3600) in
  let w1 := jrun_world cfg (init_jworld ex_hist_job 100) ex_hist_ops1 in
  let w2 := jrun_world cfg w1 ex_hist_ops2 in
  option_map (fun a => map tr_name (j_tasks a)) (api_job w1) = Some ["j-aaaaaa-0"] /\
  option_map (fun a => map tr_name (j_tasks a)) (api_job w2) = Some ["j-aaaaaa-0"; "j-aaaaaa-1"].
Proof. vm_compute. split; reflexivity. Qed.


(** never duplicated, over histories.  For every history of the one-Job world (as above) that
    starts from a Job with distinct index hashes and a well-formed status, and whose foreign
    Pods carry non-negative retry numbers: every version of the Job in the API lists each
    task name at most once, and every listed task carries the name made of its own index hash
    and retry number.  (Invariants: the same for the cached Job and the events on their way;
    every Pod in the API, the cache and the pending events is named after its hash and retry;
    the requests of a pass have fresh, pairwise distinct names.) *)
Theorem c09_never_listed_twice :
  forall cfg j0 now ops a,
    NoDup (j_indexes j0) -> UniqueP.JWF j0 -> Forall UniqueP.jop_ok ops ->
    api_job (jrun_world cfg (init_jworld j0 now) ops) = Some a ->
    NoDup (map tr_name (j_tasks a)) /\
    Forall (fun r => tr_name r = job_task_name (tr_hash r) (tr_retry r) /\ 0 <= tr_retry r) (j_tasks a).
Proof. exact UniqueP.never_listed_twice. Qed.
Print Assumptions c09_never_listed_twice.

Example c09_unique_nonvacuous :
  NoDup (j_indexes ex_hist_job) /\ UniqueP.JWF ex_hist_job /\ Forall UniqueP.jop_ok (ex_hist_ops1 ++ ex_hist_ops2).
Proof.
  split; [repeat constructor; intros []|]. split; [split; constructor|]. repeat constructor.
Qed.


(** REFUTED on the faithful model (finding F16): "a Pod the Job does not control is never
    treated as its task" is false over histories.  The own Pod of attempt 0 vanishes and is
    recorded lost; attempt 1 is created; then a Pod that is NOT controlled by the Job appears
    under the name of attempt 0: the next pass binds the recorded task to it by name alone and
    reports the foreign Pod's state (running since 110) as the task's - the status now shows
    two live tasks for one index.  The same history is the corpus case
    F16-foreign-pod-bound-by-name of the job stream. *)
Theorem c09_foreign_pod_never_a_task_refuted :
  exists cfg j0 now ops,
    let w := jrun_world cfg (init_jworld j0 now) ops in
    option_map (fun a => map (fun r => (tr_name r, st_state (tr_status r), tr_running r)) (j_tasks a)) (api_job w)
      = Some [("j-aaaaaa-0", TRunning, Some 110); ("j-aaaaaa-1", TStarting, None)] /\
    map (fun p => (p_name p, p_controlled p)) (api_pods w) = [("j-aaaaaa-0", false); ("j-aaaaaa-1", true)].
Proof.
  exists (mkCfg (Some 900) (Some 900) (Some 3600)),
    (mkJob ["aaaaaa"] false AllSuccessful 2 0 false false None false None None false true None (Some 10)
           [] 0 0 None (CWaiting WPendingCreation) PhStarting SWaiting), 100,
    [JSync; JAdvanceJob 9; JAdvancePods 9; JKubelet "j-aaaaaa-0" KVanish; JAdvanceJob 9; JAdvancePods 9; JSync; JClock 110;
     JForeign "aaaaaa" 0; JAdvanceJob 9; JAdvancePods 9; JSync; JAdvanceJob 9; JAdvancePods 9;
     JKubelet "j-aaaaaa-0" KSchedule; JKubelet "j-aaaaaa-0" KRun; JAdvancePods 9; JSync].
  vm_compute. split; reflexivity.
Qed.
Print Assumptions c09_foreign_pod_never_a_task_refuted.
