(** C04 — after a restart, missed schedules are caught up exactly within set bounds. *)
From Furiko Require Import Cron.Sched Proofs.OracleP Proofs.HeapP Proofs.WorkerP Proofs.CronP.
From Coq Require Import Lia.

(** The reference time of getInitialTimeForScheduling is the latest of: lastScheduled
    (itself not older than now - maxDowntime), lastUpdated, notBefore - 1ns; "now" when
    the JobConfig was never scheduled.  All presence patterns, all orderings. *)
Theorem c04_reference :
  forall jc thr now, get_initial jc thr now = ref_spec jc thr now.
Proof. exact get_initial_eq. Qed.
Print Assumptions c04_reference.

(** The first tick after a start at [now0] requests, for every JobConfig, precisely the
    first [maxc] fire times in (reference, now1]; and the loop terminates. *)
Theorem c04_first_tick :
  forall L thr now0 maxc now1 st' reqs oof k jc,
    NoDup (map jc_key L) -> lister_ok L ->
    work L maxc now1 (mkW (new_heap thr now0 L) []) = (st', reqs, oof) ->
    lookup k L = Some jc ->
    oof = false /\
    reqs_of k reqs =
      firstn (Z.to_nat maxc)
        (filter (fun t => (ref_spec jc thr now0 <? ns t) && (ns t <=? now1)) (fires_of jc)).
Proof. exact first_tick_after_start. Qed.
Print Assumptions c04_first_tick.

(** A schedule time at or before lastScheduled is never requested again; a JobConfig
    that was never scheduled is not back-scheduled at all (nothing at or before the start
    instant). *)
Lemma ref_ge_ls jc thr now ls : jc_ls jc = Some ls -> ls <= ref_spec jc thr now.
Proof. unfold ref_spec. intros ->. destruct (jc_lu jc), (jc_nbf jc); lia. Qed.
Lemma ref_ge_now jc thr now : jc_ls jc = None -> now <= ref_spec jc thr now.
Proof. unfold ref_spec. intros ->. destruct (jc_lu jc), (jc_nbf jc); lia. Qed.

Theorem c04_no_repeat :
  forall L thr now0 maxc now1 st' reqs oof k jc ls t,
    NoDup (map jc_key L) -> lister_ok L ->
    work L maxc now1 (mkW (new_heap thr now0 L) []) = (st', reqs, oof) ->
    lookup k L = Some jc -> jc_ls jc = Some ls ->
    In t (reqs_of k reqs) -> ls < ns t.
Proof.
  intros L thr now0 maxc now1 st' reqs oof k jc ls t Hn HL Hw Hl Hls Hin.
  destruct (first_tick_after_start _ _ _ _ _ _ _ _ _ _ Hn HL Hw Hl) as [_ Hr].
  rewrite Hr in Hin. apply firstn_in in Hin. apply filter_In in Hin as [_ Hc].
  apply andb_prop in Hc as [Hc _]. apply Z.ltb_lt in Hc.
  pose proof (ref_ge_ls jc thr now0 ls Hls). lia.
Qed.
Print Assumptions c04_no_repeat.

Theorem c04_never_scheduled_not_backscheduled :
  forall L thr now0 maxc now1 st' reqs oof k jc t,
    NoDup (map jc_key L) -> lister_ok L ->
    work L maxc now1 (mkW (new_heap thr now0 L) []) = (st', reqs, oof) ->
    lookup k L = Some jc -> jc_ls jc = None ->
    In t (reqs_of k reqs) -> now0 < ns t.
Proof.
  intros L thr now0 maxc now1 st' reqs oof k jc t Hn HL Hw Hl Hls Hin.
  destruct (first_tick_after_start _ _ _ _ _ _ _ _ _ _ Hn HL Hw Hl) as [_ Hr].
  rewrite Hr in Hin. apply firstn_in in Hin. apply filter_In in Hin as [_ Hc].
  apply andb_prop in Hc as [Hc _]. apply Z.ltb_lt in Hc.
  pose proof (ref_ge_now jc thr now0 Hls). lia.
Qed.
Print Assumptions c04_never_scheduled_not_backscheduled.

(** the effective threshold: the config value when positive, else 300 s *)
Theorem c04_threshold_default : forall v, v <= 0 -> eff_threshold v = ns 300.
Proof. intros v H. unfold eff_threshold. destruct (Z.ltb_spec 0 v); [lia|reflexivity]. Qed.
Print Assumptions c04_threshold_default.

(** Non-vacuity: down for 10 min with threshold 5 min: catches up from now-5min, cap 3. *)
Definition ex_jc := mkJC 7 true [[0; 60; 120; 180; 240; 300; 360; 420; 480; 540; 600; 660]]
                        None None (Some (ns 30)) None.
Example c04_nonvacuous :
  ref_spec ex_jc (ns 300) (ns 630) = ns 330 /\
  (let '(_, reqs, oof) := work [ex_jc] 3 (ns 631) (mkW (new_heap (ns 300) (ns 630) [ex_jc]) []) in
   (reqs, oof)) = ([(7, 360); (7, 420); (7, 480)], false).
Proof. split; vm_compute; reflexivity. Qed.
