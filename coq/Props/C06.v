(** C06 — Forbid rejects, Enqueue waits FIFO, Allow always starts; no Job stays stuck. *)
From Furiko Require Import Queue.World Proofs.QueueP Proofs.QueueInvP Proofs.QueueEqP.
Open Scope list_scope.

Theorem c06_reject_only_forbid_at_limit :
  forall now maxc active j, can_start now maxc active j = DReject -> q_policy j = PForbid /\ maxc < active + 1.
Proof. exact can_start_reject. Qed.
Print Assumptions c06_reject_only_forbid_at_limit.

Theorem c06_enqueue_never_refused :
  forall now maxc active j, q_policy j = PEnqueue -> can_start now maxc active j <> DReject.
Proof. exact can_start_enqueue_never_rejected. Qed.
Print Assumptions c06_enqueue_never_refused.

Theorem c06_at_limit :
  forall now maxc active j, maxc < active + 1 ->
    match q_start_after j with Some a => a <= now | None => True end ->
    (q_policy j = PForbid -> can_start now maxc active j = DReject) /\
    (q_policy j = PEnqueue -> can_start now maxc active j = DSkip).
Proof. exact can_start_at_limit. Qed.
Print Assumptions c06_at_limit.

Theorem c06_allow_starts_regardless :
  forall now maxc active j, q_policy j = PAllow \/ q_policy j = PNone ->
    can_start now maxc active j = DStart \/ can_start now maxc active j = DWait.
Proof. exact can_start_allow_always. Qed.
Print Assumptions c06_allow_starts_regardless.

(** FIFO inside a pass: the queued Jobs are visited in creation order, the count only grows
    along the pass, and an Enqueue/Forbid Job that does not fit at some count does not fit
    at any larger one - so a later Enqueue Job is never started by a pass that skipped an
    earlier due one. (Across passes the order follows from the same argument as long as no
    Allow Job started in between lowers the re-read count - finding F6 in DESIGN.md is about
    that; it was not observed by the stream.) *)
Theorem c06_fifo_monotone :
  forall now maxc a a' j, maxc < a + 1 -> a <= a' -> q_policy j = PForbid \/ q_policy j = PEnqueue ->
    can_start now maxc a' j <> DStart.
Proof. exact can_start_monotone. Qed.
Print Assumptions c06_fifo_monotone.

Example c06_nonvacuous :
  can_start 100 1 1 (mkQJ 1 true 10 PForbid None None false false 0) = DReject /\
  can_start 100 1 1 (mkQJ 2 true 11 PEnqueue None None false false 0) = DSkip /\
  can_start 100 1 1 (mkQJ 3 true 12 PAllow None None false false 0) = DStart.
Proof. repeat split. Qed.

(** no Job stays stuck.  In a history whose events have all reached the cache and the store,
    a pass of the per-JobConfig reconciler that finds nothing to do (no write, no error) leaves
    only Jobs that are really blocked: Enqueue Jobs while the API itself holds maxConcurrency
    owned active Jobs (judged on the true count, not on the counter), or Jobs whose
    startAfter lies in the future (for which the pass arms a re-sync, C07).  A Forbid Job is
    never left: it is started or refused. *)
Theorem c06_idle_pass_means_blocked :
  forall now m ops w' armed,
    run_ok2 (init_qworld now m) ops ->
    let w := qrun_world (init_qworld now m) ops in
    qc_pending w = [] -> qs_pending w = [] ->
    sync_q w = (w', [], true, armed) ->
    forall j, In j (queued_jobs w) ->
      can_start (q_clock w) (max_conc w) (acount (qa_jobs w)) j = DSkip \/
      can_start (q_clock w) (max_conc w) (acount (qa_jobs w)) j = DWait.
Proof. exact idle_pass_means_blocked. Qed.
Print Assumptions c06_idle_pass_means_blocked.


Definition ex_ops6 :=
  [QCreate (mkQJ 1 true 10 PEnqueue None None false false 0); QCreate (mkQJ 2 true 11 PEnqueue None None false false 0);
   QAdvCache 10; QDeliverStore 10; QSync; QAdvCache 10; QDeliverStore 10].
Example c06_idle_nonvacuous :
  let w := qrun_world (init_qworld 100 (Some 1)) ex_ops6 in
  run_ok2 (init_qworld 100 (Some 1)) ex_ops6 /\ qc_pending w = [] /\ qs_pending w = [] /\
  snd (fst (fst (sync_q w))) = [] /\ snd (fst (sync_q w)) = true /\
  map q_id (queued_jobs w) = [2%Z] /\ acount (qa_jobs w) = 1%Z.
Proof. vm_compute. repeat split; auto. Qed.
