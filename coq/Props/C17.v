(** C17 — whatever admission accepts the controllers can process; immutable fields stay so. *)
From Furiko Require Import Admission.Validate Proofs.ValidateP.
Open Scope list_scope.
Open Scope Z_scope.

(** An accepted JobConfig can be loaded by the cron scheduler under its own key: validation
    parses every cron expression with that key as hash id (and with the empty id).  The one
    hypothesis left is about the operator's configuration (the default time zone parses).
    Before the repair of finding F18 validation tried the empty hash id only and this theorem
    needed "parsability does not depend on the hash id", which is false of the real parser
    (cronexpr accepts "H(0-0)/2 * * * *" under some ids and rejects it under others):
    [c17_f18_witness] keeps the counterexample. *)
Theorem c17_accepted_loadable :
  forall o hash jc,
    nonempty_s hash = true ->
    or_tz o (or_default_tz o) = true ->
    valid_jc o hash jc = true -> loadable o hash (ac_sched jc) = true.
Proof. exact jc_accepted_loadable. Qed.
Print Assumptions c17_accepted_loadable.

Theorem c17_f18_witness :
  or_parse f18_oracle "" "H(0-0)/2 * * * *" = true /\
  loadable f18_oracle "ns/jc" (Some (mkAS (Some ("H(0-0)/2 * * * *", [], "")) false)) = false /\
  valid_sched f18_oracle "ns/jc" (Some (mkAS (Some ("H(0-0)/2 * * * *", [], "")) false)) = false.
Proof. exact f18_witness. Qed.
Print Assumptions c17_f18_witness.

(** ... and instantiated: the defaults of accepted options always render *)
Theorem c17_accepted_instantiable :
  forall o hash jc, valid_jc o hash jc = true -> exists m, default_subs (map fst (ac_opts jc)) = Some m.
Proof. exact jc_accepted_instantiable. Qed.
Print Assumptions c17_accepted_instantiable.

(** what acceptance means, part by part *)
Theorem c17_accepted_parts :
  forall o hash jc, valid_jc o hash jc = true ->
    (String.length (ac_name jc) <= 49)%nat /\ valid_tmpl (ac_tmpl jc) = true /\
    valid_conc (ac_policy jc) (ac_maxc jc) = true /\ valid_sched o hash (ac_sched jc) = true /\
    valid_options (ac_opts jc) = true.
Proof. exact valid_jc_parts. Qed.
Print Assumptions c17_accepted_parts.

(** update: an accepted update changes none of the immutable fields; the start policy is
    frozen once the Job has started, the kill timestamp once it has passed *)
Theorem c17_update_immutable :
  forall now o n, update_ok now o n = true ->
    jv_label_uid n = jv_label_uid o /\ jv_config_name n = jv_config_name o /\ jv_type n = jv_type o /\
    jv_option_values n = jv_option_values o /\ jv_subs n = jv_subs o /\
    jv_task_template n = jv_task_template o /\ jv_parallelism n = jv_parallelism o /\
    jv_max_attempts n = jv_max_attempts o /\ jv_retry_delay n = jv_retry_delay o /\
    (jv_started n = true -> jv_start_policy n = jv_start_policy o) /\
    (forall k, jv_kill o = Some k -> k < now -> jv_kill n = Some k).
Proof. exact update_immutable. Qed.
Print Assumptions c17_update_immutable.

Theorem c17_update_accepts_unchanged :
  forall now o n,
    jv_label_uid n = jv_label_uid o -> jv_config_name n = jv_config_name o -> jv_type n = jv_type o ->
    jv_option_values n = jv_option_values o -> jv_subs n = jv_subs o ->
    jv_task_template n = jv_task_template o -> jv_parallelism n = jv_parallelism o ->
    jv_max_attempts n = jv_max_attempts o -> jv_retry_delay n = jv_retry_delay o ->
    jv_start_policy n = jv_start_policy o -> jv_kill n = jv_kill o ->
    update_ok now o n = true.
Proof. exact update_accepts_unchanged. Qed.
Print Assumptions c17_update_accepts_unchanged.

(** Non-vacuity *)
Open Scope string_scope.
Definition ex_or : oracles :=
  mkOr (fun _ e => String.eqb e "H/5 * * * *" || String.eqb e "0 10 * * *") (fun tz => String.eqb tz "UTC" || String.eqb tz "Asia/Singapore") "UTC".
Definition ex_tmpl : jtmpl := mkJT (Some 3) None (Some 900) None (Some ("Never", [("Never", true)])).
Definition ex_jc : ajc :=
  mkAJC "nightly" "Forbid" (Some 1) (Some (mkAS (Some ("", ["H/5 * * * *"; "0 10 * * *"], "Asia/Singapore")) false))
        [(mkOpt "env" true (TSelect "" ["dev"; "prod"] false), false)] ex_tmpl.
Example c17_nonvacuous :
  valid_jc ex_or "ns/nightly" ex_jc = true /\ loadable ex_or "ns/nightly" (ac_sched ex_jc) = true /\
  valid_jc ex_or "ns/nightly" (mkAJC "nightly" "Forbid" (Some 1) (Some (mkAS (Some ("", ["0 10 * * *"; ""], "")) false)) [] ex_tmpl) = false /\
  update_ok 100 (mkJV 0 0 0 0 0 0 0 0 0 1 (Some 50) true) (mkJV 0 0 0 0 0 0 0 0 0 1 (Some 50) true) = true /\
  update_ok 100 (mkJV 0 0 0 0 0 0 0 0 0 1 (Some 50) true) (mkJV 0 0 0 0 0 0 0 0 0 1 (Some 60) true) = false.
Proof. vm_compute. repeat split; reflexivity. Qed.
