(** C05 — Forbid/Enqueue never run more Jobs of a JobConfig at once than maxConcurrency. *)
From Furiko Require Import Queue.World Proofs.QueueP Proofs.QueueInvP Proofs.QueueEqP.

(** THE property over histories.  For every history of Job creation, finish, deletion,
    maxConcurrency edits, clock steps, cache and listener deliveries in any interleaving,
    injected write failures, conflicts, both reconcilers' passes and restarts (the independent
    reconciler being invoked only for Jobs without a JobConfig owner, as the informer routes
    them): whenever a pass starts a Forbid or Enqueue Job, the owned active Jobs in the API
    just before the start number at most maxConcurrency - 1. *)
Theorem c05_start_respects_max :
  forall now m ops w' acts ok armed id,
    run_ok (init_qworld now m) ops ->
    let w := qrun_world (init_qworld now m) ops in
    sync_q w = (w', acts, ok, armed) -> In (QAStart id 0) acts ->
    exists j wm, In j (queued_jobs w) /\ q_id j = id /\ q_clock wm = q_clock w /\ q_max wm = q_max w /\
      (q_policy j = PForbid \/ q_policy j = PEnqueue -> acount (qa_jobs wm) + 1 <= max_conc w).
Proof. exact start_respects_max. Qed.
Print Assumptions c05_start_respects_max.

(** the invariant behind it: in every reachable world the counter is at least the number of
    owned active Jobs in the API (it never under-counts) *)
Theorem c05_counter_dominates :
  forall now m ops, run_ok (init_qworld now m) ops ->
    let w := qrun_world (init_qworld now m) ops in acount (qa_jobs w) <= q_counter w.
Proof. exact counter_dominates. Qed.
Print Assumptions c05_counter_dominates.

(** ... and it does not leak: with exact accounting (counter + pending store effects = owned
    active Jobs in the API, which needs resourceVersions to identify versions and Job names
    to be unique), once the store has seen every event the counter IS the number of owned
    active Jobs in the API *)
Theorem c05_counter_exact_when_delivered :
  forall now m ops, run_ok2 (init_qworld now m) ops ->
    let w := qrun_world (init_qworld now m) ops in
    qc_pending w = [] -> qs_pending w = [] -> q_counter w = acount (qa_jobs w).
Proof. exact counter_exact_when_delivered. Qed.
Print Assumptions c05_counter_exact_when_delivered.

(** Every Forbid/Enqueue Job that a pass starts was admitted at a count a' with
    a' + 1 <= maxConcurrency (default 1), where a' is the active-job counter at that
    moment (the snapshot is compared with the counter before the write: CheckAndAdd), and
    a' is at least the counter value the pass began with. *)
Theorem c05_pass_bound :
  forall w w' acts ok armed id,
    sync_q w = (w', acts, ok, armed) -> In (QAStart id 0) acts ->
    exists j a', In j (queued_jobs w) /\ q_id j = id /\ q_counter w <= a' /\
      (q_policy j = PForbid \/ q_policy j = PEnqueue -> a' + 1 <= max_conc w) /\
      (forall a, q_policy j <> PNone -> q_start_after j = Some a -> a <= q_clock w).
Proof. exact pass_start_bound. Qed.
Print Assumptions c05_pass_bound.

(** The counter over-approximates the Jobs that are really active: it is incremented by the
    pass itself before the start write (and rolled back if the write fails), it is NOT
    incremented again when the store observes that start, and it is decremented exactly
    when the store observes an active Job become inactive or be deleted. *)
Theorem c05_no_double_increment :
  forall ctr o n, is_started o = false -> is_started n = true -> store_event ctr (EUpd o n) = ctr.
Proof. exact store_no_double_increment. Qed.
Print Assumptions c05_no_double_increment.

Theorem c05_release_on_finish :
  forall ctr o n, q_owned o = true -> is_active o = true -> is_active n = false ->
    store_event ctr (EUpd o n) = ctr - 1.
Proof. exact store_release. Qed.
Print Assumptions c05_release_on_finish.

Theorem c05_release_on_delete :
  forall ctr j, q_owned j = true -> is_active j = true -> store_event ctr (EDel j) = ctr - 1.
Proof. exact store_release_delete. Qed.
Print Assumptions c05_release_on_delete.

Theorem c05_store_steps : forall ctr e,
  store_event ctr e = ctr \/ store_event ctr e = ctr - 1 \/ store_event ctr e = ctr + 1.
Proof. exact store_event_cases. Qed.
Print Assumptions c05_store_steps.

(** a failed start write leaves the counter as it was (rollback), and aborts the pass *)
Theorem c05_rollback :
  forall w j r acts armed fl,
    can_start (q_clock w) (max_conc w) (q_counter w) j = DStart ->
    take_qfault QFStart (q_faults w) = Some fl ->
    let '(w', _, ok, _) := sync_loop w (j :: r) (q_counter w) acts armed in
    q_counter w' = q_counter w /\ ok = false.
Proof.
  intros w j r acts armed fl Hd Hf. simpl. rewrite Hd, Z.eqb_refl, Hf. simpl. auto.
Qed.
Print Assumptions c05_rollback.

(** after a restart the counter is the number of active Jobs of the JobConfig in the
    (synced) cache *)
Theorem c05_recover :
  forall w, q_counter (fst (fst (fst (qstep w QRestart)))) =
            Z.of_nat (List.length (filter (fun j => q_owned j && is_active j)
                                          (qc_jobs (adv_cache (List.length (qc_pending w)) w)))).
Proof. reflexivity. Qed.
Print Assumptions c05_recover.

(** Non-vacuity: max 1, one active Job, an Enqueue Job waits; after the active Job is seen
    finished by the store, the next pass starts it. *)
Definition ex_ops :=
  [QCreate (mkQJ 1 true 10 PEnqueue None None false false 0); QCreate (mkQJ 2 true 11 PEnqueue None None false false 0);
   QAdvCache 10; QDeliverStore 10; QSync; QAdvCache 10; QDeliverStore 10; QSync;
   QFinish 1; QAdvCache 10; QDeliverStore 10; QSync].
Example c05_nonvacuous :
  map (fun r => (q_counter (fst (fst (fst r))), snd (fst (fst r)))) (qrun (init_qworld 100 (Some 1)) ex_ops)
  = [(0, []); (0, []); (0, []); (0, []); (1, [QAStart 1 0]); (1, []); (1, []); (1, []);
     (1, []); (1, []); (0, []); (1, [QAStart 2 0])].
Proof. vm_compute. reflexivity. Qed.

Example c05_history_nonvacuous :
  run_ok (init_qworld 100 (Some 1)) ex_ops /\
  acount (qa_jobs (qrun_world (init_qworld 100 (Some 1)) ex_ops)) = 1%Z /\
  q_counter (qrun_world (init_qworld 100 (Some 1)) ex_ops) = 1%Z.
Proof. vm_compute. tauto. Qed.
