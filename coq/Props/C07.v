(** C07 — no Job starts before its startAfter time, and every due Job eventually starts. *)
From Furiko Require Import Queue.World Proofs.QueueP Proofs.QueueInvP Proofs.QueueEqP.
Open Scope list_scope.

(** JobConfig Jobs: the decision is DStart only at a clock >= startAfter; StartJob stamps
    that same clock reading or a later one. *)
Theorem c07_never_before :
  forall now maxc active j a,
    can_start now maxc active j = DStart -> q_policy j <> PNone -> q_start_after j = Some a -> a <= now.
Proof. exact can_start_not_before. Qed.
Print Assumptions c07_never_before.

Theorem c07_pass_never_before :
  forall w w' acts ok armed id,
    sync_q w = (w', acts, ok, armed) -> In (QAStart id 0) acts ->
    exists j a', In j (queued_jobs w) /\ q_id j = id /\ q_counter w <= a' /\
      (q_policy j = PForbid \/ q_policy j = PEnqueue -> a' + 1 <= max_conc w) /\
      (forall a, q_policy j <> PNone -> q_start_after j = Some a -> a <= q_clock w).
Proof. exact pass_start_bound. Qed.
Print Assumptions c07_pass_never_before.

(** independent Jobs *)
Theorem c07_independent_never_before :
  forall w id w' acts ok armed j a,
    sync_indep w id = (w', acts, ok, armed) -> In (QAStart id 0) acts ->
    find_job id (qc_jobs w) = Some j -> q_policy j <> PNone -> q_start_after j = Some a -> a <= q_clock w.
Proof. exact indep_not_before. Qed.
Print Assumptions c07_independent_never_before.

(** a pass that finds a Job not yet due arms a deferred re-sync; a due independent Job is
    started by the very pass that sees it *)
Theorem c07_armed_when_waiting :
  forall w id j a,
    find_job id (qc_jobs w) = Some j -> is_queued j = true -> q_policy j <> PNone ->
    q_start_after j = Some a -> q_clock w < a ->
    sync_indep w id = (w, [], true, true).
Proof.
  intros w id j a Hf Hq Hp Ha Hlt. unfold sync_indep. rewrite Hf, Hq, Ha. simpl.
  replace (q_clock w <? a) with true by (symmetry; now apply Z.ltb_lt).
  destruct (q_policy j); congruence.
Qed.
Print Assumptions c07_armed_when_waiting.

Theorem c07_independent_immediate :
  forall w id j,
    find_job id (qc_jobs w) = Some j -> is_queued j = true ->
    match q_policy j, q_start_after j with PNone, _ => True | _, Some a => a <= q_clock w | _, None => True end ->
    q_faults w = [] ->
    exists w' out, sync_indep w id = (w', [QAStart id out], out =? 0, false).
Proof.
  intros w id j Hf Hq Hd Hfl. unfold sync_indep. rewrite Hf, Hq, Hfl. simpl.
  assert (Hw : match q_policy j, q_start_after j with
               | PNone, _ => false | _, Some a => q_clock w <? a | _, None => false end = false).
  { destruct (q_policy j), (q_start_after j); auto; apply Z.ltb_ge; auto. }
  rewrite Hw. destruct (api_write w j (set_started (q_clock w)) [] (q_counter w)) as [w' out]. eauto.
Qed.
Print Assumptions c07_independent_immediate.

Example c07_nonvacuous :
  can_start 99 1 0 (mkQJ 1 true 10 PEnqueue (Some 100) None false false 0) = DWait /\
  can_start 100 1 0 (mkQJ 1 true 10 PEnqueue (Some 100) None false false 0) = DStart.
Proof. split; reflexivity. Qed.

(** every due Job eventually starts, in the form an executable model can carry: over a fully
    delivered history, after a pass that found nothing to do, a Job whose startAfter has
    passed (or that has none) is still queued only if it is an Enqueue Job and the API itself
    holds maxConcurrency owned active Jobs *)
Theorem c07_due_job_left_only_at_true_limit :
  forall now m ops w' armed,
    run_ok2 (init_qworld now m) ops ->
    let w := qrun_world (init_qworld now m) ops in
    qc_pending w = [] -> qs_pending w = [] ->
    sync_q w = (w', [], true, armed) ->
    forall j, In j (queued_jobs w) ->
      match q_start_after j with Some a => a <= q_clock w | None => True end ->
      q_policy j = PEnqueue /\ max_conc w < acount (qa_jobs w) + 1.
Proof. exact due_job_left_only_at_true_limit. Qed.
Print Assumptions c07_due_job_left_only_at_true_limit.
