(** C19 — dynamic configuration is layered field by field and degrades to last known good. *)
From Furiko Require Import Config.Layer Proofs.ConfigP.
Open Scope list_scope.

(** merge of one layer over another: a key the higher layer sets (to null, zero, false, the
    empty string, a list - anything but a map) takes that value; other keys keep theirs *)
Theorem c19_merge_fieldwise :
  forall k src dst, (forall e, ~ In (k, JMap e) src) ->
    lget k (merge_override dst src) = match last_binding k src with Some v => Some v | None => lget k dst end.
Proof. intros k src dst. exact (merge_fieldwise k src dst). Qed.
Print Assumptions c19_merge_fieldwise.

(** the effective value of every field: Secret, else ConfigMap, else built-in default *)
Theorem c19_fieldwise :
  forall s k f, no_map_for (cs_cm s) k f -> no_map_for (cs_sec s) k f ->
    lget f (effective_layer s k) =
    match source_binding (cs_sec s) k f with
    | Some v => Some v
    | None => match source_binding (cs_cm s) k f with Some v => Some v | None => lget f (defaults_of k) end
    end.
Proof. exact effective_fieldwise. Qed.
Print Assumptions c19_fieldwise.

(** decoding: every field from its own key, all fields or none *)
Theorem c19_decode_all_fields :
  forall sch l c, decode sch l = Some c ->
    map fst c = map fst sch /\
    forall f t, In (f, t) sch -> exists d, In (f, d) c /\ decode_field t (lget f l) = Some d.
Proof. exact decode_fields. Qed.
Print Assumptions c19_decode_all_fields.

Theorem c19_decode_fails_iff :
  forall sch l, decode sch l = None <-> exists f t, In (f, t) sch /\ decode_field t (lget f l) = None.
Proof. exact decode_fails. Qed.
Print Assumptions c19_decode_fails_iff.

(** a source's content is the latest of its own events all of whose entries parsed *)
Theorem c19_atomic_source :
  forall ops s,
    cs_cm (crun_state s ops) = fold_left cm_after ops (cs_cm s) /\
    cs_sec (crun_state s ops) = fold_left sec_after ops (cs_sec s).
Proof. exact sources_atomic. Qed.
Print Assumptions c19_atomic_source.

Theorem c19_event_accepted_iff_all_parse :
  forall e c, parse_event e = Some c <-> e = map (fun kl => (fst kl, Some (snd kl))) c.
Proof. exact parse_event_all. Qed.
Print Assumptions c19_event_accepted_iff_all_parse.

(** last known good: a read is the full decode of the current layering, else exactly what the
    most recent successful read of that kind returned, else an error *)
Theorem c19_read_result :
  forall s k, snd (cstep s (CRead k)) =
    match decode (schema_of k) (effective_layer s k) with Some c => Some c | None => lkg_get k (cs_lkg s) end.
Proof. exact read_result. Qed.
Print Assumptions c19_read_result.

Theorem c19_lkg :
  forall s o k, lkg_get k (cs_lkg (fst (cstep s o))) =
    match o with
    | CRead k' =>
        if kind_eqb k' k then
          match decode (schema_of k') (effective_layer s k') with Some c => Some c | None => lkg_get k (cs_lkg s) end
        else lkg_get k (cs_lkg s)
    | _ => lkg_get k (cs_lkg s)
    end.
Proof. exact lkg_step. Qed.
Print Assumptions c19_lkg.

Theorem c19_recovers :
  forall s k c, decode (schema_of k) (effective_layer s k) = Some c -> snd (cstep s (CRead k)) = Some c.
Proof. exact recovers. Qed.
Print Assumptions c19_recovers.

(** Non-vacuity: zero values override; a malformed entry keeps the whole previous content; an
    undecodable value falls back to the last good read and recovers *)
Open Scope string_scope.
Open Scope Z_scope.
Definition ex_cfg_ops : list cop :=
  [CCm true [("cron", Some [("cronHashNames", JBool false); ("maxMissedSchedules", JNum 0)])];
   CRead KCron;
   CCm true [("cron", Some [("maxMissedSchedules", JNum 9)]); ("jobs", None)];
   CRead KCron;
   CSec true [("cron", Some [("maxMissedSchedules", JStr "x")])];
   CRead KCron;
   CSec true [("cron", Some [("cronFormat", JStr "")])];
   CRead KCron].
Example c19_nonvacuous :
  let good := [("cronFormat", DStr "standard"); ("cronHashNames", DBool false); ("cronHashSecondsByDefault", DBool false);
               ("cronHashFields", DBool true); ("defaultTimezone", DStr "UTC"); ("maxMissedSchedules", DInt 0);
               ("maxDowntimeThresholdSeconds", DInt 300)] in
  crun init_cstate ex_cfg_ops =
    [None; Some good; None; Some good; None; Some good; None;
     Some (("cronFormat", DStr "") :: tl good)].
Proof. vm_compute. reflexivity. Qed.
