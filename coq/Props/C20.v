(** C20 — transient API failures and conflicts delay work but never lose or corrupt it. *)
From Furiko Require Import Cron.Recon JobConfig.Status Queue.World Proofs.ReconP Proofs.StatusP Proofs.FaultsP.
From Furiko Require Job.Core Job.Sync Job.World Proofs.HistoryP Proofs.CacheP Proofs.NoopP.
Open Scope list_scope.
Open Scope Z_scope.

(** cron reconciler: a failed work item is re-added and leaves the API and the caches as they
    were *)
Theorem c20_cron_failed_item_requeued :
  forall w k w', process w k = (w', 3) ->
    rw_api w' = rw_api w /\ rw_delayed w' = rw_delayed w ++ [k] /\
    rw_ready w' = rw_ready w /\ rw_cache w' = rw_cache w /\ rw_jcs w' = rw_jcs w.
Proof. exact recon_failed_requeued. Qed.
Print Assumptions c20_cron_failed_item_requeued.

(** ... no queued key is ever dropped except by processing it without error (or by a process
    restart, after which the cron worker requests again) *)
Theorem c20_cron_never_lost :
  forall w o k, queued k w ->
    queued k (fst (rstep w o)) \/
    (o = RWork /\ exists r, rw_ready w = k :: r /\ snd (rstep w o) <> 3) \/ o = RRestart.
Proof. exact recon_never_lost. Qed.
Print Assumptions c20_cron_never_lost.

(** ... and any finite burst of server errors on create ends in exactly the fault-free
    outcome: the Job exists, once, and the queue is empty *)
Theorem c20_cron_retry_converges :
  forall n w k name t jc,
    rw_faults w = repeat RFServer n -> rw_ready w = [k] -> rw_delayed w = [] ->
    split_key k = Some (name, t) -> find_jc name (rw_jcs w) = Some jc ->
    (rc_forbid jc && (rc_maxc jc <? rw_active w + 1)) = false ->
    match rw_maxq w with Some m => m <=? rc_queued jc | None => false end = false ->
    mem_str (gen_name (rc_name jc) t) (rw_cache w) = false ->
    api_has (gen_name (rc_name jc) t) (rw_api w) = false ->
    let w' := iter (S n) r_attempt w in
    rw_api w' = rw_api w ++ [new_job jc t] /\ rw_ready w' = [] /\ rw_delayed w' = [] /\ rw_faults w' = [].
Proof. exact recon_retry_converges. Qed.
Print Assumptions c20_cron_retry_converges.

(** re-processing after the Job exists changes nothing (C02): retries cannot duplicate *)
Theorem c20_cron_retry_idempotent :
  forall w key name t w' out,
    split_key key = Some (name, t) -> api_has (gen_name name t) (rw_api w) = true ->
    process w key = (w', out) -> rw_api w' = rw_api w.
Proof. exact idempotent. Qed.
Print Assumptions c20_cron_retry_idempotent.

(** jobconfig status controller: a failed pass changes nothing and is re-queued; after any
    finite burst of failed writes the status written is the fault-free one; and whatever
    failed along the way, every settled state is exact (C15) *)
Theorem c20_status_failed_pass_requeued :
  forall w w', JobConfig.Status.work w = (w', 3) ->
    w_api_jc w' = w_api_jc w /\ w_api_jobs w' = w_api_jobs w /\ w_delayed w' = S (w_delayed w) /\
    w_cache_jobs w' = w_cache_jobs w /\ w_cache_jc w' = w_cache_jc w.
Proof. exact status_failed_requeued. Qed.
Print Assumptions c20_status_failed_pass_requeued.

Theorem c20_status_retry_converges :
  forall n w,
    w_faults w = n -> w_ready w = true -> w_delayed w = O ->
    jc_rv (w_cache_jc w) = jc_rv (w_api_jc w) ->
    let st := compute_status (jc_cron (w_cache_jc w)) (jc_status (w_cache_jc w)) (w_cache_jobs w) in
    eqb_status st (jc_status (w_cache_jc w)) = false ->
    let w' := iter (S n) s_attempt w in
    jc_status (w_api_jc w') = st /\ w_ready w' = false /\ w_delayed w' = O /\ w_faults w' = O.
Proof. exact status_retry_converges. Qed.
Print Assumptions c20_status_retry_converges.

Theorem c20_status_exact_whatever_failed :
  forall cron st ops,
    let w := srun_world (init_sworld cron st) ops in
    settled w ->
    let s := jc_status (w_api_jc w) in
    let js := owned_jobs (w_api_jobs w) in
    st_active s = map to_ref (filter s_active js) /\ st_queued s = map to_ref (filter s_queued js) /\
    st_nact s = Z.of_nat (List.length (st_active s)) /\ st_nq s = Z.of_nat (List.length (st_queued s)) /\
    st_state s = get_state (jc_cron (w_api_jc w)) (st_nact s) (st_nq s).
Proof.
  intros cron st ops w Hs. destruct (exact_at_quiescence cron st ops Hs) as (A & B & C & D & E & _). auto.
Qed.
Print Assumptions c20_status_exact_whatever_failed.

(** admission queue: a failed start write only consumes the failure - counter (rollback), API,
    cache, clock are as before, so the next pass decides exactly as the fault-free pass *)
Theorem c20_queue_failed_start_changes_nothing :
  forall w j r acts armed fl,
    can_start (q_clock w) (max_conc w) (q_counter w) j = DStart ->
    take_qfault QFStart (q_faults w) = Some fl ->
    fst (fst (fst (sync_loop w (j :: r) (q_counter w) acts armed))) = with_ctr w (q_counter w) fl.
Proof. exact queue_failed_start_changes_nothing. Qed.
Print Assumptions c20_queue_failed_start_changes_nothing.

(** job controller, safety along the way: the histories of the one-Job world include injected
    failures of every write (Pod create / delete, Job update, status update, Job delete) and
    resourceVersion conflicts, at any point and in any number; whatever fails, no recorded task
    is ever dropped, a start time never changes, a deleted Job stays deleted, and a
    finalizer-protected Job leaves the API only after a pass saw none of its tasks *)
Theorem c20_job_world_safe_whatever_fails :
  forall cfg j0 now ops1 ops2,
    let w1 := HistoryP.jrun_world cfg (Job.World.init_jworld j0 now) ops1 in
    let w2 := HistoryP.jrun_world cfg w1 ops2 in
    (forall a1 a2, Job.Sync.api_job w1 = Some a1 -> Job.Sync.api_job w2 = Some a2 ->
       (forall n, In n (map Job.Core.tr_name (Job.Core.j_tasks a1)) -> In n (map Job.Core.tr_name (Job.Core.j_tasks a2))) /\
       (forall t, Job.Core.j_start a1 = Some t -> Job.Core.j_start a2 = Some t)) /\
    (Job.Sync.api_job w1 = None -> Job.Sync.api_job w2 = None) /\
    (forall o a, Job.Sync.api_job w1 = Some a -> Job.Core.j_finalizer a = true ->
       Job.Sync.api_job (fst (fst (fst (Job.World.jstep cfg w1 o)))) = None ->
       o = Job.World.JSync /\ forall r, In r (Job.Core.j_tasks a) -> Job.Sync.find_pod (Job.Core.tr_name r) (Job.Sync.cache_pods w1) = None).
Proof.
  intros cfg j0 now ops1 ops2 w1 w2.
  destruct (HistoryP.recorded_forever cfg j0 now ops1 ops2) as [R1 R2].
  pose proof (HistoryP.start_time_forever cfg j0 now ops1 ops2) as S1.
  split; [|split].
  - intros a1 a2 E1 E2. split; [apply (R1 a1 a2 E1 E2)|intros t; apply (S1 a1 a2 t E1 E2)].
  - exact R2.
  - intros o a Ea Hf Hn.
    destruct (CacheP.job_removed_after_tasks cfg j0 now ops1 o a Ea Hf Hn) as (H1 & _ & _ & H4 & _). auto.
Qed.
Print Assumptions c20_job_world_safe_whatever_fails.

(** job controller, convergence of the clean-up: any finite burst of failed finalizer writes
    only delays the removal of a deleted Job whose tasks are gone - each failed pass leaves the
    world as it was (minus the failure), the first pass after the burst removes the Job *)
Theorem c20_job_deletion_retry_converges :
  forall cfg n w j d,
    Job.Sync.cache_job w = Some j -> Job.Sync.api_job w = Some j -> Job.Sync.cache_rv w = Job.Sync.api_rv w ->
    Job.Core.j_deletion j = Some d -> Job.Core.j_finalizer j = true -> Job.Sync.faults w = repeat Job.Sync.FUpdateJob n ->
    (forall r, In r (Job.Core.j_tasks j) -> Job.Sync.find_pod (Job.Core.tr_name r) (Job.Sync.cache_pods w) = None) ->
    CacheP.iter_pass cfg n w = Job.Sync.set_faults w [] /\ Job.Sync.api_job (CacheP.iter_pass cfg (S n) w) = None.
Proof. exact CacheP.deletion_retry_converges. Qed.
Print Assumptions c20_job_deletion_retry_converges.

(** job controller, nothing half-done: a reconcile pass in which every API call failed (server
    error, conflict, not found, already exists, invalid) leaves the whole world - the Job, its
    resourceVersion, the Pods, the caches, the events on their way, the clock - exactly as it
    was; only injected failures were consumed *)
Theorem c20_job_failed_pass_changes_nothing :
  forall cfg w w' acts ok armed,
    Job.World.sync_one cfg w = (w', acts, ok, armed) -> existsb NoopP.changes acts = false ->
    w' = Job.Sync.set_faults w (Job.Sync.faults w').
Proof. exact NoopP.failed_pass_world. Qed.
Print Assumptions c20_job_failed_pass_changes_nothing.

(** ... and so for any number of such passes in a row: the first pass in which a call succeeds
    starts from the world the failures found - failures leave nothing behind to reconcile *)
Theorem c20_job_failed_passes_leave_the_world :
  forall cfg n w, NoopP.all_failed cfg n w -> exists fl, CacheP.iter_pass cfg n w = Job.Sync.set_faults w fl.
Proof. exact NoopP.failed_passes_leave_the_world. Qed.
Print Assumptions c20_job_failed_passes_leave_the_world.

(** ... hence the same outcome as without the failures: once the injected failures are used
    up, everything that follows a burst of entirely failed passes is what follows from the
    original world with no failure injected *)
Theorem c20_job_failed_burst_same_outcome :
  forall cfg n m w,
    NoopP.all_failed cfg n w -> Job.Sync.faults (CacheP.iter_pass cfg n w) = [] ->
    CacheP.iter_pass cfg (n + m) w = CacheP.iter_pass cfg m (Job.Sync.set_faults w []).
Proof. exact NoopP.failed_burst_same_outcome. Qed.
Print Assumptions c20_job_failed_burst_same_outcome.

(** Non-vacuity: three server errors, then the Job is created exactly once *)
Open Scope string_scope.
Example c20_nonvacuous :
  let jc := mkRJC "jc" "u" false 1 0 None None in
  let w := mkRW [jc] [] [] [] 0 (Some 20) ["jc.1700000000"] [] (repeat RFServer 3) in
  rw_api (iter 4 r_attempt w) = [new_job jc 1700000000] /\ rw_api (iter 3 r_attempt w) = [].
Proof. vm_compute. split; reflexivity. Qed.

Example c20_job_nonvacuous :
  let j := Job.Core.mkJob ["aaaaaa"] false Job.Core.AllSuccessful 1 0 false false None false None None false true (Some 150) (Some 10)
             [Job.Core.mkRef "j-aaaaaa-0" "aaaaaa" 0 100 (Some 102) (Some 160) (Job.Core.mkSt Job.Core.TTerminated Job.Core.RKilled Job.Core.ReJobDeleted) None]
             1 0 None (Job.Core.CFinished Job.Core.JKilled (Some 160) (Some 100) (Some 102)) Job.Core.PhKilled Job.Core.SFinished in
  let w := Job.Sync.mkJW (Some j) 7 [] [] (Some j) 7 [] [] [] 200 [Job.Sync.FUpdateJob; Job.Sync.FUpdateJob] in
  let cfg := Job.Sync.mkCfg (Some 900) (Some 900) (Some 3600) in
  Job.Sync.api_job (CacheP.iter_pass cfg 2 w) = Some j /\ Job.Sync.api_job (CacheP.iter_pass cfg 3 w) = None.
Proof. vm_compute. split; reflexivity. Qed.

(** a pass whose only call (the finalizer write) failed: one action, nothing changed *)
Example c20_job_failed_pass_nonvacuous :
  let j := Job.Core.mkJob ["aaaaaa"] false Job.Core.AllSuccessful 1 0 false false None false None None false true (Some 150) (Some 10)
             [Job.Core.mkRef "j-aaaaaa-0" "aaaaaa" 0 100 (Some 102) (Some 160) (Job.Core.mkSt Job.Core.TTerminated Job.Core.RKilled Job.Core.ReJobDeleted) None]
             1 0 None (Job.Core.CFinished Job.Core.JKilled (Some 160) (Some 100) (Some 102)) Job.Core.PhKilled Job.Core.SFinished in
  let w := Job.Sync.mkJW (Some j) 7 [] [] (Some j) 7 [] [] [] 200 [Job.Sync.FUpdateJob] in
  let cfg := Job.Sync.mkCfg (Some 900) (Some 900) (Some 3600) in
  let '(w', acts, ok, armed) := Job.World.sync_one cfg w in
  acts = [Job.Sync.AUpdateJob 3] /\ existsb NoopP.changes acts = false /\ ok = false /\ NoopP.all_failed cfg 1 w.
Proof. vm_compute. repeat split; reflexivity. Qed.

(** a burst of three failed Pod creates: three entirely failed passes, failures used up; the
    fourth pass creates the task as if nothing had happened *)
Example c20_job_burst_nonvacuous :
  let j := Job.Core.mkJob ["aaaaaa"] false Job.Core.AllSuccessful 2 0 false false None false None None false true None (Some 10)
             [] 0 0 None (Job.Core.CWaiting Job.Core.WPendingCreation) Job.Core.PhStarting Job.Core.SWaiting in
  let w := Job.Sync.mkJW (Some j) 7 [] [] (Some j) 7 [] [] [] 200 (repeat Job.Sync.FCreatePod 3) in
  let cfg := Job.Sync.mkCfg (Some 900) (Some 900) (Some 3600) in
  NoopP.all_failed cfg 3 w /\ Job.Sync.faults (CacheP.iter_pass cfg 3 w) = [] /\
  map Job.Core.p_name (Job.Sync.api_pods (CacheP.iter_pass cfg 4 w)) = ["j-aaaaaa-0"] /\
  Job.Sync.api_pods (CacheP.iter_pass cfg 3 w) = [].
Proof. vm_compute. repeat split; reflexivity. Qed.
