(** C20 — transient API failures and conflicts delay work but never lose or corrupt it. *)
From Furiko Require Import Cron.Recon JobConfig.Status Queue.World Proofs.ReconP Proofs.StatusP Proofs.FaultsP.
Open Scope list_scope.
Open Scope Z_scope.

(** cron reconciler: a failed work item is re-added and leaves the API and the caches as they
    were *)
Theorem c20_cron_failed_item_requeued :
  forall w k w', process w k = (w', 3) ->
    rw_api w' = rw_api w /\ rw_delayed w' = rw_delayed w ++ [k] /\
    rw_ready w' = rw_ready w /\ rw_cache w' = rw_cache w /\ rw_jcs w' = rw_jcs w.
Proof. exact recon_failed_requeued. Qed.
Print Assumptions c20_cron_failed_item_requeued.

(** ... no queued key is ever dropped except by processing it without error (or by a process
    restart, after which the cron worker requests again) *)
Theorem c20_cron_never_lost :
  forall w o k, queued k w ->
    queued k (fst (rstep w o)) \/
    (o = RWork /\ exists r, rw_ready w = k :: r /\ snd (rstep w o) <> 3) \/ o = RRestart.
Proof. exact recon_never_lost. Qed.
Print Assumptions c20_cron_never_lost.

(** ... and any finite burst of server errors on create ends in exactly the fault-free
    outcome: the Job exists, once, and the queue is empty *)
Theorem c20_cron_retry_converges :
  forall n w k name t jc,
    rw_faults w = repeat RFServer n -> rw_ready w = [k] -> rw_delayed w = [] ->
    split_key k = Some (name, t) -> find_jc name (rw_jcs w) = Some jc ->
    (rc_forbid jc && (rc_maxc jc <? rw_active w + 1)) = false ->
    match rw_maxq w with Some m => m <=? rc_queued jc | None => false end = false ->
    mem_str (gen_name (rc_name jc) t) (rw_cache w) = false ->
    api_has (gen_name (rc_name jc) t) (rw_api w) = false ->
    let w' := iter (S n) r_attempt w in
    rw_api w' = rw_api w ++ [new_job jc t] /\ rw_ready w' = [] /\ rw_delayed w' = [] /\ rw_faults w' = [].
Proof. exact recon_retry_converges. Qed.
Print Assumptions c20_cron_retry_converges.

(** re-processing after the Job exists changes nothing (C02): retries cannot duplicate *)
Theorem c20_cron_retry_idempotent :
  forall w key name t w' out,
    split_key key = Some (name, t) -> api_has (gen_name name t) (rw_api w) = true ->
    process w key = (w', out) -> rw_api w' = rw_api w.
Proof. exact idempotent. Qed.
Print Assumptions c20_cron_retry_idempotent.

(** jobconfig status controller: a failed pass changes nothing and is re-queued; after any
    finite burst of failed writes the status written is the fault-free one; and whatever
    failed along the way, every settled state is exact (C15) *)
Theorem c20_status_failed_pass_requeued :
  forall w w', JobConfig.Status.work w = (w', 3) ->
    w_api_jc w' = w_api_jc w /\ w_api_jobs w' = w_api_jobs w /\ w_delayed w' = S (w_delayed w) /\
    w_cache_jobs w' = w_cache_jobs w /\ w_cache_jc w' = w_cache_jc w.
Proof. exact status_failed_requeued. Qed.
Print Assumptions c20_status_failed_pass_requeued.

Theorem c20_status_retry_converges :
  forall n w,
    w_faults w = n -> w_ready w = true -> w_delayed w = O ->
    jc_rv (w_cache_jc w) = jc_rv (w_api_jc w) ->
    let st := compute_status (jc_cron (w_cache_jc w)) (jc_status (w_cache_jc w)) (w_cache_jobs w) in
    eqb_status st (jc_status (w_cache_jc w)) = false ->
    let w' := iter (S n) s_attempt w in
    jc_status (w_api_jc w') = st /\ w_ready w' = false /\ w_delayed w' = O /\ w_faults w' = O.
Proof. exact status_retry_converges. Qed.
Print Assumptions c20_status_retry_converges.

Theorem c20_status_exact_whatever_failed :
  forall cron st ops,
    let w := srun_world (init_sworld cron st) ops in
    settled w ->
    let s := jc_status (w_api_jc w) in
    let js := owned_jobs (w_api_jobs w) in
    st_active s = map to_ref (filter s_active js) /\ st_queued s = map to_ref (filter s_queued js) /\
    st_nact s = Z.of_nat (List.length (st_active s)) /\ st_nq s = Z.of_nat (List.length (st_queued s)) /\
    st_state s = get_state (jc_cron (w_api_jc w)) (st_nact s) (st_nq s).
Proof.
  intros cron st ops w Hs. destruct (exact_at_quiescence cron st ops Hs) as (A & B & C & D & E & _). auto.
Qed.
Print Assumptions c20_status_exact_whatever_failed.

(** admission queue: a failed start write only consumes the failure - counter (rollback), API,
    cache, clock are as before, so the next pass decides exactly as the fault-free pass *)
Theorem c20_queue_failed_start_changes_nothing :
  forall w j r acts armed fl,
    can_start (q_clock w) (max_conc w) (q_counter w) j = DStart ->
    take_qfault QFStart (q_faults w) = Some fl ->
    fst (fst (fst (sync_loop w (j :: r) (q_counter w) acts armed))) = with_ctr w (q_counter w) fl.
Proof. exact queue_failed_start_changes_nothing. Qed.
Print Assumptions c20_queue_failed_start_changes_nothing.

(** Non-vacuity: three server errors, then the Job is created exactly once *)
Open Scope string_scope.
Example c20_nonvacuous :
  let jc := mkRJC "jc" "u" false 1 0 None None in
  let w := mkRW [jc] [] [] [] 0 (Some 20) ["jc.1700000000"] [] (repeat RFServer 3) in
  rw_api (iter 4 r_attempt w) = [new_job jc 1700000000] /\ rw_api (iter 3 r_attempt w) = [].
Proof. vm_compute. split; reflexivity. Qed.
