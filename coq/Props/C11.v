(** C11 — Job status only moves forward and is always self-consistent (the per-status
    and per-call part; monotonicity over histories is in the job stream's monitor and in
    Props/C09.v [listed_forever], [timestamps_retained]). *)
From Furiko Require Import Job.Core Job.Sync Job.World Proofs.JobP Proofs.HistoryP Props.C10.
From Furiko Require Proofs.UniqueP Proofs.TimesP.

(** Exactly one of queueing / waiting / running / finished: the model's condition is a
    sum type, and the correspondence stream compares it with the four pointer fields of
    the real JobCondition (a status with zero or two fields set has no image and is a
    mismatch).  The coarse state equals the condition; the phase is terminal exactly when
    the condition is Finished. *)
Theorem c11_state_and_phase :
  forall now j,
    let j' := update_status_from_refs now j in
    j_state j' = state_of_cond (j_cond j') /\
    phase_terminal (j_phase j') = cond_finished (j_cond j').
Proof. exact status_coherent. Qed.
Print Assumptions c11_state_and_phase.

Theorem c11_phase_terminal_iff_finished :
  forall now j, phase_terminal (get_phase now j) = cond_finished (j_cond j).
Proof. exact get_phase_terminal. Qed.
Print Assumptions c11_phase_terminal_iff_finished.

(** the task counters equal what the task list shows *)
Theorem c11_counters :
  forall now j pods,
    let j' := update_task_refs now j pods in
    j_created_tasks j' = Z.of_nat (List.length (j_tasks j')) /\
    j_running_tasks j' = count is_running_ref (j_tasks j').
Proof. exact counters_match. Qed.
Print Assumptions c11_counters.

(** the number of recorded tasks never decreases, and recorded running / finish times
    are never cleared, in any merge of observed Pods into the recorded refs *)
Theorem c11_tasks_never_dropped :
  forall now existing pods e,
    In e existing -> exists r, In r (generate_task_refs now existing pods) /\ tr_name r = tr_name e.
Proof. exact listed_forever. Qed.
Print Assumptions c11_tasks_never_dropped.

Theorem c11_times_never_cleared :
  forall e p,
    (tr_running e <> None -> tr_running (get_task_ref (Some e) p) <> None) /\
    (tr_finish e <> None -> tr_finish (get_task_ref (Some e) p) <> None).
Proof. exact timestamps_retained. Qed.
Print Assumptions c11_times_never_cleared.

Theorem c11_times_kept_when_pod_gone :
  forall now e,
    tr_running (vanished_ref now e) = tr_running e /\
    tr_finish (vanished_ref now e) <> None /\
    (tr_finish e <> None -> tr_finish (vanished_ref now e) = tr_finish e).
Proof. exact vanished_keeps_times. Qed.
Print Assumptions c11_times_kept_when_pod_gone.

Example c11_nonvacuous :
  let j := update_status_from_refs 100 ex_job in
  (j_state j, j_phase j) = (SFinished, PhSucceeded).
Proof. vm_compute. reflexivity. Qed.


(** * over histories
    For every history of the one-Job world (reconcile passes against lagging caches, kubelet
    transitions, foreign Pods, start / kill / delete by other actors, failing and conflicting
    writes): the start time of the Job in the API, once set, never changes or disappears while
    the Job exists; and no recorded task is ever dropped from its status (C09's theorem). *)
Theorem c11_start_time_forever :
  forall cfg j0 now ops1 ops2,
    let w1 := jrun_world cfg (init_jworld j0 now) ops1 in
    let w2 := jrun_world cfg w1 ops2 in
    forall a1 a2 t, api_job w1 = Some a1 -> api_job w2 = Some a2 -> j_start a1 = Some t -> j_start a2 = Some t.
Proof. exact start_time_forever. Qed.
Print Assumptions c11_start_time_forever.

Theorem c11_tasks_never_dropped_forever :
  forall cfg j0 now ops1 ops2,
    let w1 := jrun_world cfg (init_jworld j0 now) ops1 in
    let w2 := jrun_world cfg w1 ops2 in
    forall a1 a2, api_job w1 = Some a1 -> api_job w2 = Some a2 ->
      forall n, In n (map tr_name (j_tasks a1)) -> In n (map tr_name (j_tasks a2)).
Proof. intros cfg j0 now ops1 ops2. exact (proj1 (recorded_forever cfg j0 now ops1 ops2)). Qed.
Print Assumptions c11_tasks_never_dropped_forever.

(** a task's recorded running / finish times are never cleared: for every history (as above)
    that starts from a Job with distinct index hashes and a well-formed status, a time recorded
    for a task in some version of the Job in the API is still recorded in every later version
    (the status the controller computes merges each observed Pod into the ref recorded under
    its name - unique, Props/C09.v - and only adds times; the API accepts a status only
    against the version it was computed from) *)
Theorem c11_times_never_cleared_forever :
  forall cfg j0 now ops1 ops2 a1 a2,
    NoDup (j_indexes j0) -> UniqueP.JWF j0 -> Forall UniqueP.jop_ok (ops1 ++ ops2) ->
    let w1 := jrun_world cfg (init_jworld j0 now) ops1 in
    let w2 := jrun_world cfg w1 ops2 in
    api_job w1 = Some a1 -> api_job w2 = Some a2 ->
    forall e, In e (j_tasks a1) -> exists r, In r (j_tasks a2) /\ tr_name r = tr_name e /\
      (tr_running e <> None -> tr_running r <> None) /\ (tr_finish e <> None -> tr_finish r <> None).
Proof. exact TimesP.times_never_cleared. Qed.
Print Assumptions c11_times_never_cleared_forever.

(** ... and the number of recorded tasks never decreases (names are never dropped and never
    listed twice: Props/C09.v) *)
Theorem c11_task_count_never_decreases :
  forall cfg j0 now ops1 ops2 a1 a2,
    NoDup (j_indexes j0) -> UniqueP.JWF j0 -> Forall UniqueP.jop_ok ops1 ->
    let w1 := jrun_world cfg (init_jworld j0 now) ops1 in
    let w2 := jrun_world cfg w1 ops2 in
    api_job w1 = Some a1 -> api_job w2 = Some a2 -> (List.length (j_tasks a1) <= List.length (j_tasks a2))%nat.
Proof. exact UniqueP.task_count_never_decreases. Qed.
Print Assumptions c11_task_count_never_decreases.

Definition ex_hist_job : job :=
  mkJob ["aaaaaa"%string] false AllSuccessful 2 0 false false None false None None false true None None
        [] 0 0 None (CQueueing QNone) PhQueued SQueued.
Example c11_history_nonvacuous :
  let cfg := mkCfg (Some 900) (Some 900) (Some 3600) in
  let w1 := jrun_world cfg (init_jworld ex_hist_job 100) [JSync; JStart; JAdvanceJob 5] in
  let w2 := jrun_world cfg w1 [JSync; JAdvanceJob 5; JAdvancePods 5; JClock 150; JKill 140; JAdvanceJob 5; JSync; JAdvanceJob 5] in
  option_map j_start (api_job w1) = Some (Some 100) /\
  option_map (fun a => (j_start a, map tr_name (j_tasks a))) (api_job w2) = Some (Some 100, ["j-aaaaaa-0"%string]).
Proof. vm_compute. split; reflexivity. Qed.

(** REFUTED on the faithful model (finding F4, finished-Pod variant): "a recorded finish time
    never changes" is false over histories with a lagging Pod cache.  The Pod has finished at
    110 in the API; the pass at 120 does not see it in its cache yet and records the task as
    lost with finish time 120; when the cache has caught up, the pass at 130 rewrites the
    recorded finish time to 110 (and the lost task becomes a succeeded one).  The same history
    runs on the implementation as the corpus case F4-finished-pod-recorded-lost-then-corrected
    of the job stream (model and code agree on it; the monitor reports it as the known finding
    F4, C09/lost-while-exists, and classifies the changed finish time as its consequence). *)
Definition f4_job : job :=
  mkJob ["aaaaaa"%string] false AllSuccessful 2 0 false false None false None None false true None (Some 10)
        [] 0 0 None (CWaiting WPendingCreation) PhStarting SWaiting.
Definition recorded_finish (w : jworld) (n : string) : option Z :=
  match api_job w with
  | Some a => match filter (fun r => String.eqb (tr_name r) n) (j_tasks a) with r :: _ => tr_finish r | [] => None end
  | None => None
  end.
Theorem c11_finish_time_stable_refuted :
  exists cfg j0 now ops1 ops2 n t1 t2,
    let w1 := jrun_world cfg (init_jworld j0 now) ops1 in
    let w2 := jrun_world cfg w1 ops2 in
    recorded_finish w1 n = Some t1 /\ recorded_finish w2 n = Some t2 /\ t1 <> t2.
Proof.
  exists (mkCfg (Some 900) (Some 900) (Some 3600)), f4_job, 100,
    [JSync; JAdvanceJob 5; JKubelet "j-aaaaaa-0" KSchedule; JClock 105; JKubelet "j-aaaaaa-0" KRun; JClock 110;
     JKubelet "j-aaaaaa-0" KSucceed; JClock 120; JSync],
    [JAdvanceJob 5; JAdvancePods 9; JClock 130; JSync], "j-aaaaaa-0"%string, 120, 110.
  vm_compute. repeat split; discriminate.
Qed.
Print Assumptions c11_finish_time_stable_refuted.
