(** C16 — admission defaulting is idempotent, patch-faithful, expands configName correctly. *)
From Furiko Require Import Admission.Mutate Proofs.OptionsP Proofs.MutateP.
From Furiko Require Admission.Patch Proofs.PatchP.
Open Scope list_scope.
Open Scope Z_scope.

(** submitting the defaulted object again yields no further change: Job create, Job update,
    JobConfig create (same clock) *)
Theorem c16_job_create_idempotent :
  forall dates d jcs bad j j',
    patch_job_create dates d jcs bad j = Some j' -> patch_job_create dates d jcs bad j' = Some j'.
Proof. exact create_idempotent. Qed.
Print Assumptions c16_job_create_idempotent.

Theorem c16_job_update_idempotent : forall d j, mutate_job d (mutate_job d j) = mutate_job d j.
Proof. exact mutate_job_idem. Qed.
Print Assumptions c16_job_update_idempotent.

Theorem c16_jobconfig_create_idempotent :
  forall d now c, patch_jc_create d now (patch_jc_create d now c) = patch_jc_create d now c.
Proof. exact jc_create_idem. Qed.
Print Assumptions c16_jobconfig_create_idempotent.

(** Jobs always carry the finalizer (create), type, maxAttempts, pending timeout, restart
    policy and TTL defaults; what the submitter set is kept *)
Theorem c16_finalizer :
  forall dates d jcs bad j j', patch_job_create dates d jcs bad j = Some j' -> In Finalizer (mj_finalizers j').
Proof. exact create_has_finalizer. Qed.
Print Assumptions c16_finalizer.

Theorem c16_job_defaults :
  forall d j, let j' := mutate_job d j in
    nonempty_s (mj_type j') = true /\
    (exists t, mj_template j' = Some t /\ (exists n, jt_max_attempts t = Some n) /\
               (forall rp tbl, jt_pod t = Some (rp, tbl) -> nonempty_s rp = true) /\
               (forall n, dc_pending d = Some n -> exists m, jt_pending t = Some m)) /\
    (forall n, dc_ttl d = Some n -> exists m, mj_ttl j' = Some m) /\
    (forall t, mj_ttl j = Some t -> mj_ttl j' = Some t) /\
    mj_finalizers j' = mj_finalizers j /\ mj_subs j' = mj_subs j /\ mj_owner j' = mj_owner j /\
    mj_labels j' = mj_labels j /\ mj_start_policy j' = mj_start_policy j.
Proof. exact mutate_job_defaults. Qed.
Print Assumptions c16_job_defaults.

Theorem c16_defaulted_template_stays_valid :
  forall d t, (forall n, dc_pending d = Some n -> 0 <= n) ->
    (forall tbl, lookup_sb "" tbl = true -> lookup_sb "Never" tbl = true) ->
    valid_tmpl t = true -> valid_tmpl (mutate_tmpl d true t) = true.
Proof. exact mutate_tmpl_valid. Qed.
Print Assumptions c16_defaulted_template_stays_valid.

(** configName: the JobConfig's template, owner reference and UID label (whatever the
    submitter or the template put there), its concurrency policy unless one was given,
    configName cleared *)
Theorem c16_config_name :
  forall jcs j j', nonempty_s (mj_config_name j) = true -> eval_config_name jcs j = Some j' ->
    exists jc, find_mjc (mj_config_name j) jcs = Some jc /\
      mj_template j' = Some (mc_tmpl jc) /\
      mj_owner j' = Some (mc_name jc, mc_uid jc) /\
      lookup_kv LabelUID (mj_labels j') = Some (mc_uid jc) /\
      mj_config_name j' = EmptyString /\
      In Finalizer (mj_finalizers j') /\
      (forall p a, mj_start_policy j = Some (p, a) -> nonempty_s p = true -> mj_start_policy j' = Some (p, a)) /\
      (forall p a, mj_start_policy j = Some (p, a) -> nonempty_s p = false -> mj_start_policy j' = Some (mc_policy jc, a)) /\
      (mj_start_policy j = None -> mj_start_policy j' = Some (mc_policy jc, None)) /\
      mj_subs j' = mj_subs j /\ mj_ttl j' = mj_ttl j /\ mj_type j' = mj_type j.
Proof. exact config_name_expansion. Qed.
Print Assumptions c16_config_name.

Theorem c16_config_name_labels :
  forall jcs j j' jc k, nonempty_s (mj_config_name j) = true -> eval_config_name jcs j = Some j' ->
    find_mjc (mj_config_name j) jcs = Some jc -> k <> LabelUID ->
    lookup_kv k (mj_labels j') =
    match lookup_last k (mj_labels j) with Some v => Some v | None => lookup_last k (mc_tmpl_labels jc) end.
Proof. exact config_name_labels. Qed.
Print Assumptions c16_config_name_labels.

(** substitutions: explicit > evaluated option > jobconfig context (C18's theorem on the same
    function the create path calls) *)
Theorem c16_substitution_precedence :
  forall dates opts values explicit jcvars subs,
    admit_subs dates opts values explicit jcvars = Some subs ->
    exists ev, eval_options dates values opts = Some ev /\
    forall k, lookup_kv k subs =
      match lookup_last k explicit with
      | Some v => Some v
      | None => match lookup_last k ev with Some v => Some v | None => lookup_last k jcvars end
      end.
Proof. exact admit_precedence. Qed.
Print Assumptions c16_substitution_precedence.

(** JobConfigs: lastUpdated is stamped exactly when the schedule is created or changed (and
    the submitted value is not in the future); bool options get a format *)
Theorem c16_last_updated_create :
  forall d now c id lu, mo_sched c = Some (id, lu) ->
    mo_sched (patch_jc_create d now c) = Some (id, if later_than lu now then lu else Some now).
Proof. exact jc_create_stamped. Qed.
Print Assumptions c16_last_updated_create.

Theorem c16_last_updated_update :
  forall d now old c id lu, mo_sched c = Some (id, lu) ->
    mo_sched (patch_jc_update d now old c) =
    Some (id, match mo_sched old with
              | Some (id', _) => if (id =? id') then lu else (if later_than lu now then lu else Some now)
              | None => if later_than lu now then lu else Some now
              end).
Proof. exact jc_update_stamped. Qed.
Print Assumptions c16_last_updated_update.

Theorem c16_no_schedule_no_stamp :
  forall d now c, mo_sched c = None -> mo_sched (patch_jc_create d now c) = None.
Proof. exact jc_create_no_schedule. Qed.
Print Assumptions c16_no_schedule_no_stamp.

(** Non-vacuity *)
Open Scope string_scope.
Definition ex_mjc : mjc :=
  mkMJC "jc" "uid-1" "Forbid" [mkOpt "env" false (TSelect "dev" ["dev"; "prod"] false)]
        (mkJT (Some 2) None None None (Some ("", []))) [("team", "t"); (LabelUID, "forged")] [].
Definition ex_mjob : mjob :=
  mkMJ 0 ["other"] [("team", "mine")] [] None "" "jc" None (Some ("", Some 5)) None (Some [("env", VStr "prod")]) [("x", "y")].
Example c16_nonvacuous :
  patch_job_create [] (mkDyn (Some 3600) (Some 900)) [ex_mjc] false ex_mjob =
  Some (mkMJ 0 [Finalizer; "other"] [(LabelUID, "uid-1"); ("team", "mine")] [] (Some ("jc", "uid-1")) "Adhoc" "" (Some 3600)
             (Some ("Forbid", Some 5)) (Some (mkJT (Some 2) None (Some 900) None (Some ("Never", []))))
             (Some [("env", VStr "prod")])
             [("jobconfig.name", "jc"); ("jobconfig.namespace", "ns"); ("jobconfig.uid", "uid-1"); ("option.env", "prod"); ("x", "y")]).
Proof. vm_compute. reflexivity. Qed.

(** the JSON patch (cmp.CreateJSONPatch = jsonpatch.CreatePatch: object diff, element-wise
    array diff, edit-distance script for simple arrays), applied to the document it was
    computed from, operation after operation by RFC 6902, succeeds and yields the target
    document up to the order of object members - for all decoded documents (object keys
    unique), any nesting, and every order in which Go enumerates the maps *)
Theorem c16_patch_faithful :
  forall a b, Patch.wfb a = true -> Patch.wfb b = true ->
    exists r, Patch.apply_ops (Patch.create_patch a b) a = Some r /\ PatchP.jeq r b.
Proof. exact PatchP.patch_faithful. Qed.
Print Assumptions c16_patch_faithful.

(** ... also when it is applied to a document that lists the members of its objects in another
    order than the document the patch was computed from (the API server applies the patch to
    the stored JSON; the webhook computed it from its own re-encoding of the decoded object) *)
Theorem c16_patch_faithful_any_member_order :
  forall a a' b, Patch.wfb a = true -> Patch.wfb b = true -> PatchP.jeq a a' ->
    exists r, Patch.apply_ops (Patch.create_patch a b) a' = Some r /\ PatchP.jeq r b.
Proof. exact PatchP.patch_faithful_any_order. Qed.
Print Assumptions c16_patch_faithful_any_member_order.

(** ... and equal documents need no operation: with the idempotence theorems above, submitting
    the defaulted object again yields an empty patch *)
Theorem c16_patch_of_equal_documents_is_empty :
  forall a, Patch.wfb a = true -> Patch.create_patch a a = [].
Proof. exact PatchP.create_patch_same. Qed.
Print Assumptions c16_patch_of_equal_documents_is_empty.

(** the text of the paths (RFC 6901 escaping by makePath) reads back as the same tokens, for
    every key *)
Theorem c16_patch_path_text : forall ks, Patch.parse_path (Patch.render_raw ks) = Some ks.
Proof. exact PatchP.path_text_roundtrip. Qed.
Print Assumptions c16_patch_path_text.

(** Non-vacuity: finalizer appended to a string array (edit distance), a label map added, a
    nested default filled in, a member dropped; keys with "/" *)
Example c16_patch_nonvacuous :
  let a := Patch.JObj [("metadata", Patch.JObj [("finalizers", Patch.JArr [Patch.JStr "other/finalizer"]); ("name", Patch.JStr "j")]);
                       ("spec", Patch.JObj [("configName", Patch.JStr "jc"); ("template", Patch.JObj [("maxAttempts", Patch.JNull)])])]%string in
  let b := Patch.JObj [("spec", Patch.JObj [("template", Patch.JObj [("maxAttempts", Patch.JNum 1)]); ("type", Patch.JStr "Adhoc")]);
                       ("metadata", Patch.JObj [("name", Patch.JStr "j"); ("labels", Patch.JObj [("execution.furiko.io/job-config-uid", Patch.JStr "u")]);
                                                ("finalizers", Patch.JArr [Patch.JStr "other/finalizer"; Patch.JStr "execution.furiko.io/delete-dependents-finalizer"])])]%string in
  Patch.wfb a = true /\ Patch.wfb b = true /\ List.length (Patch.create_patch a b) = 5%nat /\
  match Patch.apply_ops (Patch.create_patch a b) a with Some r => Patch.jeqb r b = true | None => False end.
Proof. vm_compute. repeat split; reflexivity. Qed.
