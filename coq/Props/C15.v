(** C15 — JobConfig status reports the true queued/active Jobs and last schedule time. *)
From Furiko Require Import JobConfig.Status Proofs.StatusP.
Open Scope list_scope.
Open Scope Z_scope.

(** Every history of Job creation, start, phase change, deletion, schedule edits, informer
    deliveries in any interleaving (Job cache and JobConfig cache lag independently), failed
    and conflicting status writes, rate-limited retries: whenever nothing is left undelivered
    or queued, the status in the API is exact. *)
Theorem c15_exact_at_quiescence :
  forall cron st ops,
    let w := srun_world (init_sworld cron st) ops in
    settled w ->
    let s := jc_status (w_api_jc w) in
    let js := owned_jobs (w_api_jobs w) in
    st_active s = map to_ref (filter s_active js) /\
    st_queued s = map to_ref (filter s_queued js) /\
    st_nact s = Z.of_nat (List.length (st_active s)) /\
    st_nq s = Z.of_nat (List.length (st_queued s)) /\
    st_state s = get_state (jc_cron (w_api_jc w)) (st_nact s) (st_nq s) /\
    (forall j t, In j js -> sj_sched j = Some t -> opt_le (Some t) (st_last_sched s)) /\
    (forall j t, In j js -> sj_start j = Some t -> opt_le (Some t) (st_last_exec s)).
Proof. exact exact_at_quiescence. Qed.
Print Assumptions c15_exact_at_quiescence.

Theorem c15_state_cases :
  forall cron nact nq, 0 <= nact -> 0 <= nq ->
    (0 < nact -> get_state cron nact nq = StExecuting) /\
    (nact = 0 -> 0 < nq -> get_state cron nact nq = StJobQueued) /\
    (nact = 0 -> nq = 0 -> get_state cron nact nq =
       match cron with Some true => StReadyDisabled | Some false => StReadyEnabled | None => StReady end).
Proof. exact get_state_cases. Qed.
Print Assumptions c15_state_cases.

(** lastScheduled / lastExecuted in the API never move backwards, along any history *)
Theorem c15_monotone :
  forall cron st ops1 ops2,
    let w := srun_world (init_sworld cron st) ops1 in
    opt_le (hw_sched w) (hw_sched (srun_world w ops2)) /\ opt_le (hw_exec w) (hw_exec (srun_world w ops2)).
Proof. intros cron st ops1 ops2 w. exact (monotone_run ops2 w (inv_run ops1 _ (inv_init cron st))). Qed.
Print Assumptions c15_monotone.

(** a pass that completed (no write needed, or written) with the Job in its cache has
    recorded the Job's schedule and start time for good - also after the Job is deleted.
    The hypothesis "seen by a completed pass" is inherent to a cache-driven controller. *)
Theorem c15_dominates :
  forall cron st0 ops1 ops2 w' out j,
    let w := srun_world (init_sworld cron st0) ops1 in
    w_ready w = true -> work w = (w', out) -> out = 1 \/ out = 2 ->
    In j (w_cache_jobs w) -> sj_owned j = true ->
    let wf := srun_world w' ops2 in
    opt_le (sj_sched j) (hw_sched wf) /\ opt_le (sj_start j) (hw_exec wf).
Proof. exact dominates. Qed.
Print Assumptions c15_dominates.

(** Non-vacuity: a history that reaches quiescence with one active and one queued Job, after
    a conflicting write and a deleted Job whose schedule time survives. *)
Definition ex_ops : list sop :=
  [SCreate (mkSJ 1 true 100 (Some 90) None 1 false); SDeliverJob; SWork;      (* written *)
   SCreate (mkSJ 2 true 101 (Some 95) None 1 false); SDeliverJob; SWork;      (* conflict: stale cache *)
   SDeliverJC; SFire; SWork; SDeliverJC;
   SStart 1 102; SDelete 2; SDeliverJob; SDeliverJob;
   SCreate (mkSJ 3 true 103 None None 1 false); SDeliverJob; SWork; SDeliverJC; SWork].
Example c15_nonvacuous :
  let w := srun_world (init_sworld (Some false) (mkSt [] [] 0 0 None None (-1))) ex_ops in
  settled w /\ jc_status (w_api_jc w) =
    mkSt [(1, 100, 1, Some 102)] [(3, 103, 1, None)] 1 1 (Some 95) (Some 102) StExecuting /\
  In 3 (map snd (srun (init_sworld (Some false) (mkSt [] [] 0 0 None None (-1))) ex_ops)).
Proof. vm_compute. repeat split; auto 20. Qed.
