(** C13 — a Job disappears only after its tasks are gone; TTL deletion is never early. *)
From Furiko Require Import Job.Core Job.Sync Job.World Proofs.JobP Proofs.SyncP Proofs.SweepP Proofs.HistoryP Proofs.CacheP.

(** The pass removes the delete-dependents finalizer only from a Job that is being
    deleted, and only when no task named in its status is present in the Pod cache.  (The
    API server removes the Job object when its last finalizer goes away: api_update_job.)
    With a Pod cache that covers the API this means "only after every listed task is
    gone"; with a lagging Pod cache the finalizer can be dropped while Pods exist - finding
    F4c, reproduced by the job stream's scripted corpus. *)
Theorem c13_finalizer_order :
  forall s j now s' j' ok,
    handle_finalizer s j now = (s', j', ok) ->
    j_finalizer j = true -> j_finalizer j' = false ->
    j_deletion j <> None /\
    forall r, In r (j_tasks j) -> find_pod (tr_name r) (cache_pods (ps_w s)) = None.
Proof. exact finalizer_order. Qed.
Print Assumptions c13_finalizer_order.

(** The controller deletes a Job only if it is finished, not already being deleted, and
    finish time + effective TTL (Job value, else controller default) <= now. *)
Theorem c13_ttl_not_early :
  forall cfg s j now s' ok,
    handle_ttl cfg s j now = (s', ok) ->
    exists l, added s s' l /\
      forall a, In a l -> exists o r f lc lr, a = ADeleteJob o /\
        j_deletion j = None /\ j_cond j = CFinished r f lc lr /\
        (match f with Some t => t | None => -62135596800 end) + ttl_after_finished cfg j <= now.
Proof. exact handle_ttl_guard. Qed.
Print Assumptions c13_ttl_not_early.

Theorem c13_ttl_effective_value :
  forall cfg j,
    ttl_after_finished cfg j =
    match j_ttl j with Some t => t | None => match cfg_ttl cfg with Some d => d | None => 0 end end.
Proof. reflexivity. Qed.
Print Assumptions c13_ttl_effective_value.

(** "... and is eventually deleted after that": a pass that sees the finished Job at or after
    finish time + effective TTL issues the delete (unless that very call is made to fail, in
    which case the pass fails and is retried) *)
Theorem c13_ttl_fires :
  forall cfg s j now s' ok r f lc lr,
    handle_ttl cfg s j now = (s', ok) -> j_deletion j = None -> j_cond j = CFinished r (Some f) lc lr ->
    f + ttl_after_finished cfg j <= now -> take_fault FDeleteJob (faults (ps_w s)) = None ->
    ok = true /\ exists o, In (ADeleteJob o) (ps_actions s').
Proof. exact ttl_fires. Qed.
Print Assumptions c13_ttl_fires.

(** a finished, not deleted Job with a stored TTL arms a deferred re-sync in every pass *)
Theorem c13_ttl_armed :
  forall now s j r f lc lr t,
    j_cond (update_status_from_refs now j) = CFinished r f lc lr -> j_deletion j = None -> j_ttl j = Some t ->
    ps_armed (fst (sync_status now s j)) = true.
Proof.
  intros now s j r f lc lr t Hc Hd Ht. unfold sync_status, ttl_arms. rewrite Hc.
  change (j_deletion (update_status_from_refs now j)) with (j_deletion j).
  change (j_ttl (update_status_from_refs now j)) with (j_ttl j).
  now rewrite Hd, Ht.
Qed.
Print Assumptions c13_ttl_armed.

(** Non-vacuity: deleting Job whose only task's Pod is still cached: Pod deleted,
    finalizer kept; once the cache no longer has it the finalizer goes. *)
Open Scope string_scope.
Definition ex_pod := mkPod "j-gezdqo-0" "gezdqo" 0 100 true PRunning false None (Some 101) (Some 102) None.
Definition ex_job := mkJob ["gezdqo"] false AllSuccessful 1 0 false false None false None None false true (Some 200) (Some 90)
  [mkRef "j-gezdqo-0" "gezdqo" 0 100 (Some 102) None (mkSt TRunning RNone ReNone) None] 1 1 None (CRunning 0 None None) PhRunning SRunning.
Definition ex_world (cache : list pod) := mkJW (Some ex_job) 1 [ex_pod] ["j-gezdqo-0"] (Some ex_job) 1 [] cache [] 201 [].
Example c13_nonvacuous :
  (let '(s, j, ok) := handle_finalizer (mkPS (ex_world [ex_pod]) [] false []) ex_job 201 in (ps_actions s, j_finalizer j))
  = ([ADelete "j-gezdqo-0" false 0], true) /\
  (let '(s, j, ok) := handle_finalizer (mkPS (ex_world []) [] false []) ex_job 201 in (ps_actions s, j_finalizer j))
  = ([], false).
Proof. split; vm_compute; reflexivity. Qed.


(** * over histories
    For every history of the one-Job world (reconcile passes against lagging caches, kubelet
    transitions and delays, foreign Pods, start / kill / delete by users, injected failures
    and conflicts): a Job that carries the delete-dependents finalizer leaves the API only in
    a reconcile pass, only while it is being deleted, and only when that pass saw no Pod
    cached under any task name recorded in the Job's status; the pass leaves the Pods alone;
    and if the Pod cache had received every event, none of those tasks exists in the API at
    that moment.  (With Pod events still on their way the last clause fails: finding F4c.) *)
Theorem c13_job_removed_after_tasks :
  forall cfg j0 now ops o a,
    let w := jrun_world cfg (init_jworld j0 now) ops in
    let w' := fst (fst (fst (jstep cfg w o))) in
    api_job w = Some a -> j_finalizer a = true -> api_job w' = None ->
    o = JSync /\ j_deletion a <> None /\ api_pods w' = api_pods w /\
    (forall r, In r (j_tasks a) -> find_pod (tr_name r) (cache_pods w) = None) /\
    (pod_pending w = [] -> forall r, In r (j_tasks a) -> find_pod (tr_name r) (api_pods w') = None).
Proof. exact job_removed_after_tasks. Qed.
Print Assumptions c13_job_removed_after_tasks.

(** Pod cache coverage, every history: once nothing is on its way, a name that is absent
    from the Pod cache is absent from the API *)
Theorem c13_pod_cache_covers_api :
  forall cfg j0 now ops,
    let w := jrun_world cfg (init_jworld j0 now) ops in
    pod_pending w = [] -> forall n, find_pod n (cache_pods w) = None -> find_pod n (api_pods w) = None.
Proof. exact cache_covers_api. Qed.
Print Assumptions c13_pod_cache_covers_api.

(** "once they are gone the Job's deletion does complete": a pass over current caches in
    which nothing fails removes a deleting Job whose recorded tasks are all gone *)
Theorem c13_deletion_completes :
  forall cfg w j d,
    cache_job w = Some j -> api_job w = Some j -> cache_rv w = api_rv w ->
    j_deletion j = Some d -> j_finalizer j = true -> faults w = [] ->
    (forall r, In r (j_tasks j) -> find_pod (tr_name r) (cache_pods w) = None) ->
    api_job (fst (fst (fst (sync_one cfg w)))) = None.
Proof. exact deletion_completes. Qed.
Print Assumptions c13_deletion_completes.

(** Non-vacuity over a history: a started Job creates its task, is deleted by the user, the
    pass deletes the Pod, the kubelet terminates it, the events arrive, the next pass lets the
    Job go. *)
Definition ex_hist_job : job :=
  mkJob ["aaaaaa"] false AllSuccessful 1 0 false false None false None None false true None (Some 10)
        [] 0 0 None (CWaiting WPendingCreation) PhStarting SWaiting.
Definition ex_hist_ops : list jop :=
  [JSync; JAdvanceJob 5; JAdvancePods 5; JKubelet "j-aaaaaa-0" KSchedule; JKubelet "j-aaaaaa-0" KRun; JAdvancePods 5;
   JSync; JAdvanceJob 5; JDelete; JAdvanceJob 5; JSync; JAdvanceJob 5; JAdvancePods 5; JSync; JAdvanceJob 5;
   JClock 200; JKubelet "j-aaaaaa-0" KTerminate; JAdvancePods 5].
Example c13_history_nonvacuous :
  let cfg := mkCfg (Some 900) (Some 900) (Some 3600) in
  let w := jrun_world cfg (init_jworld ex_hist_job 100) ex_hist_ops in
  let w' := fst (fst (fst (jstep cfg w JSync))) in
  option_map (fun a => (j_finalizer a, map tr_name (j_tasks a), j_deletion a)) (api_job w) = Some (true, ["j-aaaaaa-0"], Some 100) /\
  pod_pending w = [] /\ api_job w' = None /\ api_pods w' = [].
Proof. vm_compute. repeat split; reflexivity. Qed.


(** REFUTED on the faithful model (finding F4c): "the Job leaves the API only after its tasks"
    is false while Pod events are still on their way to the cache.  The pass creates the Pod
    and records it; the user deletes the Job; the Pod cache has not seen the Pod yet, so the
    pass finds no Pod under the recorded name, drops the finalizer, and the Job is gone while
    its Pod runs on, never deleted by the controller.  (With every Pod event delivered the
    statement is the theorem c13_job_removed_after_tasks / c13_pod_cache_covers_api.)  The same
    history is the corpus case F4c-finalizer-dropped-while-tasks-exist of the job stream. *)
Theorem c13_job_removed_after_tasks_refuted :
  exists cfg j0 now ops,
    let w := jrun_world cfg (init_jworld j0 now) ops in
    api_job w = None /\
    map (fun p => (p_name p, p_deletion p, p_controlled p)) (api_pods w) = [("j-aaaaaa-0"%string, None, true)].
Proof.
  exists (mkCfg (Some 900) (Some 900) (Some 3600)),
    (mkJob ["aaaaaa"%string] false AllSuccessful 2 0 false false None false None None false true None (Some 10)
           [] 0 0 None (CWaiting WPendingCreation) PhStarting SWaiting), 100,
    [JSync; JKubelet "j-aaaaaa-0" KSchedule; JKubelet "j-aaaaaa-0" KRun;
     JDelete; JAdvanceJob 9; JSync; JAdvanceJob 9; JSync].
  vm_compute. split; reflexivity.
Qed.
Print Assumptions c13_job_removed_after_tasks_refuted.
