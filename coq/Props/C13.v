(** C13 — a Job disappears only after its tasks are gone; TTL deletion is never early. *)
From Furiko Require Import Job.Core Job.Sync Proofs.JobP Proofs.SyncP.

(** The pass removes the delete-dependents finalizer only from a Job that is being
    deleted, and only when no task named in its status is present in the Pod cache.  (The
    API server removes the Job object when its last finalizer goes away: api_update_job.)
    With a Pod cache that covers the API this means "only after every listed task is
    gone"; with a lagging Pod cache the finalizer can be dropped while Pods exist - finding
    F4c, reproduced by the job stream's scripted corpus. *)
Theorem c13_finalizer_order :
  forall s j now s' j' ok,
    handle_finalizer s j now = (s', j', ok) ->
    j_finalizer j = true -> j_finalizer j' = false ->
    j_deletion j <> None /\
    forall r, In r (j_tasks j) -> find_pod (tr_name r) (cache_pods (ps_w s)) = None.
Proof. exact finalizer_order. Qed.
Print Assumptions c13_finalizer_order.

(** The controller deletes a Job only if it is finished, not already being deleted, and
    finish time + effective TTL (Job value, else controller default) <= now. *)
Theorem c13_ttl_not_early :
  forall cfg s j now s' ok,
    handle_ttl cfg s j now = (s', ok) ->
    exists l, added s s' l /\
      forall a, In a l -> exists o r f lc lr, a = ADeleteJob o /\
        j_deletion j = None /\ j_cond j = CFinished r f lc lr /\
        (match f with Some t => t | None => -62135596800 end) + ttl_after_finished cfg j <= now.
Proof. exact handle_ttl_guard. Qed.
Print Assumptions c13_ttl_not_early.

Theorem c13_ttl_effective_value :
  forall cfg j,
    ttl_after_finished cfg j =
    match j_ttl j with Some t => t | None => match cfg_ttl cfg with Some d => d | None => 0 end end.
Proof. reflexivity. Qed.
Print Assumptions c13_ttl_effective_value.

(** a finished, not deleted Job with a stored TTL arms a deferred re-sync in every pass *)
Theorem c13_ttl_armed :
  forall now s j r f lc lr t,
    j_cond (update_status_from_refs now j) = CFinished r f lc lr -> j_deletion j = None -> j_ttl j = Some t ->
    ps_armed (fst (sync_status now s j)) = true.
Proof.
  intros now s j r f lc lr t Hc Hd Ht. unfold sync_status, ttl_arms. rewrite Hc.
  change (j_deletion (update_status_from_refs now j)) with (j_deletion j).
  change (j_ttl (update_status_from_refs now j)) with (j_ttl j).
  now rewrite Hd, Ht.
Qed.
Print Assumptions c13_ttl_armed.

(** Non-vacuity: deleting Job whose only task's Pod is still cached: Pod deleted,
    finalizer kept; once the cache no longer has it the finalizer goes. *)
Open Scope string_scope.
Definition ex_pod := mkPod "j-gezdqo-0" "gezdqo" 0 100 true PRunning false None (Some 101) (Some 102) None.
Definition ex_job := mkJob ["gezdqo"] false AllSuccessful 1 0 false false None false None None false true (Some 200) (Some 90)
  [mkRef "j-gezdqo-0" "gezdqo" 0 100 (Some 102) None (mkSt TRunning RNone ReNone) None] 1 1 None (CRunning 0 None None) PhRunning SRunning.
Definition ex_world (cache : list pod) := mkJW (Some ex_job) 1 [ex_pod] ["j-gezdqo-0"] (Some ex_job) 1 [] cache [] 201 [].
Example c13_nonvacuous :
  (let '(s, j, ok) := handle_finalizer (mkPS (ex_world [ex_pod]) [] false []) ex_job 201 in (ps_actions s, j_finalizer j))
  = ([ADelete "j-gezdqo-0" false 0], true) /\
  (let '(s, j, ok) := handle_finalizer (mkPS (ex_world []) [] false []) ex_job 201 in (ps_actions s, j_finalizer j))
  = ([], false).
Proof. split; vm_compute; reflexivity. Qed.
