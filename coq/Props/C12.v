(** C12 — kill and pending-timeout deadlines stop tasks, never early, and end the Job. *)
From Furiko Require Import Job.Core Job.Sync Job.World Proofs.JobP Proofs.SyncP Proofs.SweepP Proofs.HistoryP.

(** The kill sweep deletes only when the kill timestamp has passed (<= now) or the
    completion strategy is decided, and only tasks that are neither finished nor already
    being deleted; before the kill timestamp it does nothing at all. *)
Theorem c12_kill_guard :
  forall s j tasks now s' j' ok,
    handle_kill s j tasks now = (s', j', ok) ->
    exists l, added s s' l /\
      (l <> [] -> should_kill now j = true) /\
      forall a, In a l -> exists n o p, a = ADelete n false o /\ In p tasks /\ p_name p = n /\
                                    pod_finish_ts p = None /\ p_deletion p = None.
Proof. exact handle_kill_guard. Qed.
Print Assumptions c12_kill_guard.

Theorem c12_kill_not_early :
  forall s j tasks now, should_kill now j = false -> handle_kill s j tasks now = (s, j, true).
Proof. exact kill_not_early. Qed.
Print Assumptions c12_kill_not_early.

Theorem c12_should_kill_means :
  forall now j, should_kill now j = true ->
    (exists k, j_kill j = Some k /\ k <= now) \/ should_kill_parallel j = true.
Proof. exact should_kill_cases. Qed.
Print Assumptions c12_should_kill_means.

(** no task is created once a kill timestamp exists (whether or not it has passed) *)
Theorem c12_no_create_after_kill :
  forall s j tasks now k, j_kill j = Some k -> sync_create_tasks s j tasks now = (s, j, tasks, CrOk).
Proof. intros s j tasks now k H. apply create_gate. unfold can_create_task. now rewrite H. Qed.
Print Assumptions c12_no_create_after_kill.

(** once the kill timestamp has passed a started Job is Killed as soon as every index is
    terminated (AdmissionError wins if the annotation is set) *)
Theorem c12_kill_terminal :
  forall now j k s,
    j_adm_err j = false -> j_start j = Some s -> j_kill j = Some k -> k <= now ->
    let c := get_counters (index_statuses (j_indexes j) (j_tasks j) (j_max_attempts j)) in
    Z.of_nat (List.length (j_indexes j)) <= c_terminated c ->
    exists f lc lr, get_condition now j = CFinished JKilled f lc lr.
Proof.
  intros now j k s Ha Hs Hk Hle c Hterm. unfold get_condition. rewrite Ha, Hs, Hk.
  destruct (summary _ _ _ _) as [complete successful].
  replace (k <=? now) with true by (symmetry; now apply Z.leb_le).
  fold c. replace (Z.of_nat (List.length (j_indexes j)) <=? c_terminated c) with true
    by (symmetry; now apply Z.leb_le).
  eexists _, _, _. reflexivity.
Qed.
Print Assumptions c12_kill_terminal.

(** The pending reaper deletes a task only if the effective pending timeout is positive,
    the task was created at least that long ago, and it has neither started running nor
    finished nor is already being deleted; a timeout of 0 disables it; the effective value
    is the Job's (if >= 0) else the controller default. *)
Theorem c12_pending_guard :
  forall cfg s j tasks now s' j' ok,
    handle_pending cfg s j tasks now = (s', j', ok) ->
    exists l, added s s' l /\
      forall a, In a l -> exists n o p, a = ADelete n false o /\ In p tasks /\ p_name p = n /\
        0 < pending_timeout cfg j /\ p_created p + pending_timeout cfg j <= now /\
        p_cont_start p = None /\ pod_finish_ts p = None /\ p_deletion p = None.
Proof. exact handle_pending_guard. Qed.
Print Assumptions c12_pending_guard.

Theorem c12_pending_disabled :
  forall cfg s j tasks now, pending_timeout cfg j <= 0 -> handle_pending cfg s j tasks now = (s, j, true).
Proof. exact pending_disabled. Qed.
Print Assumptions c12_pending_disabled.

Theorem c12_pending_effective_value :
  forall cfg j,
    pending_timeout cfg j =
    match j_pending_timeout j with
    | Some t => if 0 <=? t then t else match cfg_pending cfg with Some d => d | None => 0 end
    | None => match cfg_pending cfg with Some d => d | None => 0 end
    end.
Proof. reflexivity. Qed.
Print Assumptions c12_pending_effective_value.

(** Force deletion happens only with a positive force-delete timeout, never when the Job
    forbids it, and only deletionTimestamp + timeout <= now. *)
Theorem c12_force_guard :
  forall cfg s j tasks now s' j' ok,
    handle_force cfg s j tasks now = (s', j', ok) ->
    exists l, added s s' l /\
      forall a, In a l -> exists n o p d, a = ADelete n true o /\ In p tasks /\ p_name p = n /\
        0 < force_timeout cfg /\ j_forbid_force j = false /\
        p_deletion p = Some d /\ d + force_timeout cfg <= now.
Proof. exact handle_force_guard. Qed.
Print Assumptions c12_force_guard.

(** "every task still alive is deleted": once the Job is to be killed, the pass issues a delete
    for every task it sees that is neither finished nor already being deleted - whatever each
    call's outcome (a failed call fails the pass, which is then retried) *)
Theorem c12_kill_sweep_complete :
  forall s j tasks now s' j' ok,
    handle_kill s j tasks now = (s', j', ok) -> should_kill now j = true ->
    forall p, In p tasks -> pod_finish_ts p = None -> p_deletion p = None ->
      exists o, In (ADelete (p_name p) false o) (ps_actions s').
Proof. exact kill_sweep_complete. Qed.
Print Assumptions c12_kill_sweep_complete.

(** ... and every task that has not begun running within the (positive) pending timeout *)
Theorem c12_pending_sweep_complete :
  forall cfg s j tasks now s' j' ok,
    handle_pending cfg s j tasks now = (s', j', ok) -> 0 < pending_timeout cfg j ->
    forall p, In p tasks -> pod_finish_ts p = None -> p_cont_start p = None -> p_deletion p = None ->
      p_created p + pending_timeout cfg j <= now ->
      exists o, In (ADelete (p_name p) false o) (ps_actions s').
Proof. exact pending_sweep_complete. Qed.
Print Assumptions c12_pending_sweep_complete.

(** deadlines that only time can trigger arm a deferred re-sync: a task still inside its
    pending timeout, a task being deleted and still inside the force-delete timeout *)
Theorem c12_pending_armed :
  forall cfg s j tasks now s' j' ok,
    handle_pending cfg s j tasks now = (s', j', ok) -> 0 < pending_timeout cfg j ->
    forall p, In p tasks -> pod_finish_ts p = None -> p_cont_start p = None ->
      now < p_created p + pending_timeout cfg j -> ps_armed s' = true.
Proof. exact pending_armed. Qed.
Print Assumptions c12_pending_armed.

Theorem c12_force_armed :
  forall cfg s j tasks now s' j' ok,
    handle_force cfg s j tasks now = (s', j', ok) -> 0 < force_timeout cfg -> j_forbid_force j = false ->
    forall p t, In p tasks -> p_deletion p = Some t -> now < t + force_timeout cfg -> ps_armed s' = true.
Proof. exact force_armed. Qed.
Print Assumptions c12_force_armed.

(** Non-vacuity: a pending Pod past its timeout is deleted and its ref is marked Killed /
    PendingTimeout (counts as a finished attempt once the Pod is gone). *)
Open Scope string_scope.
Definition ex_pod := mkPod "j-gezdqo-0" "gezdqo" 0 100 true PPending false None None None None.
Definition ex_job := mkJob ["gezdqo"] false AllSuccessful 2 0 false false None false None (Some 30) false true None (Some 90)
  [mkRef "j-gezdqo-0" "gezdqo" 0 100 None None (mkSt TStarting RNone ReNone) None] 1 0 None (CWaiting WWaitingForTasks) PhPending SWaiting.
Definition ex_world := mkJW (Some ex_job) 1 [ex_pod] [] (Some ex_job) 1 [] [ex_pod] [] 131 [].
Example c12_nonvacuous :
  let '(s, j, ok) := handle_pending (mkCfg (Some 900) None None) (mkPS ex_world [] false []) ex_job [ex_pod] 131 in
  (ps_actions s, map tr_deleted (j_tasks j), ok)
  = ([ADelete "j-gezdqo-0" false 0], [Some (mkSt TTerminated RKilled RePendingTimeout)], true).
Proof. vm_compute. reflexivity. Qed.


(** REFUTED on the faithful model (finding F10): "a killed Job ends with none of its tasks
    alive" is false over histories.  The user sets the kill timestamp; the pass still runs on
    the cached Job without it, creates the task, and its status write conflicts with the
    user's edit - the new task is recorded nowhere.  The next pass sees the kill timestamp,
    may not create, rebuilds the task list from the recorded tasks only (none), and reports
    the Job Killed: finished, with its Pod alive, unrecorded and never deleted.  (The per-pass
    sweep theorems above speak of the tasks the pass has in its list; this Pod never enters
    it.)  Reported by the monitor as the known finding C12/unrecorded-task-alive-after-kill. *)
Theorem c12_killed_job_leaves_no_task_alive_refuted :
  exists cfg j0 now ops,
    let w := HistoryP.jrun_world cfg (init_jworld j0 now) ops in
    option_map (fun a => (j_phase a, map tr_name (j_tasks a))) (api_job w) = Some (PhKilled, []) /\
    map (fun p => (p_name p, p_deletion p, p_controlled p)) (api_pods w) = [("j-aaaaaa-0"%string, None, true)].
Proof.
  exists (mkCfg (Some 900) (Some 900) (Some 3600)),
    (mkJob ["aaaaaa"%string] false AllSuccessful 2 0 false false None false None None false true None (Some 10)
           [] 0 0 None (CWaiting WPendingCreation) PhStarting SWaiting), 100,
    [JKill 100; JSync; JAdvanceJob 9; JAdvancePods 9; JClock 105; JSync; JAdvanceJob 9; JAdvancePods 9; JSync;
     JAdvanceJob 9; JAdvancePods 9; JSync].
  vm_compute. split; reflexivity.
Qed.
Print Assumptions c12_killed_job_leaves_no_task_alive_refuted.
