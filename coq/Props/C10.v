(** C10 — a Job's final result is exactly what its tasks' outcomes and the completion
    strategy imply.  Statements over ALL lists of recorded task refs, parallelism shapes
    (as index hash lists), strategies and maxAttempts. *)
From Furiko Require Import Job.Core Proofs.JobP.

(** Succeeded only if the strategy is satisfied by tasks that really have result
    Succeeded: AllSuccessful - every index has one; AnySuccessful - some index has. *)
Theorem c10_success_sound :
  forall now j f lc lr,
    j_adm_err j = false -> j_start j <> None ->
    get_condition now j = CFinished JSuccess f lc lr ->
    j_kill j = None /\
    match j_strategy j with
    | AllSuccessful => forall h, In h (j_indexes j) -> idx_succeeded h (j_tasks j)
    | AnySuccessful => exists h, In h (j_indexes j) /\ idx_succeeded h (j_tasks j)
    end.
Proof.
  intros now j f lc lr Ha Hs Hc.
  destruct (result_is_decision now j JSuccess f lc lr Ha Hs Hc) as [H _].
  destruct (H eq_refl) as [Hk Hsum]. split; auto.
  exact (summary_success_sound _ _ _ _ Hsum).
Qed.
Print Assumptions c10_success_sound.

(** Failed only if the strategy can no longer be satisfied: AllSuccessful - some index
    has used all its attempts without success; AnySuccessful - every index has. *)
Theorem c10_failed_sound :
  forall now j f lc lr,
    j_adm_err j = false -> j_start j <> None ->
    get_condition now j = CFinished JFailed f lc lr ->
    j_kill j = None /\
    match j_strategy j with
    | AllSuccessful => exists h, In h (j_indexes j) /\ idx_exhausted h (j_tasks j) (j_max_attempts j)
    | AnySuccessful => forall h, In h (j_indexes j) -> idx_exhausted h (j_tasks j) (j_max_attempts j)
    end.
Proof.
  intros now j f lc lr Ha Hs Hc.
  destruct (result_is_decision now j JFailed f lc lr Ha Hs Hc) as [_ H].
  destruct (H eq_refl) as [Hk Hsum]. split; auto.
  exact (summary_failed_sound _ _ _ _ Hsum).
Qed.
Print Assumptions c10_failed_sound.

(** the two outcomes exclude each other; "decided" is the same as "complete" *)
Theorem c10_exclusive :
  forall indexes m tasks, indexes <> [] ->
    let c := get_counters (index_statuses indexes tasks m) in
    let n := Z.of_nat (List.length indexes) in
    ~ (n <= c_succeeded c /\ 0 < c_failed c) /\ ~ (0 < c_succeeded c /\ n <= c_failed c).
Proof. exact summary_exclusive. Qed.
Print Assumptions c10_exclusive.

Theorem c10_decided_iff_complete :
  forall indexes strat m tasks,
    fst (summary indexes strat m tasks) = true <-> exists b, snd (summary indexes strat m tasks) = Some b.
Proof. exact summary_complete_iff. Qed.
Print Assumptions c10_decided_iff_complete.

(** a started Job without admission error is reported finished only when every recorded
    task of every index has a finish time *)
Theorem c10_finished_no_live :
  forall now j r f lc lr,
    j_adm_err j = false -> j_start j <> None ->
    get_condition now j = CFinished r f lc lr ->
    forall t, In t (j_tasks j) -> In (tr_hash t) (j_indexes j) -> tr_finish t <> None.
Proof. exact finished_no_live. Qed.
Print Assumptions c10_finished_no_live.

(** Pod -> task result: Succeeded is reported only for a Pod in phase Succeeded that was
    not OOM-killed *)
Theorem c10_succeeded_real :
  forall p, pod_result p = RSucceeded -> p_phase p = PSucceeded /\ p_oom p = false.
Proof.
  intros p. unfold pod_result. destruct (p_oom p); [discriminate|].
  destruct (p_phase p); try discriminate. auto.
Qed.
Print Assumptions c10_succeeded_real.

(** Non-vacuity: AnySuccessful over two indexes, one success after a failure. *)
Open Scope string_scope.
Definition ex_ok := mkSt TTerminated RSucceeded RePod.
Definition ex_ko := mkSt TTerminated RFailed RePod.
Definition ex_job := mkJob ["aaaaaa"; "bbbbbb"] true AnySuccessful 2 0 false false None false None None false true
  None (Some 10)
  [mkRef "j-aaaaaa-0" "aaaaaa" 0 11 (Some 12) (Some 20) ex_ko (Some ex_ko);
   mkRef "j-aaaaaa-1" "aaaaaa" 1 21 (Some 22) (Some 30) ex_ok (Some ex_ok);
   mkRef "j-bbbbbb-0" "bbbbbb" 0 11 (Some 12) (Some 25) ex_ko (Some ex_ko);
   mkRef "j-bbbbbb-1" "bbbbbb" 1 26 (Some 27) (Some 29) ex_ko (Some ex_ko)]
  4 0 None (CQueueing QNone) PhQueued SQueued.
Example c10_nonvacuous :
  get_condition 100 ex_job = CFinished JSuccess (Some 30) (Some 26) (Some 27).
Proof. vm_compute. reflexivity. Qed.
