(** C10 — a Job's final result is exactly what its tasks' outcomes and the completion
    strategy imply.  Statements over ALL lists of recorded task refs, parallelism shapes
    (as index hash lists), strategies and maxAttempts. *)
From Furiko Require Import Job.Core Proofs.JobP.
From Furiko Require Job.Sync Job.World Proofs.HistoryP Proofs.SuccessP.

(** Succeeded only if the strategy is satisfied by tasks that really have result
    Succeeded: AllSuccessful - every index has one; AnySuccessful - some index has. *)
Theorem c10_success_sound :
  forall now j f lc lr,
    j_adm_err j = false -> j_start j <> None ->
    get_condition now j = CFinished JSuccess f lc lr ->
    j_kill j = None /\
    match j_strategy j with
    | AllSuccessful => forall h, In h (j_indexes j) -> idx_succeeded h (j_tasks j)
    | AnySuccessful => exists h, In h (j_indexes j) /\ idx_succeeded h (j_tasks j)
    end.
Proof.
  intros now j f lc lr Ha Hs Hc.
  destruct (result_is_decision now j JSuccess f lc lr Ha Hs Hc) as [H _].
  destruct (H eq_refl) as [Hk Hsum]. split; auto.
  exact (summary_success_sound _ _ _ _ Hsum).
Qed.
Print Assumptions c10_success_sound.

(** Failed only if the strategy can no longer be satisfied: AllSuccessful - some index
    has used all its attempts without success; AnySuccessful - every index has. *)
Theorem c10_failed_sound :
  forall now j f lc lr,
    j_adm_err j = false -> j_start j <> None ->
    get_condition now j = CFinished JFailed f lc lr ->
    j_kill j = None /\
    match j_strategy j with
    | AllSuccessful => exists h, In h (j_indexes j) /\ idx_exhausted h (j_tasks j) (j_max_attempts j)
    | AnySuccessful => forall h, In h (j_indexes j) -> idx_exhausted h (j_tasks j) (j_max_attempts j)
    end.
Proof.
  intros now j f lc lr Ha Hs Hc.
  destruct (result_is_decision now j JFailed f lc lr Ha Hs Hc) as [_ H].
  destruct (H eq_refl) as [Hk Hsum]. split; auto.
  exact (summary_failed_sound _ _ _ _ Hsum).
Qed.
Print Assumptions c10_failed_sound.

(** the two outcomes exclude each other; "decided" is the same as "complete" *)
Theorem c10_exclusive :
  forall indexes m tasks, indexes <> [] ->
    let c := get_counters (index_statuses indexes tasks m) in
    let n := Z.of_nat (List.length indexes) in
    ~ (n <= c_succeeded c /\ 0 < c_failed c) /\ ~ (0 < c_succeeded c /\ n <= c_failed c).
Proof. exact summary_exclusive. Qed.
Print Assumptions c10_exclusive.

Theorem c10_decided_iff_complete :
  forall indexes strat m tasks,
    fst (summary indexes strat m tasks) = true <-> exists b, snd (summary indexes strat m tasks) = Some b.
Proof. exact summary_complete_iff. Qed.
Print Assumptions c10_decided_iff_complete.

(** a started Job without admission error is reported finished only when every recorded
    task of every index has a finish time *)
Theorem c10_finished_no_live :
  forall now j r f lc lr,
    j_adm_err j = false -> j_start j <> None ->
    get_condition now j = CFinished r f lc lr ->
    forall t, In t (j_tasks j) -> In (tr_hash t) (j_indexes j) -> tr_finish t <> None.
Proof. exact finished_no_live. Qed.
Print Assumptions c10_finished_no_live.

(** Pod -> task result: Succeeded is reported only for a Pod in phase Succeeded that was
    not OOM-killed *)
Theorem c10_succeeded_real :
  forall p, pod_result p = RSucceeded -> p_phase p = PSucceeded /\ p_oom p = false.
Proof.
  intros p. unfold pod_result. destruct (p_oom p); [discriminate|].
  destruct (p_phase p); try discriminate. auto.
Qed.
Print Assumptions c10_succeeded_real.

(** Non-vacuity: AnySuccessful over two indexes, one success after a failure. *)
Open Scope string_scope.
Definition ex_ok := mkSt TTerminated RSucceeded RePod.
Definition ex_ko := mkSt TTerminated RFailed RePod.
Definition ex_job := mkJob ["aaaaaa"; "bbbbbb"] true AnySuccessful 2 0 false false None false None None false true
  None (Some 10)
  [mkRef "j-aaaaaa-0" "aaaaaa" 0 11 (Some 12) (Some 20) ex_ko (Some ex_ko);
   mkRef "j-aaaaaa-1" "aaaaaa" 1 21 (Some 22) (Some 30) ex_ok (Some ex_ok);
   mkRef "j-bbbbbb-0" "bbbbbb" 0 11 (Some 12) (Some 25) ex_ko (Some ex_ko);
   mkRef "j-bbbbbb-1" "bbbbbb" 1 26 (Some 27) (Some 29) ex_ko (Some ex_ko)]
  4 0 None (CQueueing QNone) PhQueued SQueued.
Example c10_nonvacuous :
  get_condition 100 ex_job = CFinished JSuccess (Some 30) (Some 26) (Some 27).
Proof. vm_compute. reflexivity. Qed.


(** * over histories: "Succeeded" is real
    For every history of the one-Job world (passes against lagging or emptied caches, kubelet
    steps, foreign Pods, kill / delete, injected failures and conflicts): a task recorded in
    the Job's status in the API with result Succeeded - in its status or in its tombstone - is
    the name of a Pod that at some moment of that history was in the API in phase Succeeded
    and not OOM-killed (or was recorded so in the Job the history started from).  With
    [c10_success_sound] above: a Job is reported Succeeded only on the strength of Pods that
    really succeeded.  (The Pod is found by name: a foreign Pod on a recorded name counts,
    finding F16.) *)
Theorem c10_recorded_success_is_real :
  forall cfg j0 now ops a r,
    Sync.api_job (HistoryP.jrun_world cfg (World.init_jworld j0 now) ops) = Some a -> In r (j_tasks a) ->
    (st_result (tr_status r) = RSucceeded \/ exists d, tr_deleted r = Some d /\ st_result d = RSucceeded) ->
    SuccessP.really_succeeded cfg j0 now ops (tr_name r).
Proof. exact SuccessP.recorded_success_is_real. Qed.
Print Assumptions c10_recorded_success_is_real.

Definition ex_hist_job : job :=
  mkJob ["aaaaaa"%string] false AllSuccessful 1 0 false false None false None None false true None (Some 10)
        [] 0 0 None (CWaiting WPendingCreation) PhStarting SWaiting.
Example c10_history_nonvacuous :
  let cfg := Sync.mkCfg (Some 900) (Some 900) (Some 3600) in
  let ops := [World.JSync; World.JAdvanceJob 5; World.JAdvancePods 5;
              World.JKubelet "j-aaaaaa-0" World.KSchedule; World.JKubelet "j-aaaaaa-0" World.KRun;
              World.JKubelet "j-aaaaaa-0" World.KSucceed; World.JAdvancePods 5; World.JSync] in
  option_map (fun a => (map (fun r => (tr_name r, st_result (tr_status r))) (j_tasks a), j_phase a))
             (Sync.api_job (HistoryP.jrun_world cfg (World.init_jworld ex_hist_job 100) ops))
  = Some ([("j-aaaaaa-0"%string, RSucceeded)], PhSucceeded).
Proof. vm_compute. reflexivity. Qed.


(** REFUTED on the faithful model (finding F15): "a finished Job has no live task" is false
    over histories.  Two indexes, one attempt each; a foreign Pod occupies the task name of
    index bbbbbb.  The pass creates the task of index aaaaaa, then the create for bbbbbb hits
    the foreign Pod: the Job is refused with an admission error - finished - by a status
    that does not even list the Pod the same pass created, and nothing ever deletes that Pod:
    it runs on under a finished Job.  The same history is the corpus case
    F15-admission-error-leaves-tasks of the job stream. *)
Theorem c10_finished_without_live_task_refuted :
  exists cfg j0 now ops,
    let w := HistoryP.jrun_world cfg (Job.World.init_jworld j0 now) ops in
    option_map (fun a => (Job.Core.j_phase a, map Job.Core.tr_name (Job.Core.j_tasks a))) (Job.Sync.api_job w)
      = Some (Job.Core.PhAdmissionError, []) /\
    In ("j-aaaaaa-0"%string, Job.Core.PRunning, None, true)
       (map (fun p => (Job.Core.p_name p, Job.Core.p_phase p, Job.Core.p_deletion p, Job.Core.p_controlled p)) (Job.Sync.api_pods w)).
Proof.
  exists (Job.Sync.mkCfg (Some 900) (Some 900) (Some 3600)),
    (Job.Core.mkJob ["aaaaaa"%string; "bbbbbb"%string] false Job.Core.AllSuccessful 1 0 false false None false None None false true None (Some 10)
           [] 0 0 None (Job.Core.CWaiting Job.Core.WPendingCreation) Job.Core.PhStarting Job.Core.SWaiting), 100%Z,
    [Job.World.JForeign "bbbbbb" 0; Job.World.JAdvanceJob 9; Job.World.JAdvancePods 9; Job.World.JSync;
     Job.World.JKubelet "j-aaaaaa-0" Job.World.KSchedule; Job.World.JKubelet "j-aaaaaa-0" Job.World.KRun;
     Job.World.JAdvanceJob 9; Job.World.JAdvancePods 9; Job.World.JSync; Job.World.JAdvanceJob 9; Job.World.JAdvancePods 9; Job.World.JSync].
  vm_compute. split; [reflexivity|]. right. left. reflexivity.
Qed.
Print Assumptions c10_finished_without_live_task_refuted.
