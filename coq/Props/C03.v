(** C03 — cron scheduling follows JobConfig create/update/enable/disable/delete. *)
From Furiko Require Import Cron.Sched Proofs.OracleP Proofs.HeapP Proofs.WorkerP Proofs.CronP.

(** Which informer events re-base the heap: schedule-changing updates and deletes do,
    status-only updates do not — and neither do Adds (see c03_start_on_create_refuted). *)
Theorem c03_events :
  forall chan jc,
    handle_event (EvUpdate jc true) chan = chan ++ [jc] /\
    handle_event (EvUpdate jc false) chan = chan /\
    handle_event (EvDelete jc) chan = chan ++ [jc] /\
    handle_event (EvAdd jc) chan = chan.
Proof. intros; repeat split; reflexivity. Qed.
Print Assumptions c03_events.

(** The tick that processes a JobConfig's flush re-bases it on the flushed object only:
    its entry becomes the first fire time of the NEW schedule strictly after the tick's
    clock, and nothing is requested for it in that tick (nothing back-dated, nothing from
    the old schedule).  [settled]: the flushed object is the lister's current one. *)
Theorem c03_new_only :
  forall L maxc now h chan st' reqs oof k jc,
    lister_ok L -> keys_nodup h ->
    (forall k p, h_find k h = Some p -> last_flush k chan = None ->
       match lookup k L with Some jc => In p (fires_of jc) | None => True end) ->
    Forall (settled L) chan -> (length chan <= 1000)%nat ->
    work L maxc now (mkW h chan) = (st', reqs, oof) ->
    last_flush k chan = Some jc -> lookup k L = Some jc ->
    reqs_of k reqs = [] /\ h_find k (w_heap st') = first_after now (fires_of jc).
Proof. exact flush_rebases. Qed.
Print Assumptions c03_new_only.

(** ... and from then on it is scheduled by C01's specification for the new object
    (c01_population applies to the heap left by that tick, which is heap_ok). *)
Theorem c03_then_c01 :
  forall L maxc now h chan st' reqs oof,
    lister_ok L -> keys_nodup h ->
    (forall k p, h_find k h = Some p -> last_flush k chan = None ->
       match lookup k L with Some jc => In p (fires_of jc) | None => True end) ->
    Forall (settled L) chan -> (length chan <= 1000)%nat ->
    work L maxc now (mkW h chan) = (st', reqs, oof) ->
    oof = false /\ w_chan st' = [] /\ heap_ok L (w_heap st').
Proof.
  intros L maxc now h chan st' reqs oof HL Hn Hh Hs Hl Hw.
  destruct (work_tick_flush _ _ _ _ _ _ _ _ HL Hn Hh Hs Hl Hw) as (h1 & _ & H1 & H2 & H3 & _). auto.
Qed.
Print Assumptions c03_then_c01.

(** Several edits of one JobConfig between two ticks: whatever is in flight, the re-base at
    the start of the next tick processes the flushes in arrival order, so the entry of every
    flushed key is that of the LAST object flushed for it (first fire time of that object's
    schedule strictly after the tick's clock, or no entry); keys without a flush keep theirs *)
Theorem c03_last_update_wins :
  forall now chan n h h1 chan1,
    (length chan <= n)%nat -> Forall jc_sorted chan -> keys_nodup h ->
    refresh n h chan now = (h1, chan1) ->
    chan1 = [] /\ keys_nodup h1 /\
    forall k, h_find k h1 =
      match last_flush k chan with
      | Some jc => first_after now (fires_of jc)
      | None => h_find k h
      end.
Proof. exact refresh_spec. Qed.
Print Assumptions c03_last_update_wins.

(** disabling / removing the cron schedule: the flushed object has no fire times, so
    the key leaves the heap *)
Theorem c03_stop_on_disable :
  forall jc now, jc_active jc = false -> first_after now (fires_of jc) = None.
Proof. intros jc now H. now rewrite (fires_of_inactive jc H). Qed.
Print Assumptions c03_stop_on_disable.

(** a deleted JobConfig is never requested again, whatever is left in the heap (the
    re-inserted phantom entry is popped and dropped) *)
Theorem c03_stop_on_delete :
  forall L maxc nows h k,
    lister_ok L -> heap_ok L h -> lookup k L = None ->
    Forall (fun reqs => reqs_of k reqs = []) (tick_run L maxc h nows).
Proof. exact tick_run_deleted. Qed.
Print Assumptions c03_stop_on_delete.

(** REFUTED on the faithful model (finding F1): a JobConfig created while the controller
    runs is never scheduled — Add events have no handler.  Witness: every-minute schedule
    created after Init, two ticks well past its fire times, no request. *)
Definition f1_jc := mkJC 1 true [[60; 120; 180; 240]] None None None None.
Theorem c03_start_on_create_refuted :
  exists ops, In (OCreate f1_jc) ops /\
    map (fun o => fst (fst o)) (run init_world ops) = map (fun _ => []) ops /\
    fires f1_jc 120.
Proof.
  exists [OInit 300 (ns 10); OCreate f1_jc; ODeliver; OTick None (ns 130); OTick None (ns 250)].
  split; [simpl; tauto|]. split; [vm_compute; reflexivity|].
  unfold fires, matches, inwin. simpl. repeat split; auto. exists [60; 120; 180; 240]. simpl. tauto.
Qed.
Print Assumptions c03_start_on_create_refuted.

(** REFUTED (finding F2): delete + re-create with another schedule fires once at a time
    of the OLD schedule for the new object (the delete's flush re-inserts the deleted
    object; the phantom entry is popped after the re-creation). *)
Definition f2_old := mkJC 1 true [[100; 200]] None None None None.
Definition f2_new := mkJC 1 true [[150]] None None None None.
Theorem c03_recreate_refuted :
  exists ops, concat (map (fun o => fst (fst o)) (run init_world ops)) = [(1, 100)] /\
    ~ fires f2_new 100.
Proof.
  exists [OCreate f2_old; OInit 300 (ns 10); ODelete 1; ODeliver; OCreate f2_new; ODeliver;
          OTick None (ns 50); OTick None (ns 120)].
  split; [vm_compute; reflexivity|].
  unfold fires, matches. simpl. intros (_ & (e & [<-|[]] & [H|[]]) & _). discriminate.
Qed.
Print Assumptions c03_recreate_refuted.

(** Non-vacuity of c03_new_only: a flush of a settled object in a heap that still
    carries the old entry. *)
Definition ex_old := mkJC 1 true [[100; 200; 300]] None None None None.
Definition ex_new := mkJC 1 true [[130; 250]] None None None (Some (ns 120)).
Example c03_nonvacuous :
  settled [ex_new] ex_new /\
  (let '(st, reqs, oof) := work [ex_new] 5 (ns 140) (mkW [(1, 200)] [ex_new]) in
   (w_heap st, reqs, oof)) = ([(1, 250)], [], false).
Proof.
  split; [|vm_compute; reflexivity].
  split; [unfold jc_sorted; simpl; repeat constructor|left; reflexivity].
Qed.
