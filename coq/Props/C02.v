(** C02 — at most one Job per (JobConfig, schedule time).  Statements only; every
    proof is [exact <lemma>] and is followed by Print Assumptions. *)
From Furiko Require Import Base.Str Cron.Keys Cron.Recon Proofs.KeysP Proofs.ReconP.
Open Scope list_scope.

(** The work-item key round-trips for every key text (dots included) and every
    int64 schedule time. *)
Theorem c02_key_roundtrip :
  forall key t, is_int64 t = true -> split_key (join_key key t) = Some (key, t).
Proof. exact split_join. Qed.
Print Assumptions c02_key_roundtrip.

Theorem c02_key_injective :
  forall k1 t1 k2 t2, join_key k1 t1 = join_key k2 t2 -> k1 = k2 /\ t1 = t2.
Proof. exact join_key_inj. Qed.
Print Assumptions c02_key_injective.

(** The Job name is an injective function of (JobConfig name, schedule time). *)
Theorem c02_name_injective :
  forall n1 t1 n2 t2, 0 <= t1 -> 0 <= t2 ->
    gen_name n1 t1 = gen_name n2 t2 -> n1 = n2 /\ t1 = t2.
Proof. exact gen_name_inj. Qed.
Print Assumptions c02_name_injective.

(** The reconciler under its retry loop, for every history of schedule requests (duplicates,
    re-deliveries in any order, malformed keys), Job-cache lag and loss (restart), create
    failures (server error, invalid, AlreadyExists), JobConfig changes and Job deletions:
    in every reachable state at most one Job exists per JobConfig name and schedule time. *)
Theorem c02_at_most_one :
  forall ops j1 j2,
    let w := rrun_world init_rworld ops in
    In j1 (rw_api w) -> In j2 (rw_api w) ->
    cj_owner_name j1 = cj_owner_name j2 -> cj_ann j1 = cj_ann j2 -> j1 = j2.
Proof. exact at_most_one. Qed.
Print Assumptions c02_at_most_one.

(** ... and per JobConfig UID, as the property is worded, whenever a UID is only ever used
    under one JobConfig name (Kubernetes never reuses a UID) *)
Theorem c02_at_most_one_per_uid :
  forall ops j1 j2,
    let w := rrun_world init_rworld ops in
    (forall a b, In a (rw_api w) -> In b (rw_api w) -> cj_owner_uid a = cj_owner_uid b -> cj_owner_name a = cj_owner_name b) ->
    In j1 (rw_api w) -> In j2 (rw_api w) ->
    cj_owner_uid j1 = cj_owner_uid j2 -> cj_ann j1 = cj_ann j2 -> j1 = j2.
Proof. exact at_most_one_per_uid. Qed.
Print Assumptions c02_at_most_one_per_uid.

(** identity of every Job in every reachable state *)
Theorem c02_identity :
  forall ops j, In j (rw_api (rrun_world init_rworld ops)) ->
    exists t, cj_name j = gen_name (cj_owner_name j) t /\ cj_ann j = sched_annotation t /\
              cj_label_uid j = cj_owner_uid j.
Proof. exact identity. Qed.
Print Assumptions c02_identity.

(** a created Job belongs to the JobConfig cached under the requested name: owner reference
    and UID label are that JobConfig's, the annotation is the requested schedule time -
    whatever labels or annotations the JobConfig's template carries *)
Theorem c02_created_identity :
  forall w key w', process w key = (w', 2%Z) ->
    exists name t jc, split_key key = Some (name, t) /\ find_jc name (rw_jcs w) = Some jc /\
      rw_api w' = rw_api w ++ [mkCJ (gen_name name t) name (rc_uid jc) (rc_uid jc) (sched_annotation t) (rc_forbid jc)].
Proof. exact created_identity. Qed.
Print Assumptions c02_created_identity.

(** re-requesting a schedule time whose Job exists never changes the API, whatever the state
    of the Job cache and whatever faults are pending *)
Theorem c02_idempotent :
  forall w key name t w' out,
    split_key key = Some (name, t) -> api_has (gen_name name t) (rw_api w) = true ->
    process w key = (w', out) -> rw_api w' = rw_api w.
Proof. exact idempotent. Qed.
Print Assumptions c02_idempotent.

Open Scope string_scope.
Example c02_history_nonvacuous :
  let jc := mkRJC "a.b" "uid-1" false 1 0 (Some "999") (Some "evil") in
  let ops := [RSetJC jc; RRequest "a.b.1700000000"; RRequest "a.b.1700000000"; RFault RFServer; RWork; RFire;
              RWork; RRequest "a.b.1700000000"; RWork; RRestart; RRequest "a.b.1700000000"; RWork;
              RDeleteJob "a.b-1700000000"; RRequest "a.b.1700000000"; RWork; RAdvance; RAdvance; RRequest "a.b.1700000000"; RWork] in
  map (fun o => snd o) (rrun init_rworld ops) =
    [0; 0; 0; 0; 3; 0; 2; 0; 3; 0; 0; 1; 0; 0; 1; 0; 0; 0; 2]%Z /\
  rw_api (rrun_world init_rworld ops) = [mkCJ "a.b-1700000000" "a.b" "uid-1" "uid-1" "1700000000" false].
Proof. vm_compute. split; reflexivity. Qed.

Example c02_key_roundtrip_nonvacuous :
  is_int64 1606987620 = true /\
  split_key (join_key "ns/my.job.config" 1606987620) = Some ("ns/my.job.config", 1606987620).
Proof. split; reflexivity. Qed.
