(** C02 — at most one Job per (JobConfig, schedule time).  Statements only; every
    proof is [exact <lemma>] and is followed by Print Assumptions. *)
From Furiko Require Import Base.Str Cron.Keys Proofs.KeysP.

(** The work-item key round-trips for every key text (dots included) and every
    int64 schedule time. *)
Theorem c02_key_roundtrip :
  forall key t, is_int64 t = true -> split_key (join_key key t) = Some (key, t).
Proof. exact split_join. Qed.
Print Assumptions c02_key_roundtrip.

Theorem c02_key_injective :
  forall k1 t1 k2 t2, join_key k1 t1 = join_key k2 t2 -> k1 = k2 /\ t1 = t2.
Proof. exact join_key_inj. Qed.
Print Assumptions c02_key_injective.

(** The Job name is an injective function of (JobConfig name, schedule time). *)
Theorem c02_name_injective :
  forall n1 t1 n2 t2, 0 <= t1 -> 0 <= t2 ->
    gen_name n1 t1 = gen_name n2 t2 -> n1 = n2 /\ t1 = t2.
Proof. exact gen_name_inj. Qed.
Print Assumptions c02_name_injective.

Example c02_key_roundtrip_nonvacuous :
  is_int64 1606987620 = true /\
  split_key (join_key "ns/my.job.config" 1606987620) = Some ("ns/my.job.config", 1606987620).
Proof. split; reflexivity. Qed.
