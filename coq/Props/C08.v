(** C08 — per parallel index: one live task at a time, ordered bounded retries, then stop.
    Per-pass statements (every Pod create of every history is issued by some pass, with
    whatever cached Job, Pod cache, API state, clock and faults that pass runs under). *)
From Furiko Require Import Job.Core Job.Sync Job.World Proofs.JobP Proofs.SyncP Proofs.HistoryP Proofs.CreateP.

(** Every create of a pass is for a request of ComputeMissingIndexesForCreation whose
    earliest time (latest recorded finish of the index + retryDelay) has come. *)
Theorem c08_creates_are_requests :
  forall reqs s j tasks now s' j' tasks' res,
    create_loop s j tasks reqs now = (s', j', tasks', res) ->
    exists l, added s s' l /\
      forall a, In a l -> exists rq o, In rq reqs /\
        a = ACreate (job_task_name (rq_hash rq) (rq_retry rq)) o /\
        match rq_earliest rq with Some e => e <= now | None => True end.
Proof. exact create_loop_requests. Qed.
Print Assumptions c08_creates_are_requests.

(** A request exists only for an index of the spec with no live and no succeeded recorded
    task; its retry number is the next unused one (all recorded retries are smaller), it is
    below maxAttempts, and its earliest time is the latest recorded finish plus the delay. *)
Theorem c08_request_sound :
  forall j rq, In rq (compute_missing j) ->
    In (rq_hash rq) (j_indexes j) /\
    index_found (rq_hash rq) (j_tasks j) = false /\
    rq_retry rq = next_retry (rq_hash rq) (j_tasks j) /\
    0 <= rq_retry rq < j_max_attempts j /\
    (forall r, In r (j_tasks j) -> tr_hash r = rq_hash rq -> tr_retry r < rq_retry rq) /\
    rq_earliest rq = option_map (fun t => t + j_retry_delay j) (latest_finish (rq_hash rq) (j_tasks j)).
Proof. exact compute_missing_sound. Qed.
Print Assumptions c08_request_sound.

Theorem c08_no_request_for_live_or_succeeded :
  forall j r, In r (j_tasks j) -> (tr_finish r = None \/ st_result (tr_status r) = RSucceeded) ->
    forall rq, In rq (compute_missing j) -> rq_hash rq <> tr_hash r.
Proof. exact compute_missing_none_for_done. Qed.
Print Assumptions c08_no_request_for_live_or_succeeded.

(** The gate: nothing is created once a kill timestamp is set or the admission-error
    annotation is present, nor when the strategy is already decided; a Job that is not
    started or is being deleted never reaches the creation step ([sync]). *)
Theorem c08_gate :
  forall s j tasks now, can_create_task j = false -> sync_create_tasks s j tasks now = (s, j, tasks, CrOk).
Proof. exact create_gate. Qed.
Print Assumptions c08_gate.

Theorem c08_gate_means :
  forall j, can_create_task j = true -> j_kill j = None /\ j_adm_err j = false.
Proof. exact can_create_gate. Qed.
Print Assumptions c08_gate_means.

Theorem c08_stop_when_complete :
  forall s j tasks now,
    fst (summary (j_indexes j) (j_strategy j) (j_max_attempts j) (generate_task_refs now (j_tasks j) tasks)) = true ->
    sync_create_tasks s j tasks now = (s, j, tasks, CrOk).
Proof. exact create_none_when_complete. Qed.
Print Assumptions c08_stop_when_complete.

(** Non-vacuity: a two-index Job, one index failed once (retry after the delay), the other
    still running: exactly one request, retry 1, not before finish + delay. *)
Open Scope string_scope.
Definition ex_job :=
  mkJob ["aaaaaa"; "bbbbbb"] true AllSuccessful 3 60 false false None false None None false true None (Some 10)
    [mkRef "j-aaaaaa-0" "aaaaaa" 0 11 (Some 12) (Some 20) (mkSt TTerminated RFailed RePod) None;
     mkRef "j-bbbbbb-0" "bbbbbb" 0 11 (Some 12) None (mkSt TRunning RNone ReNone) None]
    2 1 None (CRunning 0 None None) PhRunning SRunning.
Example c08_nonvacuous :
  compute_missing ex_job = [mkReq "aaaaaa" 1 (Some 80)] /\ can_create_task ex_job = true.
Proof. split; vm_compute; reflexivity. Qed.


(** * over histories
    For every history of the one-Job world (passes against lagging or emptied caches, kubelet
    steps, foreign Pods, kill / delete, injected failures and conflicts): every Pod create the
    controller ever issues - whatever its outcome - is for the task of an index of the Job's
    spec with a retry number in [0, maxAttempts).  Names are unique in the API, so no index
    ever has more than maxAttempts tasks *at the same time*.  (That the number is the *next*
    one, that the previous attempt is finished, and that a name is not used a second time
    after its Pod has gone depend on what the caches show: findings F4, F17; see
    c08_attempts_bounded_refuted below.) *)
Theorem c08_created_names_bounded :
  forall cfg j0 now ops n o,
    let w := jrun_world cfg (init_jworld j0 now) ops in
    In (ACreate n o) (snd (fst (fst (jstep cfg w JSync)))) ->
    exists h r, n = job_task_name h r /\ In h (j_indexes j0) /\ 0 <= r < j_max_attempts j0.
Proof. exact created_names_bounded. Qed.
Print Assumptions c08_created_names_bounded.

Definition ex_hist_job : job :=
  mkJob ["aaaaaa"] false AllSuccessful 2 0 false false None false None None false true None (Some 10)
        [] 0 0 None (CWaiting WPendingCreation) PhStarting SWaiting.
Example c08_history_nonvacuous :
  let cfg := mkCfg (Some 900) (Some 900) (Some 3600) in
  let w := jrun_world cfg (init_jworld ex_hist_job 100)
             [JSync; JAdvanceJob 5; JAdvancePods 5; JKubelet "j-aaaaaa-0" KFail; JAdvancePods 5; JSync; JAdvanceJob 5] in
  snd (fst (fst (jstep cfg w JSync))) = [ACreate "j-aaaaaa-1" 0; AUpdateStatus 0].
Proof. vm_compute. reflexivity. Qed.


(** REFUTED on the faithful model (finding F17): "never more than maxAttempts attempts per
    index" is false over histories with a stale Job cache.  maxAttempts = 1; the first pass
    creates attempt 0 and records it, but the Job cache never sees that status; the Pod
    fails and is removed; the next pass, judging by the stale Job (no task recorded) and the
    current Pod cache (no Pod), creates attempt 0 a second time, and the API accepts it.  The
    same history is the corpus case F17-stale-job-cache-recreates-attempt of the job stream. *)
Fixpoint jrun_acts (cfg : jcfg) (w : jworld) (ops : list jop) : list action :=
  match ops with
  | [] => []
  | o :: r => let '(w', acts, _, _) := jstep cfg w o in acts ++ jrun_acts cfg w' r
  end.
Definition accepted_creates (acts : list action) : list string :=
  flat_map (fun a => match a with ACreate n 0 => [n] | _ => [] end) acts.
Theorem c08_attempts_bounded_refuted :
  exists cfg j0 now ops,
    j_indexes j0 = ["aaaaaa"%string] /\ j_max_attempts j0 = 1 /\
    (Z.of_nat (List.length (accepted_creates (jrun_acts cfg (init_jworld j0 now) ops))) > j_max_attempts j0).
Proof.
  exists (mkCfg (Some 900) (Some 900) (Some 3600)),
    (mkJob ["aaaaaa"%string] false AllSuccessful 1 0 false false None false None None false true None (Some 10)
           [] 0 0 None (CWaiting WPendingCreation) PhStarting SWaiting), 100,
    [JSync; JAdvancePods 9; JKubelet "j-aaaaaa-0" KSchedule; JKubelet "j-aaaaaa-0" KRun; JKubelet "j-aaaaaa-0" KFail;
     JKubelet "j-aaaaaa-0" KVanish; JAdvancePods 9; JSync].
  vm_compute. repeat split; reflexivity.
Qed.
Print Assumptions c08_attempts_bounded_refuted.
