(** C18 — option evaluation and variable substitution are total, ordered and deterministic. *)
From Furiko Require Import Base.Str Admission.Options Proofs.OptionsP Proofs.TemplateP.
From Coq Require Import Sorted.
Open Scope list_scope.

(** evaluation is a total function of (value, option): it rejects (an [Err..]) or yields one
    string.  When it yields, the string respects the option's constraints. *)
Theorem c18_bool :
  forall dates v o f tv fv d s, o_type o = TBool f tv fv d -> eval_option dates v o = Ok s ->
    exists b, (v = VNil /\ b = d \/ v = VBool b) /\ fmt_bool f tv fv b = Ok s.
Proof. exact eval_bool_ok. Qed.
Print Assumptions c18_bool.

Theorem c18_string :
  forall dates v o d tr s, o_type o = TString d tr -> eval_option dates v o = Ok s ->
    exists raw, (v = VNil /\ raw = d \/ v = VStr raw) /\
      s = (if tr then trim raw else raw) /\ (o_required o = true -> s <> EmptyString).
Proof. exact eval_string_ok. Qed.
Print Assumptions c18_string.

Theorem c18_select :
  forall dates v o d values custom s, o_type o = TSelect d values custom -> eval_option dates v o = Ok s ->
    (v = VNil /\ s = d \/ v = VStr s) /\
    (s = EmptyString \/ custom = true \/ In s values) /\ (o_required o = true -> s <> EmptyString).
Proof. exact eval_select_ok. Qed.
Print Assumptions c18_select.

Theorem c18_multi :
  forall dates v o d values custom delim s, o_type o = TMulti d values custom delim -> eval_option dates v o = Ok s ->
    exists l, multi_input v d = Some l /\ s = join delim l /\
      (custom = false -> forall x, In x l -> In x values) /\ (forall x, In x l -> x <> EmptyString) /\
      (o_required o = true -> l <> []).
Proof. exact eval_multi_ok. Qed.
Print Assumptions c18_multi.

Theorem c18_date :
  forall dates v o s, o_type o = TDate -> eval_option dates v o = Ok s ->
    (s = EmptyString /\ o_required o = false /\ (v = VNil \/ v = VStr EmptyString)) \/
    exists raw, v = VStr raw /\ raw <> EmptyString /\ dates raw = Some s.
Proof. exact eval_date_ok. Qed.
Print Assumptions c18_date.

Theorem c18_wrong_type_rejected :
  forall dates v o,
    match o_type o, v with
    | TBool _ _ _ _, (VStr _ | VList _ | VNum _) => True
    | (TString _ _ | TSelect _ _ _ | TDate), (VBool _ | VList _ | VNum _) => True
    | TMulti _ _ _ _, (VBool _ | VStr _ | VNum _) => True
    | _, _ => False
    end -> eval_option dates v o = ErrInvalid.
Proof. exact eval_wrong_type. Qed.
Print Assumptions c18_wrong_type_rejected.

(** no value given: whenever the Job is not rejected, the value is the one the JobConfig's
    defaults produce *)
Theorem c18_default_agreement :
  forall dates o s, eval_option dates VNil o = Ok s -> eval_default o = Ok s.
Proof. exact eval_nil_default. Qed.
Print Assumptions c18_default_agreement.

(** exactly one value per declared option, or the Job is rejected because some option is *)
Theorem c18_one_value_per_option :
  forall dates values opts m, eval_options dates values opts = Some m ->
    Forall2 (fun o e => fst e = ("option." ++ o_name o)%string /\
                        eval_option (fun s => date_lookup dates (o_name o ++ "|" ++ s)%string)
                                    (value_of (o_name o) values) o = Ok (snd e)) opts m.
Proof. exact eval_options_shape. Qed.
Print Assumptions c18_one_value_per_option.

Theorem c18_rejected_iff_some_option_rejected :
  forall dates values opts, eval_options dates values opts = None <->
    exists o, In o opts /\ forall s, eval_option (fun s => date_lookup dates (o_name o ++ "|" ++ s)%string)
                                                 (value_of (o_name o) values) o <> Ok s.
Proof. exact eval_options_reject. Qed.
Print Assumptions c18_rejected_iff_some_option_rejected.

(** priority at admission: explicit substitution, then the evaluated option (the submitted
    value or, by c18_default_agreement, the default), then the jobconfig context *)
Theorem c18_admission_precedence :
  forall dates opts values explicit jcvars subs,
    admit_subs dates opts values explicit jcvars = Some subs ->
    exists ev, eval_options dates values opts = Some ev /\
    forall k, lookup_kv k subs =
      match lookup_last k explicit with
      | Some v => Some v
      | None => match lookup_last k ev with Some v => Some v | None => lookup_last k jcvars end
      end.
Proof. exact admit_precedence. Qed.
Print Assumptions c18_admission_precedence.

Theorem c18_option_own_value :
  forall dates values opts ev o s,
    eval_options dates values opts = Some ev -> NoDup (map o_name opts) -> In o opts ->
    eval_option (fun s => date_lookup dates (o_name o ++ "|" ++ s)%string) (value_of (o_name o) values) o = Ok s ->
    lookup_last ("option." ++ o_name o)%string ev = Some s.
Proof. exact eval_options_own. Qed.
Print Assumptions c18_option_own_value.

(** determinism: substitution depends on the map only, never on the order in which the map
    is enumerated (after the fix 3075a93: keys in ascending order) *)
Theorem c18_substitution_deterministic :
  forall t l l', (forall k, lookup_last k l = lookup_last k l') -> substitute_vars t l = substitute_vars t l'.
Proof. exact substitute_vars_deterministic. Qed.
Print Assumptions c18_substitution_deterministic.

(** template semantics.  A template is a sequence of literal pieces without '$' and of
    ${name} tokens (names without '$' and '}'); substitution values contain no '$' (so that
    nothing is scanned twice), map keys and reserved prefixes contain no '}'.  Then the
    ReplaceAll / regexp pipeline of SubstituteVariableMaps renders: every variable from the
    first (highest-priority) map that defines it; else the empty string when its name has a
    reserved prefix followed by at least one character; else itself; every literal unchanged. *)
Theorem c18_template_semantics :
  forall segs maps prefixes,
    forallb wf_seg segs = true ->
    (forall m, In m maps -> kv_wf m) ->
    (forall q, In q prefixes -> no_brace q = true) ->
    substitute_maps (render segs) maps prefixes = render (map (final_seg maps prefixes) segs).
Proof. exact template_semantics. Qed.
Print Assumptions c18_template_semantics.

(** in the task: explicit/option/default/jobconfig values (spec.substitutions) win over the job
    context, which wins over the task context *)
Theorem c18_pod_template_semantics :
  forall subs jobv taskv segs,
    forallb wf_seg segs = true -> kv_wf subs -> kv_wf jobv -> kv_wf taskv ->
    pod_subst subs jobv taskv (render segs) =
    render (map (final_seg ((match subs with [] => [] | _ => [subs] end) ++ [jobv; taskv]) pod_prefixes) segs).
Proof.
  intros subs jobv taskv segs Hw H1 H2 H3. unfold pod_subst. apply template_semantics; auto.
  - intros m Hm. apply in_app_or in Hm as [Hm|[<-|[<-|[]]]]; auto. destruct subs; [destruct Hm|destruct Hm as [<-|[]]; auto].
  - intros q [<-|[<-|[<-|[<-|[]]]]]; reflexivity.
Qed.
Print Assumptions c18_pod_template_semantics.

(** values that themselves contain variable syntax are outside the theorem above: for them
    the result is whatever the sorted ReplaceAll sequence yields (deterministic by
    c18_substitution_deterministic, tied to the code by the options stream). *)
Theorem c18_plain_text_untouched :
  forall s maps prefixes, no_dollar s = true -> substitute_maps s maps prefixes = s.
Proof. exact substitute_maps_plain. Qed.
Print Assumptions c18_plain_text_untouched.

(** Non-vacuity: a JobConfig with three options, values for two of them, an explicit override *)
Open Scope string_scope.
Definition ex_opts :=
  [mkOpt "env" true (TSelect "dev" ["dev"; "prod"] false);
   mkOpt "tag" false (TString " v1 " true);
   mkOpt "dry" false (TBool BYesNo "" "" false)].
Example c18_nonvacuous :
  admit_subs [] ex_opts [("env", VStr "prod")] [("option.dry", "forced")] (jobconfig_vars "jc" "u" "ns")
  = Some [("jobconfig.name", "jc"); ("jobconfig.namespace", "ns"); ("jobconfig.uid", "u");
          ("option.dry", "forced"); ("option.env", "prod"); ("option.tag", "v1")]
  /\ eval_options [] [("env", VStr "qa")] ex_opts = None
  /\ pod_subst [("option.env", "prod")] [("job.name", "j")] [] "run ${option.env} ${job.name} ${task.x}${other}"
     = "run prod j ${other}".
Proof. repeat split; vm_compute; reflexivity. Qed.

Definition ex_segs := [Lit "run "; Var "option.env"; Lit " "; Var "job.name"; Lit " "; Var "task.x"; Var "other"; Var "task."].
Example c18_template_nonvacuous :
  forallb wf_seg ex_segs = true /\
  render ex_segs = "run ${option.env} ${job.name} ${task.x}${other}${task.}" /\
  render (map (final_seg [[("option.env", "prod")]; [("job.name", "j")]; []] pod_prefixes) ex_segs) = "run prod j ${other}${task.}".
Proof. repeat split; vm_compute; reflexivity. Qed.
