(** C19: dynamic configuration.  configloader.ConfigManager (loadConfig: mergo.Merge
    WithOverride over the loaders in order; LoadAndUnmarshalConfig: mapstructure decode with
    fallback to the last good value), ConfigMapLoader / SecretLoader (handleUpdate replaces
    the cached content only when every entry parses), DefaultsLoader.
    Model file: definitions only. *)
From Furiko Require Export Base.Str.
Open Scope list_scope.
Open Scope Z_scope.

(** a decoded YAML/JSON scalar as the loaders see it *)
Inductive jv :=
| JNull
| JBool (b : bool)
| JNum (z : Z)
| JFrac (z : Z)          (* the literal "z.5" *)
| JStr (s : string)
| JList (empty : bool)
| JMap (empty : bool).

Definition layer := list (string * jv).

Fixpoint lget (k : string) (l : layer) : option jv :=
  match l with
  | [] => None
  | (k', v) :: r => if String.eqb k' k then Some v else lget k r
  end.

Fixpoint lset (k : string) (v : jv) (l : layer) : layer :=
  match l with
  | [] => [(k, v)]
  | (k', v') :: r => if String.eqb k' k then (k, v) :: r else (k', v') :: lset k v r
  end.

(** mergo's isEmptyValue on an interface element *)
Definition is_empty_jv (v : jv) : bool :=
  match v with
  | JNull | JBool false | JNum 0 | JList true | JMap true => true
  | JStr s => match s with EmptyString => true | _ => false end
  | _ => false
  end.

(** mergo.Merge(&dst, src, WithOverride) on map[string]interface{} (mergo v0.3.12, deepMerge,
    case Map): every key of src replaces the key of dst - null, zero values and lists
    included - except that a map-valued src element is merged into a map-valued dst element
    and is dropped when dst holds a non-empty value of another shape. *)
Definition merge_key (acc : layer) (kv : string * jv) : layer :=
  match snd kv with
  | JMap e =>
      match lget (fst kv) acc with
      | Some (JMap e') => lset (fst kv) (JMap (e && e')) acc
      | Some d => if is_empty_jv d then lset (fst kv) (JMap e) acc else acc
      | None => lset (fst kv) (JMap e) acc
      end
  | v => lset (fst kv) v acc
  end.
Definition merge_override (dst src : layer) : layer := fold_left merge_key src dst.

(** ** decoding (mapstructure, TagName json, not weakly typed) *)
Inductive ftype := FIntP | FInt | FBoolP | FStr | FStrP.
Inductive dval := DUnset | DInt (z : Z) | DBool (b : bool) | DStr (s : string).

Definition decode_field (t : ftype) (v : option jv) : option dval :=
  match v with
  | None | Some JNull =>
      Some (match t with FInt => DInt 0 | FStr => DStr "" | _ => DUnset end)
  | Some x =>
      match t, x with
      | (FIntP | FInt), JNum z => Some (DInt z)
      | (FIntP | FInt), JFrac z => Some (DInt z)       (* int64(float64): towards zero *)
      | FBoolP, JBool b => Some (DBool b)
      | (FStr | FStrP), JStr s => Some (DStr s)
      | _, _ => None
      end
  end.

Definition schema := list (string * ftype).
Definition cfg := list (string * dval).

Fixpoint decode (sch : schema) (l : layer) : option cfg :=
  match sch with
  | [] => Some []
  | (k, t) :: r =>
      match decode_field t (lget k l), decode r l with
      | Some d, Some c => Some ((k, d) :: c)
      | _, _ => None
      end
  end.

Open Scope string_scope.
Inductive kind := KJobs | KJobConfigs | KCron.
Definition kind_name (k : kind) : string :=
  match k with KJobs => "jobs" | KJobConfigs => "jobConfigs" | KCron => "cron" end.

Definition schema_of (k : kind) : schema :=
  match k with
  | KJobs => [("defaultTTLSecondsAfterFinished", FIntP); ("defaultPendingTimeoutSeconds", FIntP);
              ("forceDeleteTaskTimeoutSeconds", FIntP)]
  | KJobConfigs => [("maxEnqueuedJobs", FIntP)]
  | KCron => [("cronFormat", FStr); ("cronHashNames", FBoolP); ("cronHashSecondsByDefault", FBoolP);
              ("cronHashFields", FBoolP); ("defaultTimezone", FStrP); ("maxMissedSchedules", FIntP);
              ("maxDowntimeThresholdSeconds", FInt)]
  end.

(** config.Default*ExecutionConfig through json.Marshal *)
Definition defaults_of (k : kind) : layer :=
  match k with
  | KJobs => [("defaultTTLSecondsAfterFinished", JNum 3600); ("defaultPendingTimeoutSeconds", JNum 900);
              ("forceDeleteTaskTimeoutSeconds", JNum 900)]
  | KJobConfigs => [("maxEnqueuedJobs", JNum 20)]
  | KCron => [("cronFormat", JStr "standard"); ("cronHashNames", JBool true);
              ("cronHashSecondsByDefault", JBool false); ("cronHashFields", JBool true);
              ("defaultTimezone", JStr "UTC"); ("maxMissedSchedules", JNum 5);
              ("maxDowntimeThresholdSeconds", JNum 300)]
  end.
Close Scope string_scope.

(** ** sources *)
(** what a source holds: entry name -> parsed document *)
Definition content := list (string * layer).

(** one ConfigMap / Secret event: each entry parsed to a map, or malformed (None) *)
Definition event := list (string * option layer).

Fixpoint parse_event (e : event) : option content :=
  match e with
  | [] => Some []
  | (k, Some l) :: r => option_map (cons (k, l)) (parse_event r)
  | (_, None) :: _ => None
  end.

Fixpoint cget (k : string) (c : content) : option layer :=
  match c with
  | [] => None
  | (k', l) :: r => if String.eqb k' k then Some l else cget k r
  end.

Record cstate := mkCS {
  cs_cm : content;
  cs_sec : content;
  cs_lkg : list (kind * cfg)
}.

Definition kind_eqb (a b : kind) : bool :=
  match a, b with KJobs, KJobs | KJobConfigs, KJobConfigs | KCron, KCron => true | _, _ => false end.

Fixpoint lkg_get (k : kind) (l : list (kind * cfg)) : option cfg :=
  match l with
  | [] => None
  | (k', c) :: r => if kind_eqb k' k then Some c else lkg_get k r
  end.
Definition lkg_set (k : kind) (c : cfg) (l : list (kind * cfg)) : list (kind * cfg) :=
  (k, c) :: filter (fun e => negb (kind_eqb (fst e) k)) l.

Definition effective_layer (s : cstate) (k : kind) : layer :=
  let l1 := defaults_of k in
  let l2 := match cget (kind_name k) (cs_cm s) with Some l => merge_override l1 l | None => l1 end in
  match cget (kind_name k) (cs_sec s) with Some l => merge_override l2 l | None => l2 end.

Inductive cop :=
| CCm (mine : bool) (e : event)        (* mine = false: another object's event, ignored *)
| CSec (mine : bool) (e : event)
| CRead (k : kind).

(** result of a read: Some cfg, or None = error *)
Definition cstep (s : cstate) (o : cop) : cstate * option cfg :=
  match o with
  | CCm mine e =>
      (match mine, parse_event e with
       | true, Some c => mkCS c (cs_sec s) (cs_lkg s)
       | _, _ => s
       end, None)
  | CSec mine e =>
      (match mine, parse_event e with
       | true, Some c => mkCS (cs_cm s) c (cs_lkg s)
       | _, _ => s
       end, None)
  | CRead k =>
      match decode (schema_of k) (effective_layer s k) with
      | Some c => (mkCS (cs_cm s) (cs_sec s) (lkg_set k c (cs_lkg s)), Some c)
      | None => (s, lkg_get k (cs_lkg s))
      end
  end.

Definition init_cstate : cstate := mkCS [] [] [].

Fixpoint crun (s : cstate) (ops : list cop) : list (option cfg) :=
  match ops with
  | [] => []
  | o :: r => let '(s', out) := cstep s o in out :: crun s' r
  end.

Fixpoint crun_state (s : cstate) (ops : list cop) : cstate :=
  match ops with
  | [] => s
  | o :: r => crun_state (fst (cstep s o)) r
  end.
