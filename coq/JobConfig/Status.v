(** C15: the jobconfigcontroller (reconciler.go SyncOne, informer.go handlers, util.go,
    jobconfig.GetState / GetLastScheduleTime / GetLastStartTime) together with the work queue
    and the generic reconciler.Controller retry loop, on one JobConfig.
    The API holds the truth; the Job cache and the JobConfig cache lag behind it by the events
    not yet delivered.  Model file: definitions only. *)
From Furiko Require Export Base.Str.
Open Scope list_scope.
Open Scope Z_scope.

Record sjob := mkSJ {
  sj_id : Z;
  sj_owned : bool;            (* carries the JobConfig's UID label and controller reference *)
  sj_created : Z;
  sj_sched : option Z;        (* schedule-time annotation, when it parses *)
  sj_start : option Z;        (* status.startTime *)
  sj_phase : Z;               (* opaque phase code, copied into the reference *)
  sj_term : bool              (* phase.IsTerminal() *)
}.

Definition is_some {A} (o : option A) : bool := match o with Some _ => true | None => false end.
Definition s_active (j : sjob) : bool := is_some (sj_start j) && negb (sj_term j).
Definition s_queued (j : sjob) : bool := negb (is_some (sj_start j)) && negb (sj_term j).

(** JobReference: id (name and UID), creation, phase, start *)
Definition jref := (Z * Z * Z * option Z)%type.
Definition to_ref (j : sjob) : jref := (sj_id j, sj_created j, sj_phase j, sj_start j).

(** state codes *)
Definition StReady := 0.
Definition StReadyEnabled := 1.
Definition StReadyDisabled := 2.
Definition StJobQueued := 3.
Definition StExecuting := 4.

Record jcstatus := mkSt {
  st_active : list jref;
  st_queued : list jref;
  st_nact : Z;
  st_nq : Z;
  st_last_sched : option Z;
  st_last_exec : option Z;
  st_state : Z
}.

(** schedule: None = no cron schedule; Some d = cron schedule with disabled = d *)
Definition get_state (cron : option bool) (nact nq : Z) : Z :=
  if 0 <? nact then StExecuting
  else if 0 <? nq then StJobQueued
  else match cron with
       | Some true => StReadyDisabled
       | Some false => StReadyEnabled
       | None => StReady
       end.

Definition opt_max (a b : option Z) : option Z :=      (* ktime.TimeMax *)
  match a, b with
  | None, _ => b
  | _, None => a
  | Some x, Some y => Some (Z.max x y)
  end.

Definition last_of (f : sjob -> option Z) (jobs : list sjob) : option Z :=
  fold_left (fun acc j => opt_max acc (f j)) jobs None.

(** the Jobs the reconciler lists: label selector on the JobConfig UID *)
Definition owned_jobs (jobs : list sjob) : list sjob := filter sj_owned jobs.

(** the status SyncOne computes from the cached JobConfig and the cached Jobs *)
Definition compute_status (cron : option bool) (old : jcstatus) (cache : list sjob) : jcstatus :=
  let js := owned_jobs cache in
  let act := map to_ref (filter s_active js) in
  let que := map to_ref (filter s_queued js) in
  let nact := Z.of_nat (List.length act) in
  let nq := Z.of_nat (List.length que) in
  mkSt act que nact nq
       (match last_of sj_sched js with Some t => opt_max (Some t) (st_last_sched old) | None => st_last_sched old end)
       (match last_of sj_start js with Some t => opt_max (Some t) (st_last_exec old) | None => st_last_exec old end)
       (get_state cron nact nq).

(** ** decidable equality of statuses (IsJobConfigStatusEqual) *)
Definition eqb_oz (a b : option Z) : bool :=
  match a, b with Some x, Some y => x =? y | None, None => true | _, _ => false end.
Definition eqb_ref (a b : jref) : bool :=
  let '(i1, c1, p1, s1) := a in let '(i2, c2, p2, s2) := b in
  (i1 =? i2) && (c1 =? c2) && (p1 =? p2) && eqb_oz s1 s2.
Fixpoint eqb_refs (a b : list jref) : bool :=
  match a, b with
  | [], [] => true
  | x :: a', y :: b' => eqb_ref x y && eqb_refs a' b'
  | _, _ => false
  end.
Definition eqb_status (a b : jcstatus) : bool :=
  eqb_refs (st_active a) (st_active b) && eqb_refs (st_queued a) (st_queued b) &&
  (st_nact a =? st_nact b) && (st_nq a =? st_nq b) &&
  eqb_oz (st_last_sched a) (st_last_sched b) && eqb_oz (st_last_exec a) (st_last_exec b) &&
  (st_state a =? st_state b).

(** ** the world *)
Inductive jevent := JSet (j : sjob) | JDel (id : Z).

Record jcobj := mkJC { jc_status : jcstatus; jc_rv : Z; jc_cron : option bool }.

Record sworld := mkSW {
  w_api_jobs : list sjob;          (* ascending id *)
  w_cache_jobs : list sjob;        (* ascending id *)
  w_job_events : list jevent;      (* not yet delivered to the Job cache, oldest first *)
  w_api_jc : jcobj;
  w_cache_jc : jcobj;
  w_jc_events : list jcobj;        (* not yet delivered to the JobConfig cache *)
  w_ready : bool;                  (* the key is in the work queue *)
  w_delayed : nat;                 (* rate-limited re-adds not yet fired *)
  w_faults : nat                   (* pending UpdateStatus failures *)
}.

Fixpoint put_job (j : sjob) (l : list sjob) : list sjob :=
  match l with
  | [] => [j]
  | x :: r => if sj_id x <? sj_id j then x :: put_job j r
              else if sj_id x =? sj_id j then j :: r else j :: l
  end.
Fixpoint del_job (id : Z) (l : list sjob) : list sjob :=      (* ids are unique: the first match *)
  match l with
  | [] => []
  | x :: r => if sj_id x =? id then r else x :: del_job id r
  end.
Fixpoint get_job (id : Z) (l : list sjob) : option sjob :=
  match l with
  | [] => None
  | x :: r => if sj_id x =? id then Some x else get_job id r
  end.

Definition empty_status (cron : option bool) : jcstatus := mkSt [] [] 0 0 None None (get_state cron 0 0).

Definition init_sworld (cron : option bool) (st : jcstatus) : sworld :=
  let jc := mkJC st 1 cron in
  mkSW [] [] [] jc jc [] true 0 0.   (* the informer replays the JobConfig as an Add: the key starts queued *)

Definition api_set (w : sworld) (j : sjob) : sworld :=
  mkSW (put_job j (w_api_jobs w)) (w_cache_jobs w) (w_job_events w ++ [JSet j]) (w_api_jc w) (w_cache_jc w)
       (w_jc_events w) (w_ready w) (w_delayed w) (w_faults w).

Definition api_change (w : sworld) (id : Z) (f : sjob -> sjob) : sworld :=
  match get_job id (w_api_jobs w) with
  | Some j => api_set w (f j)
  | None => w
  end.

Definition set_start (t : Z) (j : sjob) : sjob :=
  mkSJ (sj_id j) (sj_owned j) (sj_created j) (sj_sched j) (Some t) (sj_phase j) (sj_term j).
Definition set_phase (p : Z) (term : bool) (j : sjob) : sjob :=
  mkSJ (sj_id j) (sj_owned j) (sj_created j) (sj_sched j) (sj_start j) p term.

(** handleJob: the owner is looked up in the JobConfig cache (it is always there) *)
Definition deliver_job (w : sworld) : sworld :=
  match w_job_events w with
  | [] => w
  | e :: r =>
      let '(cache, owned) :=
        match e with
        | JSet j => (put_job j (w_cache_jobs w), sj_owned j)
        | JDel id => (del_job id (w_cache_jobs w),
                      match get_job id (w_cache_jobs w) with Some j => sj_owned j | None => false end)
        end in
      mkSW (w_api_jobs w) cache r (w_api_jc w) (w_cache_jc w) (w_jc_events w)
           (w_ready w || owned) (w_delayed w) (w_faults w)
  end.

Definition deliver_jc (w : sworld) : sworld :=
  match w_jc_events w with
  | [] => w
  | e :: r => mkSW (w_api_jobs w) (w_cache_jobs w) (w_job_events w) (w_api_jc w) e r true (w_delayed w) (w_faults w)
  end.

(** one item of the work queue through reconciler.Controller.work + Reconciler.SyncOne.
    Returns the world and: 0 nothing to do, 1 no write needed, 2 written, 3 failed (re-added
    rate-limited). *)
Definition work (w : sworld) : sworld * Z :=
  if negb (w_ready w) then (w, 0)
  else
    let c := w_cache_jc w in
    let st := compute_status (jc_cron c) (jc_status c) (w_cache_jobs w) in
    if eqb_status st (jc_status c) then
      (mkSW (w_api_jobs w) (w_cache_jobs w) (w_job_events w) (w_api_jc w) c (w_jc_events w) false (w_delayed w) (w_faults w), 1)
    else
      match w_faults w with
      | S n =>
          (mkSW (w_api_jobs w) (w_cache_jobs w) (w_job_events w) (w_api_jc w) c (w_jc_events w) false (S (w_delayed w)) n, 3)
      | O =>
          if negb (jc_rv c =? jc_rv (w_api_jc w)) then
            (mkSW (w_api_jobs w) (w_cache_jobs w) (w_job_events w) (w_api_jc w) c (w_jc_events w) false (S (w_delayed w)) O, 3)
          else
            let a := mkJC st (jc_rv (w_api_jc w) + 1) (jc_cron (w_api_jc w)) in
            (mkSW (w_api_jobs w) (w_cache_jobs w) (w_job_events w) a c (w_jc_events w ++ [a]) false (w_delayed w) O, 2)
      end.

Inductive sop :=
| SCreate (j : sjob)
| SStart (id t : Z)
| SPhase (id p : Z) (term : bool)
| SDelete (id : Z)
| SSetCron (c : option bool)
| SDeliverJob
| SDeliverJC
| SFault
| SFire
| SWork.

Definition sstep (w : sworld) (o : sop) : sworld * Z :=
  match o with
  | SCreate j => (match get_job (sj_id j) (w_api_jobs w) with Some _ => w | None => api_set w j end, 0)
  | SStart id t => (api_change w id (set_start t), 0)
  | SPhase id p term => (api_change w id (set_phase p term), 0)
  | SDelete id =>
      (match get_job id (w_api_jobs w) with
       | Some _ => mkSW (del_job id (w_api_jobs w)) (w_cache_jobs w) (w_job_events w ++ [JDel id]) (w_api_jc w)
                        (w_cache_jc w) (w_jc_events w) (w_ready w) (w_delayed w) (w_faults w)
       | None => w
       end, 0)
  | SSetCron c =>
      let a := mkJC (jc_status (w_api_jc w)) (jc_rv (w_api_jc w) + 1) c in
      (mkSW (w_api_jobs w) (w_cache_jobs w) (w_job_events w) a (w_cache_jc w) (w_jc_events w ++ [a])
            (w_ready w) (w_delayed w) (w_faults w), 0)
  | SDeliverJob => (deliver_job w, 0)
  | SDeliverJC => (deliver_jc w, 0)
  | SFault => (mkSW (w_api_jobs w) (w_cache_jobs w) (w_job_events w) (w_api_jc w) (w_cache_jc w) (w_jc_events w)
                    (w_ready w) (w_delayed w) (S (w_faults w)), 0)
  | SFire => (match w_delayed w with
              | S n => mkSW (w_api_jobs w) (w_cache_jobs w) (w_job_events w) (w_api_jc w) (w_cache_jc w)
                            (w_jc_events w) true n (w_faults w)
              | O => w
              end, 0)
  | SWork => work w
  end.

(** observation after each op: API status, its resourceVersion, queue state, outcome *)
Definition sobs := (jcstatus * Z * bool * nat * Z)%type.
Definition observe (w : sworld) (out : Z) : sobs :=
  (jc_status (w_api_jc w), jc_rv (w_api_jc w), w_ready w, w_delayed w, out).

Fixpoint srun (w : sworld) (ops : list sop) : list sobs :=
  match ops with
  | [] => []
  | o :: r => let '(w', out) := sstep w o in observe w' out :: srun w' r
  end.

Fixpoint srun_world (w : sworld) (ops : list sop) : sworld :=
  match ops with
  | [] => w
  | o :: r => srun_world (fst (sstep w o)) r
  end.
