From Furiko Require Export Base.Check Base.Str Cron.Keys.

Inductive keys_case :=
| KJoin (key : string) (t : Z) (out : string)
| KSplit (s : string) (out : option (string * Z))
| KName (name : string) (t : Z) (out : string).

Definition keys_ok (c : keys_case) : bool :=
  match c with
  | KJoin k t out => String.eqb (join_key k t) out
  | KSplit s out => eqb_opt (eqb_pair String.eqb Z.eqb) (split_key s) out
  | KName n t out => String.eqb (gen_name n t) out
  end.
