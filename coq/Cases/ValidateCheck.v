From Furiko Require Export Base.Check Admission.Validate.
Open Scope list_scope.

(** oracle tables of a case *)
Fixpoint lookup_parse (tbl : list (string * string * bool)) (h e : string) : bool :=
  match tbl with
  | [] => false
  | (h', e', b) :: r => if String.eqb h' h && String.eqb e' e then b else lookup_parse r h e
  end.

Definition mk_oracles (ptbl : list (string * string * bool)) (tztbl : list (string * bool)) (dtz : string) : oracles :=
  mkOr (lookup_parse ptbl) (fun s => lookup_sb s tztbl) dtz.

Inductive val_case :=
| VJC (ptbl : list (string * string * bool)) (tztbl : list (string * bool)) (dtz : string)
      (hash : string) (jc : ajc) (accepted loads defaults_ok : bool)
| VJob (j : ajob) (accepted : bool)
| VUpd (now : Z) (o n : jobver) (accepted : bool).

Definition val_ok (c : val_case) : bool :=
  match c with
  | VJC ptbl tztbl dtz hash jc acc loads dok =>
      let o := mk_oracles ptbl tztbl dtz in
      Bool.eqb (valid_jc o hash jc) acc && Bool.eqb (loadable o hash (ac_sched jc)) loads &&
      Bool.eqb (match default_subs (map fst (ac_opts jc)) with Some _ => true | None => false end) dok
  | VJob j acc => Bool.eqb (valid_job j) acc
  | VUpd now o n acc => Bool.eqb (update_ok now o n) acc
  end.

Definition val_diff (c : val_case) :=
  match c with
  | VJC ptbl tztbl dtz hash jc acc loads dok =>
      let o := mk_oracles ptbl tztbl dtz in
      [valid_jc o hash jc; loadable o hash (ac_sched jc); valid_tmpl (ac_tmpl jc); valid_conc (ac_policy jc) (ac_maxc jc);
       valid_sched o hash (ac_sched jc); valid_options (ac_opts jc)]
  | VJob j acc => [valid_job j]
  | VUpd now o n acc => [update_ok now o n]
  end.
