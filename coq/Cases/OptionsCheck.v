From Furiko Require Export Base.Check Admission.Options.
Open Scope list_scope.

Record admit_case := mkAdmit {
  a_dates : list (string * option string);
  a_opts : list optspec;
  a_values : list (string * oval);
  a_explicit : kv;
  a_sched : bool;                               (* created by NewJobFromJobConfig *)
  a_jc : string * string;                       (* name, uid *)
  a_job : string * string * string * option Z;  (* name, uid, type, maxAttempts *)
  a_taskv : kv;                                 (* MakeVariablesFromTask (C14 covers it) *)
  a_targets : list string;
  a_out : option (kv * list string)             (* stored substitutions, rendered strings; None: rejected *)
}.

Inductive opt_case :=
| OEval (dates : list (string * option string)) (v : oval) (o : optspec) (res : eres) (dflt : eres)
| OSubst (target : string) (maps : list (list (string * string))) (prefixes : list string) (out : string)
| OAdmit (a : admit_case).

Definition eqb_eres (a b : eres) : bool :=
  match a, b with
  | Ok x, Ok y => String.eqb x y
  | ErrInvalid, ErrInvalid | ErrRequired, ErrRequired | ErrNotSupported, ErrNotSupported => true
  | _, _ => false
  end.

Definition lookup_date := date_lookup.

Definition admit_model (a : admit_case) : option (kv * list string) :=
  match (if a_sched a then admit_scheduled (a_dates a) (a_opts a) (jobconfig_vars (fst (a_jc a)) (snd (a_jc a)) "ns")
         else admit_subs (a_dates a) (a_opts a) (a_values a) (a_explicit a)
                         (jobconfig_vars (fst (a_jc a)) (snd (a_jc a)) "ns")) with
  | None => None
  | Some subs =>
      let '(jn, ju, jt, ma) := a_job a in
      Some (subs, map (pod_subst subs (job_vars jn ju "ns" jt ma) (a_taskv a)) (a_targets a))
  end.

Definition eqb_kv (a b : kv) : bool := eqb_list (eqb_pair String.eqb String.eqb) a b.

Definition opt_ok (c : opt_case) : bool :=
  match c with
  | OEval dates v o res dflt => eqb_eres (eval_option (lookup_date dates) v o) res && eqb_eres (eval_default o) dflt
  | OSubst t maps pre out => String.eqb (substitute_maps t maps pre) out
  | OAdmit a => eqb_opt (eqb_pair eqb_kv (eqb_list String.eqb)) (admit_model a) (a_out a)
  end.

Definition opt_diff (c : opt_case) :=
  match c with
  | OEval dates v o res dflt => (Some (eval_option (lookup_date dates) v o, eval_default o), None, None)
  | OSubst t maps pre out => (None, Some (substitute_maps t maps pre), None)
  | OAdmit a => (None, None, Some (admit_model a))
  end.
