From Furiko Require Export Base.Check Cron.Sched.

(** stable insertion sort by key (keeps the per-key order of requests) *)
Fixpoint insert_by_key (e : Z * Z) (l : list (Z * Z)) : list (Z * Z) :=
  match l with
  | [] => [e]
  | x :: r => if fst x <=? fst e then x :: insert_by_key e r else e :: l
  end.
Definition sort_by_key (l : list (Z * Z)) : list (Z * Z) :=
  fold_left (fun acc e => insert_by_key e acc) l [].

Definition heap_view (hz : Z) (h : heap) : list (Z * Z) :=
  sort_by_key (filter (fun e => snd e <=? hz) h).

Record cron_case := mkCronCase {
  cc_horizon : Z;
  cc_ops : list op;
  cc_obs : list (list (Z * Z) * list (Z * Z))
}.

Definition eqb_zz := eqb_pair Z.eqb Z.eqb.

Fixpoint obs_ok (hz : Z) (m : list (list (Z * Z) * heap * bool))
         (o : list (list (Z * Z) * list (Z * Z))) : bool :=
  match m, o with
  | [], [] => true
  | (reqs, h, oof) :: m', (oreqs, oheap) :: o' =>
      negb oof && eqb_list eqb_zz (sort_by_key reqs) oreqs
      && eqb_list eqb_zz (heap_view hz h) oheap && obs_ok hz m' o'
  | _, _ => false
  end.

Definition cron_ok (c : cron_case) : bool :=
  obs_ok (cc_horizon c) (run init_world (cc_ops c)) (cc_obs c).

(** debugging aid: first op at which model and implementation differ *)
Fixpoint obs_diff (hz : Z) (i : nat) (m : list (list (Z * Z) * heap * bool))
         (o : list (list (Z * Z) * list (Z * Z)))
  : option (nat * (list (Z * Z) * list (Z * Z) * bool) * (list (Z * Z) * list (Z * Z))) :=
  match m, o with
  | (reqs, h, oof) :: m', (oreqs, oheap) :: o' =>
      if negb oof && eqb_list eqb_zz (sort_by_key reqs) oreqs && eqb_list eqb_zz (heap_view hz h) oheap
      then obs_diff hz (S i) m' o'
      else Some (i, (sort_by_key reqs, heap_view hz h, oof), (oreqs, oheap))
  | _, _ => None
  end.
Definition cron_diff (c : cron_case) := obs_diff (cc_horizon c) 0 (run init_world (cc_ops c)) (cc_obs c).
