From Furiko Require Export Base.Check Queue.World.
Open Scope list_scope.

Definition qoz (o : option Z) : Z := match o with Some t => t | None => -1 end.
Definition qob (b : bool) : Z := if b then 1 else 0.

Fixpoint insert_qj (j : qjob) (l : list qjob) : list qjob :=
  match l with
  | [] => [j]
  | x :: t => if q_id x <=? q_id j then x :: insert_qj j t else j :: l
  end.
Definition view_qjob (j : qjob) : list Z := [q_id j; qoz (q_started j); qob (q_terminal j); qob (q_adm_err j)].
Definition view_qaction (a : qaction) : list Z :=
  match a with QAStart id o => [0; id; o] | QAReject id o => [1; id; o] end.

(** per op: counter, API Jobs by id, actions in order, [ok; armed] *)
Definition view_qstep (r : qworld * list qaction * bool * bool) : list Z * list (list Z) * list (list Z) :=
  let '(w, acts, ok, armed) := r in
  ([q_counter w; qob ok; qob armed], map view_qjob (fold_right insert_qj [] (qa_jobs w)), map view_qaction acts).

Record q_case := mkQC {
  qc_now : Z; qc_max : option Z; qc_ops : list qop;
  qc_obs : list (list Z * list (list Z) * list (list Z))
}.

Definition eqb_llz := eqb_list (eqb_list Z.eqb).
Definition eqb_qview (a b : list Z * list (list Z) * list (list Z)) : bool :=
  eqb_list Z.eqb (fst (fst a)) (fst (fst b)) && eqb_llz (snd (fst a)) (snd (fst b)) && eqb_llz (snd a) (snd b).

Definition q_model (c : q_case) := map view_qstep (qrun (init_qworld (qc_now c) (qc_max c)) (qc_ops c)).
Definition q_ok (c : q_case) : bool := eqb_list eqb_qview (q_model c) (qc_obs c).

Fixpoint q_first_diff (i : nat) (a b : list (list Z * list (list Z) * list (list Z))) :=
  match a, b with
  | x :: a', y :: b' => if eqb_qview x y then q_first_diff (S i) a' b' else Some (i, x, y)
  | _, _ => None
  end.
Definition q_diff (c : q_case) := q_first_diff 0 (q_model c) (qc_obs c).
