(** Correspondence cases for pkg/utils/heap: after New(items) and after every op, the slice
    (keys and priorities in array order), the name index (sorted by key) and the op's result. *)
From Furiko Require Export Base.Check Cron.ArrayHeap.
Open Scope list_scope.
Open Scope Z_scope.

Inductive cop := CPush (k p : Z) | CPop | CUpdate (k p : Z) | CDelete (k : Z) | CSearch (k : Z) | CPeek.

(** observation: (array, index sorted by key, result) ; result: [] nothing / [k;p] an item /
    [p] a priority / [1] [0] a boolean *)
Definition hobs := (list (Z * Z) * list (Z * Z) * list Z)%type.

Fixpoint ins_kv (e : Z * Z) (l : list (Z * Z)) : list (Z * Z) :=
  match l with
  | [] => [e]
  | x :: t => if fst e <? fst x then e :: l else x :: ins_kv e t
  end.
Definition sort_kv (l : list (Z * Z)) : list (Z * Z) := fold_right ins_kv [] l.
Definition names_view (m : nmap) : list (Z * Z) := sort_kv (map (fun e => (fst e, Z.of_nat (snd e))) m).
Definition view (h : aheap) (r : list Z) : hobs := (queue h, names_view (names h), r).

Definition cstep (h : aheap) (o : cop) : aheap * list Z :=
  match o with
  | CPush k p => (h_push h k p, [])
  | CPop => match queue h with
            | [] => (h, [])
            | _ => let '(h', x) := h_pop h in (h', [ikey x; iprio x])
            end
  | CUpdate k p => let '(h', b) := h_update h k p in (h', [if b then 1 else 0])
  | CDelete k => let '(h', b) := h_delete h k in (h', [if b then 1 else 0])
  | CSearch k => (h, match h_search h k with Some p => [p] | None => [] end)
  | CPeek => (h, match h_peek h with Some x => [ikey x; iprio x] | None => [] end)
  end.
Fixpoint crun (h : aheap) (ops : list cop) : list hobs :=
  match ops with
  | [] => []
  | o :: r => let '(h', res) := cstep h o in view h' res :: crun h' r
  end.

Record heap_case := mkHC { hc_items : list (Z * Z); hc_ops : list cop; hc_obs : list hobs }.

Definition eqb_zz := eqb_pair Z.eqb Z.eqb.
Definition eqb_hobs (a b : hobs) : bool :=
  eqb_list eqb_zz (fst (fst a)) (fst (fst b)) && eqb_list eqb_zz (snd (fst a)) (snd (fst b)) &&
  eqb_list Z.eqb (snd a) (snd b).
Definition heap_model (c : heap_case) : list hobs :=
  let h := h_new (hc_items c) in view h [] :: crun h (hc_ops c).
Definition heap_ok (c : heap_case) : bool := eqb_list eqb_hobs (heap_model c) (hc_obs c).
