From Furiko Require Export Job.World.
Open Scope list_scope.

Definition code_pphase (p : pphase) : Z := match p with PPending => 0 | PRunning => 1 | PSucceeded => 2 | PFailed => 3 end.

Definition view_pod (w : jworld) (p : pod) : string * list Z :=
  (p_name p, [code_pphase (p_phase p); ob (p_oom p); oz (p_deletion p); ob (mem_str (p_name p) (pod_scheduled w));
              p_created p; oz (p_status_start p); oz (p_cont_start p); oz (p_cont_finish p); ob (p_controlled p)]).

Fixpoint insert_sl (e : string * list Z) (l : list (string * list Z)) : list (string * list Z) :=
  match l with
  | [] => [e]
  | x :: t => if String.ltb (fst x) (fst e) then x :: insert_sl e t else e :: l
  end.
Definition sort_sl (l : list (string * list Z)) := fold_right insert_sl [] l.

Definition view_world (w : jworld) :=
  (match api_job w with
   | Some a => ([1; ob (j_adm_err a); ob (j_finalizer a); oz (j_deletion a); oz (j_kill a); oz (j_start a); api_rv w],
                view_job_status a)
   | None => ([0], ([], [], []))
   end,
   sort_sl (map (view_pod w) (api_pods w))).

Definition view_action (a : action) : string * list Z :=
  match a with
  | ACreate n o => (n, [0; 0; o])
  | ADelete n f o => (n, [1; ob f; o])
  | AUpdateJob o => (""%string, [2; 0; o])
  | AUpdateStatus o => (""%string, [3; 0; o])
  | ADeleteJob o => (""%string, [4; 0; o])
  end.
(** canonical order of a pass's actions: by kind, then name (deletes of one sweep run
    concurrently in the implementation) *)
Fixpoint lz_lt (a b : list Z) : bool :=
  match a, b with
  | x :: a', y :: b' => (x <? y) || ((x =? y) && lz_lt a' b')
  | [], _ :: _ => true
  | _, _ => false
  end.
Definition act_lt (a b : string * list Z) : bool :=
  match snd a, snd b with
  | ka :: ra, kb :: rb =>
      (ka <? kb) || ((ka =? kb) && (String.ltb (fst a) (fst b) || (String.eqb (fst a) (fst b) && lz_lt ra rb)))
  | _, _ => false
  end.
Fixpoint insert_act (e : string * list Z) (l : list (string * list Z)) :=
  match l with
  | [] => [e]
  | x :: t => if act_lt e x then e :: l else x :: insert_act e t
  end.
Definition sort_acts (l : list (string * list Z)) := fold_right insert_act [] l.

Definition view_step (r : jworld * list action * bool * bool) :=
  let '(w, acts, ok, armed) := r in
  (view_world w, sort_acts (map view_action acts), [ob ok; ob armed]).

Record js_case := mkJS {
  js_cfg : jcfg;
  js_job : job;
  js_now : Z;
  js_ops : list jop;
  js_obs : list ((list Z * (list (string * string * list Z) * list Z * list (string * list Z)) * list (string * list Z))
                 * list (string * list Z) * list Z)
}.

Definition eqb_world_view
  (a b : list Z * (list (string * string * list Z) * list Z * list (string * list Z)) * list (string * list Z)) : bool :=
  eqb_lz (fst (fst a)) (fst (fst b)) && eqb_status_view (snd (fst a)) (snd (fst b)) && eqb_list eqb_sl (snd a) (snd b).

Definition eqb_step_view (a b : _ * list (string * list Z) * list Z) : bool :=
  eqb_world_view (fst (fst a)) (fst (fst b)) && eqb_list eqb_sl (snd (fst a)) (snd (fst b)) && eqb_lz (snd a) (snd b).

(** the stored Job starts with the status the job controller computes for a new Job *)
Definition js_model (c : js_case) :=
  map view_step (jrun (js_cfg c) (init_jworld (update_status_from_refs (js_now c) (js_job c)) (js_now c)) (js_ops c)).

Definition js_ok (c : js_case) : bool := eqb_list eqb_step_view (js_model c) (js_obs c).

Fixpoint first_diff {A} (eqb : A -> A -> bool) (i : nat) (a b : list A) : option (nat * option A * option A) :=
  match a, b with
  | [], [] => None
  | x :: a', y :: b' => if eqb x y then first_diff eqb (S i) a' b' else Some (i, Some x, Some y)
  | x :: _, [] => Some (i, Some x, None)
  | [], y :: _ => Some (i, None, Some y)
  end.
Definition js_diff (c : js_case) := first_diff eqb_step_view 0 (js_model c) (js_obs c).
