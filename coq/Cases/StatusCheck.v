From Furiko Require Export Base.Check JobConfig.Status.
Open Scope list_scope.

Record st_case := mkStCase {
  sc_cron : option bool;
  sc_init : jcstatus;
  sc_ops : list sop;
  sc_obs : list sobs
}.

Definition eqb_obs (a b : sobs) : bool :=
  let '(s1, rv1, r1, d1, o1) := a in let '(s2, rv2, r2, d2, o2) := b in
  eqb_status s1 s2 && (rv1 =? rv2)%Z && Bool.eqb r1 r2 && Nat.eqb d1 d2 && (o1 =? o2)%Z.

Definition st_model (c : st_case) : list sobs := srun (init_sworld (sc_cron c) (sc_init c)) (sc_ops c).

Definition st_ok (c : st_case) : bool := eqb_list eqb_obs (st_model c) (sc_obs c).

(** first differing step, for diagnosis *)
Fixpoint first_diff (n : nat) (a b : list sobs) : option (nat * option sobs * option sobs) :=
  match a, b with
  | [], [] => None
  | x :: a', y :: b' => if eqb_obs x y then first_diff (S n) a' b' else Some (n, Some x, Some y)
  | x :: _, [] => Some (n, Some x, None)
  | [], y :: _ => Some (n, None, Some y)
  end.
Definition st_diff (c : st_case) := first_diff 0 (st_model c) (sc_obs c).
