From Furiko Require Export Base.Check Job.Index.
Open Scope list_scope.

(** canonical view of an index: (kind, number, key, matrix pairs) *)
Definition view_pindex (i : pindex) : Z * string * list (string * string) :=
  match i with
  | INum n => (n, ""%string, [])
  | IKey k => (-1, k, [])
  | IMatrix kv => (-2, ""%string, kv)
  end.
Definition eqb_ss (a b : string * string) : bool := String.eqb (fst a) (fst b) && String.eqb (snd a) (snd b).
Definition eqb_pview (a b : Z * string * list (string * string)) : bool :=
  Z.eqb (fst (fst a)) (fst (fst b)) && String.eqb (snd (fst a)) (snd (fst b)) && eqb_list eqb_ss (snd a) (snd b).

Record par_case := mkPar {
  par_spec : pspec;
  par_accepts_matrix_keys : bool;     (* oracle: every withMatrix key matches ^[a-z0-9_-]+$ *)
  par_valid : bool;                   (* ValidateParallelismSpec reported no error about the index set *)
  par_indexes : option (list (Z * string * list (string * string)));  (* GenerateIndexes, None = panic *)
  par_vars : list (list (string * string))    (* per index: the task.index_* variables of MakeVariablesFromTask, by key *)
}.

Fixpoint insert_ss (e : string * string) (l : list (string * string)) :=
  match l with
  | [] => [e]
  | x :: t => if String.ltb (fst x) (fst e) then x :: insert_ss e t else e :: l
  end.
Definition sort_ss l := fold_right insert_ss [] l.

(** with an empty value list NumCombinations (and hence panic or not) depends on Go's map
    iteration order; such specs are rejected at admission and not compared further *)
Definition has_empty_list (s : pspec) : bool :=
  match ps_count s, ps_keys s with
  | None, [] => existsb (fun kv => match snd kv with [] => true | _ => false end) (ps_matrix s)
  | _, _ => false
  end.

Definition par_ok (c : par_case) : bool :=
  Bool.eqb (valid_pspec (par_spec c) && par_accepts_matrix_keys c) (par_valid c) &&
  (has_empty_list (par_spec c) ||
  eqb_opt (eqb_list eqb_pview) (option_map (map view_pindex) (gen_indexes (par_spec c))) (par_indexes c) &&
  match gen_indexes (par_spec c) with
  | Some idx => eqb_list (eqb_list eqb_ss) (map (fun i => sort_ss (index_vars i)) idx) (par_vars c)
  | None => true
  end).

Definition par_diff (c : par_case) :=
  (valid_pspec (par_spec c), option_map (map view_pindex) (gen_indexes (par_spec c)),
   option_map (map (fun i => sort_ss (index_vars i))) (gen_indexes (par_spec c))).
