From Furiko Require Export Base.Check Config.Layer.
Open Scope list_scope.

Record cfg_case := mkCfgCase { cc_ops : list cop; cc_obs : list (option cfg) }.

Definition eqb_dval (a b : dval) : bool :=
  match a, b with
  | DUnset, DUnset => true
  | DInt x, DInt y => (x =? y)%Z
  | DBool x, DBool y => Bool.eqb x y
  | DStr x, DStr y => String.eqb x y
  | _, _ => false
  end.
Definition eqb_cfg (a b : cfg) : bool := eqb_list (eqb_pair String.eqb eqb_dval) a b.

Definition cfg_model (c : cfg_case) := crun init_cstate (cc_ops c).
Definition cfg_ok (c : cfg_case) : bool := eqb_list (eqb_opt eqb_cfg) (cfg_model c) (cc_obs c).
