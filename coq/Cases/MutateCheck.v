From Furiko Require Export Base.Check Admission.Mutate.
Open Scope list_scope.

Inductive mut_case :=
| MJobCreate (dates : list (string * option string)) (d : dyncfg) (jcs : list mjc) (bad : bool) (j : mjob) (out : option mjob)
| MJobUpdate (d : dyncfg) (j : mjob) (out : option mjob)
| MJCCreate (d : dyncfg) (now : Z) (c : mjcobj) (out : mjcobj)
| MJCUpdate (d : dyncfg) (now : Z) (old c : mjcobj) (out : mjcobj).

Definition eqb_oz (a b : option Z) : bool :=
  match a, b with Some x, Some y => (x =? y)%Z | None, None => true | _, _ => false end.

Definition eqb_pspec (a b : pspec) : bool :=
  eqb_oz (ps_count a) (ps_count b) && eqb_list String.eqb (ps_keys a) (ps_keys b) &&
  eqb_list (eqb_pair String.eqb (eqb_list String.eqb)) (ps_matrix a) (ps_matrix b).

(** templates are compared on what the mutator can touch and what identifies them *)
Definition eqb_tmpl (a b : jtmpl) : bool :=
  eqb_oz (jt_max_attempts a) (jt_max_attempts b) && eqb_oz (jt_retry_delay a) (jt_retry_delay b) &&
  eqb_oz (jt_pending a) (jt_pending b) &&
  eqb_opt (fun x y => eqb_pspec (fst (fst x)) (fst (fst y)) && String.eqb (snd x) (snd y)) (jt_par a) (jt_par b) &&
  eqb_opt (fun x y => String.eqb (fst x) (fst y)) (jt_pod a) (jt_pod b).

Definition eqb_kvl (a b : kv) : bool := eqb_list (eqb_pair String.eqb String.eqb) a b.

Definition eqb_mjob (a b : mjob) : bool :=
  eqb_list String.eqb (mj_finalizers a) (mj_finalizers b) &&
  eqb_kvl (sort_kv (mj_labels a)) (sort_kv (mj_labels b)) &&
  eqb_kvl (sort_kv (mj_annotations a)) (sort_kv (mj_annotations b)) &&
  eqb_opt (eqb_pair String.eqb String.eqb) (mj_owner a) (mj_owner b) &&
  String.eqb (mj_type a) (mj_type b) && String.eqb (mj_config_name a) (mj_config_name b) &&
  eqb_oz (mj_ttl a) (mj_ttl b) &&
  eqb_opt (eqb_pair String.eqb eqb_oz) (mj_start_policy a) (mj_start_policy b) &&
  eqb_opt eqb_tmpl (mj_template a) (mj_template b) &&
  eqb_kvl (sort_kv (mj_subs a)) (sort_kv (mj_subs b)).

Definition eqb_bfmt (a b : bfmt) : bool :=
  match a, b with
  | BTrueFalse, BTrueFalse | BOneZero, BOneZero | BYesNo, BYesNo | BCustom, BCustom | BEmpty, BEmpty | BUnknown, BUnknown => true
  | _, _ => false
  end.
Definition opt_fmt (o : optspec) : option bfmt := match o_type o with TBool f _ _ _ => Some f | _ => None end.

Definition eqb_mjo (a b : mjcobj) : bool :=
  eqb_list (fun x y => String.eqb (o_name x) (o_name y) && eqb_opt eqb_bfmt (opt_fmt x) (opt_fmt y)) (mo_opts a) (mo_opts b) &&
  eqb_tmpl (mo_tmpl a) (mo_tmpl b) &&
  eqb_opt (eqb_pair Z.eqb eqb_oz) (mo_sched a) (mo_sched b).

Definition mut_ok (c : mut_case) : bool :=
  match c with
  | MJobCreate dates d jcs bad j out => eqb_opt eqb_mjob (patch_job_create dates d jcs bad j) out
  | MJobUpdate d j out => eqb_opt eqb_mjob (patch_job_update d j) out
  | MJCCreate d now c out => eqb_mjo (patch_jc_create d now c) out
  | MJCUpdate d now old c out => eqb_mjo (patch_jc_update d now old c) out
  end.

Definition mut_model (c : mut_case) :=
  match c with
  | MJobCreate dates d jcs bad j out => (patch_job_create dates d jcs bad j, None)
  | MJobUpdate d j out => (patch_job_update d j, None)
  | MJCCreate d now c out => (None, Some (patch_jc_create d now c))
  | MJCUpdate d now old c out => (None, Some (patch_jc_update d now old c))
  end.
