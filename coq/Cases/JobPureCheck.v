From Furiko Require Export Cases.JobView.

Record jp_case := mkJP {
  jp_now : Z;
  jp_job : job;
  jp_pods : list pod;
  jp_refs : list (string * string * list Z);      (* GenerateTaskRefs(status.tasks, pods) *)
  jp_status : list (string * string * list Z) * list Z * list (string * list Z);
                                                  (* UpdateJobTaskRefs; UpdateJobStatusFromTaskRefs *)
  jp_missing : list (string * list Z);            (* ComputeMissingIndexesForCreation on the input job *)
  jp_flags : list Z                               (* canCreateTask, shouldKillJob on the updated job *)
}.

Definition view_req (r : create_req) : string * list Z := (rq_hash r, [rq_retry r; oz (rq_earliest r)]).

Definition jp_ok (c : jp_case) : bool :=
  let now := jp_now c in
  let j1 := update_status_from_refs now (update_task_refs now (jp_job c) (jp_pods c)) in
  eqb_list eqb_refview (map view_ref (generate_task_refs now (j_tasks (jp_job c)) (jp_pods c))) (jp_refs c)
  && eqb_status_view (view_job_status j1) (jp_status c)
  && eqb_list eqb_sl (map view_req (compute_missing (jp_job c))) (jp_missing c)
  && eqb_lz [ob (can_create_task (jp_job c)); ob (should_kill now j1)] (jp_flags c).

(** debugging aid *)
Definition jp_diff (c : jp_case) :=
  let now := jp_now c in
  let j1 := update_status_from_refs now (update_task_refs now (jp_job c) (jp_pods c)) in
  (map view_ref (generate_task_refs now (j_tasks (jp_job c)) (jp_pods c)), view_job_status j1,
   map view_req (compute_missing (jp_job c)), [ob (can_create_task (jp_job c)); ob (should_kill now j1)]).
