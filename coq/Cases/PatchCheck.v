(** Correspondence for Admission/Patch.v: the operations gomodules.xyz/jsonpatch/v2 produced
    (through cmp.CreateJSONPatch) for a pair of documents, as (op, raw RFC 6901 path, value),
    against the model's [create_patch]: the same multiset of operations (Go enumerates maps
    in no order, so the order of independent operations is not compared), every path the text
    [render_path] gives, and the real list applied in its real order by the model's RFC 6902
    reading yields the target. *)
From Furiko Require Export Admission.Patch Base.Check.
From Coq Require Export List String Ascii ZArith Bool Arith.
Import ListNotations.
Local Open Scope string_scope.
Local Open Scope list_scope.
Local Open Scope nat_scope.

Record patch_case := mkPC { pc_a : json; pc_b : json; pc_ops : list (string * string * json) }.

Fixpoint parse_nat_go (s : string) (acc : nat) : option nat :=
  match s with
  | EmptyString => Some acc
  | String c r => let n := nat_of_ascii c in
                  if (48 <=? n) && (n <=? 57) then parse_nat_go r (acc * 10 + (n - 48)) else None
  end.
Definition parse_nat (s : string) : option nat :=
  match s with EmptyString => None | _ => parse_nat_go s 0 end.

(** resolve text tokens against the document they walk *)
Fixpoint resolve (p : list string) (doc : json) : option (list tok) :=
  match p with
  | [] => Some []
  | t :: p' =>
      match doc with
      | JObj m => match p' with
                  | [] => Some [TK t]
                  | _ => match lookup t m with
                         | Some c => option_map (cons (TK t)) (resolve p' c)
                         | None => None
                         end
                  end
      | JArr l => match parse_nat t with
                  | Some i => match p' with
                              | [] => Some [TI i]
                              | _ => match nth_error l i with
                                     | Some c => option_map (cons (TI i)) (resolve p' c)
                                     | None => None
                                     end
                              end
                  | None => None
                  end
      | _ => None
      end
  end.

Definition kind_of_str (s : string) : option opk :=
  if String.eqb s "add" then Some OAdd else if String.eqb s "remove" then Some ORemove
  else if String.eqb s "replace" then Some OReplace else None.

Fixpoint apply_real (ops : list (string * string * json)) (doc : json) : option json :=
  match ops with
  | [] => Some doc
  | (k, p, v) :: r =>
      match kind_of_str k, parse_path p with
      | Some k', Some toks =>
          match resolve toks doc with
          | Some tp => match apply_at k' tp v doc with Some d => apply_real r d | None => None end
          | None => None
          end
      | _, _ => None
      end
  end.

(** the model's operations in the text form *)
Definition kind_text (k : opk) : string := match k with OAdd => "add" | ORemove => "remove" | OReplace => "replace" end.
Definition render (o : op) : string * string * json := (kind_text (o_kind o), render_go (map raw_tok (o_path o)), o_val o).

Definition op_eqb (x y : string * string * json) : bool :=
  String.eqb (fst (fst x)) (fst (fst y)) && String.eqb (snd (fst x)) (snd (fst y)) && jeqb (snd x) (snd y) && jeqb (snd y) (snd x).
Definition count (x : string * string * json) (l : list (string * string * json)) : nat :=
  List.length (filter (op_eqb x) l).
Definition multiset_eqb (l1 l2 : list (string * string * json)) : bool :=
  Nat.eqb (List.length l1) (List.length l2) && forallb (fun x => Nat.eqb (count x l1) (count x l2)) l1.

Definition patch_ok (c : patch_case) : bool :=
  wfb (pc_a c) && wfb (pc_b c) &&
  multiset_eqb (map render (create_patch (pc_a c) (pc_b c))) (pc_ops c) &&
  match apply_real (pc_ops c) (pc_a c) with Some r => jeqb r (pc_b c) && jeqb (pc_b c) r | None => false end &&
  match apply_ops (create_patch (pc_a c) (pc_b c)) (pc_a c) with Some r => jeqb r (pc_b c) | None => false end.
