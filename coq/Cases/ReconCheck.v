From Furiko Require Export Base.Check Cron.Recon.
Open Scope list_scope.

Record recon_case := mkReconCase { rc_ops : list rop; rc_obs : list robs }.

Definition eqb_cjob (a b : cjob) : bool :=
  String.eqb (cj_name a) (cj_name b) && String.eqb (cj_owner_name a) (cj_owner_name b) &&
  String.eqb (cj_owner_uid a) (cj_owner_uid b) && String.eqb (cj_label_uid a) (cj_label_uid b) &&
  String.eqb (cj_ann a) (cj_ann b) && Bool.eqb (cj_forbid a) (cj_forbid b).

Definition eqb_robs (a b : robs) : bool :=
  let '(j1, r1, d1, o1) := a in let '(j2, r2, d2, o2) := b in
  eqb_list eqb_cjob j1 j2 && eqb_list String.eqb r1 r2 && eqb_list String.eqb d1 d2 && (o1 =? o2)%Z.

Definition recon_model (c : recon_case) := rrun init_rworld (rc_ops c).
Definition recon_ok (c : recon_case) : bool := eqb_list eqb_robs (recon_model c) (rc_obs c).

Fixpoint rfirst_diff (n : nat) (a b : list robs) : option (nat * option robs * option robs) :=
  match a, b with
  | [], [] => None
  | x :: a', y :: b' => if eqb_robs x y then rfirst_diff (S n) a' b' else Some (n, Some x, Some y)
  | x :: _, [] => Some (n, Some x, None)
  | [], y :: _ => Some (n, None, Some y)
  end.
Definition recon_diff (c : recon_case) := rfirst_diff 0 (recon_model c) (rc_obs c).
