(** Canonical projection of the Job model's values (shared by the job streams): enums
    become small integers, records become (name, hash, list Z). *)
From Furiko Require Export Base.Check Job.Core.

Definition oz (o : option Z) : Z := match o with Some t => t | None => -1 end.
Definition code_tstate (s : tstate) : Z :=
  match s with TStarting => 0 | TRunning => 1 | TKilling => 2 | TTerminated => 3 | TDeletedUnknown => 4 end.
Definition code_tresult (r : tresult) : Z :=
  match r with RNone => 0 | RSucceeded => 1 | RFailed => 2 | RKilled => 3 end.
Definition code_reason (r : treason) : Z :=
  match r with ReNone | RePod => 0 | RePendingTimeout => 1 | ReForceDeleted => 2 | ReJobDeleted => 3 end.
Definition view_status (s : tstatus) : list Z :=
  [code_tstate (st_state s); code_tresult (st_result s); code_reason (st_reason s)].
Definition view_ref (r : taskref) : string * string * list Z :=
  (tr_name r, tr_hash r,
   [tr_retry r; tr_created r; oz (tr_running r); oz (tr_finish r)] ++ view_status (tr_status r) ++
   match tr_deleted r with Some d => 1 :: view_status d | None => [0] end).

Definition code_istate (s : istate) : Z :=
  match s with INone => 0 | INotCreated => 1 | IRetryBackoff => 2 | IStarting => 3 | IRunning => 4 | ITerminated => 5 end.
Definition view_index (i : index_status) : string * list Z :=
  (ix_hash i, [ix_created i; code_istate (ix_state i); code_tresult (ix_result i)]).
Definition ob (b : bool) : Z := if b then 1 else 0.
Definition view_pstatus (p : option (list index_status * bool * option bool)) : list (string * list Z) :=
  match p with
  | None => []
  | Some (idx, complete, succ) =>
      ("summary"%string, [ob complete; match succ with Some true => 1 | Some false => 0 | None => -1 end])
      :: map view_index idx
  end.

Definition code_jresult (r : jresult) : Z :=
  match r with JSuccess => 0 | JFailed => 1 | JAdmissionError => 2 | JKilled => 3 | JFinalStateUnknown => 4 end.
Definition view_cond (c : cond) : list Z :=
  match c with
  | CQueueing r => [0; match r with QNone => 0 | QNotYetDue => 1 | QQueued => 2 end]
  | CWaiting r => [1; match r with WDeletingTasks => 0 | WPendingCreation => 1 | WRetryBackoff => 2 | WWaitingForTasks => 3 end]
  | CRunning t lc lr => [2; t; oz lc; oz lr]
  | CFinished r f lc lr => [3; code_jresult r; oz f; oz lc; oz lr]
  end.
Definition code_phase (p : jphase) : Z :=
  match p with
  | PhQueued => 0 | PhStarting => 1 | PhAdmissionError => 2 | PhPending => 3 | PhRunning => 4
  | PhTerminating => 5 | PhRetryBackoff => 6 | PhRetrying => 7 | PhSucceeded => 8 | PhFailed => 9
  | PhKilling => 10 | PhKilled => 11 | PhFinishedUnknown => 12
  end.
Definition code_state (s : jstate) : Z :=
  match s with SQueued => 0 | SWaiting => 1 | SRunning => 2 | SFinished => 3 end.

(** the whole status of a job *)
Definition view_job_status (j : job)
  : list (string * string * list Z) * list Z * list (string * list Z) :=
  (map view_ref (j_tasks j),
   view_cond (j_cond j) ++ [code_phase (j_phase j); code_state (j_state j); j_created_tasks j; j_running_tasks j],
   view_pstatus (j_pstatus j)).

Definition eqb_lz := eqb_list Z.eqb.
Definition eqb_refview (a b : string * string * list Z) : bool :=
  String.eqb (fst (fst a)) (fst (fst b)) && String.eqb (snd (fst a)) (snd (fst b)) && eqb_lz (snd a) (snd b).
Definition eqb_sl (a b : string * list Z) : bool := String.eqb (fst a) (fst b) && eqb_lz (snd a) (snd b).
Definition eqb_status_view
  (a b : list (string * string * list Z) * list Z * list (string * list Z)) : bool :=
  eqb_list eqb_refview (fst (fst a)) (fst (fst b)) && eqb_lz (snd (fst a)) (snd (fst b))
  && eqb_list eqb_sl (snd a) (snd b).
