(** C02: along every history of the cron reconciler, Job names stay unique, every Job carries
    the identity of the JobConfig and schedule time it was created for, and re-processing a
    schedule time whose Job exists never changes the API. *)
From Furiko Require Import Cron.Recon Proofs.StrP Proofs.KeysP.
From Coq Require Import Lia.
Open Scope list_scope.
Open Scope Z_scope.

Definition job_ok (j : cjob) : Prop :=
  exists t, cj_name j = gen_name (cj_owner_name j) t /\ cj_ann j = sched_annotation t /\
            cj_label_uid j = cj_owner_uid j.

Record RInv (w : rworld) : Prop := {
  ri_nodup : NoDup (map cj_name (rw_api w));
  ri_ok : Forall job_ok (rw_api w)
}.

Lemma nodup_snoc {A} (l : list A) x : NoDup l -> ~ In x l -> NoDup (l ++ [x]).
Proof.
  induction 1 as [|y l Hy Hn IH]; simpl; intros Hx.
  - repeat constructor. intros [].
  - constructor.
    + intros Hin. apply in_app_iff in Hin as [Hin|[<-|[]]]; [contradiction|]. apply Hx. now left.
    + apply IH. intros Hin. apply Hx. now right.
Qed.

Lemma rinv_init : RInv init_rworld.
Proof. constructor; simpl; constructor. Qed.

Lemma api_has_spec n l : api_has n l = true <-> In n (map cj_name l).
Proof.
  unfold api_has. rewrite existsb_exists. split.
  - intros (j & Hj & E). apply String.eqb_eq in E. subst. now apply in_map.
  - intros H. apply in_map_iff in H as (j & <- & Hj). exists j. split; auto. apply String.eqb_refl.
Qed.

Lemma new_job_ok jc t : job_ok (new_job jc t).
Proof. exists t. simpl. auto. Qed.

(** what one processed work item can do to the API: nothing, or append the new Job of the
    JobConfig in the cache under a name that was free *)
Lemma process_api w key w' out :
  process w key = (w', out) ->
  rw_api w' = rw_api w \/
  exists name t jc, split_key key = Some (name, t) /\ find_jc name (rw_jcs w) = Some jc /\
    api_has (cj_name (new_job jc t)) (rw_api w) = false /\ out = 2 /\
    rw_api w' = rw_api w ++ [new_job jc t].
Proof.
  unfold process. destruct (split_key key) as [[name t]|]; [|intros [= <- _]; now left].
  destruct (find_jc name (rw_jcs w)) as [jc|] eqn:Ej; [|intros [= <- _]; now left].
  destruct (rc_forbid jc && (rc_maxc jc <? rw_active w + 1)); [intros [= <- _]; now left|].
  destruct (match rw_maxq w with Some m => m <=? rc_queued jc | None => false end); [intros [= <- _]; now left|].
  destruct (mem_str _ (rw_cache w)); [intros [= <- _]; now left|].
  destruct (rw_faults w) as [|[|] f]; try (intros [= <- _]; now left).
  destruct (api_has _ (rw_api w)) eqn:Ea; [intros [= <- _]; now left|].
  intros [= <- <-]. right. exists name, t, jc. simpl. auto.
Qed.

Lemma filter_nodup_names (f : cjob -> bool) l : NoDup (map cj_name l) -> NoDup (map cj_name (filter f l)).
Proof.
  induction l as [|x r IH]; simpl; auto. intros H. apply NoDup_cons_iff in H as [H1 H2].
  destruct (f x); simpl; auto. constructor; auto. intros Hin. apply H1.
  apply in_map_iff in Hin as (j & E & Hj). apply filter_In in Hj as [Hj _]. rewrite <- E. now apply in_map.
Qed.

Lemma rinv_step w o : RInv w -> RInv (fst (rstep w o)).
Proof.
  intros [H1 H2]. destruct o; simpl; try (constructor; simpl; assumption).
  - (* work *)
    destruct (rw_ready w) as [|k r]; [constructor; assumption|].
    destruct (process _ k) as [w' out] eqn:Ep. simpl.
    destruct (process_api _ _ _ _ Ep) as [E|(name & t & jc & _ & _ & Ha & _ & E)]; simpl in E.
    + constructor; rewrite E; assumption.
    + simpl in Ha. constructor; rewrite E.
      * rewrite map_app. simpl. apply nodup_snoc; auto.
        intros Hx. apply api_has_spec in Hx. congruence.
      * apply Forall_app. split; auto. constructor; [apply new_job_ok|constructor].
  - destruct (rw_delayed w); constructor; assumption.
  - destruct (rw_pending w) as [|[n|n] r]; constructor; assumption.
  - destruct (api_has name (rw_api w)); constructor; simpl; auto.
    + now apply filter_nodup_names.
    + apply Forall_forall. intros x Hx. apply filter_In in Hx as [Hx _].
      rewrite Forall_forall in H2. auto.
Qed.

Lemma rinv_run ops : forall w, RInv w -> RInv (rrun_world w ops).
Proof. induction ops as [|o r IH]; intros w H; simpl; auto. apply IH. now apply rinv_step. Qed.

Lemma nodup_map_inj {A B} (f : A -> B) l a b :
  NoDup (map f l) -> In a l -> In b l -> f a = f b -> a = b.
Proof.
  induction l as [|x r IH]; simpl; [intros _ []|]. intros Hn Ha Hb E.
  apply NoDup_cons_iff in Hn as [Hx Hn].
  destruct Ha as [<-|Ha], Hb as [<-|Hb]; auto.
  - exfalso. apply Hx. rewrite E. now apply in_map.
  - exfalso. apply Hx. rewrite <- E. now apply in_map.
Qed.

(** at most one Job per (JobConfig, schedule time), in every reachable state *)
Theorem at_most_one ops j1 j2 :
  let w := rrun_world init_rworld ops in
  In j1 (rw_api w) -> In j2 (rw_api w) ->
  cj_owner_name j1 = cj_owner_name j2 -> cj_ann j1 = cj_ann j2 -> j1 = j2.
Proof.
  intros w H1 H2 En Ea. destruct (rinv_run ops _ rinv_init) as [Hn Hok]. fold w in Hn, Hok.
  rewrite Forall_forall in Hok.
  destruct (Hok _ H1) as (t1 & N1 & A1 & _). destruct (Hok _ H2) as (t2 & N2 & A2 & _).
  assert (t1 = t2) by (apply sched_annotation_inj; congruence). subst t2.
  apply (nodup_map_inj cj_name (rw_api w)); auto. congruence.
Qed.

(** every Job in the API: name = f(owner name, schedule time), annotation = that schedule
    time, UID label = UID of the owner *)
Theorem identity ops j :
  In j (rw_api (rrun_world init_rworld ops)) -> job_ok j.
Proof.
  intros H. destruct (rinv_run ops _ rinv_init) as [_ Hok]. rewrite Forall_forall in Hok. auto.
Qed.

Lemma find_jc_name n l jc : find_jc n l = Some jc -> rc_name jc = n.
Proof.
  induction l as [|x r IH]; simpl; [intros H; discriminate H|].
  destruct (String.eqb (rc_name x) n) eqn:E; auto. intros [= <-]. now apply String.eqb_eq.
Qed.

(** a Job that is created is created for the JobConfig the cache holds under the requested
    name, with that JobConfig's UID as owner and label, whatever the template carries *)
Theorem created_identity w key w' :
  process w key = (w', 2) ->
  exists name t jc, split_key key = Some (name, t) /\ find_jc name (rw_jcs w) = Some jc /\
    rw_api w' = rw_api w ++ [mkCJ (gen_name name t) name (rc_uid jc) (rc_uid jc) (sched_annotation t) (rc_forbid jc)].
Proof.
  intros Hp. destruct (process_api _ _ _ _ Hp) as [E|(name & t & jc & Hs & Hf & _ & _ & E)].
  - exfalso. revert Hp E. unfold process.
    destruct (split_key key) as [[name t]|]; [|intros H; discriminate H].
    destruct (find_jc name (rw_jcs w)); [|intros H; discriminate H].
    destruct (_ && _); [intros H; discriminate H|].
    destruct (match rw_maxq w with Some m => m <=? rc_queued r | None => false end); [intros H; discriminate H|].
    destruct (mem_str _ _); [intros H; discriminate H|].
    destruct (rw_faults w) as [|[|] f]; try (intros H; discriminate H).
    destruct (api_has _ _); [intros H; discriminate H|].
    intros [= <-]. simpl. intros E. apply (f_equal (@List.length cjob)) in E. rewrite app_length in E. simpl in E. lia.
  - exists name, t, jc. repeat split; auto. rewrite E. unfold new_job. now rewrite (find_jc_name _ _ _ Hf).
Qed.

(** idempotence: once the Job of (name, t) exists in the API, processing that schedule time
    again - with a fresh, lagging or empty Job cache, with or without faults - leaves the
    API exactly as it is *)
Theorem idempotent w key name t w' out :
  split_key key = Some (name, t) -> api_has (gen_name name t) (rw_api w) = true ->
  process w key = (w', out) -> rw_api w' = rw_api w.
Proof.
  intros Hs Ha Hp. destruct (process_api _ _ _ _ Hp) as [E|(name' & t' & jc & Hs' & Hf & Hn & _ & _)]; auto.
  rewrite Hs in Hs'. injection Hs' as <- <-. simpl in Hn.
  rewrite (find_jc_name _ _ _ Hf) in Hn. congruence.
Qed.

(** per UID: when a UID is only ever used under one JobConfig name (Kubernetes UIDs are never
    reused), Jobs with the same owner UID and schedule-time annotation are the same Job *)
Theorem at_most_one_per_uid ops j1 j2 :
  let w := rrun_world init_rworld ops in
  (forall a b, In a (rw_api w) -> In b (rw_api w) -> cj_owner_uid a = cj_owner_uid b -> cj_owner_name a = cj_owner_name b) ->
  In j1 (rw_api w) -> In j2 (rw_api w) ->
  cj_owner_uid j1 = cj_owner_uid j2 -> cj_ann j1 = cj_ann j2 -> j1 = j2.
Proof. intros w Hu H1 H2 Eu Ea. apply (at_most_one ops); auto. Qed.
