(** Pure theorems about the Job status core (C08/C09 per-call lemmas, C10, C11). *)
From Furiko Require Import Job.Core.
From Coq Require Import Lia.

(** * counting *)
Lemma count_le {A} (f : A -> bool) l : 0 <= count f l <= Z.of_nat (List.length l).
Proof.
  unfold count. induction l as [|x l IH]; simpl; [lia|].
  destruct (f x); simpl List.length; lia.
Qed.

Lemma count_all {A} (f : A -> bool) l :
  Z.of_nat (List.length l) <= count f l -> forall x, In x l -> f x = true.
Proof.
  unfold count. induction l as [|x l IH]; simpl; [tauto|].
  pose proof (count_le f l) as Hc. unfold count in Hc.
  destruct (f x) eqn:E; simpl List.length; intros H y [<-|Hy]; auto; try lia.
  apply IH; auto. lia.
Qed.

Lemma count_pos {A} (f : A -> bool) l : 0 < count f l -> exists x, In x l /\ f x = true.
Proof.
  unfold count. induction l as [|x l IH]; simpl; [lia|].
  destruct (f x) eqn:E.
  - intros _. exists x. auto.
  - intros H. destruct (IH H) as (y & Hy & Hf). exists y. auto.
Qed.

Lemma count_disjoint {A} (f g : A -> bool) l :
  (forall x, f x = true -> g x = true -> False) -> count f l + count g l <= Z.of_nat (List.length l).
Proof.
  intros Hd. unfold count. induction l as [|x l IH]; simpl; [lia|].
  destruct (f x) eqn:Ef, (g x) eqn:Eg; simpl List.length; try lia.
  exfalso. eauto.
Qed.

(** * C10: what the summary means, index by index *)
Definition idx_succeeded (h : string) (tasks : list taskref) : Prop :=
  exists r, In r tasks /\ tr_hash r = h /\ st_result (tr_status r) = RSucceeded.
Definition idx_exhausted (h : string) (tasks : list taskref) (max_attempts : Z) : Prop :=
  ~ idx_succeeded h tasks /\ max_attempts <= count is_terminal_ref (refs_of_hash h tasks).

Lemma refs_of_hash_in h tasks r : In r (refs_of_hash h tasks) <-> In r tasks /\ tr_hash r = h.
Proof.
  unfold refs_of_hash. rewrite filter_In. split; intros [H1 H2]; split; auto.
  - now apply String.eqb_eq.
  - now apply String.eqb_eq.
Qed.

Lemma index_result_succeeded h tasks m :
  ix_result (get_index_status h tasks m) = RSucceeded <-> idx_succeeded h tasks.
Proof.
  unfold get_index_status, idx_succeeded. simpl.
  destruct (existsb ref_succeeded (refs_of_hash h tasks)) eqn:E.
  - split; auto. intros _. apply existsb_exists in E as (r & Hr & Hs).
    apply refs_of_hash_in in Hr as [Hr Hh]. exists r. repeat split; auto.
    unfold ref_succeeded in Hs. destruct (st_result (tr_status r)); try discriminate. reflexivity.
  - split.
    + destruct (negb false && _); discriminate.
    + intros (r & Hr & Hh & Hs). exfalso.
      assert (existsb ref_succeeded (refs_of_hash h tasks) = true).
      { apply existsb_exists. exists r. split; [now apply refs_of_hash_in|].
        unfold ref_succeeded. now rewrite Hs. }
      congruence.
Qed.

Lemma index_result_failed h tasks m :
  ix_result (get_index_status h tasks m) = RFailed <-> idx_exhausted h tasks m.
Proof.
  unfold idx_exhausted. rewrite <- (index_result_succeeded h tasks m).
  unfold get_index_status. simpl.
  destruct (existsb ref_succeeded (refs_of_hash h tasks)) eqn:E; simpl.
  - split; [discriminate|]. intros [H _]. exfalso. now apply H.
  - destruct (m <=? count is_terminal_ref (refs_of_hash h tasks)) eqn:Em.
    + apply Z.leb_le in Em. split; auto. intros _. split; [discriminate|assumption].
    + apply Z.leb_gt in Em. split; [discriminate|]. intros [_ H]. lia.
Qed.

Lemma count_results_le indexes tasks m :
  let l := index_statuses indexes tasks m in
  count (fun i => match ix_result i with RSucceeded => true | _ => false end) l +
  count (fun i => match ix_result i with RFailed => true | _ => false end) l
  <= Z.of_nat (List.length indexes).
Proof.
  intros l. replace (List.length indexes) with (List.length l) by (unfold l, index_statuses; apply map_length).
  apply count_disjoint. intros x. destruct (ix_result x); discriminate.
Qed.

(** The strategy decision, read back: "successful" means the strategy is satisfied by
    tasks that really have result Succeeded; "not successful" (failed) means it can no
    longer be satisfied. *)
Theorem summary_success_sound indexes strat m tasks :
  summary indexes strat m tasks = (true, Some true) ->
  match strat with
  | AllSuccessful => forall h, In h indexes -> idx_succeeded h tasks
  | AnySuccessful => exists h, In h indexes /\ idx_succeeded h tasks
  end.
Proof.
  unfold summary. set (l := index_statuses indexes tasks m). set (c := get_counters l).
  assert (Hlen : List.length l = List.length indexes) by (unfold l, index_statuses; apply map_length).
  destruct strat.
  - remember (Z.of_nat (List.length indexes) <=? c_succeeded c) as succ eqn:E1.
    remember (0 <? c_failed c) as fail eqn:E2.
    destruct succ, fail; cbn; intros HH; try discriminate HH.
    + intros h Hh. symmetry in E1. apply Z.leb_le in E1. unfold c, get_counters in E1. simpl in E1.
      rewrite <- Hlen in E1.
      pose proof (count_all _ _ E1 (get_index_status h tasks m)) as Ha.
      assert (Hin : In (get_index_status h tasks m) l) by (unfold l, index_statuses; apply in_map_iff; exists h; auto).
      specialize (Ha Hin). cbv beta in Ha. apply (index_result_succeeded h tasks m).
      destruct (ix_result (get_index_status h tasks m)); try discriminate. reflexivity.
    + intros h Hh. symmetry in E1. apply Z.leb_le in E1. unfold c, get_counters in E1. simpl in E1.
      rewrite <- Hlen in E1.
      pose proof (count_all _ _ E1 (get_index_status h tasks m)) as Ha.
      assert (Hin : In (get_index_status h tasks m) l) by (unfold l, index_statuses; apply in_map_iff; exists h; auto).
      specialize (Ha Hin). cbv beta in Ha. apply (index_result_succeeded h tasks m).
      destruct (ix_result (get_index_status h tasks m)); try discriminate. reflexivity.
  - remember (0 <? c_succeeded c) as succ eqn:E1.
    remember (Z.of_nat (List.length indexes) <=? c_failed c) as fail eqn:E2.
    destruct succ, fail; cbn; intros HH; try discriminate HH.
    + symmetry in E1. apply Z.ltb_lt in E1. unfold c, get_counters in E1. simpl in E1.
      apply count_pos in E1 as (x & Hx & Hr). unfold l, index_statuses in Hx.
      apply in_map_iff in Hx as (h & <- & Hh). cbv beta in Hr. exists h. split; auto.
      apply (index_result_succeeded h tasks m).
      destruct (ix_result (get_index_status h tasks m)); try discriminate. reflexivity.
    + symmetry in E1. apply Z.ltb_lt in E1. unfold c, get_counters in E1. simpl in E1.
      apply count_pos in E1 as (x & Hx & Hr). unfold l, index_statuses in Hx.
      apply in_map_iff in Hx as (h & <- & Hh). cbv beta in Hr. exists h. split; auto.
      apply (index_result_succeeded h tasks m).
      destruct (ix_result (get_index_status h tasks m)); try discriminate. reflexivity.
Qed.

Theorem summary_failed_sound indexes strat m tasks :
  summary indexes strat m tasks = (true, Some false) ->
  match strat with
  | AllSuccessful => exists h, In h indexes /\ idx_exhausted h tasks m
  | AnySuccessful => forall h, In h indexes -> idx_exhausted h tasks m
  end.
Proof.
  unfold summary. set (l := index_statuses indexes tasks m). set (c := get_counters l).
  assert (Hlen : List.length l = List.length indexes) by (unfold l, index_statuses; apply map_length).
  destruct strat.
  - remember (Z.of_nat (List.length indexes) <=? c_succeeded c) as succ eqn:E1.
    remember (0 <? c_failed c) as fail eqn:E2.
    destruct succ, fail; cbn; intros HH; try discriminate HH.
    symmetry in E2. apply Z.ltb_lt in E2. unfold c, get_counters in E2. simpl in E2.
    apply count_pos in E2 as (x & Hx & Hr). unfold l, index_statuses in Hx.
    apply in_map_iff in Hx as (h & <- & Hh). cbv beta in Hr. exists h. split; auto.
    apply (index_result_failed h tasks m).
    destruct (ix_result (get_index_status h tasks m)); try discriminate. reflexivity.
  - remember (0 <? c_succeeded c) as succ eqn:E1.
    remember (Z.of_nat (List.length indexes) <=? c_failed c) as fail eqn:E2.
    destruct succ, fail; cbn; intros HH; try discriminate HH.
    intros h Hh. symmetry in E2. apply Z.leb_le in E2. unfold c, get_counters in E2. simpl in E2.
    rewrite <- Hlen in E2.
    pose proof (count_all _ _ E2 (get_index_status h tasks m)) as Ha.
    assert (Hin : In (get_index_status h tasks m) l) by (unfold l, index_statuses; apply in_map_iff; exists h; auto).
    specialize (Ha Hin). cbv beta in Ha. apply (index_result_failed h tasks m).
    destruct (ix_result (get_index_status h tasks m)); try discriminate. reflexivity.
Qed.

(** successful and failed are never both the case *)
Theorem summary_exclusive indexes m tasks :
  indexes <> [] ->
  let c := get_counters (index_statuses indexes tasks m) in
  let n := Z.of_nat (List.length indexes) in
  ~ (n <= c_succeeded c /\ 0 < c_failed c) /\ ~ (0 < c_succeeded c /\ n <= c_failed c).
Proof.
  intros Hne c n. pose proof (count_results_le indexes tasks m) as H. simpl in H.
  unfold c, get_counters; simpl. unfold n.
  assert (0 < Z.of_nat (List.length indexes)) by (destruct indexes; [congruence|simpl; lia]).
  split; lia.
Qed.

(** complete <-> decided *)
Theorem summary_complete_iff indexes strat m tasks :
  fst (summary indexes strat m tasks) = true <-> exists b, snd (summary indexes strat m tasks) = Some b.
Proof.
  unfold summary. destruct strat;
    match goal with |- context [if ?a || ?b then _ else _] => destruct a, b end; simpl;
    split; try (intros _; eexists; reflexivity); try discriminate; try (intros [b H]; discriminate); auto.
Qed.

(** * C10/C11: the condition *)
Definition terminated_state (s : istate) : bool :=
  match s with INotCreated | IRetryBackoff | ITerminated => true | _ => false end.

Lemma index_terminated_all_finished h tasks m :
  terminated_state (ix_state (get_index_status h tasks m)) = true ->
  forall r, In r tasks -> tr_hash r = h -> tr_finish r <> None.
Proof.
  unfold get_index_status. simpl.
  set (ts := refs_of_hash h tasks).
  intros Hst r Hr Hh.
  assert (Hin : In r ts) by (apply refs_of_hash_in; auto).
  destruct (Z.of_nat (List.length ts) =? 0) eqn:E0.
  { apply Z.eqb_eq in E0. destruct ts; [destruct Hin|simpl in E0; lia]. }
  assert (Hall : count is_terminal_ref ts = Z.of_nat (List.length ts)).
  { destruct (count is_terminal_ref ts =? Z.of_nat (List.length ts)) eqn:E1; [now apply Z.eqb_eq|].
    exfalso. simpl in Hst.
    destruct (0 <? count is_running_ref ts); [discriminate|].
    destruct (0 <? count is_starting_ref ts); discriminate. }
  assert (Hf : is_terminal_ref r = true) by (eapply count_all; eauto; lia).
  unfold is_terminal_ref in Hf. destruct (tr_finish r); congruence.
Qed.

(** A started Job that is not being deleted and has no admission error is reported
    Finished only when every index is terminated, i.e. every recorded task of every
    index has a finish time: none is alive. *)
Theorem finished_no_live now j r f lc lr :
  j_adm_err j = false -> j_start j <> None ->
  get_condition now j = CFinished r f lc lr ->
  forall t, In t (j_tasks j) -> In (tr_hash t) (j_indexes j) -> tr_finish t <> None.
Proof.
  intros Ha Hs. unfold get_condition. rewrite Ha.
  destruct (j_start j) as [s|]; [|congruence].
  set (idx := index_statuses (j_indexes j) (j_tasks j) (j_max_attempts j)).
  set (n := Z.of_nat (List.length (j_indexes j))).
  assert (Hterm : n <= c_terminated (get_counters idx) ->
                  forall t, In t (j_tasks j) -> In (tr_hash t) (j_indexes j) -> tr_finish t <> None).
  { intros Hle t Ht Hh. unfold get_counters in Hle. simpl in Hle. unfold count_state in Hle.
    unfold n in Hle. replace (List.length (j_indexes j)) with (List.length idx) in Hle
      by (unfold idx, index_statuses; apply map_length).
    pose proof (count_all _ _ Hle (get_index_status (tr_hash t) (j_tasks j) (j_max_attempts j))) as Hx.
    assert (Hin : In (get_index_status (tr_hash t) (j_tasks j) (j_max_attempts j)) idx)
      by (unfold idx, index_statuses; apply in_map_iff; exists (tr_hash t); auto).
    specialize (Hx Hin). cbv beta in Hx.
    eapply index_terminated_all_finished with (h := tr_hash t) (m := j_max_attempts j); eauto. }
  destruct (summary (j_indexes j) (j_strategy j) (j_max_attempts j) (j_tasks j)) as [complete successful].
  destruct (match j_kill j with Some k => k <=? now | None => false end).
  - destruct (n <=? c_terminated (get_counters idx)) eqn:E; [|discriminate].
    intros _. apply Hterm. now apply Z.leb_le.
  - destruct (negb complete).
    + destruct (c_created (get_counters idx) <? n); [discriminate|].
      destruct (0 <? c_backoff (get_counters idx)); [discriminate|].
      destruct (0 <? c_starting (get_counters idx)); discriminate.
    + destruct (c_terminated (get_counters idx) <? n) eqn:E; [discriminate|].
      intros _. apply Hterm. now apply Z.ltb_ge.
Qed.

(** The reported result is the decision of the strategy. *)
Theorem result_is_decision now j r f lc lr :
  j_adm_err j = false -> j_start j <> None ->
  get_condition now j = CFinished r f lc lr ->
  (r = JSuccess -> j_kill j = None /\
     summary (j_indexes j) (j_strategy j) (j_max_attempts j) (j_tasks j) = (true, Some true)) /\
  (r = JFailed -> j_kill j = None /\
     summary (j_indexes j) (j_strategy j) (j_max_attempts j) (j_tasks j) = (true, Some false)).
Proof.
  intros Ha Hs. unfold get_condition. rewrite Ha.
  destruct (j_start j) as [s|]; [|congruence].
  pose proof (summary_complete_iff (j_indexes j) (j_strategy j) (j_max_attempts j) (j_tasks j)) as Hci.
  destruct (summary (j_indexes j) (j_strategy j) (j_max_attempts j) (j_tasks j)) as [complete successful].
  simpl in Hci.
  destruct (j_kill j) as [k|].
  - destruct (k <=? now).
    + destruct (_ <=? _); [|discriminate]. intros [= <- _ _ _]. split; discriminate.
    + destruct (negb complete).
      * destruct (_ <? _); [discriminate|]. destruct (0 <? _); [discriminate|].
        destruct (0 <? _); discriminate.
      * destruct (_ <? _); [discriminate|]. intros [= <- _ _ _]. split; discriminate.
  - destruct complete; simpl.
    + destruct (_ <? _); [discriminate|]. intros [= <- _ _ _].
      destruct successful as [[|]|]; split; try discriminate; auto.
    + destruct (_ <? _); [discriminate|]. destruct (0 <? _); [discriminate|].
      destruct (0 <? _); discriminate.
Qed.

(** * C11: coherence of every computed status *)
Definition phase_terminal (p : jphase) : bool :=
  match p with PhSucceeded | PhFailed | PhKilled | PhAdmissionError | PhFinishedUnknown => true | _ => false end.
Definition cond_finished (c : cond) : bool := match c with CFinished _ _ _ _ => true | _ => false end.

Lemma get_phase_terminal now j : phase_terminal (get_phase now j) = cond_finished (j_cond j).
Proof.
  unfold get_phase. destruct (j_cond j) as [q|w|t lc lr|r f lc lr]; simpl.
  - destruct (match j_kill j with Some k => k <=? now | None => false end); reflexivity.
  - destruct (match j_kill j with Some k => k <=? now | None => false end); [reflexivity|].
    destruct (j_tasks j); [reflexivity|].
    destruct (j_pstatus j) as [[[idx c] s]|].
    + destruct (0 <? _); [reflexivity|]. destruct (0 <? _); reflexivity.
    + destruct (last_ref _); [|reflexivity].
      destruct (is_terminal_ref _); [reflexivity|]. destruct (1 <? _); reflexivity.
  - destruct (match j_kill j with Some k => k <=? now | None => false end); [reflexivity|].
    destruct (0 <? t); reflexivity.
  - destruct r; reflexivity.
Qed.

(** After UpdateJobStatusFromTaskRefs: the coarse state equals the condition, and the
    phase is terminal exactly when the condition is Finished.  (Exactly one of
    queueing/waiting/running/finished holds by construction: [cond] is a sum type; the
    stream compares it with the four pointer fields of the real status.) *)
Theorem status_coherent now j :
  let j' := update_status_from_refs now j in
  j_state j' = state_of_cond (j_cond j') /\
  phase_terminal (j_phase j') = cond_finished (j_cond j').
Proof.
  unfold update_status_from_refs. cbv zeta.
  match goal with |- context [set_status ?a ?b ?c ?d ?e ?f ?g ?h] => idtac end.
  split; [reflexivity|].
  simpl j_phase. rewrite get_phase_terminal. reflexivity.
Qed.

(** After UpdateJobTaskRefs the counters are what the task list shows. *)
Theorem counters_match now j pods :
  let j' := update_task_refs now j pods in
  j_created_tasks j' = Z.of_nat (List.length (j_tasks j')) /\
  j_running_tasks j' = count is_running_ref (j_tasks j').
Proof. split; reflexivity. Qed.

(** * C09: refs are never dropped, timestamps never cleared *)
Lemma insert_ref_in r l x : In x (insert_ref r l) <-> x = r \/ In x l.
Proof.
  induction l as [|y t IH]; simpl; [intuition|].
  destruct (ref_le r y); simpl; [intuition|]. rewrite IH. intuition.
Qed.
Lemma sort_refs_in l x : In x (sort_refs l) <-> In x l.
Proof.
  unfold sort_refs. induction l as [|y t IH]; simpl; [tauto|]. rewrite insert_ref_in, IH. intuition.
Qed.

Lemma has_pod_spec name pods : has_pod name pods = true <-> exists p, In p pods /\ p_name p = name.
Proof.
  unfold has_pod. rewrite existsb_exists. split; intros (p & H1 & H2); exists p; split; auto.
  - now apply String.eqb_eq.
  - now apply String.eqb_eq.
Qed.

Lemma get_task_ref_name e p : tr_name (get_task_ref e p) = p_name p.
Proof. unfold get_task_ref. destruct e, (tr_finish (pod_ref p)); reflexivity. Qed.

Lemma get_task_ref_status e p : tr_status (get_task_ref e p) = tr_status (pod_ref p).
Proof. unfold get_task_ref. destruct e, (tr_finish (pod_ref p)); reflexivity. Qed.

(** every task ever recorded stays listed *)
Theorem listed_forever now existing pods e :
  In e existing -> exists r, In r (generate_task_refs now existing pods) /\ tr_name r = tr_name e.
Proof.
  intros He. unfold generate_task_refs.
  destruct (has_pod (tr_name e) pods) eqn:Hp.
  - apply has_pod_spec in Hp as (p & Hin & Hn).
    exists (get_task_ref (find_ref_last (p_name p) existing) p). split.
    + apply sort_refs_in, in_app_iff. left.
      apply in_map_iff. exists p. auto.
    + now rewrite get_task_ref_name.
  - exists (vanished_ref now e). split; [|reflexivity].
    apply sort_refs_in, in_app_iff. right. apply in_map. apply filter_In. split; auto. now rewrite Hp.
Qed.

(** recorded running/finish times are kept when the Pod stops reporting them *)
Theorem timestamps_retained e p :
  (tr_running e <> None -> tr_running (get_task_ref (Some e) p) <> None) /\
  (tr_finish e <> None -> tr_finish (get_task_ref (Some e) p) <> None).
Proof.
  unfold get_task_ref. set (r := pod_ref p).
  destruct (tr_finish r) as [tf|] eqn:Ef; cbn [tr_running tr_finish]; split; intros H.
  - destruct (tr_running r); [discriminate|exact H].
  - discriminate.
  - destruct (tr_running r); [discriminate|exact H].
  - exact H.
Qed.

Theorem vanished_keeps_times now e :
  tr_running (vanished_ref now e) = tr_running e /\
  tr_finish (vanished_ref now e) <> None /\
  (tr_finish e <> None -> tr_finish (vanished_ref now e) = tr_finish e).
Proof.
  unfold vanished_ref. simpl. repeat split.
  - destruct (tr_finish e); discriminate.
  - destruct (tr_finish e); [reflexivity|congruence].
Qed.

(** a ref is given the state DeletedFinalStateUnknown only when no Pod of that name is
    among the observed Pods *)
Theorem lost_only_if_absent now existing pods r :
  In r (generate_task_refs now existing pods) ->
  st_state (tr_status r) = TDeletedUnknown ->
  (forall e, In e existing -> st_state (tr_status e) <> TDeletedUnknown) ->
  (forall e d, In e existing -> tr_deleted e = Some d -> st_state d <> TDeletedUnknown) ->
  has_pod (tr_name r) pods = false.
Proof.
  intros Hin Hst Hex Hdel. unfold generate_task_refs in Hin.
  apply sort_refs_in, in_app_iff in Hin as [Hin|Hin].
  - exfalso. apply in_map_iff in Hin as (p & <- & Hp).
    rewrite get_task_ref_status in Hst. simpl in Hst. unfold pod_state in Hst.
    destruct (p_deletion p); [destruct (pod_finished p)|destruct (p_phase p)]; discriminate.
  - apply in_map_iff in Hin as (e & <- & He). apply filter_In in He as [He Hp].
    simpl. now apply negb_true_iff in Hp.
Qed.

(** * C08: what may be created *)
Lemma fold_max_ge (l : list taskref) (a : Z) :
  a <= fold_left (fun acc r => Z.max acc (tr_retry r + 1)) l a /\
  forall r, In r l -> tr_retry r < fold_left (fun acc r => Z.max acc (tr_retry r + 1)) l a.
Proof.
  revert a; induction l as [|x l IH]; intros a; simpl; [split; [lia|tauto]|].
  destruct (IH (Z.max a (tr_retry x + 1))) as [H1 H2]. split; [lia|].
  intros r [<-|Hr]; [lia|auto].
Qed.

(** a creation request is only ever for an index of the spec that has neither a live nor
    a succeeded recorded task, with the next unused retry number, below maxAttempts, and
    not before the latest recorded finish plus the retry delay *)
Theorem compute_missing_sound j rq :
  In rq (compute_missing j) ->
  In (rq_hash rq) (j_indexes j) /\
  index_found (rq_hash rq) (j_tasks j) = false /\
  rq_retry rq = next_retry (rq_hash rq) (j_tasks j) /\
  0 <= rq_retry rq < j_max_attempts j /\
  (forall r, In r (j_tasks j) -> tr_hash r = rq_hash rq -> tr_retry r < rq_retry rq) /\
  rq_earliest rq = option_map (fun t => t + j_retry_delay j) (latest_finish (rq_hash rq) (j_tasks j)).
Proof.
  unfold compute_missing. rewrite in_flat_map. intros (h & Hh & Hin).
  destruct (index_found h (j_tasks j)) eqn:Ef; [destruct Hin|].
  destruct (j_max_attempts j <=? next_retry h (j_tasks j)) eqn:Em; [destruct Hin|].
  destruct Hin as [<-|[]]. simpl. apply Z.leb_gt in Em.
  pose proof (fold_max_ge (refs_of_hash h (j_tasks j)) 0) as [H0 Hlt].
  split; [exact Hh|]. split; [exact Ef|]. split; [reflexivity|].
  split; [unfold next_retry in *; lia|]. split.
  - intros r Hr Hrh. apply Hlt. now apply refs_of_hash_in.
  - destruct (latest_finish h (j_tasks j)); reflexivity.
Qed.

(** no request for an index with a succeeded task, nor with a task that is still alive *)
Theorem compute_missing_none_for_done j r :
  In r (j_tasks j) -> (tr_finish r = None \/ st_result (tr_status r) = RSucceeded) ->
  forall rq, In rq (compute_missing j) -> rq_hash rq <> tr_hash r.
Proof.
  intros Hr Hd rq Hrq Heq. destruct (compute_missing_sound j rq Hrq) as (_ & Hf & _).
  assert (index_found (rq_hash rq) (j_tasks j) = true); [|congruence].
  unfold index_found. apply existsb_exists. exists r. split; [apply refs_of_hash_in; auto|].
  unfold is_terminal_ref, ref_succeeded. destruct Hd as [-> | ->]; [reflexivity|].
  apply orb_true_r.
Qed.

(** the creation gate *)
Theorem can_create_gate j :
  can_create_task j = true -> j_kill j = None /\ j_adm_err j = false.
Proof.
  unfold can_create_task. destruct (j_kill j); [discriminate|]. destruct (j_adm_err j); [discriminate|auto].
Qed.
