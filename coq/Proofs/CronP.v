(** Tick-level and history-level theorems of the cron world (C01, C03, C04). *)
From Furiko Require Import Cron.Sched Proofs.OracleP Proofs.HeapP Proofs.WorkerP.
From Coq Require Import Lia Sorting.Sorted.

(** * The per-key specification of one tick *)
Definition tick_reqs (W : list Z) (maxc now : Z) (p : option Z) : list Z :=
  match p with
  | Some p => firstn (Z.to_nat maxc) (due_from p now W)
  | None => []
  end.
Definition tick_next (W : list Z) (now : Z) (p : option Z) : option Z :=
  match p with
  | Some p => if ns p <=? now then first_after now W else Some p
  | None => None
  end.

Lemma firstn_in {A} n (l : list A) x : In x (firstn n l) -> In x l.
Proof. revert l; induction n; destruct l; simpl; intuition. Qed.

Lemma firstn_sorted n l : ssorted l -> ssorted (firstn n l).
Proof.
  revert l; induction n; intros l H; [constructor|]. destruct l as [|y r]; [constructor|].
  simpl. destruct (ssorted_inv _ _ H) as [Hr Hy]. constructor; [apply IHn; exact Hr|].
  apply Forall_forall. intros u Hu. apply Hy. now apply firstn_in in Hu.
Qed.

Lemma firstn_complete_sorted n l t :
  ssorted l -> In t l -> In t (firstn n l) \/ (length (firstn n l) = n /\ forall r, In r (firstn n l) -> r < t).
Proof.
  revert l; induction n; intros l Hs Hin; simpl.
  - right. split; auto. intros r [].
  - destruct l as [|y r]; [destruct Hin|]. simpl.
    destruct (ssorted_inv _ _ Hs) as [Hr Hy].
    destruct Hin as [->|Hin]; [left; now left|].
    destruct (IHn r Hr Hin) as [H|[Hl Hlt]]; [left; now right|].
    right. split; [now rewrite Hl|]. intros u [<-|Hu]; auto.
Qed.

Section KeySpec.
Variable W : list Z.
Hypothesis HW : ssorted W.
Variable maxc now : Z.

(** every request is a fire time, not before the entry's priority, and due *)
Lemma tick_reqs_sound p t :
  In t (tick_reqs W maxc now p) -> exists p0, p = Some p0 /\ In t W /\ p0 <= t /\ ns t <= now.
Proof.
  destruct p as [p0|]; simpl; [|tauto]. intros H. apply firstn_in in H.
  unfold due_from in H. apply filter_In in H as [Hin Hc]. apply andb_prop in Hc as [H1 H2].
  exists p0. repeat split; auto; [now apply Z.leb_le|now apply Z.leb_le].
Qed.

Lemma tick_reqs_sorted p : ssorted (tick_reqs W maxc now p).
Proof.
  destruct p as [p0|]; simpl; [|constructor]. apply firstn_sorted. unfold due_from. now apply filter_sorted.
Qed.

(** every due fire time is requested, unless the cap was reached, in which case exactly
    [maxc] earlier ones were *)
Lemma tick_reqs_complete p0 t :
  In t W -> p0 <= t -> ns t <= now ->
  In t (tick_reqs W maxc now (Some p0)) \/
  (length (tick_reqs W maxc now (Some p0)) = Z.to_nat maxc /\
   forall r, In r (tick_reqs W maxc now (Some p0)) -> r < t).
Proof.
  intros Hin Hp Hd. simpl. apply firstn_complete_sorted.
  - unfold due_from. now apply filter_sorted.
  - unfold due_from. apply filter_In. split; auto.
    apply andb_true_intro. split; [now apply Z.leb_le|now apply Z.leb_le].
Qed.

Lemma tick_reqs_length p : (length (tick_reqs W maxc now p) <= Z.to_nat maxc)%nat.
Proof. destruct p; simpl; [apply firstn_le_length|lia]. Qed.

(** after the tick a due entry has moved to the first fire time strictly after [now]
    ("resumes from the present"); an entry that is not due is untouched *)
Lemma tick_next_due p0 :
  ns p0 <= now -> least_after (fun t => In t W) now (tick_next W now (Some p0)).
Proof.
  intros E. simpl. replace (ns p0 <=? now) with true by (symmetry; now apply Z.leb_le).
  now apply first_after_spec.
Qed.

Lemma tick_not_due p0 :
  now < ns p0 -> tick_next W now (Some p0) = Some p0 /\ tick_reqs W maxc now (Some p0) = [].
Proof.
  intros E. simpl. replace (ns p0 <=? now) with false by (symmetry; now apply Z.leb_gt).
  rewrite due_from_nil by assumption. now rewrite firstn_nil.
Qed.
End KeySpec.

(** * refreshUpdatedJobConfigs *)
Fixpoint last_flush (k : Z) (chan : list jobconfig) : option jobconfig :=
  match chan with
  | [] => None
  | jc :: r =>
      match last_flush k r with
      | Some x => Some x
      | None => if jc_key jc =? k then Some jc else None
      end
  end.

Lemma refresh_spec now : forall chan n h h1 chan1,
  (length chan <= n)%nat ->
  Forall jc_sorted chan ->
  keys_nodup h ->
  refresh n h chan now = (h1, chan1) ->
  chan1 = [] /\ keys_nodup h1 /\
  forall k, h_find k h1 =
    match last_flush k chan with
    | Some jc => first_after now (fires_of jc)
    | None => h_find k h
    end.
Proof.
  induction chan as [|jc r IH]; intros n h h1 chan1 Hlen Hs Hn.
  - destruct n; simpl; intros [= <- <-]; auto.
  - destruct n as [|n]; [simpl in Hlen; lia|]. simpl refresh.
    inversion Hs as [|? ? Hjc Hr]; subst.
    intros Hrf.
    assert (Hn' : keys_nodup (bump (h_delete (jc_key jc) h) jc now)).
    { rewrite bump_eq by assumption. destruct (first_after now (fires_of jc)).
      - apply h_upsert_nodup. now apply h_delete_nodup.
      - apply h_delete_nodup. now apply h_delete_nodup. }
    simpl in Hlen.
    destruct (IH n _ _ _ ltac:(lia) Hr Hn' Hrf) as (-> & Hn1 & Hf). repeat split; auto.
    intros k. rewrite Hf. simpl last_flush.
    destruct (last_flush k r) as [x|]; [reflexivity|].
    rewrite bump_eq by assumption.
    destruct (jc_key jc =? k) eqn:Ek.
    + apply Z.eqb_eq in Ek. subst k.
      destruct (first_after now (fires_of jc)) as [s|].
      * now rewrite h_find_upsert, Z.eqb_refl.
      * now rewrite h_find_delete, Z.eqb_refl.
    + assert (Ek' : (k =? jc_key jc) = false) by (rewrite Z.eqb_sym; assumption).
      destruct (first_after now (fires_of jc)) as [s|].
      * now rewrite h_find_upsert, Ek', h_find_delete, Ek'.
      * now rewrite !h_find_delete, Ek'.
Qed.

(** * cronschedule.New *)
Lemma new_heap_keys thr now jcs k :
  In k (map fst (new_heap thr now jcs)) -> In k (map jc_key jcs).
Proof.
  induction jcs as [|jc r IH]; simpl; [tauto|].
  destruct (new_item thr now jc) as [[k' p]|] eqn:E.
  - unfold new_item in E. destruct (jc_active jc); [|discriminate].
    destruct (get_next jc _); [|discriminate]. injection E as <- <-.
    simpl. intros [<-|H]; auto.
  - auto.
Qed.

Lemma new_heap_nodup thr now jcs :
  NoDup (map jc_key jcs) -> keys_nodup (new_heap thr now jcs).
Proof.
  unfold keys_nodup. induction jcs as [|jc r IH]; simpl; [constructor|].
  intros Hn. inversion Hn as [|? ? Hnot Hn']; subst.
  destruct (new_item thr now jc) as [[k' p]|] eqn:E; auto.
  simpl. constructor; auto.
  unfold new_item in E. destruct (jc_active jc); [|discriminate].
  destruct (get_next jc _); [|discriminate]. injection E as <- <-.
  intros H. apply Hnot. eapply new_heap_keys; eauto.
Qed.

Lemma new_heap_find thr now jcs k :
  NoDup (map jc_key jcs) ->
  h_find k (new_heap thr now jcs) =
  match lookup k jcs with
  | Some jc => get_next jc (get_initial jc thr now)
  | None => None
  end.
Proof.
  induction jcs as [|jc r IH]; simpl; [reflexivity|].
  intros Hn. inversion Hn as [|? ? Hnot Hn']; subst.
  destruct (jc_key jc =? k) eqn:Ek.
  - apply Z.eqb_eq in Ek. subst k.
    unfold new_item. destruct (jc_active jc) eqn:Ea.
    + destruct (get_next jc (get_initial jc thr now)) as [s|] eqn:Eg.
      * simpl. now rewrite Z.eqb_refl.
      * rewrite IH by assumption.
        destruct (lookup (jc_key jc) r) as [x|] eqn:El; auto.
        exfalso. apply Hnot. pose proof (lookup_key _ _ _ El) as Hk.
        clear - El Hk. induction r as [|y r IHr]; simpl in *; [discriminate|].
        destruct (jc_key y =? jc_key jc) eqn:E; [left; now apply Z.eqb_eq|right; auto].
    + rewrite IH by assumption.
      destruct (lookup (jc_key jc) r) as [x|] eqn:El.
      * exfalso. apply Hnot. clear - El. induction r as [|y r IHr]; simpl in *; [discriminate|].
        destruct (jc_key y =? jc_key jc) eqn:E; [left; now apply Z.eqb_eq|right; auto].
      * unfold get_next. now rewrite Ea.
  - destruct (new_item thr now jc) as [[k' p]|] eqn:E.
    + unfold new_item in E. destruct (jc_active jc); [|discriminate].
      destruct (get_next jc _); [|discriminate]. injection E as <- <-.
      simpl. rewrite Ek. auto.
    + auto.
Qed.

Lemma new_heap_ok thr now L :
  NoDup (map jc_key L) -> lister_ok L -> heap_ok L (new_heap thr now L).
Proof.
  intros Hn HL. split; [now apply new_heap_nodup|].
  intros k p. rewrite new_heap_find by assumption.
  destruct (lookup k L) as [jc|] eqn:El; [|discriminate].
  rewrite (get_next_first_after jc _ (HL _ _ El)). intros H. apply first_after_in in H. tauto.
Qed.

Lemma refresh_nil n h now : refresh n h [] now = (h, []).
Proof. destruct n; reflexivity. Qed.

(** * One whole tick (refresh, then the pop loop) without pending flushes *)
Theorem work_tick L maxc now h st' reqs oof :
  lister_ok L -> heap_ok L h ->
  work L maxc now (mkW h []) = (st', reqs, oof) ->
  oof = false /\ w_chan st' = [] /\ heap_ok L (w_heap st') /\
  forall k, key_result L maxc now h (w_heap st') [] reqs k.
Proof.
  intros HL Hok. unfold work. cbn [w_heap w_chan]. rewrite refresh_nil.
  destruct (work_loop (work_fuel h [] maxc) L maxc now h []) as [[h2 reqs2] oof2] eqn:Ew.
  intros Heq. injection Heq as <- <- <-. simpl.
  assert (oof2 = false).
  { apply (work_loop_terminates L maxc now HL (work_fuel h [] maxc) h [] h2 reqs2 oof2 Hok); [|exact Ew].
    pose proof (cost_bound maxc now h) as Hc. unfold work_fuel. cbn [length]. replace (length h + 0)%nat with (length h) by lia.
    generalize dependent (cost maxc now h []). generalize (length h). generalize (Z.to_nat (Z.max maxc 0)).
    intros B A c Hc. nia. }
  subst. destruct (work_loop_spec L maxc now HL _ _ _ _ _ Hok Ew) as [Hok2 Hk]. auto.
Qed.

(** * C04: the reference time after a (re)start *)
Definition ref_spec (jc : jobconfig) (thr now : Z) : Z :=
  let l0 := match jc_ls jc with Some ls => Z.max ls (now - thr) | None => now end in
  let l1 := match jc_lu jc with Some lu => Z.max l0 lu | None => l0 end in
  match jc_nbf jc with Some nbf => Z.max l1 (nbf - 1) | None => l1 end.

Lemma get_initial_eq jc thr now : get_initial jc thr now = ref_spec jc thr now.
Proof.
  unfold get_initial, ref_spec.
  destruct (jc_ls jc) as [ls|], (jc_lu jc) as [lu|], (jc_nbf jc) as [nbf|]; cbv zeta;
    repeat match goal with
      | |- context [?a <? ?b] =>
          lazymatch a with
          | context [if _ then _ else _] => fail
          | _ => lazymatch b with
                 | context [if _ then _ else _] => fail
                 | _ => destruct (Z.ltb_spec a b)
                 end
          end
      end; lia.
Qed.

Lemma due_from_first_after W ref now p :
  ssorted W -> first_after ref W = Some p ->
  due_from p now W = filter (fun t => (ref <? ns t) && (ns t <=? now)) W.
Proof.
  intros HW Hf. pose proof (first_after_spec ref W HW) as H. rewrite Hf in H. simpl in H.
  destruct H as (Hin & Hgt & Hl).
  unfold due_from. apply filter_ext_in. intros t Ht. f_equal.
  destruct (Z.ltb_spec ref (ns t)).
  - apply Z.leb_le. now apply Hl.
  - apply Z.leb_gt. apply (proj2 (ns_lt _ _)). lia.
Qed.

Lemma filter_after_none W ref now :
  first_after ref W = None -> filter (fun t => (ref <? ns t) && (ns t <=? now)) W = [].
Proof.
  intros H. pose proof (first_after_none_all _ _ H) as Hall.
  induction W as [|y r IH]; simpl; auto.
  replace (ref <? ns y) with false by (symmetry; apply Z.ltb_ge; apply Hall; now left).
  simpl. apply IH.
  - unfold first_after in *. simpl in H. destruct (ref <? ns y); [discriminate|assumption].
  - intros u Hu. apply Hall. now right.
Qed.

(** The first tick after a (re)start at [now0]: for every JobConfig in the lister, the
    requests are exactly the first [maxc] fire times in (reference, now1]. *)
Theorem first_tick_after_start L thr now0 maxc now1 st' reqs oof k jc :
  NoDup (map jc_key L) -> lister_ok L ->
  work L maxc now1 (mkW (new_heap thr now0 L) []) = (st', reqs, oof) ->
  lookup k L = Some jc ->
  oof = false /\
  reqs_of k reqs =
    firstn (Z.to_nat maxc)
      (filter (fun t => (ref_spec jc thr now0 <? ns t) && (ns t <=? now1)) (fires_of jc)).
Proof.
  intros Hn HL Hw Hl.
  destruct (work_tick L maxc now1 _ _ _ _ HL (new_heap_ok thr now0 L Hn HL) Hw) as (-> & _ & _ & Hk).
  split; auto. specialize (Hk k). unfold key_result in Hk.
  rewrite new_heap_find in Hk by assumption. rewrite Hl in Hk.
  rewrite (get_next_first_after jc _ (HL _ _ Hl)), get_initial_eq in Hk.
  simpl get_count in Hk. rewrite Z.sub_0_r in Hk.
  destruct (first_after (ref_spec jc thr now0) (fires_of jc)) as [p|] eqn:Ef.
  - destruct Hk as [Hr _]. rewrite Hr. f_equal.
    apply due_from_first_after; auto. apply fires_of_sorted.
  - destruct Hk as [Hr _]. rewrite Hr, filter_after_none by assumption. now rewrite firstn_nil.
Qed.

(** * C01: histories of ticks over an unchanged population *)
Fixpoint tick_run (L : list jobconfig) (maxc : Z) (h : heap) (nows : list Z) : list (list (Z * Z)) :=
  match nows with
  | [] => []
  | now :: r =>
      let '(st, reqs, _) := work L maxc now (mkW h []) in
      reqs :: tick_run L maxc (w_heap st) r
  end.

Fixpoint key_run (W : list Z) (maxc : Z) (p : option Z) (nows : list Z) : list (list Z) :=
  match nows with
  | [] => []
  | now :: r => tick_reqs W maxc now p :: key_run W maxc (tick_next W now p) r
  end.

(** The shared scheduler, seen from one JobConfig, is the per-key specification: the
    other JobConfigs in the heap have no influence (this is where heap correctness and
    the termination of the pop loop enter). *)
Theorem tick_run_key L maxc nows : forall h k jc,
  lister_ok L -> heap_ok L h -> lookup k L = Some jc ->
  map (reqs_of k) (tick_run L maxc h nows) = key_run (fires_of jc) maxc (h_find k h) nows.
Proof.
  induction nows as [|now r IH]; intros h k jc HL Hok Hl; simpl; [reflexivity|].
  destruct (work L maxc now (mkW h [])) as [[st reqs] oof] eqn:Ew.
  destruct (work_tick _ _ _ _ _ _ _ HL Hok Ew) as (_ & _ & Hok2 & Hk).
  simpl. specialize (Hk k). unfold key_result in Hk. rewrite Hl in Hk.
  rewrite (IH _ k jc HL Hok2 Hl).
  destruct (h_find k h) as [p|] eqn:Ef.
  - destruct Hk as [Hr Hp]. simpl get_count in Hr. rewrite Z.sub_0_r in Hr.
    simpl tick_reqs. simpl tick_next. now rewrite Hr, Hp.
  - destruct Hk as [Hr Hp]. now rewrite Hr, Hp.
Qed.

(** a JobConfig that is not in the lister (deleted) is never requested *)
Theorem tick_run_deleted L maxc nows : forall h k,
  lister_ok L -> heap_ok L h -> lookup k L = None ->
  Forall (fun reqs => reqs_of k reqs = []) (tick_run L maxc h nows).
Proof.
  induction nows as [|now r IH]; intros h k HL Hok Hl; simpl; [constructor|].
  destruct (work L maxc now (mkW h [])) as [[st reqs] oof] eqn:Ew.
  destruct (work_tick _ _ _ _ _ _ _ HL Hok Ew) as (_ & _ & Hok2 & Hk).
  constructor; [|now apply IH].
  specialize (Hk k). unfold key_result in Hk. rewrite Hl in Hk.
  destruct (h_find k h); tauto.
Qed.

Section KeyRun.
Variable W : list Z.
Hypothesis HW : ssorted W.
Variable maxc : Z.

Definition prio_ok (p : option Z) : Prop := match p with Some p0 => In p0 W | None => True end.

Lemma tick_next_ok now p : prio_ok p -> prio_ok (tick_next W now p).
Proof.
  destruct p as [p0|]; simpl; auto. intros Hin.
  destruct (ns p0 <=? now); simpl; auto.
  destruct (first_after now W) as [q|] eqn:E; simpl; auto. now apply first_after_in in E.
Qed.

Lemma tick_next_ge now p0 q : tick_next W now (Some p0) = Some q -> p0 <= q.
Proof.
  simpl. destruct (ns p0 <=? now) eqn:E.
  - apply Z.leb_le in E. intros H. apply first_after_in in H as [_ H].
    apply (proj2 (ns_le _ _)). lia.
  - intros [= ->]. lia.
Qed.

(** soundness and never-early, for every request of the history *)
Lemma key_run_sound nows : forall p i reqs t,
  nth_error (key_run W maxc p nows) i = Some reqs -> In t reqs ->
  exists now, nth_error nows i = Some now /\ In t W /\ ns t <= now.
Proof.
  induction nows as [|now r IH]; intros p i reqs t; simpl.
  - destruct i; discriminate.
  - destruct i as [|i]; simpl.
    + intros [= <-] Hin. exists now. split; auto.
      destruct (tick_reqs_sound W maxc now p t Hin) as (p0 & _ & H1 & _ & H2). auto.
    + intros H Hin. eapply IH; eauto.
Qed.

Lemma key_run_none nows : concat (key_run W maxc None nows) = [].
Proof. induction nows; simpl; auto. Qed.

Lemma key_run_ge nows : forall p0 t,
  In t (concat (key_run W maxc (Some p0) nows)) -> p0 <= t.
Proof.
  induction nows as [|now r IH]; intros p0 t; simpl; [tauto|].
  rewrite in_app_iff. intros [H|H].
  - apply firstn_in in H. unfold due_from in H. apply filter_In in H as [_ H].
    apply andb_prop in H as [H _]. now apply Z.leb_le.
  - destruct (ns p0 <=? now) eqn:E.
    + destruct (first_after now W) as [q|] eqn:Ef.
      * specialize (IH _ _ H). apply first_after_in in Ef as [_ Ef].
        apply Z.leb_le in E. apply (proj2 (ns_le _ _)). apply (proj1 (ns_le _ _)) in IH. lia.
      * rewrite key_run_none in H. destruct H.
    + now apply IH.
Qed.

(** every request is requested exactly once and in increasing order over the whole
    history (ticks at non-decreasing clock readings) *)
Lemma key_run_increasing nows : forall p,
  prio_ok p -> StronglySorted Z.le nows -> ssorted (concat (key_run W maxc p nows)).
Proof.
  induction nows as [|now r IH]; intros p Hp Hs; simpl; [constructor|].
  inversion Hs as [|? ? Hs' Hall]; subst.
  destruct p as [p0|]; [|simpl; rewrite key_run_none; constructor].
  assert (Hrest := IH _ (tick_next_ok now _ Hp) Hs').
  destruct (Z_le_gt_dec (ns p0) now) as [Hdue|Hnd].
  2:{ destruct (tick_not_due W maxc now p0 ltac:(lia)) as [-> ->]. simpl.
      apply (IH (Some p0) Hp Hs'). }
  (* due: everything later is strictly after now, everything now is at most now *)
  remember (tick_next W now (Some p0)) as p' eqn:Ep'.
  assert (Hcut : forall a b, In a (tick_reqs W maxc now (Some p0)) ->
                        In b (concat (key_run W maxc p' r)) -> a < b).
  { intros a b Ha Hb.
    destruct (tick_reqs_sound W maxc now _ _ Ha) as (_ & _ & _ & _ & Hda).
    destruct p' as [q|]; [|rewrite key_run_none in Hb; destruct Hb].
    pose proof (key_run_ge _ _ _ Hb) as Hq.
    pose proof (tick_next_due W HW now p0 Hdue) as Hl. rewrite <- Ep' in Hl. simpl in Hl.
    destruct Hl as (_ & Hl & _). apply (proj2 (ns_lt _ _)). apply (proj1 (ns_le _ _)) in Hq. lia. }
  clear Ep'.
  pose proof (tick_reqs_sorted W HW maxc now (Some p0)) as Hs1.
  revert Hs1 Hcut. generalize (tick_reqs W maxc now (Some p0)) as l1.
  induction l1 as [|a l1 IHl]; intros Hs1 Hcut; simpl; auto.
  destruct (ssorted_inv _ _ Hs1) as [Hs1' Ha].
  constructor.
  - apply IHl; auto. intros x b Hx Hb. apply Hcut; auto. now right.
  - apply Forall_forall. intros u Hu. apply in_app_iff in Hu as [Hu|Hu]; auto.
    apply Hcut; auto. now left.
Qed.
End KeyRun.

(** * C03: a tick that processes flushes *)
Lemma last_flush_in k chan jc : last_flush k chan = Some jc -> In jc chan /\ jc_key jc = k.
Proof.
  induction chan as [|x r IH]; simpl; [discriminate|].
  destruct (last_flush k r) as [y|].
  - intros [= <-]. destruct (IH eq_refl). auto.
  - destruct (jc_key x =? k) eqn:E; [|discriminate]. intros [= <-]. split; auto. now apply Z.eqb_eq.
Qed.

(** a flushed object is "settled" when it is the lister's current object, or the
    JobConfig has been deleted *)
Definition settled (L : list jobconfig) (jc : jobconfig) : Prop :=
  jc_sorted jc /\ (lookup (jc_key jc) L = Some jc \/ lookup (jc_key jc) L = None).

Theorem work_tick_flush L maxc now h chan st' reqs oof :
  lister_ok L -> keys_nodup h ->
  (forall k p, h_find k h = Some p -> last_flush k chan = None ->
     match lookup k L with Some jc => In p (fires_of jc) | None => True end) ->
  Forall (settled L) chan -> (length chan <= 1000)%nat ->
  work L maxc now (mkW h chan) = (st', reqs, oof) ->
  exists h1,
    (forall k, h_find k h1 = match last_flush k chan with
                             | Some jc => first_after now (fires_of jc)
                             | None => h_find k h end) /\
    oof = false /\ w_chan st' = [] /\ heap_ok L (w_heap st') /\
    forall k, key_result L maxc now h1 (w_heap st') [] reqs k.
Proof.
  intros HL Hn Hh Hset Hlen. unfold work. cbn [w_heap w_chan].
  destruct (refresh 1000 h chan now) as [h1 chan1] eqn:Er.
  assert (Hs : Forall jc_sorted chan).
  { apply Forall_forall. intros jc Hin. rewrite Forall_forall in Hset. now destruct (Hset _ Hin). }
  destruct (refresh_spec now chan 1000 h h1 chan1 Hlen Hs Hn Er) as (-> & Hn1 & Hf).
  assert (Hok1 : heap_ok L h1).
  { split; auto. intros k p. rewrite Hf.
    destruct (last_flush k chan) as [jc|] eqn:El.
    - destruct (last_flush_in _ _ _ El) as [Hin Hk]. rewrite Forall_forall in Hset.
      destruct (Hset _ Hin) as [_ [Hl|Hl]]; rewrite Hk in Hl; rewrite Hl; auto.
      intros H. apply first_after_in in H. tauto.
    - intros H. now apply Hh. }
  destruct (work_loop (work_fuel h1 chan maxc) L maxc now h1 []) as [[h2 reqs2] oof2] eqn:Ew.
  intros Heq. injection Heq as <- <- <-. simpl.
  assert (oof2 = false).
  { apply (work_loop_terminates L maxc now HL (work_fuel h1 chan maxc) h1 [] h2 reqs2 oof2 Hok1); [|exact Ew].
    pose proof (cost_bound maxc now h1) as Hc. unfold work_fuel.
    generalize dependent (cost maxc now h1 []). generalize (length h1). generalize (length chan).
    generalize (Z.to_nat (Z.max maxc 0)). intros B C A c Hc. nia. }
  subst. destruct (work_loop_spec L maxc now HL _ _ _ _ _ Hok1 Ew) as [Hok2 Hk].
  exists h1. auto.
Qed.

(** After its flush a JobConfig is based on the new object only, strictly after the
    flush instant: nothing is requested for it in the flush tick, and its entry is the
    first fire time of the NEW schedule after [now] (absent when there is none, e.g. the
    schedule is disabled or has no cron). *)
Corollary flush_rebases L maxc now h chan st' reqs oof k jc :
  lister_ok L -> keys_nodup h ->
  (forall k p, h_find k h = Some p -> last_flush k chan = None ->
     match lookup k L with Some jc => In p (fires_of jc) | None => True end) ->
  Forall (settled L) chan -> (length chan <= 1000)%nat ->
  work L maxc now (mkW h chan) = (st', reqs, oof) ->
  last_flush k chan = Some jc -> lookup k L = Some jc ->
  reqs_of k reqs = [] /\ h_find k (w_heap st') = first_after now (fires_of jc).
Proof.
  intros HL Hn Hh Hset Hlen Hw Hlf Hl.
  destruct (work_tick_flush _ _ _ _ _ _ _ _ HL Hn Hh Hset Hlen Hw) as (h1 & Hf & _ & _ & _ & Hk).
  specialize (Hk k). unfold key_result in Hk. rewrite Hf, Hlf, Hl in Hk.
  destruct (first_after now (fires_of jc)) as [p|] eqn:E; [|exact Hk].
  destruct (first_after_in _ _ _ E) as [_ Hlt].
  destruct Hk as [Hr Hp]. rewrite due_from_nil in Hr by assumption. rewrite firstn_nil in Hr.
  replace (ns p <=? now) with false in Hp by (symmetry; apply Z.leb_gt; lia). auto.
Qed.

Lemma fires_of_inactive jc : jc_active jc = false -> fires_of jc = [].
Proof. unfold fires_of. now intros ->. Qed.
