(** C08 over histories: whatever the caches show, whatever fails - every Pod the controller
    ever creates is the task of an index of the Job's spec with a retry number below
    maxAttempts; so no index ever gets more than maxAttempts tasks. *)
From Furiko Require Import Job.Core Job.Sync Job.World Proofs.JobP Proofs.SyncP Proofs.HistoryP.
From Coq Require Import Lia.
Local Open Scope list_scope.
Local Open Scope Z_scope.

(** every create recorded so far is for a name satisfying P *)
Definition CO (P : string -> Prop) (s : pstate) : Prop := forall n o, In (ACreate n o) (ps_actions s) -> P n.

Lemma co_same (P : string -> Prop) s s' : ps_actions s' = ps_actions s -> CO P s -> CO P s'.
Proof. unfold CO. intros ->. auto. Qed.

Lemma co_add (P : string -> Prop) s a : (forall n o, a <> ACreate n o) -> CO P s -> CO P (add_action s a).
Proof. intros Ha H n o [E|Hin]; [exfalso; eapply Ha; eauto|eauto]. Qed.

Lemma co_add_create (P : string -> Prop) s n o : P n -> CO P s -> CO P (add_action s (ACreate n o)).
Proof. intros Hp H n' o' [[= <- _]|Hin]; eauto. Qed.

Lemma sync_create_task_co (P : string -> Prop) s j tasks h retry s' j' t' res :
  sync_create_task s j tasks h retry = (s', j', t', res) -> P (job_task_name h retry) -> CO P s -> CO P s'.
Proof.
  unfold sync_create_task. intros H Hp HC.
  destruct (take_fault FCreatePod _); [injection H as <- _ _ _; now apply co_add_create|].
  destruct (take_fault FCreatePodInvalid _); [injection H as <- _ _ _; now apply co_add_create|].
  destruct (has_pod _ _).
  - assert (G : CO P (add_action s (ACreate (job_task_name h retry) 1))) by now apply co_add_create.
    destruct (find_pod _ _) as [p|]; [destruct (p_controlled p)|]; injection H as <- _ _ _; exact G.
  - injection H as <- _ _ _. now apply co_add_create.
Qed.

Lemma create_loop_co (P : string -> Prop) reqs : forall s j tasks now s' j' t' res,
  create_loop s j tasks reqs now = (s', j', t', res) ->
  (forall rq, In rq reqs -> P (job_task_name (rq_hash rq) (rq_retry rq))) -> CO P s -> CO P s'.
Proof.
  induction reqs as [|rq r IH]; intros s j tasks now s' j' t' res; simpl.
  - intros [= <- _ _ _]. auto.
  - intros H Hp HC. assert (Hr : forall x, In x r -> P (job_task_name (rq_hash x) (rq_retry x))) by (intros x Hx; apply Hp; now right).
    destruct (match rq_earliest rq with Some e => now <? e | None => false end); [eapply IH; eauto|].
    destruct (sync_create_task s j tasks (rq_hash rq) (rq_retry rq)) as [[[s1 j1] t1] [|]] eqn:E;
      apply (sync_create_task_co P) in E; auto; try (apply Hp; now left).
    + eapply IH; eauto.
    + injection H as <- _ _ _. exact E.
Qed.

Lemma sync_status_co (P : string -> Prop) now s j s' j' : sync_status now s j = (s', j') -> CO P s -> CO P s'.
Proof. intros H. apply co_same. unfold sync_status in H. injection H as <- _. destruct (ttl_arms _); reflexivity. Qed.

Lemma arm_if_co (P : string -> Prop) (b : bool) s : CO P s -> CO P (if b then arm s else s).
Proof. destruct b; auto. Qed.

Lemma sync_create_tasks_co (P : string -> Prop) s j tasks now s' j' t' res :
  sync_create_tasks s j tasks now = (s', j', t', res) ->
  (forall rq, In rq (compute_missing j) -> P (job_task_name (rq_hash rq) (rq_retry rq))) -> CO P s -> CO P s'.
Proof.
  unfold sync_create_tasks. intros H Hp HC.
  destruct (negb (can_create_task j)); [injection H as <- _ _ _; auto|].
  destruct (summary _ _ _ _) as [complete succ]. destruct complete; [injection H as <- _ _ _; auto|].
  destruct (create_loop s j tasks (compute_missing j) now) as [[[s1 j1] t1] [|]] eqn:E;
    apply (create_loop_co P) in E; auto.
  - match type of H with context [sync_status_refs now ?x j1 t1] => destruct (sync_status_refs now x j1 t1) as [s2 j2] eqn:E2 end.
    injection H as <- _ _ _. eapply sync_status_co; [exact E2|]. now apply arm_if_co.
  - injection H as <- _ _ _. exact E.
Qed.

Lemma delete_tasks_ordered_co (P : string -> Prop) tasks : forall s force now s' ok,
  delete_tasks_ordered s tasks force now = (s', ok) -> CO P s -> CO P s'.
Proof.
  induction tasks as [|p r IH]; intros s force now s' ok; simpl.
  - intros [= <- _]. auto.
  - destruct (negb force && _); [apply IH|].
    destruct (take_fault FDeletePod _).
    + destruct (delete_tasks_ordered (add_action s _) r force now) as [s1 ok1] eqn:E. intros [= <- _] HC.
      eapply IH; [exact E|]. apply co_add; [discriminate|exact HC].
    + destruct (api_delete_pod (ps_w s) (p_name p) force) as [[w' out] evs]. intros H HC.
      eapply IH; [exact H|]. intros n o Hin. apply (HC n o). simpl in Hin. destruct Hin as [X|X]; [discriminate X|exact X].
Qed.

Lemma delete_tasks_co (P : string -> Prop) s tasks force now s' ok : delete_tasks s tasks force now = (s', ok) -> CO P s -> CO P s'.
Proof. apply delete_tasks_ordered_co. Qed.

Lemma arm_list_co {A} (P : string -> Prop) (l : list A) s : CO P s -> CO P (match l with [] => s | _ :: _ => arm s end).
Proof. destruct l; auto. Qed.

Lemma handle_pending_co (P : string -> Prop) cfg s j tasks now s' j' ok : handle_pending cfg s j tasks now = (s', j', ok) -> CO P s -> CO P s'.
Proof.
  unfold handle_pending. destruct (pending_timeout cfg j <=? 0); [intros [= <- _ _]; auto|].
  set (nd := filter (fun p => now <? p_created p + pending_timeout cfg j) _).
  set (need := filter _ (filter _ tasks)).
  destruct need as [|p r] eqn:En.
  - intros [= <- _ _]. apply arm_list_co.
  - destruct (delete_tasks _ (p :: r) false now) as [s1 ok1] eqn:E. intros [= <- _ _] HC.
    eapply delete_tasks_co; [exact E|]. now apply arm_list_co.
Qed.

Lemma handle_kill_co (P : string -> Prop) s j tasks now s' j' ok : handle_kill s j tasks now = (s', j', ok) -> CO P s -> CO P s'.
Proof.
  unfold handle_kill. destruct (negb (should_kill now j)); [intros [= <- _ _]; auto|].
  destruct (filter _ tasks) as [|p r]; [intros [= <- _ _]; auto|].
  destruct (delete_tasks _ _ _ _) as [s1 ok1] eqn:E. intros [= <- _ _] HC. eapply delete_tasks_co; eauto.
Qed.

Lemma handle_force_co (P : string -> Prop) cfg s j tasks now s' j' ok : handle_force cfg s j tasks now = (s', j', ok) -> CO P s -> CO P s'.
Proof.
  unfold handle_force. destruct (force_timeout cfg <=? 0); [intros [= <- _ _]; auto|].
  destruct (j_forbid_force j); [intros [= <- _ _]; auto|].
  match goal with |- context [filter ?f (filter ?g tasks)] => set (dl := filter g tasks) end.
  set (need := filter (fun p => match p_deletion p with Some t => negb (now <? t + force_timeout cfg) | None => false end) dl).
  set (wt := filter (fun p => match p_deletion p with Some t => now <? t + force_timeout cfg | None => false end) dl).
  destruct need as [|p r] eqn:En.
  - intros [= <- _ _]. apply arm_list_co.
  - destruct (delete_tasks _ (p :: r) true now) as [s1 ok1] eqn:E. intros [= <- _ _] HC.
    eapply delete_tasks_co; [exact E|]. now apply arm_list_co.
Qed.

Lemma sync_job_tasks_co (P : string -> Prop) cfg s j now s' j' ok :
  sync_job_tasks cfg s j now = (s', j', ok) ->
  (forall rq, In rq (compute_missing j) -> P (job_task_name (rq_hash rq) (rq_retry rq))) -> CO P s -> CO P s'.
Proof.
  unfold sync_job_tasks. set (tasks := flat_map _ (j_tasks j)). intros H Hp HC.
  destruct (sync_create_tasks s j tasks now) as [[[s1 j1] t1] [|]] eqn:E1;
    apply (sync_create_tasks_co P) in E1; auto; [|injection H as <- _ _; exact E1].
  destruct (sync_status_refs now s1 j1 t1) as [s2 j2] eqn:E2. apply (sync_status_co P) in E2; auto.
  destruct (handle_pending cfg s2 j2 t1 now) as [[s3 j3] ok3] eqn:E3. apply (handle_pending_co P) in E3; auto.
  destruct (negb ok3); [injection H as <- _ _; exact E3|].
  destruct (handle_kill s3 j3 t1 now) as [[s4 j4] ok4] eqn:E4. apply (handle_kill_co P) in E4; auto.
  destruct (negb ok4); [injection H as <- _ _; exact E4|].
  destruct (handle_force cfg s4 j4 t1 now) as [[s5 j5] ok5] eqn:E5. apply (handle_force_co P) in E5; auto.
  destruct (negb ok5); [injection H as <- _ _; exact E5|].
  destruct (sync_status_refs now s5 j5 t1) as [s6 j6] eqn:E6. apply (sync_status_co P) in E6; auto.
  injection H as <- _ _. exact E6.
Qed.

Lemma handle_finalizer_co (P : string -> Prop) s j now s' j' ok : handle_finalizer s j now = (s', j', ok) -> CO P s -> CO P s'.
Proof.
  unfold handle_finalizer. destruct (j_deletion j); [|intros [= <- _ _]; auto].
  destruct (negb (j_finalizer j)); [intros [= <- _ _]; auto|].
  set (tasks := flat_map _ (j_tasks j)). destruct tasks as [|p r] eqn:Et.
  - destruct (sync_status_refs now s j []) as [s1 j1] eqn:E. intros [= <- _ _] HC. eapply sync_status_co; eauto.
  - destruct (sync_status_refs now s _ (p :: r)) as [s1 j2] eqn:E.
    destruct (delete_tasks s1 (p :: r) false now) as [s2 ok2] eqn:Ed. intros [= <- _ _] HC.
    eapply delete_tasks_co; [exact Ed|]. eapply sync_status_co; eauto.
Qed.

Lemma handle_ttl_co (P : string -> Prop) cfg s j now s' ok : handle_ttl cfg s j now = (s', ok) -> CO P s -> CO P s'.
Proof.
  unfold handle_ttl. destruct (j_deletion j); [intros [= <- _]; auto|].
  destruct (j_cond j); try (intros [= <- _]; auto).
  destruct (now <? _); [intros [= <- _]; auto|].
  destruct (take_fault FDeleteJob _); [intros [= <- _] HC; apply co_add; [discriminate|exact HC]|].
  destruct (api_delete_job (ps_w s)) as [w' out]. intros [= <- _] HC. apply co_add; [discriminate|exact HC].
Qed.

Lemma sync_co (P : string -> Prop) cfg s j now s' j' ok :
  sync cfg s j now = (s', j', ok) ->
  (forall rq, In rq (compute_missing j) -> P (job_task_name (rq_hash rq) (rq_retry rq))) -> CO P s -> CO P s'.
Proof.
  unfold sync. intros H Hp HC.
  destruct (match j_start j, j_deletion j with Some _, None => sync_job_tasks cfg s j now | _, _ => (s, j, true) end)
    as [[s1 j1] ok1] eqn:E1.
  assert (C1 : CO P s1).
  { destruct (j_start j); [destruct (j_deletion j)|]; try (injection E1 as <- _ _; exact HC).
    eapply sync_job_tasks_co; eauto. }
  destruct (negb ok1); [injection H as <- _ _; exact C1|].
  destruct (sync_status now s1 j1) as [s2 j2] eqn:E2. apply (sync_status_co P) in E2; auto.
  destruct (handle_ttl cfg s2 j2 now) as [s3 ok3] eqn:E3. apply (handle_ttl_co P) in E3; auto.
  destruct (negb ok3); [injection H as <- _ _; exact E3|].
  destruct (handle_finalizer s3 j2 now) as [[s4 j4] ok4] eqn:E4. apply (handle_finalizer_co P) in E4; auto.
  destruct (negb ok4); injection H as <- _ _; exact E4.
Qed.

(** one pass: every create is a request computed from the cached Job *)
Theorem sync_one_creates cfg w w' acts ok armed n o :
  sync_one cfg w = (w', acts, ok, armed) -> In (ACreate n o) acts ->
  exists j rq, cache_job w = Some j /\ In rq (compute_missing j) /\ n = job_task_name (rq_hash rq) (rq_retry rq).
Proof.
  unfold sync_one. destruct (cache_job w) as [j|]; [|intros [= _ <- _ _] []].
  set (P := fun n => exists rq, In rq (compute_missing j) /\ n = job_task_name (rq_hash rq) (rq_retry rq)).
  destruct (sync cfg (mkPS w [] false []) j (clock w)) as [[s1 newj] ok1] eqn:Es.
  assert (C1 : CO P s1).
  { apply (sync_co P _ _ _ _ _ _ _ Es).
    - intros rq Hrq. exists rq. auto.
    - intros ? ? []. }
  intros H Hin.
  set (upd := if meta_eqb j newj then (s1, true) else _) in H.
  assert (C2 : CO P (fst upd)).
  { unfold upd. destruct (meta_eqb j newj); [exact C1|].
    destruct (take_fault FUpdateJob _); [simpl; apply co_add; [discriminate|exact C1]|].
    destruct (api_update_job (ps_w s1) newj (cache_rv w)) as [wu out]. simpl. apply co_add; [discriminate|exact C1]. }
  destruct upd as [s2 ok2]. simpl in C2.
  assert (Fin : forall s, CO P s -> In (ACreate n o) (rev (ps_actions s)) -> exists j' rq, Some j = Some j' /\ In rq (compute_missing j') /\ n = job_task_name (rq_hash rq) (rq_retry rq)).
  { intros s HC Hi. apply in_rev in Hi. destruct (HC n o Hi) as (rq & Hrq & En). exists j, rq. auto. }
  destruct (negb ok2); [injection H as _ <- _ _; eapply Fin; eauto|].
  set (st := if status_eqb j newj then (s2, true) else _) in H.
  assert (C3 : CO P (fst st)).
  { unfold st. destruct (status_eqb j newj); [exact C2|].
    destruct (take_fault FUpdateStatus _); [simpl; apply co_add; [discriminate|exact C2]|].
    destruct (api_update_status (ps_w s2) newj (cache_rv w)) as [wu out]. simpl. apply co_add; [discriminate|exact C2]. }
  destruct st as [s3 ok3]. simpl in C3. injection H as _ <- _ _. eapply Fin; eauto.
Qed.

(** * the cached Job always has the spec the Job was created with *)
Definition SV (j0 : job) (w : jworld) : Prop :=
  okeeps (Some j0) (api_job w) /\ okeeps (Some j0) (cache_job w) /\
  forall j rv, In (j, rv) (job_pending w) -> okeeps (Some j0) j.

Lemma sv_jf j0 w w' : jf w' = jf w -> SV j0 w -> SV j0 w'.
Proof. unfold SV, jf. intros [= E1 E2 E3 E4 E5]. rewrite E1, E3, E5. auto. Qed.

Lemma sv_evol j0 w w' : evol w w' -> SV j0 w -> SV j0 w'.
Proof.
  induction 1 as [w w' E|w w1 w' j fl H IH K E]; intros HS; [eapply sv_jf; eauto|].
  eapply sv_jf; [exact E|]. destruct (IH HS) as (A & C & P).
  assert (A' : okeeps (Some j0) j) by exact (okeeps_trans _ _ _ A K).
  repeat split; simpl; auto.
  intros j' rv Hin. apply in_app_or in Hin as [Hin|[[= <- _]|[]]]; [exact (P _ _ Hin)|exact A'].
Qed.

Lemma sv_upd j0 w j fl : SV j0 w -> okeeps (api_job w) j -> SV j0 (upd_job w j (api_rv w + 1) fl).
Proof. intros HS K. eapply sv_evol; [|exact HS]. eapply ev_upd; [apply evol_refl|exact K|reflexivity]. Qed.

Theorem jstep_sv cfg j0 w o : JV w -> SV j0 w -> SV j0 (fst (fst (fst (jstep cfg w o)))).
Proof.
  intros HV HS. destruct o as [t|n k|h r| |t| |n|n|f|]; simpl.
  - eapply sv_jf; [|exact HS]. reflexivity.
  - eapply sv_jf; [apply kubelet_jf|exact HS].
  - destruct (has_pod _ _); simpl; [exact HS|eapply sv_jf; [|exact HS]; reflexivity].
  - destruct (api_job w) as [a|] eqn:Ea; simpl; [|exact HS]. destruct (j_start a) eqn:Est; simpl; [exact HS|].
    apply sv_upd; [exact HS|]. rewrite Ea. simpl. split; [apply keeps_same_tasks; reflexivity|].
    split; [intros t; rewrite Est; discriminate|split; reflexivity].
  - destruct (api_job w) as [a|] eqn:Ea; simpl; [|exact HS].
    apply sv_upd; [exact HS|]. rewrite Ea. simpl. apply jkeeps_same; reflexivity.
  - destruct (api_delete_job w) as [w' out] eqn:E. simpl. apply api_delete_job_evol in E. eapply sv_evol; eauto.
  - destruct (apply_job_events n (job_pending w) (cache_job w, cache_rv w)) as [rest [cj crv]] eqn:E. simpl.
    destruct (apply_job_events_in _ _ _ _ _ E) as [Hc Hr]. destruct HS as (A & C & P).
    repeat split; simpl; auto.
    + destruct Hc as [[= -> _]|Hin]; [exact C|]. apply (P _ _ Hin).
    + intros j rv Hin. apply (P j rv). auto.
  - destruct (apply_pod_events n (pod_pending w) (cache_pods w)) as [rest cache]. simpl.
    eapply sv_jf; [|exact HS]. reflexivity.
  - eapply sv_jf; [|exact HS]. reflexivity.
  - destruct (sync_one cfg w) as [[[w' acts] ok] armed] eqn:E. simpl. apply (sync_one_evol _ _ _ _ _ _ HV) in E.
    eapply sv_evol; eauto.
Qed.

Lemma sv_init j0 now : SV j0 (init_jworld j0 now).
Proof. repeat split; simpl; try apply jkeeps_refl. intros ? ? []. Qed.

Lemma jrun_sv cfg j0 ops : forall w, JV w -> SV j0 w -> SV j0 (jrun_world cfg w ops).
Proof.
  induction ops as [|o r IH]; intros w HV HS; simpl; auto.
  apply IH; [apply (jstep_evol cfg w o HV)|now apply jstep_sv].
Qed.

(** C08, over histories *)
Theorem created_names_bounded cfg j0 now ops n o :
  let w := jrun_world cfg (init_jworld j0 now) ops in
  In (ACreate n o) (snd (fst (fst (jstep cfg w JSync)))) ->
  exists h r, n = job_task_name h r /\ In h (j_indexes j0) /\ 0 <= r < j_max_attempts j0.
Proof.
  intros w Hin. simpl in Hin. destruct (sync_one cfg w) as [[[w' acts] ok] armed] eqn:E. simpl in Hin.
  destruct (sync_one_creates _ _ _ _ _ _ _ _ E Hin) as (j & rq & Ec & Hrq & ->).
  destruct (jrun_keeps cfg ops _ (jv_init j0 now)) as [HV _]. fold w in HV.
  destruct (jrun_sv cfg j0 ops _ (jv_init j0 now) (sv_init j0 now)) as (_ & C & _). fold w in C.
  rewrite Ec in C. simpl in C. destruct C as (_ & _ & Ei & Em).
  destruct (compute_missing_sound j rq Hrq) as (H1 & _ & _ & H4 & _).
  exists (rq_hash rq), (rq_retry rq). split; [reflexivity|]. rewrite <- Ei, <- Em. auto.
Qed.
