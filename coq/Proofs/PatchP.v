(** C16, patch faithfulness as a theorem: for decoded documents a and b (object keys unique),
    the operations [create_patch a b] apply to a, one after the other, without error, and the
    result is b up to the order of object members ([jeq]).  Whatever order Go enumerates its
    maps in is an order of the association lists, and the theorem holds for every such order. *)
From Furiko Require Import Admission.Patch.
From Coq Require Import List String Ascii ZArith Bool Arith Lia.
Import ListNotations.
Local Open Scope list_scope.
Local Open Scope nat_scope.

(** ** equality of documents up to member order *)
Inductive orel {A} (R : A -> A -> Prop) : option A -> option A -> Prop :=
| orel_none : orel R None None
| orel_some x y : R x y -> orel R (Some x) (Some y).

Inductive jeq : json -> json -> Prop :=
| jeq_null : jeq JNull JNull
| jeq_bool b : jeq (JBool b) (JBool b)
| jeq_num z : jeq (JNum z) (JNum z)
| jeq_str s : jeq (JStr s) (JStr s)
| jeq_arr l1 l2 : Forall2 jeq l1 l2 -> jeq (JArr l1) (JArr l2)
| jeq_obj m1 m2 : (forall k, orel jeq (lookup k m1) (lookup k m2)) -> jeq (JObj m1) (JObj m2).

(** ** sizes *)
Lemma size_pos j : 0 < size j.
Proof. destruct j; simpl; lia. Qed.
Lemma size_in_arr x l : In x l -> size x < size (JArr l).
Proof.
  simpl. induction l as [|a l IH]; [contradiction|]. intros [->|H]; simpl; [lia|]. specialize (IH H). lia.
Qed.
Lemma size_lookup k m v : lookup k m = Some v -> size v < size (JObj m).
Proof.
  simpl. induction m as [|[k' v'] m IH]; [discriminate|]. simpl. destruct (String.eqb k k').
  - intros [= ->]. lia.
  - intros H. specialize (IH H). lia.
Qed.
Lemma size_in_obj k v m : In (k, v) m -> size v < size (JObj m).
Proof.
  simpl. induction m as [|[k' v'] m IH]; [contradiction|]. intros [[= -> ->]|H]; simpl; [lia|]. specialize (IH H). lia.
Qed.

Lemma jeq_refl_n n : forall x, size x <= n -> jeq x x.
Proof.
  induction n as [|n IH]; intros x Hs; [pose proof (size_pos x); lia|].
  destruct x as [| | | |l|m]; try constructor.
  - assert (H : forall y, In y l -> jeq y y).
    { intros y Hy. apply IH. apply size_in_arr in Hy. lia. }
    clear Hs. induction l as [|a l IHl]; constructor; [apply H; now left|apply IHl; intros y Hy; apply H; now right].
  - intros k. destruct (lookup k m) as [v|] eqn:E; constructor. apply IH. apply size_lookup in E. lia.
Qed.
Lemma jeq_refl x : jeq x x.
Proof. apply (jeq_refl_n (size x)). lia. Qed.

(** [jeqb] (reflect.DeepEqual) is sound for [jeq] *)
Lemma jeqb_sound_n n : forall x y, size x <= n -> jeqb x y = true -> jeq x y.
Proof.
  induction n as [|n IH]; intros x y Hs; [pose proof (size_pos x); lia|].
  destruct x as [|b1|z1|s1|l1|m1], y as [|b2|z2|s2|l2|m2]; simpl; try discriminate; intros H.
  - constructor.
  - apply Bool.eqb_prop in H. subst. constructor.
  - apply Z.eqb_eq in H. subst. constructor.
  - apply String.eqb_eq in H. subst. constructor.
  - constructor.
    assert (Hl : forall a, In a l1 -> size a <= n) by (intros a Ha; apply size_in_arr in Ha; lia).
    clear Hs. revert l2 H. induction l1 as [|a l1 IHl]; intros [|b l2] H; try discriminate; constructor.
    + apply andb_true_iff in H as [H _]. apply IH; [apply Hl; now left|exact H].
    + apply andb_true_iff in H as [_ H]. apply IHl; [intros c Hc; apply Hl; now right|exact H].
  - apply andb_true_iff in H as [H1 H2]. constructor. intros k.
    assert (Hm : forall k v, lookup k m1 = Some v -> size v <= n) by (intros k0 v Hv; apply size_lookup in Hv; lia).
    destruct (lookup k m1) as [v|] eqn:E.
    + assert (G : exists v', lookup k m2 = Some v' /\ jeqb v v' = true).
      { clear Hs H2 Hm. induction m1 as [|[k' v'] m1 IHm]; [discriminate|]. simpl in E, H1.
        apply andb_true_iff in H1 as [Ha Hb]. destruct (String.eqb k k') eqn:Ek.
        - apply String.eqb_eq in Ek. subst k'. injection E as ->. destruct (lookup k m2) as [w|]; [|discriminate]. eauto.
        - apply IHm; assumption. }
      destruct G as (v' & -> & G). constructor. apply IH; [eapply Hm; eauto|exact G].
    + destruct (lookup k m2) as [w|] eqn:E2; [|constructor]. exfalso.
      clear H1 Hs Hm. induction m2 as [|[k' v'] m2 IHm]; [discriminate|]. simpl in E2, H2.
      apply andb_true_iff in H2 as [Ha Hb]. destruct (String.eqb k k') eqn:Ek.
      * apply String.eqb_eq in Ek. subst k'. simpl in Ha. rewrite E in Ha. discriminate.
      * apply IHm; assumption.
Qed.
Lemma jeqb_sound x y : jeqb x y = true -> jeq x y.
Proof. apply (jeqb_sound_n (size x)). lia. Qed.

(** ** association lists *)
Lemma lookup_set_same k v m : lookup k (set k v m) = Some v.
Proof.
  induction m as [|[k' v'] m IH]; simpl; [now rewrite String.eqb_refl|].
  destruct (String.eqb k k') eqn:E; simpl; [now rewrite String.eqb_refl|now rewrite E].
Qed.
Lemma lookup_set_other k k' v m : k' <> k -> lookup k' (set k v m) = lookup k' m.
Proof.
  intros Hn. induction m as [|[k2 v2] m IH]; simpl.
  - destruct (String.eqb k' k) eqn:E; [apply String.eqb_eq in E; contradiction|reflexivity].
  - destruct (String.eqb k k2) eqn:E; simpl.
    + apply String.eqb_eq in E. subst k2. destruct (String.eqb k' k) eqn:E2; [apply String.eqb_eq in E2; contradiction|reflexivity].
    + destruct (String.eqb k' k2); [reflexivity|exact IH].
Qed.
Lemma set_lookup_same k v m : lookup k m = Some v -> set k v m = m.
Proof.
  induction m as [|[k' v'] m IH]; simpl; [discriminate|]. destruct (String.eqb k k') eqn:E.
  - intros [= ->]. apply String.eqb_eq in E. now subst.
  - intros H. now rewrite IH.
Qed.
Lemma set_set k v v' m : set k v' (set k v m) = set k v' m.
Proof.
  induction m as [|[k2 v2] m IH]; simpl; [now rewrite String.eqb_refl|].
  destruct (String.eqb k k2) eqn:E; simpl; [now rewrite String.eqb_refl|now rewrite E, IH].
Qed.
Lemma lookup_del_same k m : lookup k (del k m) = None.
Proof.
  unfold del. induction m as [|[k' v'] m IH]; simpl; [reflexivity|].
  destruct (String.eqb k k') eqn:E; simpl; [exact IH|now rewrite E].
Qed.
Lemma lookup_del_other k k' m : k' <> k -> lookup k' (del k m) = lookup k' m.
Proof.
  intros Hn. unfold del. induction m as [|[k2 v2] m IH]; simpl; [reflexivity|].
  destruct (String.eqb k k2) eqn:E; simpl.
  - apply String.eqb_eq in E. subst k2. destruct (String.eqb k' k) eqn:E2; [apply String.eqb_eq in E2; contradiction|exact IH].
  - destruct (String.eqb k' k2); [reflexivity|exact IH].
Qed.
Lemma lookup_in k m v : lookup k m = Some v -> In (k, v) m.
Proof.
  induction m as [|[k' v'] m IH]; simpl; [discriminate|]. destruct (String.eqb k k') eqn:E.
  - intros [= ->]. apply String.eqb_eq in E. subst. now left.
  - intros H. right. now apply IH.
Qed.
Lemma lookup_none_notin k m : lookup k m = None -> ~ In k (map fst m).
Proof.
  induction m as [|[k' v'] m IH]; simpl; [tauto|]. destruct (String.eqb k k') eqn:E; [discriminate|].
  intros H [->|Hi]; [now rewrite String.eqb_refl in E|]. now apply IH.
Qed.
Lemma lookup_notin k m : ~ In k (map fst m) -> lookup k m = None.
Proof.
  induction m as [|[k' v'] m IH]; simpl; [reflexivity|]. intros H. destruct (String.eqb k k') eqn:E.
  - apply String.eqb_eq in E. subst. tauto.
  - apply IH. tauto.
Qed.
Lemma in_lookup_nodup k v m : NoDup (map fst m) -> In (k, v) m -> lookup k m = Some v.
Proof.
  induction m as [|[k' v'] m IH]; simpl; [contradiction|]. intros Hnd [[= -> ->]|Hi].
  - now rewrite String.eqb_refl.
  - inversion Hnd as [|? ? Hn Hnd']; subst. destruct (String.eqb k k') eqn:E.
    + apply String.eqb_eq in E. subst. exfalso. apply Hn. change k' with (fst (k', v)). now apply in_map.
    + now apply IH.
Qed.

Lemma nodupb_sound l : nodupb l = true -> NoDup l.
Proof.
  induction l as [|x l IH]; simpl; [constructor|]. intros H. apply andb_true_iff in H as [H1 H2].
  constructor; [|now apply IH]. intros Hi. apply negb_true_iff in H1.
  assert (existsb (String.eqb x) l = true) by (apply existsb_exists; exists x; split; [exact Hi|apply String.eqb_refl]).
  congruence.
Qed.
Lemma wfb_obj m : wfb (JObj m) = true -> NoDup (map fst m) /\ forall k v, In (k, v) m -> wfb v = true.
Proof.
  simpl. intros H. apply andb_true_iff in H as [H1 H2]. split; [now apply nodupb_sound|].
  intros k v Hi. rewrite forallb_forall in H2. apply (H2 (k, v) Hi).
Qed.
Lemma wfb_arr l : wfb (JArr l) = true -> forall x, In x l -> wfb x = true.
Proof. simpl. intros H x Hx. rewrite forallb_forall in H. now apply H. Qed.

(** ** application: operations under a prefix act on the sub-document *)
Definition good (o : op) : Prop := o_path o <> [] \/ o_kind o = OReplace.

Lemma apply_ops_app o1 o2 d : apply_ops (o1 ++ o2) d = match apply_ops o1 d with Some d' => apply_ops o2 d' | None => None end.
Proof.
  revert d. induction o1 as [|o r IH]; intros d; simpl; [reflexivity|]. destruct (apply_op o d); [apply IH|reflexivity].
Qed.

Lemma apply_pre t o doc : good o -> apply_op (pre t o) doc = descend t (apply_op o) doc.
Proof.
  unfold apply_op, pre. simpl. intros [Hp|Hk].
  - destruct (o_path o) as [|t' p']; [contradiction|]. destruct (o_kind o); reflexivity.
  - rewrite Hk. destruct (o_path o); reflexivity.
Qed.

Lemma apply_ops_pre_obj k ops : Forall good ops -> forall m c c',
  lookup k m = Some c -> apply_ops ops c = Some c' ->
  apply_ops (map (pre (TK k)) ops) (JObj m) = Some (JObj (set k c' m)).
Proof.
  induction ops as [|o r IH]; intros Hg m c c' Hl Ha; simpl in *.
  - injection Ha as <-. now rewrite set_lookup_same.
  - inversion Hg as [|? ? Hgo Hgr]; subst. rewrite apply_pre by exact Hgo. simpl. rewrite Hl.
    destruct (apply_op o c) as [c1|] eqn:E; [|discriminate].
    rewrite (IH Hgr (set k c1 m) c1 c' (lookup_set_same _ _ _) Ha). now rewrite set_set.
Qed.

Lemma nth_error_mid {A} (l1 : list A) x l2 : nth_error (l1 ++ x :: l2) (List.length l1) = Some x.
Proof. induction l1; simpl; auto. Qed.
Lemma firstn_mid {A} (l1 : list A) l2 : firstn (List.length l1) (l1 ++ l2) = l1.
Proof. induction l1; simpl; [now destruct l2|now f_equal]. Qed.
Lemma skipn_mid {A} (l1 : list A) l2 : skipn (List.length l1) (l1 ++ l2) = l2.
Proof. induction l1; simpl; auto. Qed.
Lemma skipn_S_mid {A} (l1 : list A) x l2 : skipn (S (List.length l1)) (l1 ++ x :: l2) = l2.
Proof. induction l1; simpl; auto. Qed.

Lemma apply_ops_pre_arr ops : Forall good ops -> forall l1 c l2 c',
  apply_ops ops c = Some c' ->
  apply_ops (map (pre (TI (List.length l1))) ops) (JArr (l1 ++ c :: l2)) = Some (JArr (l1 ++ c' :: l2)).
Proof.
  induction ops as [|o r IH]; intros Hg l1 c l2 c' Ha; simpl in *.
  - now injection Ha as <-.
  - inversion Hg as [|? ? Hgo Hgr]; subst. rewrite apply_pre by exact Hgo. cbn [descend]. rewrite nth_error_mid.
    destruct (apply_op o c) as [c1|] eqn:E; [|discriminate].
    rewrite firstn_mid, skipn_S_mid. apply IH; assumption.
Qed.

(** ** every generated operation is a replace or has a non-empty path *)
Lemma good_pre t l : Forall good (map (pre t) l).
Proof. apply Forall_forall. intros o Ho. apply in_map_iff in Ho as (o' & <- & _). left. discriminate. Qed.
Lemma good_path k t p v : good (mkOp k (t :: p) v).
Proof. left. discriminate. Qed.

Lemma backtrace_good hv s t mx fuel : forall i j, Forall good (backtrace hv s t mx fuel i j).
Proof.
  induction fuel as [|f IH]; intros i j; simpl; [constructor|].
  destruct (_ && _); [constructor; [apply good_path|apply IH]|].
  destruct (_ && _); [constructor; [apply good_path|apply IH]|].
  destruct (_ && _).
  { apply Forall_app. split; [|apply IH]. destruct (is_basic _); [constructor; [apply good_path|constructor]|apply good_pre]. }
  destruct (_ && _); [apply IH|constructor].
Qed.

Lemma Forall_flat_map {A B} (P : B -> Prop) (f : A -> list B) l : (forall x, In x l -> Forall P (f x)) -> Forall P (flat_map f l).
Proof.
  induction l as [|a l IH]; simpl; intros H; [constructor|]. apply Forall_app. split; [apply H; now left|apply IH; intros x Hx; apply H; now right].
Qed.

Lemma handle_good f a b : Forall good (handle f a b).
Proof.
  destruct f as [|f]; [constructor|].
  assert (Hs : forall x y : json, Forall good (if Nat.eqb (kind_of x) (kind_of y) then (if jeqb x y then [] else [mkOp OReplace [] y]) else [mkOp OReplace [] y])).
  { intros x y. destruct (Nat.eqb _ _); [destruct (jeqb x y)|]; repeat constructor; now right. }
  destruct a as [| | | |la|ma], b as [| | | |lb|mb]; try apply Hs; try (cbn [handle]; constructor).
  - cbn [handle]. destruct (_ && _); [apply backtrace_good|].
    apply Forall_app. split; [|apply Forall_app; split].
    + apply Forall_forall. intros o Ho. apply in_map_iff in Ho as (i & <- & _). apply good_path.
    + apply Forall_forall. intros o Ho. apply in_map_iff in Ho as (i & <- & _). apply good_path.
    + apply Forall_flat_map. intros x _. apply good_pre.
  - cbn [handle]. apply Forall_app. split; apply Forall_flat_map; intros kv _.
    + destruct (lookup _ _); [apply good_pre|constructor; [apply good_path|constructor]].
    + destruct (lookup _ _); constructor; [apply good_path|constructor].
Qed.

(** ** objects *)
Definition HvOK (hv : json -> json -> list op) (x y : json) : Prop :=
  Forall good (hv x y) /\ exists r, apply_ops (hv x y) x = Some r /\ jeq r y.

Section Obj.
  Variable hv : json -> json -> list op.
  Variable ma mb : list (string * json).
  Definition Fadd (kv : string * json) : list op :=
    match lookup (fst kv) ma with
    | None => [mkOp OAdd [TK (fst kv)] (snd kv)]
    | Some av => map (pre (TK (fst kv))) (hv av (snd kv))
    end.
  Definition Frem (kv : string * json) : list op :=
    match lookup (fst kv) mb with
    | None => [mkOp ORemove [TK (fst kv)] JNull]
    | Some _ => []
    end.

  Lemma obj_adds entries : forall m,
    NoDup (map fst entries) ->
    (forall k bv, In (k, bv) entries -> lookup k m = lookup k ma) ->
    (forall k bv av, In (k, bv) entries -> lookup k ma = Some av -> HvOK hv av bv) ->
    exists m', apply_ops (flat_map Fadd entries) (JObj m) = Some (JObj m') /\
               (forall k bv, In (k, bv) entries -> exists r, lookup k m' = Some r /\ jeq r bv) /\
               (forall k, ~ In k (map fst entries) -> lookup k m' = lookup k m).
  Proof.
    induction entries as [|[k bv] rest IH]; intros m Hnd Hsame Hok.
    - exists m. simpl. repeat split; auto. intros ? ? [].
    - simpl in Hnd. inversion Hnd as [|? ? Hk Hnd']; subst.
      assert (Step : exists r, apply_ops (Fadd (k, bv)) (JObj m) = Some (JObj (set k r m)) /\ jeq r bv).
      { unfold Fadd. simpl fst. simpl snd. destruct (lookup k ma) as [av|] eqn:Ea.
        - destruct (Hok k bv av (or_introl eq_refl) Ea) as (Hg & r & Har & Hj).
          exists r. split; [|exact Hj]. apply apply_ops_pre_obj with (c := av); auto.
          rewrite (Hsame k bv (or_introl eq_refl)). exact Ea.
        - exists bv. split; [reflexivity|apply jeq_refl]. }
      destruct Step as (r & Hstep & Hj).
      destruct (IH (set k r m) Hnd') as (m' & Ha & H1 & H2).
      + intros k' bv' Hi. assert (k' <> k) by (intros ->; apply Hk; change k with (fst (k, bv')); now apply in_map).
        rewrite lookup_set_other by assumption. apply (Hsame k' bv'). now right.
      + intros k' bv' av Hi. apply Hok. now right.
      + exists m'. simpl flat_map. rewrite apply_ops_app, Hstep. split; [exact Ha|]. split.
        * intros k' bv' [[= -> ->]|Hi]; [|now apply H1]. exists r. rewrite (H2 k' Hk), lookup_set_same. auto.
        * intros k' Hn. simpl in Hn. rewrite H2 by tauto. apply lookup_set_other. intros ->. tauto.
  Qed.

  Lemma obj_removes entries : forall m,
    NoDup (map fst entries) ->
    (forall k v, In (k, v) entries -> lookup k mb = None -> lookup k m <> None) ->
    exists m', apply_ops (flat_map Frem entries) (JObj m) = Some (JObj m') /\
               (forall k, In k (map fst entries) -> lookup k mb = None -> lookup k m' = None) /\
               (forall k, ~ In k (map fst entries) \/ lookup k mb <> None -> lookup k m' = lookup k m).
  Proof.
    induction entries as [|[k v] rest IH]; intros m Hnd Hpres.
    - exists m. simpl. repeat split; auto. intros ? [].
    - simpl in Hnd. inversion Hnd as [|? ? Hk Hnd']; subst. simpl flat_map. unfold Frem at 1. simpl fst.
      destruct (lookup k mb) as [bv|] eqn:Eb.
      + destruct (IH m Hnd') as (m' & Ha & H1 & H2); [intros k' v' Hi; apply (Hpres k' v'); now right|].
        exists m'. simpl. split; [exact Ha|]. split.
        * intros k' [<-|Hi] Hn; [congruence|now apply H1].
        * intros k' [Hn|Hn]; apply H2; [left; simpl in Hn; tauto|now right].
      + assert (Hp : lookup k m <> None) by (apply (Hpres k v); [now left|exact Eb]).
        destruct (lookup k m) as [c|] eqn:Ec; [|congruence].
        destruct (IH (del k m) Hnd') as (m' & Ha & H1 & H2).
        { intros k' v' Hi Hn. assert (k' <> k) by (intros ->; apply Hk; change k with (fst (k, v')); now apply in_map).
          rewrite lookup_del_other by assumption. apply (Hpres k' v'); [now right|exact Hn]. }
        exists m'. assert (Hr : apply_ops [mkOp ORemove [TK k] JNull] (JObj m) = Some (JObj (del k m))) by (simpl; unfold apply_op; simpl; now rewrite Ec).
        rewrite apply_ops_app, Hr. split; [exact Ha|]. split.
        * intros k' [<-|Hi] Hn; [|now apply H1]. rewrite H2 by (left; exact Hk). apply lookup_del_same.
        * intros k' Hn. assert (Hne : k' <> k) by (intros ->; destruct Hn as [Hn|Hn]; [apply Hn; now left|congruence]).
          rewrite H2; [now apply lookup_del_other|]. destruct Hn as [Hn|Hn]; [left; simpl in Hn; tauto|now right].
  Qed.
End Obj.

(** ** arrays, element by element (the non-simple case) *)
Lemma arr_removes d : forall n l, List.length l = n + d ->
  apply_ops (map (fun i => mkOp ORemove [TI i] JNull) (rev (seq n d))) (JArr l) = Some (JArr (firstn n l)).
Proof.
  induction d as [|d IH]; intros n l Hl.
  - simpl. rewrite firstn_all2 by lia. reflexivity.
  - rewrite seq_S, rev_app_distr. simpl rev. simpl map. cbn [app apply_ops]. unfold apply_op. simpl o_kind. simpl o_path. simpl o_val.
    cbn [apply_at leaf_remove].
    assert (Hlt : (n + d <? List.length l) = true) by (apply Nat.ltb_lt; lia). rewrite Hlt.
    assert (Hsk : skipn (S (n + d)) l = []) by (apply skipn_all2; lia). rewrite Hsk, app_nil_r.
    rewrite (IH n (firstn (n + d) l)) by (rewrite firstn_length; lia).
    rewrite firstn_firstn. now replace (Nat.min n (n + d)) with n by lia.
Qed.

Lemma arr_adds vs : forall n l, List.length l = n ->
  apply_ops (map (fun iv => mkOp OAdd [TI (fst iv)] (snd iv)) (combine (seq n (List.length vs)) vs)) (JArr l) = Some (JArr (l ++ vs)).
Proof.
  induction vs as [|v vs IH]; intros n l Hl; simpl.
  - now rewrite app_nil_r.
  - unfold apply_op. simpl. assert (Hle : (n <=? List.length l) = true) by (apply Nat.leb_le; lia). rewrite Hle.
    rewrite firstn_all2, skipn_all2 by lia. rewrite (IH (S n) (l ++ [v])) by (rewrite app_length; simpl; lia).
    now rewrite <- app_assoc.
Qed.

Lemma arr_nested hv xs : forall ys done tail, List.length xs = List.length ys ->
  (forall x y, In (x, y) (combine xs ys) -> HvOK hv x y) ->
  exists rs, apply_ops (flat_map (fun ixy => map (pre (TI (fst ixy))) (hv (fst (snd ixy)) (snd (snd ixy))))
                                 (combine (seq (List.length done) (List.length xs)) (combine xs ys)))
                       (JArr (done ++ xs ++ tail)) = Some (JArr (done ++ rs ++ tail)) /\ Forall2 jeq rs ys.
Proof.
  induction xs as [|x xs IH]; intros [|y ys] done tail Hl Hok; try discriminate.
  - exists []. simpl. split; [reflexivity|constructor].
  - simpl in Hl. destruct (Hok x y (or_introl eq_refl)) as (Hg & r & Har & Hj).
    destruct (IH ys (done ++ [r]) tail) as (rs & Ha & Hf); [lia|intros x' y' Hi; apply Hok; now right|].
    exists (r :: rs). split; [|constructor; assumption].
    simpl. rewrite apply_ops_app. rewrite (apply_ops_pre_arr _ Hg done x (xs ++ tail) r Har).
    rewrite app_length in Ha. simpl in Ha. replace (List.length done + 1) with (S (List.length done)) in Ha by lia.
    rewrite <- app_assoc in Ha. simpl in Ha. rewrite Ha. now rewrite <- app_assoc.
Qed.

Lemma combine_firstn_min {A B} (l1 : list A) (l2 : list B) :
  combine l1 l2 = combine (firstn (Nat.min (List.length l1) (List.length l2)) l1) (firstn (Nat.min (List.length l1) (List.length l2)) l2).
Proof.
  revert l2. induction l1 as [|a l1 IH]; intros [|b l2]; simpl; try reflexivity. f_equal. apply IH.
Qed.

Lemma Forall2_app_r {A} (R : A -> A -> Prop) l1 l2 l : Forall2 R l1 l2 -> (forall x, In x l -> R x x) -> Forall2 R (l1 ++ l) (l2 ++ l).
Proof.
  intros H Hr. induction H; simpl; [|constructor; assumption].
  induction l as [|x l IHl]; constructor; [apply Hr; now left|apply IHl; intros y Hy; apply Hr; now right].
Qed.

Lemma in_firstn {A} n (l : list A) x : In x (firstn n l) -> In x l.
Proof. intros H. rewrite <- (firstn_skipn n l). apply in_or_app. now left. Qed.

Lemma arr_generic hv la lb :
  (forall x y, In x la -> In y lb -> HvOK hv x y) ->
  let n := Nat.min (List.length la) (List.length lb) in
  exists r, apply_ops
    (map (fun i => mkOp ORemove [TI i] JNull) (rev (seq n (List.length la - n)))
     ++ map (fun iv => mkOp OAdd [TI (fst iv)] (snd iv)) (combine (seq n (List.length lb - n)) (skipn n lb))
     ++ flat_map (fun ixy => map (pre (TI (fst ixy))) (hv (fst (snd ixy)) (snd (snd ixy)))) (combine (seq 0 n) (combine la lb)))
    (JArr la) = Some (JArr r) /\ Forall2 jeq r lb.
Proof.
  intros Hok n.
  rewrite apply_ops_app, (arr_removes (List.length la - n) n la) by lia.
  rewrite apply_ops_app.
  assert (Hsl : List.length (skipn n lb) = List.length lb - n) by apply skipn_length.
  rewrite <- Hsl. rewrite (arr_adds (skipn n lb) n (firstn n la)) by (rewrite firstn_length; lia).
  rewrite (combine_firstn_min la lb). fold n.
  assert (Hla : List.length (firstn n la) = n) by (rewrite firstn_length; lia).
  assert (Hlb : List.length (firstn n lb) = n) by (rewrite firstn_length; lia).
  destruct (arr_nested hv (firstn n la) (firstn n lb) [] (skipn n lb)) as (rs & Ha & Hf); [lia| |].
  { intros x y Hi. apply Hok; [apply in_combine_l in Hi|apply in_combine_r in Hi]; eapply in_firstn; exact Hi. }
  simpl in Ha. rewrite Hla in Ha. rewrite Ha. exists (rs ++ skipn n lb). split; [reflexivity|].
  rewrite <- (firstn_skipn n lb) at 2. apply Forall2_app_r; [exact Hf|intros; apply jeq_refl].
Qed.

(** ** the edit-distance matrix: borders and the local recurrence, which is all the
    backtrace relies on *)
Definition CellP (e : bool) (diag add del v : nat) : Prop :=
  (e = true /\ v = diag) \/ (e = false /\ (v = del + 1 \/ v = add + 1 \/ v = diag + 1)).

Lemma fill_length tj s : forall prev del, List.length prev = S (List.length s) -> List.length (fill s tj prev del) = List.length s.
Proof.
  induction s as [|si s IH]; intros [|diag prev] del Hl; simpl in *; try lia. f_equal. apply IH. lia.
Qed.

Lemma fill_cell tj s : forall prev del, List.length prev = S (List.length s) ->
  forall i, i < List.length s ->
    CellP (jeqb (nth i s JNull) tj) (nth i prev 0) (nth (S i) prev 0)
          (nth i (del :: fill s tj prev del) 0) (nth (S i) (del :: fill s tj prev del) 0).
Proof.
  induction s as [|si s IH]; intros prev del Hl i Hi; [simpl in Hi; lia|].
  destruct prev as [|diag prev]; [discriminate|]. simpl in Hl.
  destruct i as [|i].
  - cbn [fill nth]. destruct prev as [|add prev]; [simpl in Hl; lia|]. cbn [hd nth].
    unfold CellP. destruct (jeqb si tj); [left; auto|right; split; [reflexivity|]]. unfold min3. lia.
  - cbn [fill]. set (v := if jeqb si tj then diag else _).
    change (nth (S i) (si :: s) JNull) with (nth i s JNull).
    change (nth (S i) (diag :: prev) 0) with (nth i prev 0).
    change (nth (S (S i)) (diag :: prev) 0) with (nth (S i) prev 0).
    change (nth (S i) (del :: v :: fill s tj prev v) 0) with (nth i (v :: fill s tj prev v) 0).
    change (nth (S (S i)) (del :: v :: fill s tj prev v) 0) with (nth (S i) (v :: fill s tj prev v) 0).
    apply IH; simpl in *; lia.
Qed.

Lemma cols_spec s t : forall prev j0, List.length prev = S (List.length s) ->
  forall j, j < List.length t ->
    let cs := prev :: cols_from s t prev j0 in
    List.length (nth j cs []) = S (List.length s) /\
    nth (S j) cs [] = S (j0 + j) :: fill s (nth j t JNull) (nth j cs []) (S (j0 + j)).
Proof.
  induction t as [|tj t IH]; intros prev j0 Hl j Hj; [simpl in Hj; lia|].
  destruct j as [|j].
  - cbn. split; [exact Hl|]. now rewrite Nat.add_0_r.
  - cbn [cols_from]. set (c := S j0 :: fill s tj prev (S j0)).
    assert (Hc : List.length c = S (List.length s)) by (unfold c; simpl; now rewrite fill_length).
    destruct (IH c (S j0) Hc j) as [H1 H2]; [simpl in Hj; lia|].
    change (nth (S j) (prev :: c :: cols_from s t c (S j0)) []) with (nth j (c :: cols_from s t c (S j0)) []).
    change (nth (S (S j)) (prev :: c :: cols_from s t c (S j0)) []) with (nth (S j) (c :: cols_from s t c (S j0)) []).
    change (nth (S j) (tj :: t) JNull) with (nth j t JNull).
    split; [exact H1|]. rewrite H2. now replace (S j0 + j) with (j0 + S j) by lia.
Qed.

Lemma matrix_col0 s t i : i <= List.length s -> cell (matrix s t) i 0 = i.
Proof. intros Hi. unfold cell, matrix. cbn [nth]. rewrite seq_nth by lia. reflexivity. Qed.

Lemma matrix_col s t j : j < List.length t ->
  List.length (nth j (matrix s t) []) = S (List.length s) /\
  nth (S j) (matrix s t) [] = S j :: fill s (nth j t JNull) (nth j (matrix s t) []) (S j).
Proof.
  intros Hj. unfold matrix. apply (cols_spec s t (seq 0 (S (List.length s))) 0); [apply seq_length|exact Hj].
Qed.

Lemma matrix_row0 s t j : j <= List.length t -> cell (matrix s t) 0 j = j.
Proof.
  intros Hj. destruct j as [|j]; [apply matrix_col0; lia|]. unfold cell.
  destruct (matrix_col s t j) as [_ ->]; [lia|]. reflexivity.
Qed.

Lemma matrix_cell s t i j : i < List.length s -> j < List.length t ->
  CellP (jeqb (nth i s JNull) (nth j t JNull)) (cell (matrix s t) i j) (cell (matrix s t) (S i) j)
        (cell (matrix s t) i (S j)) (cell (matrix s t) (S i) (S j)).
Proof.
  intros Hi Hj. unfold cell. destruct (matrix_col s t j Hj) as [Hl ->]. apply fill_cell; assumption.
Qed.

(** ** the backtrace: whatever path it takes through the matrix, the emitted script turns
    (first i of s) ++ tail into t, where tail already matches t from j on *)
Lemma firstn_S_nth {A} (d : A) i l : i < List.length l -> firstn (S i) l = firstn i l ++ [nth i l d].
Proof.
  revert l. induction i as [|i IH]; intros [|a l] Hl; simpl in *; try lia; [reflexivity|]. f_equal. apply IH. lia.
Qed.
Lemma skipn_nth {A} (d : A) j l : j < List.length l -> skipn j l = nth j l d :: skipn (S j) l.
Proof.
  revert l. induction j as [|j IH]; intros [|a l] Hl; simpl in *; try lia; [reflexivity|]. apply IH. lia.
Qed.
Lemma nth_in_lt {A} (d : A) i l : i < List.length l -> In (nth i l d) l.
Proof. apply nth_In. Qed.

Lemma remove_mid i l1 x l2 : List.length l1 = i ->
  apply_op (mkOp ORemove [TI i] JNull) (JArr (l1 ++ x :: l2)) = Some (JArr (l1 ++ l2)).
Proof.
  intros <-. unfold apply_op. cbn [o_kind o_path o_val apply_at leaf_remove].
  assert (H : (List.length l1 <? List.length (l1 ++ x :: l2)) = true) by (apply Nat.ltb_lt; rewrite app_length; simpl; lia).
  now rewrite H, firstn_mid, skipn_S_mid.
Qed.
Lemma add_mid i l1 v l2 : List.length l1 = i ->
  apply_op (mkOp OAdd [TI i] v) (JArr (l1 ++ l2)) = Some (JArr (l1 ++ v :: l2)).
Proof.
  intros <-. unfold apply_op. cbn [o_kind o_path o_val apply_at leaf_add].
  assert (H : (List.length l1 <=? List.length (l1 ++ l2)) = true) by (apply Nat.leb_le; rewrite app_length; lia).
  now rewrite H, firstn_mid, skipn_mid.
Qed.
Lemma replace_mid i l1 x v l2 : List.length l1 = i ->
  apply_op (mkOp OReplace [TI i] v) (JArr (l1 ++ x :: l2)) = Some (JArr (l1 ++ v :: l2)).
Proof.
  intros <-. unfold apply_op. cbn [o_kind o_path o_val apply_at descend].
  now rewrite nth_error_mid, firstn_mid, skipn_S_mid.
Qed.

Lemma backtrace_ok hv s t :
  (forall x y, In x s -> In y t -> HvOK hv x y) ->
  forall fuel i j tail, i <= List.length s -> j <= List.length t -> i + j < fuel ->
    Forall2 jeq tail (skipn j t) ->
    exists r, apply_ops (backtrace hv s t (matrix s t) fuel i j) (JArr (firstn i s ++ tail)) = Some (JArr r) /\ Forall2 jeq r t.
Proof.
  intros Hok. set (mx := matrix s t).
  induction fuel as [|f IH]; intros i j tail Hi Hj Hf Ht; [lia|].
  cbn [backtrace]. fold mx.
  (* the four tests *)
  destruct ((0 <? i) && (cell mx (i - 1) j + 1 =? cell mx i j)) eqn:E1.
  { apply andb_true_iff in E1 as [Ei _]. apply Nat.ltb_lt in Ei.
    destruct i as [|i]; [lia|]. replace (S i - 1) with i by lia.
    rewrite (firstn_S_nth JNull) by lia. rewrite <- app_assoc. simpl app.
    assert (Hlen : List.length (firstn i s) = i) by (rewrite firstn_length; lia).
    cbn [apply_ops]. rewrite remove_mid by exact Hlen.
    apply IH; try lia. exact Ht. }
  destruct ((0 <? j) && (cell mx i (j - 1) + 1 =? cell mx i j)) eqn:E2.
  { apply andb_true_iff in E2 as [Ej _]. apply Nat.ltb_lt in Ej.
    destruct j as [|j]; [lia|]. replace (S j - 1) with j by lia.
    assert (Hlen : List.length (firstn i s) = i) by (rewrite firstn_length; lia).
    cbn [apply_ops]. rewrite add_mid by exact Hlen.
    apply IH; try lia. rewrite (skipn_nth JNull j t) by lia. constructor; [apply jeq_refl|exact Ht]. }
  destruct ((0 <? i) && (0 <? j) && (cell mx (i - 1) (j - 1) + 1 =? cell mx i j)) eqn:E3.
  { apply andb_true_iff in E3 as [E3 _]. apply andb_true_iff in E3 as [Ei Ej]. apply Nat.ltb_lt in Ei, Ej.
    destruct i as [|i]; [lia|]. destruct j as [|j]; [lia|]. replace (S i - 1) with i by lia. replace (S j - 1) with j by lia.
    rewrite (firstn_S_nth JNull) by lia. rewrite <- app_assoc. simpl app.
    assert (Hlen : List.length (firstn i s) = i) by (rewrite firstn_length; lia).
    rewrite apply_ops_app.
    assert (Step : exists r0, apply_ops (if is_basic (hd JNull s) then [mkOp OReplace [TI i] (nth j t JNull)]
                                          else map (pre (TI i)) (hv (nth i s JNull) (nth j t JNull)))
                                (JArr (firstn i s ++ nth i s JNull :: tail)) = Some (JArr (firstn i s ++ r0 :: tail)) /\ jeq r0 (nth j t JNull)).
    { destruct (is_basic (hd JNull s)).
      - exists (nth j t JNull). split; [|apply jeq_refl].
        cbn [apply_ops]. now rewrite replace_mid by exact Hlen.
      - destruct (Hok (nth i s JNull) (nth j t JNull)) as (Hg & r0 & Har & Hjq); [apply nth_In; lia|apply nth_In; lia|].
        exists r0. split; [|exact Hjq]. rewrite <- Hlen at 1. apply apply_ops_pre_arr; assumption. }
    destruct Step as (r0 & -> & Hjq).
    apply IH; try lia. rewrite (skipn_nth JNull j t) by lia. constructor; assumption. }
  destruct ((0 <? i) && (0 <? j) && (cell mx (i - 1) (j - 1) =? cell mx i j)) eqn:E4.
  { apply andb_true_iff in E4 as [E4 Ec]. apply andb_true_iff in E4 as [Ei Ej]. apply Nat.ltb_lt in Ei, Ej. apply Nat.eqb_eq in Ec.
    destruct i as [|i]; [lia|]. destruct j as [|j]; [lia|].
    replace (S i - 1) with i in * by lia. replace (S j - 1) with j in * by lia.
    assert (Heq : jeqb (nth i s JNull) (nth j t JNull) = true).
    { pose proof (matrix_cell s t i j ltac:(lia) ltac:(lia)) as C. fold mx in C. unfold CellP in C.
      destruct C as [[C _]|[_ C]]; [exact C|]. exfalso.
      assert (A1 : (cell mx i (S j) + 1 =? cell mx (S i) (S j)) = false) by (apply andb_false_iff in E1 as [E|E]; [discriminate E|exact E]).
      assert (A2 : (cell mx (S i) j + 1 =? cell mx (S i) (S j)) = false) by (apply andb_false_iff in E2 as [E|E]; [discriminate E|exact E]).
      assert (A3 : (cell mx i j + 1 =? cell mx (S i) (S j)) = false) by (apply andb_false_iff in E3 as [E|E]; [discriminate E|exact E]).
      apply Nat.eqb_neq in A1, A2, A3. lia. }
    rewrite (firstn_S_nth JNull) by lia. rewrite <- app_assoc. simpl app.
    apply IH; try lia. rewrite (skipn_nth JNull j t) by lia. constructor; [now apply jeqb_sound|exact Ht]. }
  (* no test fires: only at (0,0) *)
  assert (i = 0 /\ j = 0) as [-> ->].
  { unfold mx in *. destruct i as [|i], j as [|j]; [auto|exfalso..].
    - rewrite !matrix_row0 in E2 by lia. simpl in E2. replace (j - 0 + 1) with (S j) in E2 by lia. rewrite Nat.eqb_refl in E2. discriminate.
    - rewrite !matrix_col0 in E1 by lia. simpl in E1. replace (i - 0 + 1) with (S i) in E1 by lia. rewrite Nat.eqb_refl in E1. discriminate.
    - replace (S i - 1) with i in * by lia. replace (S j - 1) with j in * by lia. simpl in E1, E2, E3, E4.
      pose proof (matrix_cell s t i j ltac:(lia) ltac:(lia)) as C. unfold CellP in C.
      apply Nat.eqb_neq in E1, E2, E3, E4. lia. }
  simpl. exists tail. split; [reflexivity|]. exact Ht.
Qed.

(** ** the generator, by induction on the nesting depth *)
Lemma handle_ok : forall f a b, size a <= f -> wfb a = true -> wfb b = true -> HvOK (handle f) a b.
Proof.
  induction f as [|f IH]; intros a b Hs Hwa Hwb; [pose proof (size_pos a); lia|].
  split; [apply handle_good|].
  destruct a as [|b1|z1|s1|la|ma], b as [|b2|z2|s2|lb|mb];
    try (cbn [handle]; destruct (Nat.eqb _ _);
         [match goal with |- context [jeqb ?x ?y] => destruct (jeqb x y) eqn:E end|];
         simpl; eexists; (split; [reflexivity|]); first [now apply jeqb_sound | apply jeq_refl]).
  - exists JNull. split; [reflexivity|constructor].
  - (* arrays *)
    assert (Hch : forall x y, In x la -> In y lb -> HvOK (handle f) x y).
    { intros x y Hx Hy. apply IH; [apply size_in_arr in Hx; lia|exact (wfb_arr la Hwa x Hx)|exact (wfb_arr lb Hwb y Hy)]. }
    cbn [handle]. destruct (is_simple la && is_simple lb).
    + destruct (backtrace_ok (handle f) la lb Hch (S (List.length la + List.length lb)) (List.length la) (List.length lb) [])
        as (r & Ha & Hr); try lia.
      { rewrite skipn_all. constructor. }
      rewrite firstn_all, app_nil_r in Ha. exists (JArr r). split; [exact Ha|now constructor].
    + destruct (arr_generic (handle f) la lb Hch) as (r & Ha & Hr). exists (JArr r). split; [exact Ha|now constructor].
  - (* objects *)
    destruct (wfb_obj _ Hwa) as [Hna Hca]. destruct (wfb_obj _ Hwb) as [Hnb Hcb].
    change (handle (S f) (JObj ma) (JObj mb)) with (flat_map (Fadd (handle f) ma) mb ++ flat_map (Frem mb) ma).
    destruct (obj_adds (handle f) ma mb ma Hnb) as (m1 & Ha1 & P1 & P2); [reflexivity| |].
    { intros k bv av Hi Hl. apply IH; [apply size_lookup in Hl; lia|apply (Hca k); now apply lookup_in|now apply (Hcb k)]. }
    destruct (obj_removes (handle f) mb ma m1 Hna) as (m2 & Ha2 & Q1 & Q2).
    { intros k v Hi Hn. rewrite P2 by (now apply lookup_none_notin). rewrite (in_lookup_nodup k v ma Hna Hi). discriminate. }
    exists (JObj m2). rewrite apply_ops_app, Ha1. split; [exact Ha2|]. constructor. intros k.
    destruct (lookup k mb) as [bv|] eqn:Eb.
    + destruct (P1 k bv (lookup_in _ _ _ Eb)) as (r & Hr & Hj). rewrite Q2 by (right; congruence). rewrite Hr. now constructor.
    + destruct (in_dec string_dec k (map fst ma)) as [Hi|Hn].
      * rewrite (Q1 k Hi Eb). constructor.
      * rewrite Q2 by (now left). rewrite P2 by (now apply lookup_none_notin). rewrite (lookup_notin k ma Hn). constructor.
Qed.

(** * the patch is faithful *)
Theorem patch_faithful a b :
  wfb a = true -> wfb b = true ->
  exists r, apply_ops (create_patch a b) a = Some r /\ jeq r b.
Proof.
  intros Ha Hb. destruct (handle_ok (size a) a b (le_n _) Ha Hb) as [_ H]. exact H.
Qed.


(** ** the text form of paths: what [makePath] writes, the applier reads back, for every key
    (also keys containing "/" and "~") *)
Lemma decode_encode s : decode_tok (encode_tok s) = s.
Proof.
  induction s as [|c r IH]; [reflexivity|]. cbn [encode_tok].
  destruct (Ascii.eqb c "~") eqn:E1.
  - apply Ascii.eqb_eq in E1. subst c. cbn. now rewrite IH.
  - destruct (Ascii.eqb c "/") eqn:E2.
    + apply Ascii.eqb_eq in E2. subst c. cbn. now rewrite IH.
    + cbn [decode_tok]. now rewrite E1, IH.
Qed.

Lemma append_assoc_s a b c : String.append (String.append a b) c = String.append a (String.append b c).
Proof. induction a as [|x a IH]; simpl; [reflexivity|now rewrite IH]. Qed.
Lemma append_nil_r s : String.append s EmptyString = s.
Proof. induction s as [|x a IH]; simpl; [reflexivity|now rewrite IH]. Qed.

Lemma split_enc k : forall cur rest,
  split_slash (String.append (encode_tok k) rest) cur = split_slash rest (String.append cur (encode_tok k)).
Proof.
  induction k as [|c r IH]; intros cur rest; cbn [encode_tok].
  - simpl. now rewrite append_nil_r.
  - destruct (Ascii.eqb c "~") eqn:E1; [|destruct (Ascii.eqb c "/") eqn:E2].
    + cbn [String.append split_slash]. change (Ascii.eqb "~" "/") with false. change (Ascii.eqb "0" "/") with false. cbn iota.
      rewrite IH. f_equal. rewrite !append_assoc_s. reflexivity.
    + cbn [String.append split_slash]. change (Ascii.eqb "~" "/") with false. change (Ascii.eqb "1" "/") with false. cbn iota.
      rewrite IH. f_equal. rewrite !append_assoc_s. reflexivity.
    + cbn [String.append split_slash]. rewrite E2. rewrite IH. f_equal. rewrite !append_assoc_s. reflexivity.
Qed.

Lemma split_render ks : forall cur, split_slash (render_raw ks) cur = cur :: map encode_tok ks.
Proof.
  induction ks as [|k ks IH]; intros cur; [reflexivity|].
  cbn [render_raw split_slash]. change (Ascii.eqb "/" "/") with true. cbn iota.
  rewrite split_enc, IH. reflexivity.
Qed.

Theorem path_text_roundtrip ks : parse_path (render_raw ks) = Some ks.
Proof.
  destruct ks as [|k ks]; [reflexivity|]. cbn [render_raw parse_path]. change (Ascii.eqb "/" "/") with true. cbn iota.
  rewrite split_enc, split_render. cbn [String.append map]. rewrite decode_encode. f_equal. f_equal.
  rewrite map_map. rewrite <- (map_id ks) at 2. apply map_ext. apply decode_encode.
Qed.

(** [makePath]'s text is the RFC text as long as no member name on the path is empty *)
Lemma ends_slash_app a b : b <> EmptyString -> ends_slash (String.append a b) = ends_slash b.
Proof.
  intros Hb. induction a as [|c a IH]; [reflexivity|]. simpl.
  destruct (String.append a b) eqn:E; [destruct a; simpl in E; [contradiction|discriminate]|exact IH].
Qed.
Lemma encode_no_end_slash k : k <> EmptyString -> ends_slash (encode_tok k) = false /\ encode_tok k <> EmptyString.
Proof.
  induction k as [|c r IH]; [contradiction|]. intros _. cbn [encode_tok].
  destruct r as [|c' r'].
  - cbn [encode_tok]. destruct (Ascii.eqb c "~") eqn:E1; [split; [reflexivity|discriminate]|].
    destruct (Ascii.eqb c "/") eqn:E2; [split; [reflexivity|discriminate]|]. split; [simpl; exact E2|discriminate].
  - destruct (IH ltac:(discriminate)) as [H1 H2].
    destruct (Ascii.eqb c "~"); [|destruct (Ascii.eqb c "/")]; (split; [|discriminate]).
    + change (ends_slash (String.append "~0" (encode_tok (String c' r'))) = false). rewrite ends_slash_app by exact H2. exact H1.
    + change (ends_slash (String.append "~1" (encode_tok (String c' r'))) = false). rewrite ends_slash_app by exact H2. exact H1.
    + change (ends_slash (String.append (String c EmptyString) (encode_tok (String c' r'))) = false). rewrite ends_slash_app by exact H2. exact H1.
Qed.

Lemma render_go_raw ks : forallb nonempty_s ks = true -> render_go ks = render_raw ks.
Proof.
  unfold render_go.
  assert (G : forall ks pre, forallb nonempty_s ks = true -> (pre = EmptyString \/ ends_slash pre = false) ->
                fold_left make_path ks pre = String.append pre (render_raw ks)).
  { clear ks. induction ks as [|k ks IH]; intros pre Hne Hp; [simpl; now rewrite append_nil_r|].
    simpl in Hne. apply andb_true_iff in Hne as [Hk Hne]. assert (Hk' : k <> EmptyString) by (destruct k; [discriminate|discriminate]).
    destruct (encode_no_end_slash k Hk') as [He1 He2].
    cbn [fold_left render_raw]. rewrite IH; [|exact Hne|].
    - unfold make_path. destruct pre as [|c pre]; [reflexivity|]. destruct Hp as [Hp|Hp]; [discriminate|]. rewrite Hp.
      rewrite append_assoc_s. reflexivity.
    - right. unfold make_path. destruct pre as [|c pre].
      + change (String "/" (encode_tok k)) with (String.append "/" (encode_tok k)). rewrite ends_slash_app by exact He2. exact He1.
      + destruct Hp as [Hp|Hp]; [discriminate|]. rewrite Hp.
        change (String "/" (encode_tok k)) with (String.append "/" (encode_tok k)). rewrite <- append_assoc_s.
        rewrite ends_slash_app by exact He2. exact He1. }
  intros H. rewrite G; auto.
Qed.

Theorem go_path_text_roundtrip ks : forallb nonempty_s ks = true -> parse_path (render_go ks) = Some ks.
Proof. intros H. rewrite render_go_raw by exact H. apply path_text_roundtrip. Qed.

(** ... and not otherwise: below an empty member name the text names another place *)
Lemma go_path_text_empty_refuted : exists ks, parse_path (render_go ks) <> Some ks.
Proof. exists [EmptyString; "x"%string]. vm_compute. discriminate. Qed.

(** ** equal documents need no operation *)
Lemma jeqb_refl_n n : forall x, size x <= n -> wfb x = true -> jeqb x x = true.
Proof.
  induction n as [|n IH]; intros x Hs Hw; [pose proof (size_pos x); lia|].
  destruct x as [|b|z|s|l|m]; cbn [jeqb]; auto.
  - now destruct b.
  - apply Z.eqb_refl.
  - apply String.eqb_refl.
  - assert (H : forall y, In y l -> jeqb y y = true).
    { intros y Hy. apply IH; [apply size_in_arr in Hy; lia|exact (wfb_arr l Hw y Hy)]. }
    clear Hs Hw. induction l as [|a l IHl]; [reflexivity|]. rewrite H by now left. simpl. apply IHl. intros y Hy. apply H. now right.
  - destruct (wfb_obj _ Hw) as [Hnd Hc].
    assert (H : forall k v, In (k, v) m -> lookup k m = Some v /\ jeqb v v = true).
    { intros k v Hi. split; [now apply in_lookup_nodup|]. apply IH; [apply size_in_obj in Hi; lia|now apply (Hc k)]. }
    apply andb_true_iff. split.
    + assert (G : forall m0, (forall k v, In (k, v) m0 -> lookup k m = Some v /\ jeqb v v = true) ->
                  (fix go (m1 : list (string * json)) : bool :=
                     match m1 with
                     | [] => true
                     | kv :: r => match lookup (fst kv) m with Some v' => jeqb (snd kv) v' | None => false end && go r
                     end) m0 = true).
      { induction m0 as [|[k v] m0 IHm]; intros H0; [reflexivity|].
        destruct (H0 k v (or_introl eq_refl)) as [E1 E2]. cbn [fst snd]. rewrite E1, E2. simpl. apply IHm.
        intros k' v' Hi. apply H0. now right. }
      apply G. exact H.
    + apply forallb_forall. intros [k v] Hi. simpl. destruct (H k v Hi) as [-> _]. reflexivity.
Qed.
Lemma jeqb_refl x : wfb x = true -> jeqb x x = true.
Proof. apply (jeqb_refl_n (size x)). lia. Qed.

Lemma flat_map_nil {A B} (f : A -> list B) l : (forall x, In x l -> f x = []) -> flat_map f l = [].
Proof. induction l as [|a l IH]; intros H; simpl; [reflexivity|]. rewrite H by now left. apply IH. intros x Hx. apply H. now right. Qed.

Lemma matrix_diag s : (forall x, In x s -> jeqb x x = true) -> forall i, i <= List.length s -> cell (matrix s s) i i = 0.
Proof.
  intros Hr. induction i as [|i IH]; intros Hi; [apply matrix_col0; lia|].
  pose proof (matrix_cell s s i i ltac:(lia) ltac:(lia)) as C. unfold CellP in C.
  rewrite Hr in C by (apply nth_In; lia). destruct C as [[_ C]|[C _]]; [|discriminate]. rewrite C. apply IH. lia.
Qed.

Lemma backtrace_same hv s : (forall x, In x s -> jeqb x x = true) ->
  forall fuel i, i <= List.length s -> backtrace hv s s (matrix s s) fuel i i = [].
Proof.
  intros Hr. induction fuel as [|f IH]; intros i Hi; [reflexivity|]. cbn [backtrace].
  destruct i as [|i].
  - reflexivity.
  - replace (S i - 1) with i by lia.
    rewrite (matrix_diag s Hr (S i) Hi), (matrix_diag s Hr i ltac:(lia)).
    assert (E1 : (cell (matrix s s) i (S i) + 1 =? 0) = false) by (apply Nat.eqb_neq; lia).
    assert (E2 : (cell (matrix s s) (S i) i + 1 =? 0) = false) by (apply Nat.eqb_neq; lia).
    rewrite E1, E2. simpl. apply IH. lia.
Qed.

Lemma in_combine_same {A} (l : list A) x y : In (x, y) (combine l l) -> x = y /\ In x l.
Proof.
  induction l as [|a l IH]; simpl; [contradiction|]. intros [[= <- <-]|H]; [split; [reflexivity|now left]|].
  destruct (IH H) as [E Hx]. split; [exact E|now right].
Qed.

Lemma handle_same : forall f a, size a <= f -> wfb a = true -> handle f a a = [].
Proof.
  induction f as [|f IH]; intros a Hs Hw; [reflexivity|].
  destruct a as [|b|z|s|l|m]; cbn [handle]; auto.
  - simpl. now destruct b.
  - simpl. now rewrite Z.eqb_refl.
  - simpl. now rewrite String.eqb_refl.
  - assert (Hr : forall x, In x l -> jeqb x x = true) by (intros x Hx; apply jeqb_refl; exact (wfb_arr l Hw x Hx)).
    destruct (is_simple l && is_simple l); [apply backtrace_same; [exact Hr|lia]|].
    rewrite Nat.min_id, Nat.sub_diag. simpl. apply flat_map_nil. intros [i [x y]] Hi.
    cbn [fst snd]. apply in_combine_r in Hi. apply in_combine_same in Hi as [-> Hx].
    rewrite IH; [reflexivity|apply size_in_arr in Hx; lia|exact (wfb_arr l Hw y Hx)].
  - destruct (wfb_obj _ Hw) as [Hnd Hc].
    assert (E1 : flat_map (fun kv => match lookup (fst kv) m with
                                     | None => [mkOp OAdd [TK (fst kv)] (snd kv)]
                                     | Some av => map (pre (TK (fst kv))) (handle f av (snd kv))
                                     end) m = []).
    { apply flat_map_nil. intros [k v] Hi. cbn [fst snd]. rewrite (in_lookup_nodup k v m Hnd Hi).
      rewrite IH; [reflexivity|apply size_in_obj in Hi; lia|exact (Hc k v Hi)]. }
    assert (E2 : flat_map (fun kv => match lookup (fst kv) m with
                                     | None => [mkOp ORemove [TK (fst kv)] JNull]
                                     | Some _ => []
                                     end) m = []).
    { apply flat_map_nil. intros [k v] Hi. cbn [fst]. now rewrite (in_lookup_nodup k v m Hnd Hi). }
    rewrite E1, E2. reflexivity.
Qed.

Theorem create_patch_same a : wfb a = true -> create_patch a a = [].
Proof. intros H. apply handle_same; [apply le_n|exact H]. Qed.

(** ** the patch applies to any document equal to its source up to member order
    (the raw JSON the API server patches lists the members in its own order) *)
Lemma orel_inv_some {A} (R : A -> A -> Prop) x o : orel R (Some x) o -> exists y, o = Some y /\ R x y.
Proof. intros H. inversion H; subst. eauto. Qed.
Lemma orel_inv_none {A} (R : A -> A -> Prop) o : orel R None o -> o = None.
Proof. intros H. now inversion H. Qed.

Lemma jeq_obj_inv m1 y : jeq (JObj m1) y -> exists m2, y = JObj m2 /\ forall k, orel jeq (lookup k m1) (lookup k m2).
Proof. intros H. inversion H; subst. eauto. Qed.
Lemma jeq_arr_inv l1 y : jeq (JArr l1) y -> exists l2, y = JArr l2 /\ Forall2 jeq l1 l2.
Proof. intros H. inversion H; subst. eauto. Qed.

Lemma jeq_set k v v' m m' : jeq v v' -> (forall k0, orel jeq (lookup k0 m) (lookup k0 m')) ->
  forall k0, orel jeq (lookup k0 (set k v m)) (lookup k0 (set k v' m')).
Proof.
  intros Hv Hm k0. destruct (string_dec k0 k) as [->|Hn].
  - rewrite !lookup_set_same. now constructor.
  - rewrite !lookup_set_other by assumption. apply Hm.
Qed.
Lemma jeq_del k m m' : (forall k0, orel jeq (lookup k0 m) (lookup k0 m')) ->
  forall k0, orel jeq (lookup k0 (del k m)) (lookup k0 (del k m')).
Proof.
  intros Hm k0. destruct (string_dec k0 k) as [->|Hn].
  - rewrite !lookup_del_same. constructor.
  - rewrite !lookup_del_other by assumption. apply Hm.
Qed.

Lemma Forall2_firstn {A} (R : A -> A -> Prop) n : forall l l', Forall2 R l l' -> Forall2 R (firstn n l) (firstn n l').
Proof. induction n as [|n IH]; intros l l' H; [constructor|]. destruct H; simpl; constructor; auto. Qed.
Lemma Forall2_skipn {A} (R : A -> A -> Prop) n : forall l l', Forall2 R l l' -> Forall2 R (skipn n l) (skipn n l').
Proof. induction n as [|n IH]; intros l l' H; [exact H|]. destruct H; simpl; [constructor|auto]. Qed.
Lemma Forall2_nth_error {A} (R : A -> A -> Prop) l l' : Forall2 R l l' -> forall i x, nth_error l i = Some x ->
  exists y, nth_error l' i = Some y /\ R x y.
Proof.
  intros H. induction H as [|a b l l' Hab H IH]; intros i x Hi; [destruct i; discriminate|].
  destruct i as [|i]; simpl in *; [injection Hi as <-; eauto|apply IH; exact Hi].
Qed.
Lemma Forall2_length' {A} (R : A -> A -> Prop) l l' : Forall2 R l l' -> List.length l = List.length l'.
Proof. intros H. induction H; simpl; congruence. Qed.

Lemma apply_at_jeq k p v : forall d d' e, jeq d d' -> apply_at k p v d = Some e ->
  exists e', apply_at k p v d' = Some e' /\ jeq e e'.
Proof.
  induction p as [|t p IH]; intros d d' e Hd Ha.
  - simpl in *. destruct k; try discriminate. injection Ha as <-. exists v. split; [reflexivity|apply jeq_refl].
  - assert (Desc : forall f, (forall c c' e0, jeq c c' -> f c = Some e0 -> exists e1, f c' = Some e1 /\ jeq e0 e1) ->
                   descend t f d = Some e -> exists e', descend t f d' = Some e' /\ jeq e e').
    { intros f Hf Hdesc. destruct t as [key|i]; destruct d as [| | | |l|m]; try discriminate Hdesc.
      - apply jeq_obj_inv in Hd as (m' & -> & Hm). simpl in *.
        destruct (lookup key m) as [c|] eqn:Ec; [|discriminate].
        destruct (orel_inv_some _ _ _ (eq_ind _ (fun o => orel jeq o (lookup key m')) (Hm key) _ Ec)) as (c' & Ec' & Hc).
        rewrite Ec'. destruct (f c) as [e0|] eqn:Ef; [|discriminate]. injection Hdesc as <-.
        destruct (Hf c c' e0 Hc Ef) as (e1 & -> & He). eexists. split; [reflexivity|]. constructor. now apply jeq_set.
      - apply jeq_arr_inv in Hd as (l' & -> & Hl). simpl in *.
        destruct (nth_error l i) as [c|] eqn:Ec; [|discriminate].
        destruct (Forall2_nth_error _ _ _ Hl i c Ec) as (c' & -> & Hc).
        destruct (f c) as [e0|] eqn:Ef; [|discriminate]. injection Hdesc as <-.
        destruct (Hf c c' e0 Hc Ef) as (e1 & -> & He). eexists. split; [reflexivity|]. constructor.
        apply Forall2_app; [now apply Forall2_firstn|]. constructor; [exact He|exact (Forall2_skipn jeq (S i) l l' Hl)]. }
    assert (DescIH : descend t (apply_at k p v) d = Some e -> exists e', descend t (apply_at k p v) d' = Some e' /\ jeq e e').
    { apply Desc. intros c c' e0 Hc He0. exact (IH c c' e0 Hc He0). }
    cbn [apply_at] in *. destruct k; destruct p as [|t' p']; try (apply DescIH; exact Ha).
    + (* leaf add *)
      destruct t as [key|i]; destruct d as [| | | |l|m]; try discriminate Ha.
      * apply jeq_obj_inv in Hd as (m' & -> & Hm). simpl in *. injection Ha as <-. eexists. split; [reflexivity|].
        constructor. apply jeq_set; [apply jeq_refl|exact Hm].
      * apply jeq_arr_inv in Hd as (l' & -> & Hl). simpl in *. rewrite <- (Forall2_length' _ _ _ Hl).
        destruct (i <=? List.length l); [|discriminate]. injection Ha as <-. eexists. split; [reflexivity|]. constructor.
        apply Forall2_app; [now apply Forall2_firstn|]. constructor; [apply jeq_refl|now apply Forall2_skipn].
    + (* leaf remove *)
      destruct t as [key|i]; destruct d as [| | | |l|m]; try discriminate Ha.
      * apply jeq_obj_inv in Hd as (m' & -> & Hm). simpl in *.
        destruct (lookup key m) as [c|] eqn:Ec; [|discriminate].
        destruct (orel_inv_some _ _ _ (eq_ind _ (fun o => orel jeq o (lookup key m')) (Hm key) _ Ec)) as (c' & -> & Hc).
        injection Ha as <-. eexists. split; [reflexivity|]. constructor. now apply jeq_del.
      * apply jeq_arr_inv in Hd as (l' & -> & Hl). simpl in *. rewrite <- (Forall2_length' _ _ _ Hl).
        destruct (i <? List.length l); [|discriminate]. injection Ha as <-. eexists. split; [reflexivity|]. constructor.
        apply Forall2_app; [now apply Forall2_firstn|exact (Forall2_skipn jeq (S i) l l' Hl)].
Qed.

Lemma apply_ops_jeq ops : forall d d' e, jeq d d' -> apply_ops ops d = Some e ->
  exists e', apply_ops ops d' = Some e' /\ jeq e e'.
Proof.
  induction ops as [|o r IH]; intros d d' e Hd Ha; simpl in *.
  - injection Ha as <-. eauto.
  - destruct (apply_op o d) as [d1|] eqn:E1; [|discriminate]. unfold apply_op in *.
    destruct (apply_at_jeq _ _ _ _ _ _ Hd E1) as (d1' & -> & H1). exact (IH _ _ _ H1 Ha).
Qed.

Lemma Forall2_trans_in {A} (R : A -> A -> Prop) l1 : forall l2 l3,
  (forall a, In a l1 -> forall b c, R a b -> R b c -> R a c) ->
  Forall2 R l1 l2 -> Forall2 R l2 l3 -> Forall2 R l1 l3.
Proof.
  induction l1 as [|a l1 IH]; intros l2 l3 Ht H12 H23.
  - inversion H12; subst. inversion H23; subst. constructor.
  - inversion H12 as [|? b ? l2' Hab H12']; subst. inversion H23 as [|? c ? l3' Hbc H23']; subst.
    constructor; [apply (Ht a (or_introl eq_refl) b c Hab Hbc)|].
    apply (IH l2' l3'); [intros a0 Ha0; apply Ht; now right|exact H12'|exact H23'].
Qed.

Lemma jeq_trans_n n : forall x y z, size x <= n -> jeq x y -> jeq y z -> jeq x z.
Proof.
  induction n as [|n IH]; intros x y z Hs Hxy Hyz; [pose proof (size_pos x); lia|].
  inversion Hxy as [| | | |l1 l2 Hl|m1 m2 Hm]; subst; try exact Hyz.
  - apply jeq_arr_inv in Hyz as (l3 & -> & Hl'). constructor.
    apply (Forall2_trans_in jeq l1 l2 l3); [|exact Hl|exact Hl'].
    intros a Ha b c Hab Hbc. apply (IH a b c); [apply size_in_arr in Ha; lia|exact Hab|exact Hbc].
  - apply jeq_obj_inv in Hyz as (m3 & -> & Hm'). constructor. intros k.
    specialize (Hm k). specialize (Hm' k).
    destruct (lookup k m1) as [v1|] eqn:E1.
    + apply orel_inv_some in Hm as (v2 & E2 & H12). rewrite E2 in Hm'.
      apply orel_inv_some in Hm' as (v3 & -> & H23). constructor.
      apply (IH v1 v2 v3); [apply size_lookup in E1; lia|exact H12|exact H23].
    + apply orel_inv_none in Hm. rewrite Hm in Hm'. apply orel_inv_none in Hm'. rewrite Hm'. constructor.
Qed.
Lemma jeq_trans x y z : jeq x y -> jeq y z -> jeq x z.
Proof. apply (jeq_trans_n (size x)). lia. Qed.

(** * the patch is faithful on every document equal to its source up to member order *)
Theorem patch_faithful_any_order a a' b :
  wfb a = true -> wfb b = true -> jeq a a' ->
  exists r, apply_ops (create_patch a b) a' = Some r /\ jeq r b.
Proof.
  intros Ha Hb Haa. destruct (patch_faithful a b Ha Hb) as (r & Hr & Hj).
  destruct (apply_ops_jeq _ _ _ _ Haa Hr) as (r' & Hr' & Hj').
  exists r'. split; [exact Hr'|]. apply jeq_trans with (y := r); [|exact Hj].
  (* jeq is symmetric on results of the same script; here we only need r' ~ r from r ~ r' *)
  clear - Hj'. revert Hj'. generalize r r'. clear. intros x.
  assert (S : forall n x y, size x <= n -> jeq x y -> jeq y x).
  { induction n as [|n IH]; intros x0 y Hs H; [pose proof (size_pos x0); lia|].
    inversion H as [| | | |l1 l2 Hl|m1 m2 Hm]; subst; try constructor.
    - assert (Hin : forall a, In a l1 -> size a <= n) by (intros a Ha; apply size_in_arr in Ha; lia).
      clear Hs H. induction Hl as [|a b l1 l2 Hab Hl IHl]; constructor.
      + apply (IH a b); [apply Hin; now left|exact Hab].
      + apply IHl. intros c Hc. apply Hin. now right.
    - intros k. specialize (Hm k). destruct (lookup k m1) as [v1|] eqn:E1.
      + apply orel_inv_some in Hm as (v2 & -> & H12). constructor. apply (IH v1 v2); [apply size_lookup in E1; lia|exact H12].
      + apply orel_inv_none in Hm. rewrite Hm. constructor. }
  intros y H. apply (S (size x) x y); [lia|exact H].
Qed.
