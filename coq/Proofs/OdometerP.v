(** C14, refinement: the index-vector-with-carry loop of GenerateMatrixCombinations (the
    odometer of Job/Index.v) enumerates exactly the lexicographic cartesian product, whenever
    no value list is empty. *)
From Furiko Require Import Job.Index.
From Coq Require Import Lia Arith.
Open Scope list_scope.
Local Open Scope nat_scope.

(** * mixed-radix arithmetic *)
Definition prod (ls : list nat) : nat := fold_right Nat.mul 1 ls.

Lemma prod_pos ls : Forall (fun l => 0 < l) ls -> 0 < prod ls.
Proof. induction 1 as [|l r Hl Hr IH]; simpl; [lia|]. apply Nat.mul_pos_pos; auto. Qed.

Lemma prod_app a b : prod (a ++ b) = prod a * prod b.
Proof. induction a as [|x r IH]; simpl; [lia|]. rewrite IH. lia. Qed.

Lemma prod_rev ls : prod (rev ls) = prod ls.
Proof. induction ls as [|x r IH]; simpl; auto. rewrite prod_app, IH. simpl. lia. Qed.

Lemma succ_divmod l v : 0 < l ->
  (S (v mod l) < l -> S v mod l = S (v mod l) /\ S v / l = v / l) /\
  (l <= S (v mod l) -> S v mod l = 0 /\ S v / l = S (v / l)).
Proof.
  intros Hl. pose proof (Nat.div_mod_eq v l) as E.
  assert (Hm : v mod l < l) by (apply Nat.mod_upper_bound; lia).
  assert (Hm' : S v mod l < l) by (apply Nat.mod_upper_bound; lia).
  pose proof (Nat.div_mod_eq (S v) l) as E'.
  split; intros H.
  - assert (U : S v / l = v / l /\ S v mod l = S (v mod l)) by (apply (Nat.div_mod_unique l); auto; lia).
    tauto.
  - assert (U : S v / l = S (v / l) /\ S v mod l = 0) by (apply (Nat.div_mod_unique l); auto; nia).
    tauto.
Qed.

(** least-significant-first digits of v in the radices ls *)
Fixpoint norm (ls : list nat) (v : nat) : list nat :=
  match ls with
  | [] => []
  | l :: r => (v mod l) :: norm r (v / l)
  end.

Lemma norm_zero ls : norm ls 0 = map (fun _ => 0) ls.
Proof.
  induction ls as [|l r IH]; simpl; auto.
  assert (E1 : 0 mod l = 0) by (destruct l; auto; apply Nat.mod_0_l; lia).
  assert (E2 : 0 / l = 0) by (destruct l; auto; apply Nat.div_0_l; lia).
  now rewrite E1, E2, IH.
Qed.

Lemma norm_length ls v : List.length (norm ls v) = List.length ls.
Proof. revert v. induction ls as [|l r IH]; intros v; simpl; auto. Qed.

Lemma fc_norm ls : forall v, Forall (fun l => 0 < l) ls -> v < prod ls ->
  fix_carries ls (norm ls v) = Some (norm ls v).
Proof.
  induction ls as [|l r IH]; intros v Hp Hv; simpl; auto.
  apply Forall_cons_iff in Hp as [Hl Hr]. simpl in Hv.
  assert (Hm : v mod l < l) by (apply Nat.mod_upper_bound; lia).
  replace (l <=? v mod l) with false by (symmetry; apply Nat.leb_gt; exact Hm).
  rewrite IH; auto. apply Nat.div_lt_upper_bound; lia.
Qed.

Lemma fc_bump ls : forall v, Forall (fun l => 0 < l) ls -> S v < prod ls ->
  fix_carries ls (bump_last (norm ls v)) = Some (norm ls (S v)).
Proof.
  induction ls as [|l r IH]; intros v Hp Hv; simpl in *; [lia|].
  apply Forall_cons_iff in Hp as [Hl Hr].
  destruct (succ_divmod l v Hl) as [Hnc Hc].
  destruct (l <=? S (v mod l)) eqn:E.
  - apply Nat.leb_le in E. destruct (Hc E) as [E1 E2]. rewrite E1, E2.
    assert (Hq : S (v / l) < prod r).
    { rewrite <- E2. apply Nat.div_lt_upper_bound; lia. }
    destruct r as [|l2 r2].
    + simpl in Hq. lia.
    + pose proof (IH (v / l) Hr Hq) as IH'.
      simpl in IH' |- *. rewrite IH'. reflexivity.
  - apply Nat.leb_gt in E. destruct (Hnc E) as [E1 E2]. rewrite E1, E2.
    rewrite fc_norm; auto. apply Nat.div_lt_upper_bound; lia.
Qed.

(** most-significant-first digits *)
Fixpoint msf (ls : list nat) (v : nat) : list nat :=
  match ls with
  | [] => []
  | l :: r => ((v / prod r) mod l) :: msf r v
  end.

Lemma norm_snoc ls : forall l v, Forall (fun x => 0 < x) ls ->
  norm (ls ++ [l]) v = norm ls v ++ [(v / prod ls) mod l].
Proof.
  induction ls as [|a r IH]; intros l v Hp.
  - cbn [app norm prod fold_right]. now rewrite Nat.div_1_r.
  - apply Forall_cons_iff in Hp as [Ha Hr]. cbn [app norm prod fold_right]. rewrite IH; auto.
    f_equal. f_equal. f_equal. fold (prod r).
    rewrite Nat.div_div; try lia. pose proof (prod_pos r Hr). lia.
Qed.

Lemma rev_norm_rev ls : forall v, Forall (fun x => 0 < x) ls -> rev (norm (rev ls) v) = msf ls v.
Proof.
  induction ls as [|l r IH]; intros v Hp; simpl; auto.
  apply Forall_cons_iff in Hp as [Hl Hr].
  rewrite norm_snoc by (apply Forall_rev; exact Hr). rewrite rev_app_distr. simpl.
  now rewrite prod_rev, IH.
Qed.

(** * indexing the product *)
Lemma nth_flat_map_uniform {A B} (f : A -> list B) (bl : nat) vs :
  (forall x, List.length (f x) = bl) -> forall d rem, rem < bl ->
  nth_error (flat_map f vs) (bl * d + rem) =
  match nth_error vs d with Some x => nth_error (f x) rem | None => None end.
Proof.
  intros Hlen. induction vs as [|x r IH]; intros d rem Hr; simpl.
  - destruct d; simpl; apply nth_error_None; simpl; lia.
  - destruct d as [|d]; simpl.
    + rewrite Nat.mul_0_r. simpl. rewrite nth_error_app1; auto. rewrite Hlen. exact Hr.
    + rewrite nth_error_app2 by (rewrite Hlen; lia). rewrite Hlen.
      replace (bl * S d + rem - bl) with (bl * d + rem) by lia. now apply IH.
Qed.

Definition lens_of (m : list (string * list string)) : list nat := map (fun kv => List.length (snd kv)) m.

Lemma product_len m : List.length (product m) = prod (lens_of m).
Proof.
  induction m as [|[k vs] r IH]; simpl; auto.
  induction vs as [|v t IHt]; simpl; auto. rewrite app_length, map_length, IHt, IH. lia.
Qed.

Lemma emit m : forall v, Forall (fun l => 0 < l) (lens_of m) ->
  index_matrix m (msf (lens_of m) v) = nth_error (product m) (v mod prod (lens_of m)).
Proof.
  induction m as [|[k vs] r IH]; intros v Hp; simpl.
  - reflexivity.
  - apply Forall_cons_iff in Hp as [Hl Hr]. simpl in Hl.
    set (l := List.length vs) in *. set (nr := prod (lens_of r)) in *.
    assert (Hnr : 0 < nr) by now apply prod_pos.
    rewrite (IH v Hr). fold nr.
    rewrite (Nat.mul_comm l nr), Nat.mod_mul_r by lia. rewrite (Nat.add_comm (v mod nr)).
    rewrite (nth_flat_map_uniform (fun x => map (cons (k, x)) (product r)) nr).
    + destruct (nth_error vs ((v / nr) mod l)) as [x|] eqn:Ex.
      * rewrite nth_error_map. destruct (nth_error (product r) (v mod nr)); reflexivity.
      * exfalso. apply nth_error_None in Ex. fold l in Ex.
        pose proof (Nat.mod_upper_bound (v / nr) l ltac:(lia)). lia.
    + intros x. now rewrite map_length, product_len.
    + apply Nat.mod_upper_bound. lia.
Qed.

(** * the loop *)
Definition st (ls : list nat) (v : nat) : list nat :=
  match v with O => norm ls 0 | S u => bump_last (norm ls u) end.

Lemma st_fix ls v : Forall (fun l => 0 < l) ls -> v < prod ls -> fix_carries ls (st ls v) = Some (norm ls v).
Proof. intros Hp Hv. destruct v as [|u]; simpl; [now apply fc_norm|now apply fc_bump]. Qed.

Lemma skipn_nth {A} (l : list A) : forall n x, nth_error l n = Some x -> skipn n l = x :: skipn (S n) l.
Proof.
  induction l as [|a r IH]; intros [|n] x; simpl; try (intros H; discriminate H).
  - now intros [= ->].
  - intros H. rewrite (IH n x H). reflexivity.
Qed.

Lemma odometer_skipn m : Forall (fun l => 0 < l) (lens_of m) ->
  forall f v, v + f = prod (lens_of m) ->
  odometer f m (rev (lens_of m)) (st (rev (lens_of m)) v) = Some (skipn v (product m)).
Proof.
  intros Hp. assert (Hpr : Forall (fun l => 0 < l) (rev (lens_of m))) by now apply Forall_rev.
  induction f as [|f IH]; intros v Hv; simpl.
  - rewrite skipn_all2; auto. rewrite product_len. lia.
  - assert (Hlt : v < prod (rev (lens_of m))) by (rewrite prod_rev; lia).
    rewrite (st_fix _ _ Hpr Hlt). rewrite rev_norm_rev by exact Hp.
    rewrite (emit m v Hp). rewrite Nat.mod_small by lia.
    destruct (nth_error (product m) v) as [c|] eqn:Ec.
    + change (bump_last (norm (rev (lens_of m)) v)) with (st (rev (lens_of m)) (S v)).
      rewrite (IH (S v)) by lia. now rewrite (skipn_nth _ _ _ Ec).
    + exfalso. apply nth_error_None in Ec. rewrite product_len in Ec. lia.
Qed.

Lemma num_combinations_prod m : m <> [] -> num_combinations m = prod (lens_of m).
Proof.
  intros Hne. unfold num_combinations. destruct m as [|x r]; [congruence|].
  generalize (x :: r). clear. intros m.
  assert (G : forall acc, fold_left (fun a kv => a * List.length (snd kv)) m acc = acc * prod (lens_of m)).
  { induction m as [|y t IH]; intros acc; simpl; [lia|]. rewrite IH. lia. }
  rewrite G. lia.
Qed.

(** the refinement *)
Theorem gen_matrix_product m :
  m <> [] -> (forall kv, In kv m -> snd kv <> []) -> gen_matrix m = Some (product m).
Proof.
  intros Hne Hv. unfold gen_matrix.
  assert (Hp : Forall (fun l => 0 < l) (lens_of m)).
  { unfold lens_of. apply Forall_forall. intros l Hl. apply in_map_iff in Hl as (kv & <- & Hkv).
    specialize (Hv kv Hkv). destruct (snd kv); simpl; [congruence|lia]. }
  rewrite num_combinations_prod by exact Hne.
  assert (Ez : map (fun _ : string * list string => 0) m = st (rev (lens_of m)) 0).
  { simpl. rewrite norm_zero. unfold lens_of. rewrite <- map_rev, map_map.
    assert (G : forall (l1 : list (string * list string)) (l2 : list (string * list string)),
                List.length l1 = List.length l2 -> map (fun _ => 0) l1 = map (fun _ => 0) l2).
    { induction l1 as [|a r IH]; intros [|b t]; simpl; intros H; try discriminate H; auto. f_equal. apply IH. lia. }
    apply G. now rewrite rev_length. }
  rewrite Ez. fold (lens_of m).
  rewrite (odometer_skipn m Hp (prod (lens_of m)) 0) by lia. reflexivity.
Qed.
