(** C14: expansion, identity and variables of parallel indexes. *)
From Furiko Require Import Base.Str Job.Index Proofs.StrP.
From Coq Require Import Lia.
Open Scope list_scope.

(** * withCount *)
Lemma count_from_length n i : List.length (count_from n i) = n.
Proof. revert i; induction n; simpl; auto. Qed.

Lemma count_from_nth n : forall i k, (k < n)%nat -> nth_error (count_from n i) k = Some (INum (i + Z.of_nat k)).
Proof.
  induction n; intros i k Hk; [lia|]. destruct k; simpl.
  - f_equal. f_equal. lia.
  - rewrite IHn by lia. f_equal. f_equal. lia.
Qed.

Lemma count_from_in n : forall i x, In x (count_from n i) -> exists k, x = INum k /\ i <= k < i + Z.of_nat n.
Proof.
  induction n; intros i x; simpl; [tauto|]. intros [<-|H].
  - exists i. split; auto. lia.
  - destruct (IHn _ _ H) as (k & -> & Hk). exists k. split; auto. lia.
Qed.

Lemma count_from_nodup n : forall i, NoDup (count_from n i).
Proof.
  induction n; intros i; simpl; constructor; auto.
  intros H. apply count_from_in in H as (k & E & Hk). injection E as <-. lia.
Qed.

(** withCount n expands to exactly 0 .. n-1, in order, without repetition *)
Theorem gen_count s n :
  ps_count s = Some n -> 0 <= n ->
  exists l, gen_indexes s = Some l /\ List.length l = Z.to_nat n /\ NoDup l /\
    forall k, (k < Z.to_nat n)%nat -> nth_error l k = Some (INum (Z.of_nat k)).
Proof.
  intros Hc Hn. unfold gen_indexes. rewrite Hc.
  replace (n <? 0) with false by (symmetry; apply Z.ltb_ge; lia).
  eexists. split; [reflexivity|]. split; [apply count_from_length|]. split; [apply count_from_nodup|].
  intros k Hk. now rewrite count_from_nth.
Qed.

(** withKeys expands to the given keys in the given order *)
Theorem gen_keys s k r :
  ps_count s = None -> ps_keys s = k :: r -> gen_indexes s = Some (map IKey (k :: r)).
Proof. intros Hc Hk. unfold gen_indexes. now rewrite Hc, Hk. Qed.

Lemma map_ikey_nodup l : NoDup l -> NoDup (map IKey l).
Proof.
  induction 1; simpl; constructor; auto.
  intros H1. apply in_map_iff in H1 as (y & [= <-] & Hy). contradiction.
Qed.

Lemma nodup_str_spec l : nodup_str l = true -> NoDup l.
Proof.
  induction l as [|x r IH]; simpl; [constructor|].
  intros H. apply andb_prop in H as [H1 H2]. constructor; auto.
  intros Hin. apply negb_true_iff in H1.
  assert (existsb (String.eqb x) r = true); [|congruence].
  apply existsb_exists. exists x. split; auto. apply String.eqb_refl.
Qed.

(** * the cartesian product (specification of withMatrix) *)
Lemma product_length m :
  List.length (product m) = fold_right (fun kv acc => (List.length (snd kv) * acc)%nat) 1%nat m.
Proof.
  induction m as [|[k vs] r IH]; simpl; auto.
  induction vs as [|v vs IHv]; simpl; auto.
  rewrite app_length, map_length, IH, IHv. lia.
Qed.

(** every combination of the product picks, for every key in order, one of its values *)
Lemma product_in m c :
  In c (product m) <->
  List.length c = List.length m /\
  forall i kv, nth_error m i = Some kv -> exists v, nth_error c i = Some (fst kv, v) /\ In v (snd kv).
Proof.
  revert c; induction m as [|[k vs] r IH]; intros c; simpl.
  - split.
    + intros [<-|[]]. split; auto. intros i kv H. destruct i; discriminate.
    + intros [Hl _]. destruct c; [now left|discriminate].
  - rewrite in_flat_map. split.
    + intros (v & Hv & Hc). apply in_map_iff in Hc as (c' & <- & Hc'). apply IH in Hc' as [Hl Hn].
      split; [simpl; now rewrite Hl|]. intros i kv Hi. destruct i; simpl in *.
      * injection Hi as <-. exists v. auto.
      * now apply Hn.
    + intros [Hl Hn]. destruct c as [|[k' v] c']; [discriminate|].
      destruct (Hn 0%nat (k, vs) eq_refl) as (v0 & Hv0 & Hin). simpl in Hv0. injection Hv0 as -> ->.
      exists v0. split; auto. apply in_map. apply IH. split; [simpl in Hl; lia|].
      intros i kv Hi. exact (Hn (S i) kv Hi).
Qed.

Lemma nodup_app_intro {A} (l1 l2 : list A) :
  NoDup l1 -> NoDup l2 -> (forall x, In x l1 -> In x l2 -> False) -> NoDup (l1 ++ l2).
Proof.
  induction 1 as [|x l1 Hx Hn IH]; simpl; auto. intros H2 Hd. constructor.
  - intros Hin. apply in_app_iff in Hin as [Hin|Hin]; [contradiction|]. apply (Hd x); [now left|exact Hin].
  - apply IH; [exact H2|]. intros y Hy1 Hy2. apply (Hd y); [now right|exact Hy2].
Qed.

Lemma product_nodup m : (forall kv, In kv m -> NoDup (snd kv)) -> NoDup (product m).
Proof.
  induction m as [|[k vs] r IH]; intros Hnd; simpl; [constructor; [tauto|constructor]|].
  assert (Hr : NoDup (product r)) by (apply IH; intros kv H; apply Hnd; now right).
  assert (Hvs : NoDup vs) by (apply (Hnd (k, vs)); now left).
  clear IH Hnd. induction Hvs as [|v vs Hv Hvs IHv]; simpl; [constructor|].
  apply nodup_app_intro.
  - clear - Hr. induction Hr; simpl; constructor; auto.
    intros H1. apply in_map_iff in H1 as (y & [= <-] & Hy). contradiction.
  - exact IHv.
  - intros c H1 H2. apply in_map_iff in H1 as (c1 & <- & _).
    apply in_flat_map in H2 as (v2 & Hv2 & H2). apply in_map_iff in H2 as (c2 & [= <- _] & _). contradiction.
Qed.

(** * identity: task names and variables *)
Lemma app_inv_head_str (p a b : string) : (p ++ a = p ++ b)%string -> a = b.
Proof. induction p; simpl; intros H; [assumption|]. injection H. auto. Qed.

Lemma str_app_assoc (a b c : string) : ((a ++ b) ++ c = a ++ (b ++ c))%string.
Proof. induction a; simpl; [reflexivity|now rewrite IHa]. Qed.

(** distinct hashes (or distinct retry numbers) give distinct task names *)
Theorem task_name_inj job h1 r1 h2 r2 :
  0 <= r1 -> 0 <= r2 -> task_name job h1 r1 = task_name job h2 r2 -> h1 = h2 /\ r1 = r2.
Proof.
  unfold task_name. intros H1 H2 E.
  replace (job ++ "-" ++ h1 ++ "-" ++ show_Z r1)%string with ((job ++ "-" ++ h1) ++ String "-" (show_Z r1))%string in E
    by (rewrite !str_app_assoc; reflexivity).
  replace (job ++ "-" ++ h2 ++ "-" ++ show_Z r2)%string with ((job ++ "-" ++ h2) ++ String "-" (show_Z r2))%string in E
    by (rewrite !str_app_assoc; reflexivity).
  apply app_inj_tail_sep in E as [E1 E2]; try now apply show_Z_nonneg_no_dash.
  apply app_inv_head_str in E1. apply app_inv_head_str in E1.
  split; auto. now apply show_Z_inj.
Qed.

Definition valid_index (i : pindex) : Prop := match i with IKey EmptyString => False | _ => True end.

(** the variables a task receives determine its index (distinct indexes, distinct values) *)
Theorem index_vars_inj i1 i2 :
  valid_index i1 -> valid_index i2 -> index_vars i1 = index_vars i2 -> i1 = i2.
Proof.
  destruct i1 as [n1|k1|kv1], i2 as [n2|k2|kv2]; intros V1 V2 E.
  - simpl in E. injection E as E. f_equal. now apply show_Z_inj.
  - destruct k2; [contradiction|]. simpl in E. discriminate E.
  - destruct kv2 as [|[x2 y2] r2]; simpl in E; [discriminate E|]. injection E as E _ _. discriminate E.
  - destruct k1; [contradiction|]. simpl in E. discriminate E.
  - destruct k1; [contradiction|]. destruct k2; [contradiction|]. simpl in E. injection E as E1 E2. now rewrite E1, E2.
  - destruct k1; [contradiction|]. destruct kv2 as [|[x2 y2] r2]; simpl in E; [discriminate E|]. injection E as E _ _. discriminate E.
  - destruct kv1 as [|[x1 y1] r1]; simpl in E; [discriminate E|]. injection E as E _ _. discriminate E.
  - destruct k2; [contradiction|]. destruct kv1 as [|[x1 y1] r1]; simpl in E; [discriminate E|]. injection E as E _ _. discriminate E.
  - f_equal. clear V1 V2. revert kv2 E.
    induction kv1 as [|[x1 y1] r1 IH]; intros [|[x2 y2] r2] E; simpl in E; try discriminate E; auto.
    injection E as Ex Ey Er. subst. f_equal. now apply IH.
Qed.

(** * admission *)
Lemma forallb_nonempty l : forallb nonempty_str l = true -> forall x, In x l -> x <> EmptyString.
Proof.
  intros H x Hx. rewrite forallb_forall in H. specialize (H _ Hx). destruct x; [discriminate|congruence].
Qed.

(** an accepted withCount / withKeys spec expands (no panic) to pairwise distinct, valid
    indexes *)
Theorem valid_count_keys_distinct s :
  valid_pspec s = true -> ps_matrix s = [] ->
  exists l, gen_indexes s = Some l /\ NoDup l /\ forall i, In i l -> valid_index i.
Proof.
  unfold valid_pspec. intros H Hm. rewrite Hm in H. cbn [forallb] in H.
  apply andb_prop in H as [H _]. apply andb_prop in H as [H Hnd]. apply andb_prop in H as [H Hne].
  apply andb_prop in H as [Hty Hpos].
  destruct (ps_count s) as [n|] eqn:Ec.
  - apply Z.ltb_lt in Hpos.
    destruct (gen_count s n Ec ltac:(lia)) as (l & Hg & _ & Hnd' & Hnth). exists l. repeat split; auto.
    intros i Hi. unfold gen_indexes in Hg. rewrite Ec in Hg.
    replace (n <? 0) with false in Hg by (symmetry; apply Z.ltb_ge; lia). injection Hg as <-.
    apply count_from_in in Hi as (k & -> & _). exact I.
  - destruct (ps_keys s) as [|k r] eqn:Ek; [simpl in Hty; discriminate Hty|].
    exists (map IKey (k :: r)). split; [unfold gen_indexes; now rewrite Ec, Ek|].
    split; [apply map_ikey_nodup; now apply nodup_str_spec|].
    intros i Hi. apply in_map_iff in Hi as (x & <- & Hx).
    pose proof (forallb_nonempty _ Hne x Hx). simpl. destruct x; [congruence|exact I].
Qed.

(** an accepted withMatrix spec has only non-empty, duplicate-free value lists, so the
    combinations of its cartesian product are pairwise distinct and complete *)
Theorem valid_matrix_product s :
  valid_pspec s = true ->
  NoDup (product (ps_matrix s)) /\
  List.length (product (ps_matrix s)) =
    fold_right (fun kv acc => (List.length (snd kv) * acc)%nat) 1%nat (ps_matrix s) /\
  forall kv, In kv (ps_matrix s) -> snd kv <> [] /\ NoDup (snd kv).
Proof.
  unfold valid_pspec. intros H. apply andb_prop in H as [_ H]. rewrite forallb_forall in H.
  assert (Hkv : forall kv, In kv (ps_matrix s) -> snd kv <> [] /\ NoDup (snd kv)).
  { intros kv Hin. specialize (H _ Hin). apply andb_prop in H as [H H3]. apply andb_prop in H as [H1 H2].
    split; [destruct (snd kv); [discriminate|congruence]|now apply nodup_str_spec]. }
  split; [apply product_nodup; intros kv Hin; now apply Hkv|]. split; [apply product_length|exact Hkv].
Qed.
