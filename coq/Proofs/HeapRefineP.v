(** The array heap of pkg/utils/heap refines the key -> priority map by which the cron model
    (Cron/Sched.v) describes the schedule: with [Refines h a] ("Search agrees with h_find on
    every key"), Push / Update are h_upsert, Delete is h_delete, and Pop removes an entry of
    least priority (which one among equals is the array's business: Cron's theorems hold for
    any tie-break, Proofs/HeapP.v). *)
From Furiko Require Import Cron.ArrayHeap Proofs.ArrayHeapP.
From Furiko Require Cron.Sched Proofs.HeapP.
From Coq Require Import Lia.
Local Open Scope Z_scope.

Definition Refines (h : aheap) (a : Sched.heap) : Prop := forall k, h_search h k = Sched.h_find k a.

Theorem refines_push h a k p : Good h -> Refines h a -> h_search h k = None ->
  Good (h_push h k p) /\ Refines (h_push h k p) (Sched.h_upsert k p a).
Proof.
  intros G R Hs. destruct (T_push h k p G Hs) as [G' S]. split; [exact G'|].
  intros k'. rewrite S, HeapP.h_find_upsert, (R k'). reflexivity.
Qed.

Theorem refines_update h a k p p0 : Good h -> Refines h a -> h_search h k = Some p0 ->
  Good (fst (h_update h k p)) /\ Refines (fst (h_update h k p)) (Sched.h_upsert k p a).
Proof.
  intros G R Hs. destruct (T_update h k p G) as [_ U]. destruct (U p0 Hs) as (_ & G' & S). split; [exact G'|].
  intros k'. rewrite S, HeapP.h_find_upsert, (R k'). reflexivity.
Qed.

Theorem refines_delete h a k : Good h -> Refines h a ->
  Good (fst (h_delete h k)) /\ Refines (fst (h_delete h k)) (Sched.h_delete k a).
Proof.
  intros G R. destruct (T_delete h k G) as [Dn Ds]. destruct (h_search h k) as [p0|] eqn:E.
  - destruct (Ds p0 eq_refl) as (_ & G' & S). split; [exact G'|].
    intros k'. rewrite S, HeapP.h_find_delete, (R k'). reflexivity.
  - rewrite (Dn eq_refl). split; [exact G|]. intros k'. rewrite HeapP.h_find_delete, <- (R k').
    destruct (Z.eqb_spec k' k) as [->|]; [exact E|reflexivity].
Qed.

(** Pop / Peek: the entry is in the map, no entry of the map has a smaller priority, and what
    is left is the map without that key *)
Theorem refines_pop h a : Good h -> Refines h a -> queue h <> [] ->
  let x := snd (h_pop h) in
  h_peek h = Some x /\ Sched.h_find (ikey x) a = Some (iprio x) /\
  (forall k' p', Sched.h_find k' a = Some p' -> iprio x <= p') /\
  Good (fst (h_pop h)) /\ Refines (fst (h_pop h)) (Sched.h_delete (ikey x) a).
Proof.
  intros G R Hne. cbv zeta. destruct (T_pop h G Hne) as (G' & Hp & S). cbv zeta in *.
  destruct (T_peek_min h _ G Hp) as [Hx Hmin].
  split; [exact Hp|]. split; [now rewrite <- (R _)|]. split.
  - intros k' p' Hf. apply (Hmin k' p'). now rewrite (R k').
  - split; [exact G'|]. intros k'. rewrite S, HeapP.h_find_delete, (R k'). reflexivity.
Qed.

Theorem refines_new items : NoDup (keys items) -> Good (h_new items) /\ Refines (h_new items) items.
Proof.
  intros ND. destruct (T_new items ND) as [G S]. split; [exact G|]. intros k.
  destruct (h_search (h_new items) k) as [p|] eqn:E.
  - apply S in E. symmetry. apply HeapP.h_find_in; [exact ND|exact E].
  - destruct (Sched.h_find k items) as [p|] eqn:F; [|reflexivity].
    apply HeapP.h_find_some_in, S in F. congruence.
Qed.
