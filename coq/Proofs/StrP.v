From Furiko Require Import Base.Str.
From Coq Require Import DecimalString DecimalZ Lia.

Lemma string_of_uint_digits d : all_digits (NilEmpty.string_of_uint d) = true.
Proof. induction d; simpl; auto. Qed.

Lemma digits_no_char c s :
  is_digit c = false -> all_digits s = true -> contains_char c s = false.
Proof.
  intros Hc; induction s as [|a s IH]; simpl; auto.
  intros H; apply andb_prop in H as [Ha Hs].
  rewrite (IH Hs), orb_false_r.
  destruct (Ascii.eqb_spec a c) as [->|]; auto. congruence.
Qed.

Lemma nz_string_of_uint_digits d : all_digits (NilZero.string_of_uint d) = true.
Proof. destruct d; simpl; auto; apply string_of_uint_digits. Qed.

Lemma show_Z_nonneg_digits z : 0 <= z -> all_digits (show_Z z) = true.
Proof.
  intros Hz; unfold show_Z; destruct z; try lia; simpl.
  - reflexivity.
  - apply nz_string_of_uint_digits.
Qed.

Lemma show_Z_no_dot z : contains_char "." (show_Z z) = false.
Proof.
  unfold show_Z; destruct z; simpl.
  - reflexivity.
  - apply digits_no_char; [reflexivity|apply nz_string_of_uint_digits].
  - rewrite (digits_no_char "."); [reflexivity|reflexivity|apply nz_string_of_uint_digits].
Qed.

Lemma show_Z_nonneg_no_dash z : 0 <= z -> contains_char "-" (show_Z z) = false.
Proof. intros; apply digits_no_char; [reflexivity|now apply show_Z_nonneg_digits]. Qed.

Lemma pos_to_uint_nonnil p : Pos.to_uint p <> Decimal.Nil.
Proof.
  intros H. pose proof (DecimalPos.Unsigned.of_to p) as E.
  rewrite H in E. simpl in E. discriminate.
Qed.

Lemma digit_first_not_sign s a :
  all_digits (String a s) = true -> Ascii.eqb a "-" = false /\ Ascii.eqb a "+" = false.
Proof.
  simpl; intros H; apply andb_prop in H as [Ha _].
  split; destruct (Ascii.eqb_spec a "-"), (Ascii.eqb_spec a "+"); subst; auto; discriminate.
Qed.

Lemma parse_uint_show_pos p :
  parse_uint (NilZero.string_of_uint (Pos.to_uint p)) = Some (Z.pos p).
Proof.
  unfold parse_uint. rewrite NilZero.usu by apply pos_to_uint_nonnil.
  simpl. f_equal. change (Z.of_int (Z.to_int (Z.pos p)) = Z.pos p). apply DecimalZ.of_to.
Qed.

Lemma parse_int_show z : is_int64 z = true -> parse_int (show_Z z) = Some z.
Proof.
  intros Hr. unfold show_Z. destruct z as [|p|p]; simpl Z.to_int.
  - reflexivity.
  - simpl NilZero.string_of_int.
    pose proof (nz_string_of_uint_digits (Pos.to_uint p)) as Hd.
    pose proof (parse_uint_show_pos p) as Hp.
    destruct (NilZero.string_of_uint (Pos.to_uint p)) as [|a s] eqn:E.
    + discriminate Hp.
    + destruct (digit_first_not_sign _ _ Hd) as [H1 H2].
      unfold parse_int. rewrite H1, H2, Hp, Hr. reflexivity.
  - simpl NilZero.string_of_int. unfold parse_int.
    change (Ascii.eqb "-" "-") with true. cbv iota.
    rewrite parse_uint_show_pos. cbn [option_map Z.opp].
    rewrite Hr. reflexivity.
Qed.

Lemma split_last_none c s : contains_char c s = false -> split_last c s = None.
Proof.
  induction s as [|a s IH]; simpl; auto.
  intros H; apply orb_false_elim in H as [Ha Hs]. now rewrite (IH Hs), Ha.
Qed.

Lemma split_last_app c a b :
  contains_char c b = false -> split_last c (a ++ String c b) = Some (a, b).
Proof.
  intros Hb; induction a as [|x a IH]; simpl.
  - rewrite (split_last_none _ _ Hb), Ascii.eqb_refl. reflexivity.
  - now rewrite IH.
Qed.

Lemma split_last_inv c s l r :
  split_last c s = Some (l, r) -> s = l ++ String c r /\ contains_char c r = false.
Proof.
  revert l; induction s as [|a s IH]; simpl; intros l H; [discriminate|].
  destruct (split_last c s) as [[l' r']|] eqn:E.
  - injection H as <- <-. destruct (IH _ eq_refl) as [-> Hn]. auto.
  - destruct (Ascii.eqb_spec a c) as [->|]; [|discriminate].
    injection H as <- <-. split; auto.
    clear IH. induction s as [|b s IHs]; simpl in *; auto.
    destruct (split_last c s) as [[? ?]|]; [discriminate|].
    destruct (Ascii.eqb b c); [discriminate|]. simpl. auto.
Qed.

Lemma app_inj_tail_sep c a1 b1 a2 b2 :
  contains_char c b1 = false -> contains_char c b2 = false ->
  a1 ++ String c b1 = a2 ++ String c b2 -> a1 = a2 /\ b1 = b2.
Proof.
  intros H1 H2 E.
  pose proof (split_last_app c a1 b1 H1) as S1.
  rewrite E, (split_last_app c a2 b2 H2) in S1. now injection S1.
Qed.

Lemma show_Z_inj a b : show_Z a = show_Z b -> a = b.
Proof.
  unfold show_Z. intros H.
  apply DecimalZ.to_int_inj.
  assert (Hnn : forall z, Z.to_int z <> Decimal.Pos Decimal.Nil /\ Z.to_int z <> Decimal.Neg Decimal.Nil).
  { intros [|p|p]; simpl; split; try discriminate; intros E; injection E; apply pos_to_uint_nonnil. }
  destruct (Hnn a) as [A1 A2], (Hnn b) as [B1 B2].
  pose proof (NilZero.isi _ A1 A2) as Ea. pose proof (NilZero.isi _ B1 B2) as Eb.
  rewrite H in Ea. rewrite Ea in Eb. now injection Eb.
Qed.
