(** The abstract heap (finite map key -> priority) of Cron/Sched.v. *)
From Furiko Require Import Cron.Sched.
From Coq Require Import Lia.

Definition keys_nodup (h : heap) : Prop := NoDup (map fst h).

Lemma h_find_some_in k p h : h_find k h = Some p -> In (k, p) h.
Proof.
  induction h as [|[k' p'] r IH]; simpl; [discriminate|].
  destruct (k' =? k) eqn:E.
  - apply Z.eqb_eq in E; subst. intros [= ->]. now left.
  - intros H. right. auto.
Qed.

Lemma h_find_none_notin k h : h_find k h = None -> ~ In k (map fst h).
Proof.
  induction h as [|[k' p'] r IH]; simpl; [tauto|].
  destruct (k' =? k) eqn:E; [discriminate|].
  apply Z.eqb_neq in E. intros H [->|Hin]; [congruence|]. now apply IH.
Qed.

Lemma h_find_in k p h : keys_nodup h -> In (k, p) h -> h_find k h = Some p.
Proof.
  unfold keys_nodup. induction h as [|[k' p'] r IH]; simpl; [tauto|].
  intros Hn [[= -> ->]|Hin].
  - now rewrite Z.eqb_refl.
  - inversion Hn as [|? ? Hnot Hn']; subst.
    destruct (k' =? k) eqn:E.
    + apply Z.eqb_eq in E; subst. exfalso. apply Hnot.
      change k with (fst (k, p)). now apply in_map.
    + auto.
Qed.

Lemma h_delete_in k e h : In e (h_delete k h) <-> In e h /\ fst e <> k.
Proof.
  unfold h_delete. rewrite filter_In.
  destruct (fst e =? k) eqn:E; simpl.
  - apply Z.eqb_eq in E. intuition congruence.
  - apply Z.eqb_neq in E. intuition.
Qed.

Lemma h_delete_keys_notin k h : ~ In k (map fst (h_delete k h)).
Proof.
  intros H. apply in_map_iff in H as (e & He & Hin). apply h_delete_in in Hin. tauto.
Qed.

Lemma h_delete_nodup k h : keys_nodup h -> keys_nodup (h_delete k h).
Proof.
  unfold keys_nodup, h_delete. induction h as [|[k' p'] r IH]; simpl; [auto|].
  intros Hn. inversion Hn as [|? ? Hnot Hn']; subst.
  destruct (negb (k' =? k)); simpl; auto.
  constructor; auto. intros H. apply Hnot.
  apply in_map_iff in H as (e & He & Hin). apply filter_In in Hin as [Hin _].
  rewrite <- He. now apply in_map.
Qed.

Lemma h_find_delete k k' h :
  h_find k (h_delete k' h) = if k =? k' then None else h_find k h.
Proof.
  unfold h_delete. induction h as [|[a p] r IH]; simpl.
  - now destruct (k =? k').
  - destruct (a =? k') eqn:E1; simpl.
    + apply Z.eqb_eq in E1; subst. rewrite IH.
      destruct (k =? k') eqn:E2; auto.
      rewrite Z.eqb_sym, E2. reflexivity.
    + destruct (a =? k) eqn:E2.
      * apply Z.eqb_eq in E2; subst. now rewrite E1.
      * apply IH.
Qed.

Lemma h_find_upsert k k' p h :
  h_find k (h_upsert k' p h) = if k =? k' then Some p else h_find k h.
Proof.
  unfold h_upsert. simpl. rewrite Z.eqb_sym. destruct (k =? k') eqn:E; auto.
  rewrite h_find_delete, E. reflexivity.
Qed.

Lemma h_upsert_nodup k p h : keys_nodup h -> keys_nodup (h_upsert k p h).
Proof.
  intros H. unfold keys_nodup, h_upsert. simpl. constructor.
  - apply h_delete_keys_notin.
  - now apply h_delete_nodup.
Qed.

Lemma h_min_in h e : h_min h = Some e -> In e h.
Proof.
  revert e; induction h as [|x r IH]; simpl; [discriminate|].
  intros e. destruct (h_min r) as [m|].
  - destruct (entry_le x m); intros [= <-]; auto.
  - intros [= <-]; auto.
Qed.

Lemma h_min_none h : h_min h = None -> h = [].
Proof.
  destruct h as [|x r]; simpl; auto. destruct (h_min r) as [m|]; [destruct (entry_le x m)|]; discriminate.
Qed.

Lemma h_min_le h k p : h_min h = Some (k, p) -> forall k' p', In (k', p') h -> p <= p'.
Proof.
  revert k p; induction h as [|x r IH]; simpl; [discriminate|].
  intros k p. destruct (h_min r) as [[mk mp]|] eqn:Em.
  - unfold entry_le. destruct x as [xk xp]; simpl.
    destruct ((xp <? mp) || (xp =? mp) && (xk <=? mk)) eqn:E.
    + intros [= -> ->] k' p' [[= -> ->]|Hin]; [lia|].
      specialize (IH _ _ eq_refl _ _ Hin).
      apply orb_prop in E as [E|E].
      * apply Z.ltb_lt in E. lia.
      * apply andb_prop in E as [E _]. apply Z.eqb_eq in E. lia.
    + intros [= -> ->] k' p' [[= -> ->]|Hin].
      * apply orb_false_elim in E as [E1 E2]. apply Z.ltb_ge in E1. lia.
      * eapply IH; eauto.
  - apply h_min_none in Em; subst. intros [= ->] k' p' [[= -> ->]|[]]. lia.
Qed.

(** Schedule.Pop *)
Lemma pop_due_some h now k p h' :
  keys_nodup h -> pop_due h now = Some (k, p, h') ->
  h_find k h = Some p /\ ns p <= now /\ h' = h_delete k h /\
  (forall k' p', In (k', p') h -> p <= p').
Proof.
  intros Hn. unfold pop_due. destruct (h_min h) as [[mk mp]|] eqn:Em; [|discriminate].
  destruct (now <? ns mp) eqn:E; [discriminate|]. intros [= -> -> <-].
  apply Z.ltb_ge in E. repeat split; auto.
  - apply h_find_in; auto. now apply h_min_in.
  - now apply h_min_le with (k := k).
Qed.

Lemma pop_due_none h now :
  pop_due h now = None -> forall k p, In (k, p) h -> now < ns p.
Proof.
  unfold pop_due. destruct (h_min h) as [[mk mp]|] eqn:Em.
  - destruct (now <? ns mp) eqn:E; [|discriminate]. intros _ k p Hin.
    apply Z.ltb_lt in E. pose proof (h_min_le _ _ _ Em _ _ Hin). unfold ns in *. lia.
  - apply h_min_none in Em; subst. intros _ k p [].
Qed.
