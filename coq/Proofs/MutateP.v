(** C16: defaulting is idempotent and complete; configName expansion; lastUpdated stamping. *)
From Furiko Require Import Admission.Mutate Proofs.OptionsP.
From Coq Require Import Lia Sorted.
Open Scope list_scope.
Open Scope Z_scope.

Lemma nonempty_if s d : nonempty_s d = true -> nonempty_s (if nonempty_s s then s else d) = true.
Proof. intros H. destruct (nonempty_s s) eqn:E; auto. Qed.

(** * templates *)
Lemma mutate_tmpl_idem d task t : mutate_tmpl d task (mutate_tmpl d task t) = mutate_tmpl d task t.
Proof.
  unfold mutate_tmpl. destruct t as [ma rd pe par pod]. simpl. f_equal.
  - now destruct ma.
  - destruct pe; auto. now destruct (dc_pending d).
  - destruct par as [[[s k] cs]|]; auto. destruct (nonempty_s cs) eqn:E; [now rewrite E|reflexivity].
  - destruct pod as [[rp tbl]|]; auto. destruct task; simpl; auto.
    destruct (nonempty_s rp) eqn:E; simpl; [now rewrite E|reflexivity].
Qed.

Lemma mutate_tmpl_defaults d t :
  let t' := mutate_tmpl d true t in
  (exists n, jt_max_attempts t' = Some n) /\
  (forall cs s k, jt_par t' = Some (s, k, cs) -> nonempty_s cs = true) /\
  (forall rp tbl, jt_pod t' = Some (rp, tbl) -> nonempty_s rp = true) /\
  (forall n, dc_pending d = Some n -> exists m, jt_pending t' = Some m) /\
  jt_retry_delay t' = jt_retry_delay t.
Proof.
  destruct t as [ma rd pe par pod]. simpl. repeat split.
  - destruct ma; eauto.
  - intros cs s k. destruct par as [[[s0 k0] cs0]|]; [|intros H; discriminate H].
    intros [= <- <- <-]. now apply nonempty_if.
  - intros rp tbl. destruct pod as [[rp0 tbl0]|]; [|intros H; discriminate H].
    intros [= <- <-]. simpl. destruct (nonempty_s rp0) eqn:E; auto.
  - intros n Hn. destruct pe; eauto.
Qed.

(** a template that validation would accept stays acceptable after defaulting, provided the
    Pod validation verdict for "Never" is no worse than for the empty restartPolicy *)
Lemma mutate_tmpl_valid d t :
  (forall n, dc_pending d = Some n -> 0 <= n) ->
  (forall tbl, lookup_sb "" tbl = true -> lookup_sb "Never" tbl = true) ->
  valid_tmpl t = true -> valid_tmpl (mutate_tmpl d true t) = true.
Proof.
  intros Hd Hn. unfold valid_tmpl. destruct t as [ma rd pe par pod]. simpl. intros H.
  repeat match type of H with _ && _ = true => apply andb_true_iff in H as [H ?] end.
  repeat (apply andb_true_iff; split); auto.
  - destruct pod as [[rp tbl]|]; [|discriminate H]. unfold valid_pod in *. simpl in *.
    destruct (nonempty_s rp) eqn:E; simpl; auto.
    destruct rp; [|discriminate E]. simpl in *. rewrite andb_true_r in H. rewrite (Hn _ H). reflexivity.
  - destruct par as [[[s k] cs]|]; auto.
    match goal with E : _ && _ && valid_strategy cs = true |- _ => apply andb_true_iff in E as [E1 E2]; rewrite E1 end.
    simpl. destruct (nonempty_s cs); auto.
  - destruct pe; auto. destruct (dc_pending d) as [n|] eqn:En; auto. simpl. apply Z.leb_le. now apply Hd.
  - destruct ma; auto.
Qed.

(** * MutateJob *)
Lemma mutate_job_idem d j : mutate_job d (mutate_job d j) = mutate_job d j.
Proof.
  unfold mutate_job. simpl. f_equal.
  - destruct (nonempty_s (mj_type j)) eqn:E; [now rewrite E|reflexivity].
  - destruct (mj_ttl j); auto. now destruct (dc_ttl d).
  - now rewrite mutate_tmpl_idem.
Qed.

Lemma mutate_job_defaults d j :
  let j' := mutate_job d j in
  nonempty_s (mj_type j') = true /\
  (exists t, mj_template j' = Some t /\ (exists n, jt_max_attempts t = Some n) /\
             (forall rp tbl, jt_pod t = Some (rp, tbl) -> nonempty_s rp = true) /\
             (forall n, dc_pending d = Some n -> exists m, jt_pending t = Some m)) /\
  (forall n, dc_ttl d = Some n -> exists m, mj_ttl j' = Some m) /\
  (forall t, mj_ttl j = Some t -> mj_ttl j' = Some t) /\
  mj_finalizers j' = mj_finalizers j /\ mj_subs j' = mj_subs j /\ mj_owner j' = mj_owner j /\
  mj_labels j' = mj_labels j /\ mj_start_policy j' = mj_start_policy j.
Proof.
  simpl. repeat split; auto.
  - destruct (nonempty_s (mj_type j)) eqn:E; auto.
  - eexists. split; [reflexivity|].
    destruct (mutate_tmpl_defaults d (match mj_template j with Some t => t | None => empty_tmpl end)) as (A & _ & C & D & _).
    repeat split; auto.
  - intros n Hn. destruct (mj_ttl j); eauto.
  - intros t ->. reflexivity.
Qed.

(** * configName expansion *)
Lemma find_mjc_name n l jc : find_mjc n l = Some jc -> mc_name jc = n.
Proof.
  induction l as [|x r IH]; simpl; [intros H; discriminate H|].
  destruct (String.eqb (mc_name x) n) eqn:E; auto. intros [= <-]. now apply String.eqb_eq.
Qed.

Lemma merge_kv_last k v ms : lookup_kv k (merge_kv (ms ++ [[(k, v)]])) = Some v.
Proof.
  unfold merge_kv. rewrite sort_lookup, concat_app, lookup_last_app. simpl. now rewrite String.eqb_refl.
Qed.

Theorem config_name_expansion jcs j j' :
  nonempty_s (mj_config_name j) = true -> eval_config_name jcs j = Some j' ->
  exists jc, find_mjc (mj_config_name j) jcs = Some jc /\
    mj_template j' = Some (mc_tmpl jc) /\
    mj_owner j' = Some (mc_name jc, mc_uid jc) /\
    lookup_kv LabelUID (mj_labels j') = Some (mc_uid jc) /\
    mj_config_name j' = EmptyString /\
    In Finalizer (mj_finalizers j') /\
    (forall p a, mj_start_policy j = Some (p, a) -> nonempty_s p = true -> mj_start_policy j' = Some (p, a)) /\
    (forall p a, mj_start_policy j = Some (p, a) -> nonempty_s p = false -> mj_start_policy j' = Some (mc_policy jc, a)) /\
    (mj_start_policy j = None -> mj_start_policy j' = Some (mc_policy jc, None)) /\
    mj_subs j' = mj_subs j /\ mj_ttl j' = mj_ttl j /\ mj_type j' = mj_type j.
Proof.
  unfold eval_config_name. intros Hn. rewrite Hn. simpl.
  destruct (find_mjc (mj_config_name j) jcs) as [jc|] eqn:Ef; [|intros H; discriminate H].
  destruct (default_subs (mc_opts jc)); [|intros H; discriminate H].
  intros [= <-]. exists jc.
  cbn [mj_template mj_owner mj_labels mj_config_name mj_finalizers mj_start_policy mj_subs mj_ttl mj_type].
  split; [reflexivity|]. split; [reflexivity|]. split; [reflexivity|].
  split; [apply (merge_kv_last LabelUID (mc_uid jc) [_; _])|].
  split; [reflexivity|]. split; [unfold merge_finalizers; simpl; now left|].
  split; [intros p a -> Hp; now rewrite Hp|].
  split; [intros p a -> Hp; now rewrite Hp|].
  split; [intros ->; reflexivity|]. auto.
Qed.

Lemma sorted_lookup_last k l : StronglySorted key_lt l -> lookup_last k l = lookup_kv k l.
Proof.
  induction l as [|[k' v] r IH]; simpl; auto. intros Hs. apply StronglySorted_inv in Hs as [Hr Hk].
  rewrite (IH Hr). destruct (String.eqb k' k) eqn:E; [|now destruct (lookup_kv k r)].
  apply String.eqb_eq in E as ->. now rewrite (lookup_above k r Hk).
Qed.

Lemma merge_kv_lookup k ms : lookup_kv k (merge_kv ms) = lookup_last k (List.concat ms).
Proof. unfold merge_kv. apply sort_lookup. Qed.

(** labels of the submitter win over the template's, except the UID label *)
Theorem config_name_labels jcs j j' jc k :
  nonempty_s (mj_config_name j) = true -> eval_config_name jcs j = Some j' ->
  find_mjc (mj_config_name j) jcs = Some jc -> k <> LabelUID ->
  lookup_kv k (mj_labels j') =
  match lookup_last k (mj_labels j) with Some v => Some v | None => lookup_last k (mc_tmpl_labels jc) end.
Proof.
  unfold eval_config_name. intros Hn. rewrite Hn. cbn [negb]. intros H Hf Hk. rewrite Hf in H.
  destruct (default_subs (mc_opts jc)); [|discriminate H]. injection H as <-. cbn [mj_labels].
  assert (E : String.eqb LabelUID k = false) by (apply String.eqb_neq; congruence).
  rewrite merge_kv_lookup. cbn [List.concat]. rewrite !lookup_last_app. cbn [lookup_last]. rewrite E.
  destruct (lookup_last k (mj_labels j)); auto.
  unfold merge_kv. rewrite sorted_lookup_last by apply sort_sorted. rewrite sort_lookup.
  cbn [List.concat]. rewrite !lookup_last_app. cbn [lookup_last]. now rewrite E.
Qed.

(** * the create pipeline always leaves the finalizer *)
Lemma merge_finalizers_in_l a b x : In x a -> In x (merge_finalizers a b).
Proof. intros H. unfold merge_finalizers. apply in_or_app. now left. Qed.

Lemma merge_finalizers_has a x : In x (merge_finalizers a [x]).
Proof.
  unfold merge_finalizers. simpl. destruct (mem x a) eqn:E; simpl.
  - rewrite app_nil_r. now apply mem_spec.
  - apply in_or_app. right. now left.
Qed.

Theorem create_has_finalizer dates d jcs bad j j' :
  patch_job_create dates d jcs bad j = Some j' -> In Finalizer (mj_finalizers j').
Proof.
  unfold patch_job_create, mutate_create_job.
  set (j0 := mkMJ _ _ _ _ _ _ _ _ _ _ _ _).
  assert (H0 : In Finalizer (mj_finalizers j0)).
  { unfold j0. simpl. destruct (mem Finalizer (mj_finalizers j)) eqn:E; [now apply mem_spec|apply merge_finalizers_has]. }
  assert (H1 : forall j1, eval_config_name jcs j0 = Some j1 -> In Finalizer (mj_finalizers j1)).
  { intros j1. unfold eval_config_name. destruct (negb (nonempty_s (mj_config_name j0))); [intros [= <-]; exact H0|].
    destruct (find_mjc _ jcs) as [jc|]; [|intros H; discriminate H].
    destruct (default_subs _); [|intros H; discriminate H]. intros [= <-]. simpl. now left. }
  destruct (eval_config_name jcs j0) as [j1|] eqn:E1; [|intros H; discriminate H].
  specialize (H1 j1 eq_refl).
  destruct (lookup_owner jcs j1) as [[jc|]|]; simpl; try (intros H; discriminate H).
  - destruct (match mj_values j1 with Some _ => bad | None => false end); [intros H; discriminate H|].
    destruct (admit_subs _ _ _ _ _); simpl; [|intros H; discriminate H]. intros [= <-]. exact H1.
  - intros [= <-]. exact H1.
Qed.

(** * JobConfig: options and lastUpdated *)
Lemma default_option_idem o : default_option (default_option o) = default_option o.
Proof. destruct o as [n r t]. destruct t as [f tv fv d| | | |]; auto. destruct f; reflexivity. Qed.

Lemma mutate_jobconfig_idem d c : mutate_jobconfig d (mutate_jobconfig d c) = mutate_jobconfig d c.
Proof.
  unfold mutate_jobconfig. simpl. f_equal.
  - rewrite map_map. apply map_ext. apply default_option_idem.
  - apply mutate_tmpl_idem.
Qed.

Lemma default_option_no_empty o : forall tv fv d, o_type (default_option o) <> TBool BEmpty tv fv d.
Proof. destruct o as [n r t]. destruct t as [f tv0 fv0 d0| | | |]; simpl; try discriminate. destruct f; simpl; discriminate. Qed.

Theorem stamp_rule now c id lu :
  mo_sched c = Some (id, lu) ->
  mo_sched (stamp now c) = Some (id, if later_than lu now then lu else Some now).
Proof. unfold stamp. now intros ->. Qed.

Theorem stamp_idem now c : stamp now (stamp now c) = stamp now c.
Proof.
  unfold stamp. destruct (mo_sched c) as [[id lu]|] eqn:E; [|now rewrite E].
  simpl. destruct (later_than lu now) eqn:El; [now rewrite El|].
  simpl. now rewrite Z.ltb_irrefl.
Qed.

Theorem jc_create_stamped d now c id lu :
  mo_sched c = Some (id, lu) ->
  mo_sched (patch_jc_create d now c) = Some (id, if later_than lu now then lu else Some now).
Proof. intros H. unfold patch_jc_create, mutate_jobconfig. simpl. now apply stamp_rule. Qed.

Theorem jc_create_no_schedule d now c : mo_sched c = None -> mo_sched (patch_jc_create d now c) = None.
Proof. intros H. unfold patch_jc_create, mutate_jobconfig, stamp. rewrite H. simpl. exact H. Qed.

(** update: stamped exactly when the schedule was absent before or differs (lastUpdated aside) *)
Theorem jc_update_stamped d now old c id lu :
  mo_sched c = Some (id, lu) ->
  mo_sched (patch_jc_update d now old c) =
  Some (id, match mo_sched old with
            | Some (id', _) => if (id =? id') then lu else (if later_than lu now then lu else Some now)
            | None => if later_than lu now then lu else Some now
            end).
Proof.
  intros H. unfold patch_jc_update. simpl. rewrite H.
  destruct (mo_sched old) as [[id' lu']|]; simpl.
  - destruct (id =? id'); simpl; [exact H|]. unfold stamp. simpl. now rewrite H.
  - unfold stamp. simpl. now rewrite H.
Qed.

Theorem jc_create_idem d now c : patch_jc_create d now (patch_jc_create d now c) = patch_jc_create d now c.
Proof.
  unfold patch_jc_create.
  assert (E : forall x, stamp now (mutate_jobconfig d x) = mutate_jobconfig d (stamp now x)).
  { intros x. unfold stamp, mutate_jobconfig. simpl. destruct (mo_sched x) as [[i l]|] eqn:Ex; simpl; rewrite ?Ex; reflexivity. }
  rewrite E, stamp_idem. apply mutate_jobconfig_idem.
Qed.

(** * resubmission of the defaulted Job changes nothing *)
Lemma merge_absorb a b c : merge_kv [a; b; merge_kv [a; b; c]] = merge_kv [a; b; c].
Proof.
  unfold merge_kv at 1 3. apply sorted_ext; try apply sort_sorted. intros k.
  rewrite !sort_lookup. cbn [List.concat]. rewrite !lookup_last_app. cbn [lookup_last].
  rewrite (sorted_lookup_last k (merge_kv [a; b; c])) by apply sort_sorted.
  rewrite merge_kv_lookup. cbn [List.concat]. rewrite !lookup_last_app. cbn [lookup_last].
  destruct (lookup_last k c); auto. destruct (lookup_last k b); auto. now destruct (lookup_last k a).
Qed.

Lemma admit_subs_absorb dates opts values explicit jcvars subs :
  admit_subs dates opts values explicit jcvars = Some subs ->
  admit_subs dates opts values subs jcvars = Some subs.
Proof.
  unfold admit_subs. destruct (eval_options dates values opts) as [ev|]; [|intros H; discriminate H].
  intros [= <-]. f_equal. apply merge_absorb.
Qed.

Lemma mem_finalizer_true l : In Finalizer l -> mem Finalizer l = true.
Proof. apply mem_spec. Qed.

Theorem create_idempotent dates d jcs bad j j' :
  patch_job_create dates d jcs bad j = Some j' -> patch_job_create dates d jcs bad j' = Some j'.
Proof.
  intros H. pose proof (create_has_finalizer _ _ _ _ _ _ H) as HF.
  unfold patch_job_create in *. destruct (mutate_create_job dates jcs bad j) as [j2|] eqn:E; [|discriminate H].
  injection H as <-.
  (* facts about j2 *)
  assert (Hcn : mj_config_name j2 = EmptyString /\
    exists j1, lookup_owner jcs j1 <> None /\ mj_owner j1 = mj_owner j2 /\ mj_labels j1 = mj_labels j2 /\
      mj_values j1 = mj_values j2 /\ mj_finalizers j1 = mj_finalizers j2 /\
      mj_created j1 = mj_created j2 /\ mj_annotations j1 = mj_annotations j2 /\ mj_type j1 = mj_type j2 /\
      mj_ttl j1 = mj_ttl j2 /\ mj_start_policy j1 = mj_start_policy j2 /\ mj_template j1 = mj_template j2 /\
      mj_config_name j1 = EmptyString /\
      match lookup_owner jcs j1 with
      | Some (Some jc) => (match mj_values j1 with Some _ => bad | None => false end) = false /\
          admit_subs dates (mc_opts jc) (match mj_values j1 with Some v => v | None => [] end) (mj_subs j2)
                     (jobconfig_vars (mc_name jc) (mc_uid jc) "ns") = Some (mj_subs j2)
      | _ => mj_subs j1 = mj_subs j2
      end).
  { revert E. unfold mutate_create_job. set (j0 := mkMJ _ _ _ _ _ _ _ _ _ _ _ _).
    destruct (eval_config_name jcs j0) as [j1|] eqn:E1; [|intros H; discriminate H].
    assert (Hc1 : mj_config_name j1 = EmptyString).
    { revert E1. unfold eval_config_name. destruct (nonempty_s (mj_config_name j0)) eqn:En; simpl.
      - destruct (find_mjc _ jcs); [|intros H; discriminate H]. destruct (default_subs _); [|intros H; discriminate H].
        intros [= <-]. reflexivity.
      - intros [= <-]. destruct (mj_config_name j0); [reflexivity|discriminate En]. }
    destruct (lookup_owner jcs j1) as [[jc|]|] eqn:El; try (intros H; discriminate H).
    - destruct (match mj_values j1 with Some _ => bad | None => false end) eqn:Eb; [intros H; discriminate H|].
      destruct (admit_subs _ _ _ _ _) as [subs|] eqn:Ea; [|intros H; discriminate H]. intros [= <-]. simpl.
      split; auto. exists j1. rewrite El. repeat split; auto; try discriminate.
      now apply admit_subs_absorb in Ea.
    - intros [= <-]. split; auto. exists j1. rewrite El. repeat split; auto. discriminate. }
  destruct Hcn as (Hc & j1 & Hl & Ho & Hlb & Hv & Hf & Hcr & Han & Hty & Htt & Hsp & Htm & Hc1 & Hs).
  (* second submission *)
  unfold mutate_create_job.
  assert (HF2 : mem Finalizer (mj_finalizers (mutate_job d j2)) = true) by (apply mem_finalizer_true; exact HF).
  rewrite HF2. unfold eval_config_name. cbn [mj_config_name mutate_job]. rewrite Hc. cbn [nonempty_s negb].
  (* the owner lookup sees the same owner and labels *)
  assert (Elo : forall ja jb, mj_owner ja = mj_owner jb -> mj_labels ja = mj_labels jb -> lookup_owner jcs ja = lookup_owner jcs jb).
  { intros ja jb E1 E2. unfold lookup_owner. now rewrite E1, E2. }
  match goal with |- context [lookup_owner jcs ?x] => rewrite (Elo x j1) by (simpl; congruence) end.
  destruct (lookup_owner jcs j1) as [[jc|]|]; [| |congruence].
  - destruct Hs as [Hb Ha]. change (mj_values (mutate_job d j2)) with (mj_values j2).
    change (mj_subs (mutate_job d j2)) with (mj_subs j2). rewrite Hv in Hb, Ha.
    cbn [mj_values mj_subs mj_created mj_finalizers mj_labels mj_annotations mj_owner mj_type mj_config_name mj_ttl mj_start_policy mj_template].
    rewrite Hb, Ha. cbn [option_map]. f_equal.
    transitivity (mutate_job d (mutate_job d j2)); [|apply mutate_job_idem].
    f_equal. unfold mutate_job. simpl. now rewrite Hc.
  - cbn [option_map]. f_equal.
    transitivity (mutate_job d (mutate_job d j2)); [|apply mutate_job_idem].
    f_equal. unfold mutate_job. simpl. now rewrite Hc.
Qed.
