(** C12, the other direction of the kill sweep: once the Job is to be killed, the pass issues a
    delete for EVERY task it sees that is neither finished nor already being deleted (whatever
    the outcome of each call - a failed one makes the pass fail and be retried). *)
From Furiko Require Import Job.Core Job.Sync Proofs.JobP Proofs.SyncP.
From Coq Require Import Lia.
Local Open Scope list_scope.
Local Open Scope Z_scope.

Lemma added_in s s' l a : added s s' l -> In a (ps_actions s) -> In a (ps_actions s').
Proof. unfold added. intros -> H. apply in_or_app. now right. Qed.

Lemma delete_tasks_ordered_complete tasks : forall s force now s' ok,
  delete_tasks_ordered s tasks force now = (s', ok) ->
  forall p, In p tasks ->
    (negb force && match p_deletion p with Some t => t <? now | None => false end) = false ->
    exists o, In (ADelete (p_name p) force o) (ps_actions s').
Proof.
  induction tasks as [|q r IH]; intros s force now s' ok H p Hp Hg; [destruct Hp|].
  simpl in H. destruct Hp as [->|Hp].
  - rewrite Hg in H. destruct (take_fault FDeletePod (faults (ps_w s))) as [fl|].
    + destruct (delete_tasks_ordered (add_action s (ADelete (p_name p) force 3)) r force now) as [s2 ok2] eqn:E.
      injection H as <- _. destruct (delete_tasks_ordered_added _ _ _ _ _ _ E) as (l & Ha & _).
      exists 3. eapply added_in; [exact Ha|]. simpl. now left.
    + destruct (api_delete_pod (ps_w s) (p_name p) force) as [[w' out] evs].
      destruct (delete_tasks_ordered_added _ _ _ _ _ _ H) as (l & Ha & _).
      exists out. eapply added_in; [exact Ha|]. simpl. now left.
  - destruct (negb force && match p_deletion q with Some t => t <? now | None => false end); [eapply IH; eauto|].
    destruct (take_fault FDeletePod (faults (ps_w s))) as [fl|].
    + destruct (delete_tasks_ordered (add_action s (ADelete (p_name q) force 3)) r force now) as [s2 ok2] eqn:E.
      injection H as <- _. eapply IH; eauto.
    + destruct (api_delete_pod (ps_w s) (p_name q) force) as [[w' out] evs]. eapply IH; eauto.
Qed.

Lemma delete_tasks_complete s tasks force now s' ok :
  delete_tasks s tasks force now = (s', ok) ->
  forall p, In p tasks ->
    (negb force && match p_deletion p with Some t => t <? now | None => false end) = false ->
    exists o, In (ADelete (p_name p) force o) (ps_actions s').
Proof.
  unfold delete_tasks. intros H p Hp Hg. eapply delete_tasks_ordered_complete; eauto. now apply sort_pods_in.
Qed.

Theorem kill_sweep_complete s j tasks now s' j' ok :
  handle_kill s j tasks now = (s', j', ok) -> should_kill now j = true ->
  forall p, In p tasks -> pod_finish_ts p = None -> p_deletion p = None ->
    exists o, In (ADelete (p_name p) false o) (ps_actions s').
Proof.
  unfold handle_kill. intros H Hk p Hp Hf Hd. rewrite Hk in H. simpl negb in H. cbv iota in H.
  set (need := filter (fun p => match pod_finish_ts p, p_deletion p with None, None => true | _, _ => false end) tasks) in *.
  assert (Hn : In p need) by (unfold need; apply filter_In; split; auto; now rewrite Hf, Hd).
  destruct need as [|x r] eqn:En; [destruct Hn|].
  destruct (delete_tasks s (x :: r) false now) as [s1 ok1] eqn:E. injection H as <- _ _.
  eapply delete_tasks_complete; [exact E|exact Hn|]. now rewrite Hd.
Qed.

(** the same for the pending reaper: every task past the timeout that has not begun running is
    deleted *)
Theorem pending_sweep_complete cfg s j tasks now s' j' ok :
  handle_pending cfg s j tasks now = (s', j', ok) -> 0 < pending_timeout cfg j ->
  forall p, In p tasks -> pod_finish_ts p = None -> p_cont_start p = None -> p_deletion p = None ->
    p_created p + pending_timeout cfg j <= now ->
    exists o, In (ADelete (p_name p) false o) (ps_actions s').
Proof.
  unfold handle_pending. intros H Hpt p Hp Hf Hc Hd Hdue.
  replace (pending_timeout cfg j <=? 0) with false in H by (symmetry; apply Z.leb_gt; exact Hpt).
  set (cand := filter (fun p => match pod_finish_ts p, p_cont_start p with None, None => true | _, _ => false end) tasks) in *.
  set (nd := filter (fun p => now <? p_created p + pending_timeout cfg j) cand) in *.
  set (need := filter (fun p => negb (now <? p_created p + pending_timeout cfg j) &&
                               match p_deletion p with None => true | Some _ => false end) cand) in *.
  assert (Hn : In p need).
  { unfold need. apply filter_In. split.
    - unfold cand. apply filter_In. split; auto. now rewrite Hf, Hc.
    - rewrite Hd. replace (now <? p_created p + pending_timeout cfg j) with false by (symmetry; apply Z.ltb_ge; lia). reflexivity. }
  destruct need as [|x r] eqn:En; [destruct Hn|].
  destruct (delete_tasks _ (x :: r) false now) as [s1 ok1] eqn:E. injection H as <- _ _.
  eapply delete_tasks_complete; [exact E|exact Hn|]. now rewrite Hd.
Qed.

(** C13, "and is eventually deleted after that": a pass that sees the finished Job after finish
    time + effective TTL issues the delete (unless that very call is made to fail) *)
Theorem ttl_fires cfg s j now s' ok r f lc lr :
  handle_ttl cfg s j now = (s', ok) -> j_deletion j = None -> j_cond j = CFinished r (Some f) lc lr ->
  f + ttl_after_finished cfg j <= now -> take_fault FDeleteJob (faults (ps_w s)) = None ->
  ok = true /\ exists o, In (ADeleteJob o) (ps_actions s').
Proof.
  unfold handle_ttl. intros H Hd Hc Hdue Hf. rewrite Hd, Hc in H.
  replace (now <? f + ttl_after_finished cfg j) with false in H by (symmetry; apply Z.ltb_ge; lia).
  rewrite Hf in H. destruct (api_delete_job (ps_w s)) as [w' out]. injection H as <- <-.
  split; [reflexivity|]. exists out. simpl. now left.
Qed.

(** * timers: a deadline that only time can trigger arms a deferred re-sync *)
Lemma delete_tasks_ordered_armed tasks : forall s force now s' ok,
  delete_tasks_ordered s tasks force now = (s', ok) -> ps_armed s' = ps_armed s.
Proof.
  induction tasks as [|p r IH]; intros s force now s' ok; simpl.
  - now intros [= <- _].
  - destruct (negb force && _); [apply IH|].
    destruct (take_fault FDeletePod _).
    + destruct (delete_tasks_ordered (add_action s _) r force now) as [s1 ok1] eqn:E. intros [= <- _]. now apply IH in E.
    + destruct (api_delete_pod (ps_w s) (p_name p) force) as [[w' out] evs]. intros H. now apply IH in H.
Qed.

Theorem pending_armed cfg s j tasks now s' j' ok :
  handle_pending cfg s j tasks now = (s', j', ok) -> 0 < pending_timeout cfg j ->
  forall p, In p tasks -> pod_finish_ts p = None -> p_cont_start p = None ->
    now < p_created p + pending_timeout cfg j -> ps_armed s' = true.
Proof.
  unfold handle_pending. intros H Hpt p Hp Hf Hc Hnd.
  replace (pending_timeout cfg j <=? 0) with false in H by (symmetry; apply Z.leb_gt; exact Hpt).
  set (cand := filter (fun p => match pod_finish_ts p, p_cont_start p with None, None => true | _, _ => false end) tasks) in *.
  set (nd := filter (fun p => now <? p_created p + pending_timeout cfg j) cand) in *.
  assert (Hn : In p nd).
  { unfold nd. apply filter_In. split; [unfold cand; apply filter_In; split; auto; now rewrite Hf, Hc|now apply Z.ltb_lt]. }
  destruct nd as [|x r] eqn:En; [destruct Hn|].
  match type of H with context [match ?need with [] => _ | _ :: _ => _ end] => destruct need as [|y t] end.
  - now injection H as <- _ _.
  - destruct (delete_tasks (arm s) (y :: t) false now) as [s1 ok1] eqn:E. injection H as <- _ _.
    unfold delete_tasks in E. now apply delete_tasks_ordered_armed in E.
Qed.

Theorem force_armed cfg s j tasks now s' j' ok :
  handle_force cfg s j tasks now = (s', j', ok) -> 0 < force_timeout cfg -> j_forbid_force j = false ->
  forall p t, In p tasks -> p_deletion p = Some t -> now < t + force_timeout cfg -> ps_armed s' = true.
Proof.
  unfold handle_force. intros H Hfd Hfb p t Hp Hd Hnd.
  replace (force_timeout cfg <=? 0) with false in H by (symmetry; apply Z.leb_gt; exact Hfd).
  rewrite Hfb in H.
  set (dl := filter (fun p => match p_deletion p with Some _ => true | None => false end) tasks) in *.
  set (wt := filter (fun p => match p_deletion p with Some t => now <? t + force_timeout cfg | None => false end) dl) in *.
  assert (Hn : In p wt).
  { unfold wt. apply filter_In. split; [unfold dl; apply filter_In; split; auto; now rewrite Hd|rewrite Hd; now apply Z.ltb_lt]. }
  destruct wt as [|x r] eqn:En; [destruct Hn|].
  match type of H with context [match ?need with [] => _ | _ :: _ => _ end] => destruct need as [|y u] end.
  - now injection H as <- _ _.
  - destruct (delete_tasks (arm s) (y :: u) true now) as [s1 ok1] eqn:E. injection H as <- _ _.
    unfold delete_tasks in E. now apply delete_tasks_ordered_armed in E.
Qed.
