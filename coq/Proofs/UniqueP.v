(** C09 / C11 over histories: a task is never listed twice.  For every history of the one-Job
    world that starts from a Job with distinct index hashes and a well-formed status, every
    version of the Job (API, cache, events on their way) lists each task name at most once and
    every listed task carries the name made of its own index hash and retry number. *)
From Furiko Require Import Cron.Keys Proofs.KeysP Job.Core Job.Sync Job.World Proofs.JobP Proofs.SyncP Proofs.HistoryP Proofs.CacheP Proofs.CreateP.
From Coq Require Import Lia Permutation.
Local Open Scope list_scope.
Local Open Scope Z_scope.

(** * names *)
Definition WFR (r : taskref) : Prop := tr_name r = job_task_name (tr_hash r) (tr_retry r) /\ 0 <= tr_retry r.
Definition WFP (p : pod) : Prop := p_name p = job_task_name (p_hash p) (p_retry p) /\ 0 <= p_retry p.
Definition pnames (l : list pod) : list string := map p_name l.
Definition rnames (l : list taskref) : list string := map tr_name l.

Lemma task_name_gen h r : job_task_name h r = gen_name ("j-" ++ h) r.
Proof. reflexivity. Qed.

Lemma task_name_inj h r h' r' : 0 <= r -> 0 <= r' -> job_task_name h r = job_task_name h' r' -> h = h' /\ r = r'.
Proof.
  intros H1 H2 E. rewrite !task_name_gen in E. apply gen_name_inj in E as [E1 E2]; auto.
  split; auto. simpl in E1. now injection E1.
Qed.

(** * sorting permutes *)
Lemma insert_ref_perm r l : Permutation (insert_ref r l) (r :: l).
Proof.
  induction l as [|x t IH]; simpl; [apply Permutation_refl|].
  destruct (ref_le r x); [apply Permutation_refl|].
  eapply perm_trans; [apply perm_skip, IH|apply perm_swap].
Qed.
Lemma sort_refs_perm l : Permutation (sort_refs l) l.
Proof.
  unfold sort_refs. induction l as [|x t IH]; simpl; [apply Permutation_refl|].
  eapply perm_trans; [apply insert_ref_perm|now apply perm_skip].
Qed.

(** * merging observed Pods into the recorded refs keeps names unique *)
Lemma vanished_name now e : tr_name (vanished_ref now e) = tr_name e.
Proof. reflexivity. Qed.

Lemma nodup_map_filter {A B} (f : A -> B) (g : A -> bool) l : NoDup (map f l) -> NoDup (map f (filter g l)).
Proof.
  induction l as [|x t IH]; simpl; [auto|]. intros H. inversion H as [|? ? Hn Hd]; subst.
  destruct (g x); simpl; auto. constructor; auto.
  intros Hin. apply Hn. apply in_map_iff in Hin as (y & E & Hy). apply filter_In in Hy as [Hy _].
  apply in_map_iff. eauto.
Qed.

Lemma nodup_app_intro {A} (a b : list A) : NoDup a -> NoDup b -> (forall x, In x a -> ~ In x b) -> NoDup (a ++ b).
Proof.
  induction a as [|x t IH]; simpl; intros Ha Hb Hd; auto.
  inversion Ha as [|? ? Hn Ht]; subst. constructor.
  - intros Hin. apply in_app_or in Hin as [Hin|Hin]; [contradiction|]. apply (Hd x); auto.
  - apply IH; auto.
Qed.

Lemma generate_names now existing pods :
  Permutation (rnames (generate_task_refs now existing pods))
              (pnames pods ++ rnames (filter (fun e => negb (has_pod (tr_name e) pods)) existing)).
Proof.
  unfold generate_task_refs, rnames, pnames.
  eapply perm_trans; [apply Permutation_map, sort_refs_perm|].
  rewrite map_app, !map_map. apply Permutation_app.
  - erewrite map_ext; [apply Permutation_refl|]. intros p. apply get_task_ref_name.
  - erewrite map_ext; [apply Permutation_refl|]. intros e. apply vanished_name.
Qed.

Lemma generate_nodup now existing pods :
  NoDup (rnames existing) -> NoDup (pnames pods) -> NoDup (rnames (generate_task_refs now existing pods)).
Proof.
  intros He Hp. eapply Permutation_NoDup; [apply Permutation_sym, generate_names|].
  apply nodup_app_intro; auto.
  - unfold rnames. now apply nodup_map_filter.
  - intros n Hn Hin. unfold rnames in Hin. apply in_map_iff in Hin as (e & <- & Hin).
    apply filter_In in Hin as [_ Hf]. apply negb_true_iff in Hf.
    unfold pnames in Hn. apply in_map_iff in Hn as (p & En & Hp').
    assert (has_pod (tr_name e) pods = true) by (apply has_pod_spec; eauto). congruence.
Qed.

Lemma get_task_ref_wf ex p : WFP p -> WFR (get_task_ref ex p).
Proof.
  intros [H1 H2]. unfold WFR, get_task_ref.
  destruct ex as [e|]; destruct (tr_finish (pod_ref p)); simpl; auto.
Qed.
Lemma vanished_wf now e : WFR e -> WFR (vanished_ref now e).
Proof. intros H. exact H. Qed.

Lemma generate_wf now existing pods :
  Forall WFR existing -> Forall WFP pods -> Forall WFR (generate_task_refs now existing pods).
Proof.
  intros He Hp. apply Forall_forall. intros r Hr. unfold generate_task_refs in Hr.
  apply sort_refs_in, in_app_or in Hr as [Hr|Hr].
  - apply in_map_iff in Hr as (p & <- & Hin). apply get_task_ref_wf. eapply Forall_forall; eauto.
  - apply in_map_iff in Hr as (e & <- & Hin). apply filter_In in Hin as [Hin _]. apply vanished_wf.
    eapply Forall_forall; eauto.
Qed.

(** * a Job version *)
Definition JWF (j : job) : Prop := NoDup (rnames (j_tasks j)) /\ Forall WFR (j_tasks j).
Definition TL (tasks : list pod) : Prop := NoDup (pnames tasks) /\ Forall WFP tasks.

Lemma update_task_refs_jwf now j pods : JWF j -> TL pods -> JWF (update_task_refs now j pods).
Proof.
  intros [J1 J2] [T1 T2]. unfold JWF, update_task_refs. simpl.
  split; [now apply generate_nodup|now apply generate_wf].
Qed.

Lemma jwf_same_tasks j j' : j_tasks j' = j_tasks j -> JWF j -> JWF j'.
Proof. unfold JWF. now intros ->. Qed.

Lemma sync_status_jwf now s j s' j' : sync_status now s j = (s', j') -> JWF j -> JWF j'.
Proof. intros H. apply sync_status_tasks in H. now apply jwf_same_tasks. Qed.

Lemma sync_status_refs_jwf now s j pods s' j' : sync_status_refs now s j pods = (s', j') -> JWF j -> TL pods -> JWF j'.
Proof. unfold sync_status_refs. intros H Hj Hp. eapply sync_status_jwf; [exact H|]. now apply update_task_refs_jwf. Qed.

Lemma mark_deleted_jwf l st o f j : JWF j -> JWF (mark_deleted l st o f j).
Proof.
  intros [J1 J2]. unfold JWF. split.
  - change (NoDup (names (mark_deleted l st o f j))). rewrite mark_deleted_names. exact J1.
  - unfold mark_deleted. simpl. apply Forall_forall. intros r Hr. apply in_map_iff in Hr as (e & <- & He).
    pose proof (proj1 (Forall_forall _ _) J2 e He) as W. destruct (mem_str (tr_name e) l); exact W.
Qed.

(** the Pods a pass looks at: one per recorded name, found in the cache *)
Lemma cached_tasks_tl (cache : list pod) (refs : list taskref) :
  NoDup (rnames refs) -> Forall WFP cache ->
  TL (flat_map (fun r => match find_pod (tr_name r) cache with Some p => [p] | None => [] end) refs) /\
  incl (pnames (flat_map (fun r => match find_pod (tr_name r) cache with Some p => [p] | None => [] end) refs)) (rnames refs).
Proof.
  intros Hn Hc. induction refs as [|r t IH]; simpl.
  - repeat split; try constructor. intros ? [].
  - inversion Hn as [|? ? Hx Ht]; subst. destruct (IH Ht) as [[T1 T2] I].
    destruct (find_pod (tr_name r) cache) as [p|] eqn:E; simpl.
    + pose proof (find_pod_name _ _ _ E) as En. split; [split|].
      * constructor; auto. intros Hin. apply Hx. apply I. now rewrite <- En.
      * constructor; auto. eapply Forall_forall; [exact Hc|]. clear -E. induction cache as [|q c IHc]; simpl in E; [discriminate|].
        destruct (String.eqb (p_name q) (tr_name r)); [injection E as <-; now left|right; auto].
      * intros x [<-|Hin]; [left; auto|right; now apply I].
    + split; [split; assumption|]. intros x Hin. right. now apply I.
Qed.

(** * creating tasks: every request has a fresh name *)
Definition rqname (rq : create_req) : string := job_task_name (rq_hash rq) (rq_retry rq).

Lemma compute_missing_hashes j : NoDup (j_indexes j) -> NoDup (map rq_hash (compute_missing j)).
Proof.
  unfold compute_missing. induction (j_indexes j) as [|h t IH]; simpl; intros H; [constructor|].
  inversion H as [|? ? Hn Ht]; subst. rewrite map_app.
  apply nodup_app_intro; [| apply IH; exact Ht |].
  - destruct (index_found h (j_tasks j)); [constructor|]. destruct (j_max_attempts j <=? _); simpl; repeat constructor. intros [].
  - intros x Hx Hin.
    assert (Ex : x = h).
    { destruct (index_found h (j_tasks j)); [destruct Hx|]. destruct (j_max_attempts j <=? next_retry h (j_tasks j)); [destruct Hx|].
      simpl in Hx. destruct Hx as [Hx|[]]. now symmetry. }
    subst x. apply in_map_iff in Hin as (rq & Erq & Hrq). apply in_flat_map in Hrq as (h' & Hh' & Hrq).
    destruct (index_found h' (j_tasks j)); [destruct Hrq|]. destruct (j_max_attempts j <=? next_retry h' (j_tasks j)); [destruct Hrq|].
    simpl in Hrq. destruct Hrq as [Hrq|[]]. subst rq. simpl in Erq. subst h'. contradiction.
Qed.

Lemma request_names j : JWF j -> NoDup (j_indexes j) ->
  NoDup (map rqname (compute_missing j)) /\
  (forall rq, In rq (compute_missing j) -> ~ In (rqname rq) (rnames (j_tasks j))) /\
  Forall (fun rq => 0 <= rq_retry rq) (compute_missing j).
Proof.
  intros [J1 J2] Hi. pose proof (compute_missing_hashes j Hi) as Hh.
  assert (Hr : Forall (fun rq => 0 <= rq_retry rq) (compute_missing j)).
  { apply Forall_forall. intros rq Hrq. destruct (compute_missing_sound j rq Hrq) as (_ & _ & _ & H & _). lia. }
  split; [|split; auto].
  - revert Hh Hr. induction (compute_missing j) as [|rq t IH]; simpl; intros Hh Hr; [constructor|].
    inversion Hh as [|? ? Hn Ht]; subst. inversion Hr as [|? ? H0 Hr']; subst. constructor; [|now apply IH].
    intros Hin. apply in_map_iff in Hin as (rq' & E & Hrq'). apply Hn.
    pose proof (proj1 (Forall_forall _ _) Hr' rq' Hrq') as H0'.
    unfold rqname in E. apply task_name_inj in E as [E _]; auto. apply in_map_iff. exists rq'. auto.
  - intros rq Hrq Hin. unfold rnames in Hin. apply in_map_iff in Hin as (r & E & Hr').
    destruct (compute_missing_sound j rq Hrq) as (_ & _ & _ & Hb & Hlt & _).
    destruct (proj1 (Forall_forall _ _) J2 r Hr') as [Wn W0]. unfold rqname in E. rewrite Wn in E.
    apply task_name_inj in E as [Eh Er]; [|lia|lia]. specialize (Hlt r Hr' Eh). lia.
Qed.

(** * the pass *)
Definition cf (s : pstate) : list pod := cache_pods (ps_w s).

Lemma new_pod_wf h r t : 0 <= r -> WFP (new_pod h r t).
Proof. intros H. split; [reflexivity|exact H]. Qed.

Lemma find_pod_in' n l p : find_pod n l = Some p -> In p l.
Proof.
  induction l as [|q r IH]; simpl; [discriminate|].
  destruct (String.eqb (p_name q) n); [intros [= <-]; now left|intros H; right; auto].
Qed.

Lemma sync_create_task_tl s j tasks h retry s' j' t' res :
  sync_create_task s j tasks h retry = (s', j', t', res) -> 0 <= retry -> Forall WFP (cf s) -> Forall WFP tasks ->
  cf s' = cf s /\ j_tasks j' = j_tasks j /\ Forall WFP t' /\
  (t' = tasks \/ exists p, t' = tasks ++ [p] /\ p_name p = job_task_name h retry).
Proof.
  unfold sync_create_task, cf. intros H Hr Hc Ht.
  destruct (take_fault FCreatePod _); [injection H as <- <- <- _; auto|].
  destruct (take_fault FCreatePodInvalid _); [injection H as <- <- <- _; auto|].
  destruct (has_pod _ _).
  - destruct (find_pod _ _) as [p|] eqn:Ef; [destruct (p_controlled p)|]; injection H as <- <- <- _; auto.
    repeat split; auto.
    + apply Forall_app. split; auto. constructor; [|constructor]. eapply Forall_forall; [exact Hc|]. eapply find_pod_in'; eauto.
    + right. exists p. split; auto. eapply find_pod_name; eauto.
  - injection H as <- <- <- _. repeat split; auto.
    + apply Forall_app. split; auto. constructor; [now apply new_pod_wf|constructor].
    + right. eexists. split; reflexivity.
Qed.

Lemma nodup_drop_mid {A} (a : list A) x b : NoDup (a ++ x :: b) -> NoDup (a ++ b) /\ NoDup (a ++ [x]).
Proof.
  intros H. pose proof (NoDup_remove_1 _ _ _ H) as H1. pose proof (NoDup_remove_2 _ _ _ H) as H2.
  split; [exact H1|].
  eapply Permutation_NoDup; [apply Permutation_cons_append|].
  constructor.
  - intros Hin. apply H2. apply in_or_app. now left.
  - clear -H1. induction a as [|y t IH]; simpl in *; [constructor|].
    inversion H1 as [|? ? Hn Ht]; subst. constructor; auto. intros Hin. apply Hn. apply in_or_app. now left.
Qed.

Lemma nodup_app_l {A} (a b : list A) : NoDup (a ++ b) -> NoDup a.
Proof.
  induction a as [|y t IH]; simpl; intros H; [constructor|].
  inversion H as [|? ? Hn Ht]; subst. constructor; auto. intros Hin. apply Hn. apply in_or_app. now left.
Qed.

Lemma create_loop_tl reqs : forall s j tasks now s' j' t' res,
  create_loop s j tasks reqs now = (s', j', t', res) ->
  Forall (fun rq => 0 <= rq_retry rq) reqs -> Forall WFP (cf s) ->
  NoDup (pnames tasks ++ map rqname reqs) -> Forall WFP tasks ->
  cf s' = cf s /\ j_tasks j' = j_tasks j /\ TL t'.
Proof.
  induction reqs as [|rq r IH]; intros s j tasks now s' j' t' res; simpl.
  - intros [= <- <- <- _] _ Hc Hn Ht. rewrite app_nil_r in Hn. repeat split; auto.
  - intros H Hr Hc Hn Ht. inversion Hr as [|? ? H0 Hr']; subst.
    destruct (nodup_drop_mid _ _ _ Hn) as [Hn1 Hn2].
    destruct (match rq_earliest rq with Some e => now <? e | None => false end); [eapply IH; eauto|].
    destruct (sync_create_task s j tasks (rq_hash rq) (rq_retry rq)) as [[[s1 j1] t1] [|]] eqn:E;
      destruct (sync_create_task_tl _ _ _ _ _ _ _ _ _ E H0 Hc Ht) as (C1 & J1 & W1 & Hs).
    + assert (Hn' : NoDup (pnames t1 ++ map rqname r)).
      { destruct Hs as [->|(p & -> & En)]; [exact Hn1|].
        unfold pnames. rewrite map_app, <- app_assoc. simpl. rewrite En. exact Hn. }
      destruct (IH _ _ _ _ _ _ _ _ H Hr' ltac:(rewrite C1; exact Hc) Hn' W1) as (C2 & J2 & T2).
      repeat split; try congruence. exact (proj1 T2). exact (proj2 T2).
    + injection H as <- <- <- _. repeat split; auto.
      eapply nodup_app_l; exact Hn1.
Qed.

Lemma sync_status_cf now s j s' j' : sync_status now s j = (s', j') -> cf s' = cf s.
Proof. intros H. apply sync_status_w in H. unfold cf. now rewrite H. Qed.

Lemma cf_arm_if (b : bool) s : cf (if b then arm s else s) = cf s.
Proof. destruct b; reflexivity. Qed.
Lemma cf_arm_list {A} (l : list A) s : cf (match l with [] => s | _ :: _ => arm s end) = cf s.
Proof. destruct l; reflexivity. Qed.

Lemma sync_create_tasks_tl s j tasks now s' j' t' res :
  sync_create_tasks s j tasks now = (s', j', t', res) ->
  JWF j -> NoDup (j_indexes j) -> Forall WFP (cf s) -> TL tasks -> incl (pnames tasks) (rnames (j_tasks j)) ->
  cf s' = cf s /\ JWF j' /\ TL t'.
Proof.
  unfold sync_create_tasks. intros H Hj Hi Hc [T1 T2] Hin. pose proof Hj as [JA JB]. revert H.
  destruct (negb (can_create_task j)); [intros [= <- <- <- _]; repeat split; auto|].
  destruct (summary _ _ _ _) as [complete succ]. destruct complete; [intros [= <- <- <- _]; repeat split; auto|].
  destruct (request_names j Hj Hi) as (R1 & R2 & R3).
  assert (Hn : NoDup (pnames tasks ++ map rqname (compute_missing j))).
  { apply nodup_app_intro; auto. intros x Hx Hq. apply in_map_iff in Hq as (rq & <- & Hrq). apply (R2 rq Hrq). now apply Hin. }
  destruct (create_loop s j tasks (compute_missing j) now) as [[[s1 j1] t1] [|]] eqn:E;
    destruct (create_loop_tl _ _ _ _ _ _ _ _ _ E R3 Hc Hn T2) as (C1 & J1 & TL1).
  - match goal with |- context [sync_status_refs now ?x j1 t1] => destruct (sync_status_refs now x j1 t1) as [s2 j2] eqn:E2 end.
    intros [= <- <- <- _].
    assert (J2 : JWF j2) by (eapply sync_status_refs_jwf; [exact E2| |exact TL1]; eapply jwf_same_tasks; eauto).
    split; [|split; [exact J2|exact TL1]].
    apply sync_status_cf in E2. rewrite E2, cf_arm_if. exact C1.
  - intros [= <- <- <- _]. repeat split; auto.
Qed.

Lemma api_delete_pod_cache w n f w' out evs : api_delete_pod w n f = (w', out, evs) -> cache_pods w' = cache_pods w.
Proof.
  unfold api_delete_pod. destruct (find_pod n (api_pods w)) as [p|]; [|intros [= <- _ _]; reflexivity].
  destruct (f || negb (mem_str n (pod_scheduled w))); [intros [= <- _ _]; reflexivity|].
  destruct (p_deletion p); intros [= <- _ _]; reflexivity.
Qed.

Lemma delete_tasks_ordered_cf tasks : forall s force now s' ok,
  delete_tasks_ordered s tasks force now = (s', ok) -> cf s' = cf s.
Proof.
  induction tasks as [|p r IH]; intros s force now s' ok; simpl.
  - now intros [= <- _].
  - destruct (negb force && _); [apply IH|].
    destruct (take_fault FDeletePod _).
    + destruct (delete_tasks_ordered (add_action s _) r force now) as [s1 ok1] eqn:E. intros [= <- _]. now apply IH in E.
    + destruct (api_delete_pod (ps_w s) (p_name p) force) as [[w' out] evs] eqn:Ed. intros H.
      apply IH in H. apply api_delete_pod_cache in Ed. unfold cf in *. simpl in H. congruence.
Qed.
Lemma delete_tasks_cf s tasks force now s' ok : delete_tasks s tasks force now = (s', ok) -> cf s' = cf s.
Proof. apply delete_tasks_ordered_cf. Qed.

Lemma handle_pending_u cfg s j tasks now s' j' ok : handle_pending cfg s j tasks now = (s', j', ok) -> JWF j -> cf s' = cf s /\ JWF j'.
Proof.
  unfold handle_pending. destruct (pending_timeout cfg j <=? 0); [intros [= <- <- _]; intros; split; [reflexivity|assumption]|].
  set (nd := filter (fun p => now <? p_created p + pending_timeout cfg j) _).
  set (need := filter _ (filter _ tasks)).
  destruct need as [|p r] eqn:En.
  - intros [= <- <- _] Hj. split; auto. apply cf_arm_list.
  - destruct (delete_tasks _ (p :: r) false now) as [s1 ok1] eqn:E. intros [= <- <- _] Hj. split.
    + apply delete_tasks_cf in E. rewrite E. apply cf_arm_list.
    + now apply mark_deleted_jwf.
Qed.

Lemma handle_kill_u s j tasks now s' j' ok : handle_kill s j tasks now = (s', j', ok) -> JWF j -> cf s' = cf s /\ JWF j'.
Proof.
  unfold handle_kill. destruct (negb (should_kill now j)); [intros [= <- <- _]; intros; split; [reflexivity|assumption]|].
  destruct (filter _ tasks) as [|p r]; [intros [= <- <- _]; intros; split; [reflexivity|assumption]|].
  destruct (delete_tasks _ _ _ _) as [s1 ok1] eqn:E. intros [= <- <- _] Hj. split.
  - now apply delete_tasks_cf in E.
  - now apply mark_deleted_jwf.
Qed.

Lemma handle_force_u cfg s j tasks now s' j' ok : handle_force cfg s j tasks now = (s', j', ok) -> JWF j -> TL tasks -> cf s' = cf s /\ JWF j'.
Proof.
  unfold handle_force. destruct (force_timeout cfg <=? 0); [intros [= <- <- _]; intros; split; [reflexivity|assumption]|].
  destruct (j_forbid_force j); [intros [= <- <- _]; intros; split; [reflexivity|assumption]|].
  match goal with |- context [filter ?f (filter ?g tasks)] => set (dl := filter g tasks) end.
  set (need := filter (fun p => match p_deletion p with Some t => negb (now <? t + force_timeout cfg) | None => false end) dl).
  set (wt := filter (fun p => match p_deletion p with Some t => now <? t + force_timeout cfg | None => false end) dl).
  destruct need as [|p r] eqn:En.
  - intros [= <- <- _] Hj Ht. split; auto. apply cf_arm_list.
  - destruct (delete_tasks _ (p :: r) true now) as [s1 ok1] eqn:E. intros [= <- <- _] Hj Ht. split.
    + apply delete_tasks_cf in E. rewrite E. apply cf_arm_list.
    + apply update_task_refs_jwf; [now apply mark_deleted_jwf|exact Ht].
Qed.

Lemma sync_job_tasks_u cfg s j now s' j' ok :
  sync_job_tasks cfg s j now = (s', j', ok) -> JWF j -> NoDup (j_indexes j) -> Forall WFP (cf s) -> cf s' = cf s /\ JWF j'.
Proof.
  unfold sync_job_tasks. intros H Hj Hi Hc.
  destruct (cached_tasks_tl (cache_pods (ps_w s)) (j_tasks j) (proj1 Hj) Hc) as [Ht Hin].
  set (tasks := flat_map _ (j_tasks j)) in *.
  destruct (sync_create_tasks s j tasks now) as [[[s1 j1] t1] [|]] eqn:E1;
    destruct (sync_create_tasks_tl _ _ _ _ _ _ _ _ E1 Hj Hi Hc Ht Hin) as (C1 & J1 & T1); [|injection H as <- <- _; split; [exact C1|exact Hj]].
  destruct (sync_status_refs now s1 j1 t1) as [s2 j2] eqn:E2.
  assert (C2 : cf s2 = cf s) by (apply sync_status_cf in E2; congruence).
  assert (J2 : JWF j2) by (eapply sync_status_refs_jwf; eauto).
  destruct (handle_pending cfg s2 j2 t1 now) as [[s3 j3] ok3] eqn:E3.
  destruct (handle_pending_u _ _ _ _ _ _ _ _ E3 J2) as [C3 J3].
  destruct (negb ok3); [injection H as <- <- _; split; [congruence|exact Hj]|].
  destruct (handle_kill s3 j3 t1 now) as [[s4 j4] ok4] eqn:E4.
  destruct (handle_kill_u _ _ _ _ _ _ _ E4 J3) as [C4 J4].
  destruct (negb ok4); [injection H as <- <- _; split; [congruence|exact Hj]|].
  destruct (handle_force cfg s4 j4 t1 now) as [[s5 j5] ok5] eqn:E5.
  destruct (handle_force_u _ _ _ _ _ _ _ _ E5 J4 T1) as [C5 J5].
  destruct (negb ok5); [injection H as <- <- _; split; [congruence|exact Hj]|].
  destruct (sync_status_refs now s5 j5 t1) as [s6 j6] eqn:E6.
  injection H as <- <- _. split; [apply sync_status_cf in E6; congruence|eapply sync_status_refs_jwf; eauto].
Qed.

Lemma handle_finalizer_u s j now s' j' ok : handle_finalizer s j now = (s', j', ok) -> JWF j -> Forall WFP (cf s) -> JWF j'.
Proof.
  unfold handle_finalizer. intros H Hj Hc. destruct (j_deletion j); [|injection H as _ <- _; auto].
  destruct (negb (j_finalizer j)); [injection H as _ <- _; auto|].
  destruct (cached_tasks_tl (cache_pods (ps_w s)) (j_tasks j) (proj1 Hj) Hc) as [Ht _].
  set (tasks := flat_map _ (j_tasks j)) in *.
  destruct tasks as [|p r] eqn:Et.
  - destruct (sync_status_refs now s j []) as [s1 j1] eqn:E. injection H as _ <- _.
    eapply jwf_same_tasks; [|eapply sync_status_refs_jwf; [exact E|exact Hj|split; constructor]]. reflexivity.
  - destruct (sync_status_refs now s _ (p :: r)) as [s1 j2] eqn:E.
    destruct (delete_tasks s1 (p :: r) false now) as [s2 ok2]. injection H as _ <- _.
    eapply sync_status_refs_jwf; [exact E| |exact Ht]. now apply mark_deleted_jwf.
Qed.

Lemma handle_ttl_cf cfg s j now s' ok : handle_ttl cfg s j now = (s', ok) -> cf s' = cf s.
Proof.
  unfold handle_ttl. destruct (j_deletion j); [now intros [= <- _]|].
  destruct (j_cond j); try (now intros [= <- _]).
  destruct (now <? _); [now intros [= <- _]|].
  destruct (take_fault FDeleteJob _); [now intros [= <- _]|].
  destruct (api_delete_job (ps_w s)) as [w' out] eqn:E. intros [= <- _]. apply api_delete_job_pf in E.
  unfold cf, pf in *. simpl. now injection E.
Qed.

Theorem sync_jwf cfg s j now s' j' ok :
  sync cfg s j now = (s', j', ok) -> JWF j -> NoDup (j_indexes j) -> Forall WFP (cf s) -> JWF j'.
Proof.
  unfold sync. intros H Hj Hi Hc.
  destruct (match j_start j, j_deletion j with Some _, None => sync_job_tasks cfg s j now | _, _ => (s, j, true) end)
    as [[s1 j1] ok1] eqn:E1.
  assert (R1 : cf s1 = cf s /\ JWF j1).
  { destruct (j_start j); [destruct (j_deletion j)|]; try (injection E1 as <- <- _; auto).
    eapply sync_job_tasks_u; eauto. }
  destruct R1 as [C1 J1].
  destruct (negb ok1); [injection H as _ <- _; auto|].
  destruct (sync_status now s1 j1) as [s2 j2] eqn:E2.
  assert (C2 : cf s2 = cf s) by (apply sync_status_cf in E2; congruence).
  assert (J2 : JWF j2) by (eapply sync_status_jwf; eauto).
  destruct (handle_ttl cfg s2 j2 now) as [s3 ok3] eqn:E3. apply handle_ttl_cf in E3.
  destruct (negb ok3); [injection H as _ <- _; auto|].
  destruct (handle_finalizer s3 j2 now) as [[s4 j4] ok4] eqn:E4.
  assert (J4 : JWF j4) by (eapply handle_finalizer_u; [exact E4|exact J2|congruence]).
  destruct (negb ok4); injection H as _ <- _; auto.
Qed.

(** * every Pod, everywhere, carries the name made of its hash and retry number *)
Definition EvW (evs : list pod_event) : Prop := forall p, In (PSet p) evs -> WFP p.
Record PSW (s : pstate) : Prop := {
  psw_api : Forall WFP (api_pods (ps_w s));
  psw_cache : Forall WFP (cache_pods (ps_w s));
  psw_pending : EvW (pod_pending (ps_w s));
  psw_dels : EvW (ps_del_events s)
}.
Definition pf4 (s : pstate) := (api_pods (ps_w s), cache_pods (ps_w s), pod_pending (ps_w s), ps_del_events s).
Lemma psw_same s s' : pf4 s' = pf4 s -> PSW s -> PSW s'.
Proof. unfold pf4. intros [= E1 E2 E3 E4] [A B C D]. constructor; [rewrite E1|rewrite E2|rewrite E3|rewrite E4]; assumption. Qed.
Ltac psw_id := eapply psw_same; [|eassumption]; reflexivity.

Lemma evw_app a b : EvW (a ++ b) <-> EvW a /\ EvW b.
Proof. unfold EvW. split; [intros H; split; intros p Hp; apply H; apply in_or_app; auto|].
  intros [Ha Hb] p Hp. apply in_app_or in Hp as [Hp|Hp]; auto. Qed.

Lemma sync_create_task_psw s j tasks h retry s' j' t' res :
  sync_create_task s j tasks h retry = (s', j', t', res) -> 0 <= retry -> PSW s -> PSW s'.
Proof.
  unfold sync_create_task. intros H Hr HP.
  destruct (take_fault FCreatePod _); [injection H as <- _ _ _; psw_id|].
  destruct (take_fault FCreatePodInvalid _); [injection H as <- _ _ _; psw_id|].
  destruct (has_pod _ _).
  - assert (G : PSW (add_action s (ACreate (job_task_name h retry) 1))) by psw_id.
    destruct (find_pod _ _) as [p|]; [destruct (p_controlled p)|]; injection H as <- _ _ _; exact G.
  - injection H as <- _ _ _. destruct HP as [A B C D]. constructor; simpl; auto.
    + apply Forall_app. split; auto. constructor; [now apply new_pod_wf|constructor].
    + apply evw_app. split; auto. intros q [[= <-]|[]]. now apply new_pod_wf.
Qed.

Lemma create_loop_psw reqs : forall s j tasks now s' j' t' res,
  create_loop s j tasks reqs now = (s', j', t', res) -> Forall (fun rq => 0 <= rq_retry rq) reqs -> PSW s -> PSW s'.
Proof.
  induction reqs as [|rq r IH]; intros s j tasks now s' j' t' res; simpl.
  - intros [= <- _ _ _]. auto.
  - intros H Hr HP. inversion Hr as [|? ? H0 Hr']; subst.
    destruct (match rq_earliest rq with Some e => now <? e | None => false end); [eapply IH; eauto|].
    destruct (sync_create_task s j tasks (rq_hash rq) (rq_retry rq)) as [[[s1 j1] t1] [|]] eqn:E;
      apply sync_create_task_psw in E; auto.
    + eapply IH; eauto.
    + injection H as <- _ _ _. exact E.
Qed.

Lemma psw_arm_if (b : bool) s : PSW s -> PSW (if b then arm s else s).
Proof. destruct b; auto. intros H. psw_id. Qed.
Lemma psw_arm_list {A} (l : list A) s : PSW s -> PSW (match l with [] => s | _ :: _ => arm s end).
Proof. destruct l; auto. intros H. psw_id. Qed.
Lemma sync_status_psw now s j s' j' : sync_status now s j = (s', j') -> PSW s -> PSW s'.
Proof. unfold sync_status. intros [= <- _]. apply psw_arm_if. Qed.

Lemma sync_create_tasks_psw s j tasks now s' j' t' res :
  sync_create_tasks s j tasks now = (s', j', t', res) -> JWF j -> NoDup (j_indexes j) -> PSW s -> PSW s'.
Proof.
  unfold sync_create_tasks. intros H Hj Hi HP. revert H.
  destruct (negb (can_create_task j)); [intros [= <- _ _ _]; auto|].
  destruct (summary _ _ _ _) as [complete succ]. destruct complete; [intros [= <- _ _ _]; auto|].
  destruct (request_names j Hj Hi) as (_ & _ & R3).
  destruct (create_loop s j tasks (compute_missing j) now) as [[[s1 j1] t1] [|]] eqn:E;
    apply create_loop_psw in E; auto.
  - match goal with |- context [sync_status_refs now ?x j1 t1] => destruct (sync_status_refs now x j1 t1) as [s2 j2] eqn:E2 end.
    intros [= <- _ _ _]. eapply sync_status_psw; [exact E2|]. now apply psw_arm_if.
  - intros [= <- _ _ _]. exact E.
Qed.

Lemma wfp_set_deletion p t : WFP p -> WFP (set_deletion p t).
Proof. intros H. exact H. Qed.

Lemma forall_remove n l : Forall WFP l -> Forall WFP (remove_pod n l).
Proof. intros H. apply Forall_forall. intros p Hp. apply filter_In in Hp as [Hp _]. eapply Forall_forall; eauto. Qed.
Lemma forall_set p l : Forall WFP l -> WFP p -> Forall WFP (set_pod p l).
Proof.
  intros H Hp. apply Forall_forall. intros q Hq. unfold set_pod in Hq. destruct (has_pod (p_name p) l).
  - apply in_map_iff in Hq as (x & <- & Hx). destruct (String.eqb (p_name x) (p_name p)); [exact Hp|eapply Forall_forall; eauto].
  - apply in_app_or in Hq as [Hq|[<-|[]]]; [eapply Forall_forall; eauto|exact Hp].
Qed.

Lemma api_delete_pod_psw s name force w' out evs a :
  api_delete_pod (ps_w s) name force = (w', out, evs) -> PSW s ->
  PSW (add_del_events (add_action (with_world s w') a) evs).
Proof.
  unfold api_delete_pod. intros H [A B C D].
  destruct (find_pod name (api_pods (ps_w s))) as [p|] eqn:Ef.
  2:{ injection H as <- _ <-. constructor; simpl; auto. now rewrite app_nil_r. }
  assert (Wp : WFP p) by (eapply Forall_forall; [exact A|eapply find_pod_in'; eauto]).
  destruct (force || negb (mem_str name (pod_scheduled (ps_w s)))).
  - injection H as <- _ <-. constructor; simpl; auto.
    + now apply forall_remove.
    + now rewrite app_nil_r.
    + apply evw_app. split; auto. intros q [X|[]]. discriminate X.
  - destruct (p_deletion p).
    + injection H as <- _ <-. constructor; simpl; auto. now rewrite app_nil_r.
    + injection H as <- _ <-. constructor; simpl; auto.
      * apply forall_set; auto.
      * now rewrite app_nil_r.
      * apply evw_app. split; auto. intros q [[= <-]|[]]. exact Wp.
Qed.

Lemma delete_tasks_ordered_psw tasks : forall s force now s' ok,
  delete_tasks_ordered s tasks force now = (s', ok) -> PSW s -> PSW s'.
Proof.
  induction tasks as [|p r IH]; intros s force now s' ok; simpl.
  - intros [= <- _]. auto.
  - destruct (negb force && _); [apply IH|].
    destruct (take_fault FDeletePod _).
    + destruct (delete_tasks_ordered (add_action s _) r force now) as [s1 ok1] eqn:E. intros [= <- _] HP.
      eapply IH; [exact E|]. psw_id.
    + destruct (api_delete_pod (ps_w s) (p_name p) force) as [[w' out] evs] eqn:Ed. intros H HP.
      eapply IH; [exact H|]. eapply api_delete_pod_psw; eauto.
Qed.
Lemma delete_tasks_psw s tasks force now s' ok : delete_tasks s tasks force now = (s', ok) -> PSW s -> PSW s'.
Proof. apply delete_tasks_ordered_psw. Qed.

Lemma handle_pending_psw cfg s j tasks now s' j' ok : handle_pending cfg s j tasks now = (s', j', ok) -> PSW s -> PSW s'.
Proof.
  unfold handle_pending. destruct (pending_timeout cfg j <=? 0); [intros [= <- _ _]; auto|].
  set (nd := filter (fun p => now <? p_created p + pending_timeout cfg j) _).
  set (need := filter _ (filter _ tasks)).
  destruct need as [|p r] eqn:En.
  - intros [= <- _ _]. apply psw_arm_list.
  - destruct (delete_tasks _ (p :: r) false now) as [s1 ok1] eqn:E. intros [= <- _ _] HP.
    eapply delete_tasks_psw; [exact E|]. now apply psw_arm_list.
Qed.
Lemma handle_kill_psw s j tasks now s' j' ok : handle_kill s j tasks now = (s', j', ok) -> PSW s -> PSW s'.
Proof.
  unfold handle_kill. destruct (negb (should_kill now j)); [intros [= <- _ _]; auto|].
  destruct (filter _ tasks) as [|p r]; [intros [= <- _ _]; auto|].
  destruct (delete_tasks _ _ _ _) as [s1 ok1] eqn:E. intros [= <- _ _] HP. eapply delete_tasks_psw; eauto.
Qed.
Lemma handle_force_psw cfg s j tasks now s' j' ok : handle_force cfg s j tasks now = (s', j', ok) -> PSW s -> PSW s'.
Proof.
  unfold handle_force. destruct (force_timeout cfg <=? 0); [intros [= <- _ _]; auto|].
  destruct (j_forbid_force j); [intros [= <- _ _]; auto|].
  match goal with |- context [filter ?f (filter ?g tasks)] => set (dl := filter g tasks) end.
  set (need := filter (fun p => match p_deletion p with Some t => negb (now <? t + force_timeout cfg) | None => false end) dl).
  set (wt := filter (fun p => match p_deletion p with Some t => now <? t + force_timeout cfg | None => false end) dl).
  destruct need as [|p r] eqn:En.
  - intros [= <- _ _]. apply psw_arm_list.
  - destruct (delete_tasks _ (p :: r) true now) as [s1 ok1] eqn:E. intros [= <- _ _] HP.
    eapply delete_tasks_psw; [exact E|]. now apply psw_arm_list.
Qed.

Lemma sync_job_tasks_psw cfg s j now s' j' ok :
  sync_job_tasks cfg s j now = (s', j', ok) -> JWF j -> NoDup (j_indexes j) -> PSW s -> PSW s'.
Proof.
  unfold sync_job_tasks. set (tasks := flat_map _ (j_tasks j)). intros H Hj Hi HP.
  destruct (sync_create_tasks s j tasks now) as [[[s1 j1] t1] [|]] eqn:E1;
    apply sync_create_tasks_psw in E1; auto; [|injection H as <- _ _; exact E1].
  destruct (sync_status_refs now s1 j1 t1) as [s2 j2] eqn:E2. apply sync_status_psw in E2; auto.
  destruct (handle_pending cfg s2 j2 t1 now) as [[s3 j3] ok3] eqn:E3. apply handle_pending_psw in E3; auto.
  destruct (negb ok3); [injection H as <- _ _; exact E3|].
  destruct (handle_kill s3 j3 t1 now) as [[s4 j4] ok4] eqn:E4. apply handle_kill_psw in E4; auto.
  destruct (negb ok4); [injection H as <- _ _; exact E4|].
  destruct (handle_force cfg s4 j4 t1 now) as [[s5 j5] ok5] eqn:E5. apply handle_force_psw in E5; auto.
  destruct (negb ok5); [injection H as <- _ _; exact E5|].
  destruct (sync_status_refs now s5 j5 t1) as [s6 j6] eqn:E6. apply sync_status_psw in E6; auto.
  injection H as <- _ _. exact E6.
Qed.

Lemma handle_finalizer_psw s j now s' j' ok : handle_finalizer s j now = (s', j', ok) -> PSW s -> PSW s'.
Proof.
  unfold handle_finalizer. destruct (j_deletion j); [|intros [= <- _ _]; auto].
  destruct (negb (j_finalizer j)); [intros [= <- _ _]; auto|].
  set (tasks := flat_map _ (j_tasks j)). destruct tasks as [|p r] eqn:Et.
  - destruct (sync_status_refs now s j []) as [s1 j1] eqn:E. intros [= <- _ _] HP. eapply sync_status_psw; eauto.
  - destruct (sync_status_refs now s _ (p :: r)) as [s1 j2] eqn:E.
    destruct (delete_tasks s1 (p :: r) false now) as [s2 ok2] eqn:Ed. intros [= <- _ _] HP.
    eapply delete_tasks_psw; [exact Ed|]. eapply sync_status_psw; eauto.
Qed.

Lemma handle_ttl_psw cfg s j now s' ok : handle_ttl cfg s j now = (s', ok) -> PSW s -> PSW s'.
Proof.
  unfold handle_ttl. destruct (j_deletion j); [intros [= <- _]; auto|].
  destruct (j_cond j); try (intros [= <- _]; auto).
  destruct (now <? _); [intros [= <- _]; auto|].
  destruct (take_fault FDeleteJob _); [intros [= <- _] HP; psw_id|].
  destruct (api_delete_job (ps_w s)) as [w' out] eqn:E. intros [= <- _] HP.
  eapply psw_same; [|exact HP]. unfold pf4. simpl. apply api_delete_job_pf in E. unfold pf in E. congruence.
Qed.

Theorem sync_psw cfg s j now s' j' ok :
  sync cfg s j now = (s', j', ok) -> JWF j -> NoDup (j_indexes j) -> PSW s -> PSW s'.
Proof.
  unfold sync. intros H Hj Hi HP.
  destruct (match j_start j, j_deletion j with Some _, None => sync_job_tasks cfg s j now | _, _ => (s, j, true) end)
    as [[s1 j1] ok1] eqn:E1.
  assert (P1 : PSW s1).
  { destruct (j_start j); [destruct (j_deletion j)|]; try (injection E1 as <- _ _; exact HP).
    eapply sync_job_tasks_psw; eauto. }
  destruct (negb ok1); [injection H as <- _ _; exact P1|].
  destruct (sync_status now s1 j1) as [s2 j2] eqn:E2. apply sync_status_psw in E2; auto.
  destruct (handle_ttl cfg s2 j2 now) as [s3 ok3] eqn:E3. apply handle_ttl_psw in E3; auto.
  destruct (negb ok3); [injection H as <- _ _; exact E3|].
  destruct (handle_finalizer s3 j2 now) as [[s4 j4] ok4] eqn:E4. apply handle_finalizer_psw in E4; auto.
  destruct (negb ok4); injection H as <- _ _; exact E4.
Qed.

(** * the world *)
Definition JOKu (j : option job) : Prop := match j with Some x => JWF x | None => True end.
Record JWU (w : jworld) : Prop := {
  ju_api : JOKu (api_job w);
  ju_cache : JOKu (cache_job w);
  ju_pending : forall j rv, In (j, rv) (job_pending w) -> JOKu j
}.
Definition WU (w : jworld) : Prop := PSW (mkPS w [] false []) /\ JWU w.

Lemma jwu_jf w w' : jf w' = jf w -> JWU w -> JWU w'.
Proof. unfold jf. intros [= E1 E2 E3 E4 E5] [A B C]. constructor; [rewrite E1|rewrite E3|rewrite E5]; assumption. Qed.

Lemma jwu_upd w j fl rv : JWU w -> JOKu j -> JWU (upd_job w j rv fl).
Proof.
  intros [A B C] Hj. constructor; simpl; auto.
  intros j' rv' Hin. apply in_app_or in Hin as [Hin|[[= <- _]|[]]]; eauto.
Qed.

Lemma api_delete_job_jwu w w' out : api_delete_job w = (w', out) -> JWU w -> JWU w'.
Proof.
  unfold api_delete_job. intros H HJ. destruct (api_job w) as [a|] eqn:Ea; [|injection H as <- _; exact HJ].
  assert (Ra : JWF a) by (pose proof (ju_api w HJ) as X; rewrite Ea in X; exact X).
  destruct (j_finalizer a); [destruct (j_deletion a)|]; injection H as <- _; auto; apply jwu_upd; simpl; auto.
Qed.

Lemma handle_ttl_jwu cfg s j now s' ok : handle_ttl cfg s j now = (s', ok) -> JWU (ps_w s) -> JWU (ps_w s').
Proof.
  unfold handle_ttl. destruct (j_deletion j); [intros [= <- _]; auto|].
  destruct (j_cond j); try (intros [= <- _]; auto).
  destruct (now <? _); [intros [= <- _]; auto|].
  destruct (take_fault FDeleteJob _); [intros [= <- _] HJ; eapply jwu_jf; [|exact HJ]; reflexivity|].
  destruct (api_delete_job (ps_w s)) as [w' out] eqn:E. intros [= <- _] HJ. simpl. eapply api_delete_job_jwu; eauto.
Qed.

Lemma sync_jwu cfg s j now s' j' ok : sync cfg s j now = (s', j', ok) -> JWU (ps_w s) -> JWU (ps_w s').
Proof.
  unfold sync. intros H HJ.
  destruct (match j_start j, j_deletion j with Some _, None => sync_job_tasks cfg s j now | _, _ => (s, j, true) end)
    as [[s1 j1] ok1] eqn:E1.
  assert (J1 : JWU (ps_w s1)).
  { destruct (j_start j); [destruct (j_deletion j)|]; try (injection E1 as <- _ _; exact HJ).
    apply sync_job_tasks_jf in E1. eapply jwu_jf; eauto. }
  destruct (negb ok1); [injection H as <- _ _; exact J1|].
  destruct (sync_status now s1 j1) as [s2 j2] eqn:E2. apply sync_status_w in E2.
  destruct (handle_ttl cfg s2 j2 now) as [s3 ok3] eqn:E3. apply handle_ttl_jwu in E3; [|now rewrite E2].
  destruct (negb ok3); [injection H as <- _ _; exact E3|].
  destruct (handle_finalizer s3 j2 now) as [[s4 j4] ok4] eqn:E4. apply handle_finalizer_jf in E4.
  destruct (negb ok4); injection H as <- _ _; eapply jwu_jf; eauto.
Qed.

Lemma api_update_job_jwu w newj rv w' out : api_update_job w newj rv = (w', out) -> JWU w -> JWU w'.
Proof.
  unfold api_update_job. intros H HJ. destruct (api_job w) as [a|] eqn:Ea; [|injection H as <- _; exact HJ].
  assert (Ra : JWF a) by (pose proof (ju_api w HJ) as X; rewrite Ea in X; exact X).
  destruct (negb (rv =? api_rv w)); [injection H as <- _; exact HJ|].
  destruct (j_deletion a); [destruct (j_finalizer newj)|]; injection H as <- _; apply jwu_upd; simpl; auto.
Qed.

Lemma api_update_status_jwu w newj rv w' out : api_update_status w newj rv = (w', out) -> JWF newj -> JWU w -> JWU w'.
Proof.
  unfold api_update_status. intros H Hn HJ. destruct (api_job w) as [a|]; [|injection H as <- _; exact HJ].
  destruct (negb (rv =? api_rv w)); injection H as <- _; [exact HJ|]. apply jwu_upd; simpl; auto.
Qed.

Lemma end_pass_wu s : PSW s -> JWU (ps_w s) -> WU (end_pass s).
Proof.
  intros [A B C D] HJ.
  assert (G : WU (upd_pods (ps_w s) (api_pods (ps_w s)) (pod_scheduled (ps_w s)) (sort_evs (ps_del_events s)) (faults (ps_w s)))).
  { split.
    - constructor; cbn [ps_w ps_del_events upd_pods api_pods cache_pods pod_pending]; auto; [|intros ? []].
      apply evw_app. split; auto. intros p Hp. apply D. apply sort_evs_in. exact Hp.
    - eapply jwu_jf; [|exact HJ]. reflexivity. }
  unfold end_pass. destruct (existsb _ _); [|exact G].
  destruct (take_fault FDeletePod _); [|exact G]. destruct G as [[A' B' C' D'] J']. split.
  - constructor; simpl; auto.
  - eapply jwu_jf; [|exact J']. reflexivity.
Qed.

Theorem sync_one_wu cfg j0 w w' acts ok armed :
  sync_one cfg w = (w', acts, ok, armed) -> NoDup (j_indexes j0) -> SV j0 w -> WU w -> WU w'.
Proof.
  unfold sync_one. intros H Hi HS [HP HJ]. destruct (cache_job w) as [j|] eqn:Ec; [|injection H as <- _ _ _; split; assumption].
  assert (Rj : JWF j) by (pose proof (ju_cache w HJ) as X; rewrite Ec in X; exact X).
  assert (Ij : NoDup (j_indexes j)).
  { destruct HS as (_ & C & _). rewrite Ec in C. simpl in C. destruct C as (_ & _ & Ei & _). now rewrite Ei. }
  destruct (sync cfg (mkPS w [] false []) j (clock w)) as [[s1 newj] ok1] eqn:Es.
  pose proof (sync_psw _ _ _ _ _ _ _ Es Rj Ij HP) as P1.
  pose proof (sync_jwf _ _ _ _ _ _ _ Es Rj Ij (psw_cache _ HP)) as Rn.
  pose proof (sync_jwu _ _ _ _ _ _ _ Es HJ) as J1. simpl in J1.
  set (upd := if meta_eqb j newj then (s1, true) else _) in H.
  assert (U : PSW (fst upd) /\ JWU (ps_w (fst upd))).
  { unfold upd. destruct (meta_eqb j newj); [auto|].
    destruct (take_fault FUpdateJob _).
    - simpl. split; [psw_id|eapply jwu_jf; [|exact J1]; reflexivity].
    - destruct (api_update_job (ps_w s1) newj (cache_rv w)) as [wu out] eqn:Eu. simpl. split.
      + apply api_update_job_pf in Eu. eapply psw_same; [|exact P1]. unfold pf4. simpl. unfold pf in Eu. congruence.
      + eapply api_update_job_jwu; eauto. }
  destruct upd as [s2 ok2]. simpl in U. destruct U as [P2 J2].
  destruct (negb ok2); [injection H as <- _ _ _; now apply end_pass_wu|].
  set (st := if status_eqb j newj then (s2, true) else _) in H.
  assert (U3 : PSW (fst st) /\ JWU (ps_w (fst st))).
  { unfold st. destruct (status_eqb j newj); [auto|].
    destruct (take_fault FUpdateStatus _).
    - simpl. split; [psw_id|eapply jwu_jf; [|exact J2]; reflexivity].
    - destruct (api_update_status (ps_w s2) newj (cache_rv w)) as [wu out] eqn:Eu. simpl. split.
      + apply api_update_status_pf in Eu. eapply psw_same; [|exact P2]. unfold pf4. simpl. unfold pf in Eu. congruence.
      + eapply api_update_status_jwu; eauto. }
  destruct st as [s3 ok3]. simpl in U3. destruct U3 as [P3 J3]. injection H as <- _ _ _. now apply end_pass_wu.
Qed.

Lemma apply_pod_events_wf n : forall evs cache rest cache',
  apply_pod_events n evs cache = (rest, cache') -> EvW evs -> Forall WFP cache -> EvW rest /\ Forall WFP cache'.
Proof.
  induction n as [|n IH]; intros evs cache rest cache'; simpl.
  - intros [= <- <-]. auto.
  - destruct evs as [|[p|m] r]; [intros [= <- <-]; auto| |]; intros H He Hc.
    + eapply IH; [exact H| |].
      * intros q Hq. apply He. now right.
      * apply forall_set; auto. apply He. now left.
    + eapply IH; [exact H| |].
      * intros q Hq. apply He. now right.
      * now apply forall_remove.
Qed.

Lemma wu_pods w pods sched evs fl : WU w -> Forall WFP pods -> EvW evs -> WU (upd_pods w pods sched evs fl).
Proof.
  intros [[A B C D] HJ] Hp He. split.
  - constructor; simpl; auto. apply evw_app. auto.
  - eapply jwu_jf; [|exact HJ]. reflexivity.
Qed.

Definition jop_ok (o : jop) : Prop := match o with JForeign _ r => 0 <= r | _ => True end.

Lemma set_pod_fields_wf p ph oom a b c : WFP p -> WFP (set_pod_fields p ph oom a b c).
Proof. intros H. exact H. Qed.

Theorem jstep_wu cfg j0 w o :
  jop_ok o -> NoDup (j_indexes j0) -> JV w -> SV j0 w -> WU w -> WU (fst (fst (fst (jstep cfg w o)))).
Proof.
  intros Hok Hi HV HS HW. pose proof HW as [[A B C D] HJ]. simpl in A, B, C.
  destruct o as [t|n k|h r| |t| |n|n|f|]; simpl.
  - split; [constructor; simpl; auto|eapply jwu_jf; [|exact HJ]; reflexivity].
  - unfold kubelet. destruct (find_pod n (api_pods w)) as [p|] eqn:Ef; [|exact HW].
    assert (Wp : WFP p) by (eapply Forall_forall; [exact A|eapply find_pod_in'; eauto]).
    assert (HSet : forall p' sched fl, WFP p' -> WU (upd_pods w (set_pod p' (api_pods w)) sched [PSet p'] fl)).
    { intros p' sched fl Hn. apply wu_pods; auto; [now apply forall_set|]. intros q [[= <-]|[]]. exact Hn. }
    assert (HDel : forall m sched fl, WU (upd_pods w (remove_pod m (api_pods w)) sched [PDel m] fl)).
    { intros m sched fl. apply wu_pods; auto; [now apply forall_remove|]. intros q [X|[]]. discriminate X. }
    destruct k; try (apply HSet; now apply set_pod_fields_wf); try apply HDel.
    + destruct (mem_str n (pod_scheduled w)); [exact HW|apply HSet; now apply set_pod_fields_wf].
    + destruct (p_deletion p); [apply HDel|exact HW].
  - destruct (has_pod _ _); simpl; [exact HW|]. simpl in Hok.
    assert (Wn : WFP (mkPod (job_task_name h r) h r (clock w) false PPending false None None None None)) by (split; [reflexivity|exact Hok]).
    apply wu_pods; auto.
    + apply Forall_app. split; auto.
    + intros q [[= <-]|[]]. exact Wn.
  - destruct (api_job w) as [a|] eqn:Ea; simpl; [|exact HW]. destruct (j_start a); simpl; [exact HW|].
    assert (Ra : JWF a) by (pose proof (ju_api w HJ) as X; rewrite Ea in X; exact X).
    split; [constructor; simpl; auto|apply jwu_upd; simpl; auto].
  - destruct (api_job w) as [a|] eqn:Ea; simpl; [|exact HW].
    assert (Ra : JWF a) by (pose proof (ju_api w HJ) as X; rewrite Ea in X; exact X).
    split; [constructor; simpl; auto|apply jwu_upd; simpl; auto].
  - destruct (api_delete_job w) as [w' out] eqn:E. simpl. split.
    + apply api_delete_job_pf in E. unfold pf in E. injection E as E1 E2 E3. constructor; simpl; [rewrite E1|rewrite E2|rewrite E3|]; auto.
    + eapply api_delete_job_jwu; eauto.
  - destruct (apply_job_events n (job_pending w) (cache_job w, cache_rv w)) as [rest [cj crv]] eqn:E. simpl.
    destruct (apply_job_events_in _ _ _ _ _ E) as [Hc Hr]. split; [constructor; simpl; auto|].
    destruct HJ as [JA JB JC]. constructor; simpl; auto.
    + destruct Hc as [[= -> _]|Hin]; [exact JB|]. apply (JC _ _ Hin).
    + intros j rv Hin. apply (JC j rv). auto.
  - destruct (apply_pod_events n (pod_pending w) (cache_pods w)) as [rest cache] eqn:E. simpl.
    destruct (apply_pod_events_wf _ _ _ _ _ E C B) as [He Hc]. split; [constructor; simpl; auto|].
    eapply jwu_jf; [|exact HJ]. reflexivity.
  - split; [constructor; simpl; auto|eapply jwu_jf; [|exact HJ]; reflexivity].
  - destruct (sync_one cfg w) as [[[w' acts] ok] armed] eqn:E. simpl. eapply sync_one_wu; eauto.
Qed.

Lemma wu_init j0 now : JWF j0 -> WU (init_jworld j0 now).
Proof.
  intros H. split.
  - constructor; simpl; [apply Forall_nil|apply Forall_nil|intros ? []|intros ? []].
  - constructor; simpl; [exact H|exact H|intros ? ? []].
Qed.

Theorem jrun_wu cfg j0 ops : NoDup (j_indexes j0) -> Forall jop_ok ops ->
  forall w, JV w -> SV j0 w -> WU w -> WU (jrun_world cfg w ops).
Proof.
  intros Hi. induction ops as [|o r IH]; intros Hok w HV HS HW; simpl; auto.
  inversion Hok as [|? ? H1 H2]; subst.
  apply IH; auto.
  - apply (jstep_evol cfg w o HV).
  - now apply jstep_sv.
  - now apply (jstep_wu cfg j0).
Qed.

(** C09 / C11 over histories: a task is never listed twice, and every listed task carries the
    name made of its index hash and its retry number *)
Theorem never_listed_twice cfg j0 now ops a :
  NoDup (j_indexes j0) -> JWF j0 -> Forall jop_ok ops ->
  api_job (jrun_world cfg (init_jworld j0 now) ops) = Some a ->
  NoDup (map tr_name (j_tasks a)) /\
  Forall (fun r => tr_name r = job_task_name (tr_hash r) (tr_retry r) /\ 0 <= tr_retry r) (j_tasks a).
Proof.
  intros Hi H0 Hok Ea.
  destruct (jrun_wu cfg j0 ops Hi Hok _ (jv_init j0 now) (sv_init j0 now) (wu_init j0 now H0)) as [_ HJ].
  pose proof (ju_api _ HJ) as X. rewrite Ea in X. exact X.
Qed.

(** ... so the number of recorded tasks never decreases while the Job exists *)
Theorem task_count_never_decreases cfg j0 now ops1 ops2 a1 a2 :
  NoDup (j_indexes j0) -> JWF j0 -> Forall jop_ok ops1 ->
  let w1 := jrun_world cfg (init_jworld j0 now) ops1 in
  let w2 := jrun_world cfg w1 ops2 in
  api_job w1 = Some a1 -> api_job w2 = Some a2 -> (List.length (j_tasks a1) <= List.length (j_tasks a2))%nat.
Proof.
  intros Hi H0 Hok w1 w2 E1 E2.
  destruct (never_listed_twice cfg j0 now ops1 a1 Hi H0 Hok E1) as [ND _].
  destruct (recorded_forever cfg j0 now ops1 ops2) as [R _]. specialize (R a1 a2 E1 E2).
  rewrite <- (map_length tr_name (j_tasks a1)), <- (map_length tr_name (j_tasks a2)).
  apply NoDup_incl_length; [exact ND|exact R].
Qed.
