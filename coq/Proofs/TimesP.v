(** C11 over histories: a task's recorded running / finish times are never cleared.  For every
    history of the one-Job world that starts from a Job with distinct index hashes and a
    well-formed status: a running or finish time recorded for a task in the Job's status in
    the API is still recorded (not cleared) in every later version of the Job. *)
From Furiko Require Import Job.Core Job.Sync Job.World Proofs.JobP Proofs.SyncP Proofs.HistoryP Proofs.CacheP Proofs.CreateP Proofs.UniqueP.
From Coq Require Import Lia.
Local Open Scope list_scope.
Local Open Scope Z_scope.

Definition TK (l l' : list taskref) : Prop :=
  forall e, In e l -> exists r, In r l' /\ tr_name r = tr_name e /\
    (tr_running e <> None -> tr_running r <> None) /\ (tr_finish e <> None -> tr_finish r <> None).

Lemma tk_refl l : TK l l.
Proof. intros e He. exists e. auto. Qed.
Lemma tk_trans a b c : TK a b -> TK b c -> TK a c.
Proof.
  intros H1 H2 e He. destruct (H1 e He) as (r & Hr & En & R1 & R2). destruct (H2 r Hr) as (q & Hq & En' & Q1 & Q2).
  exists q. repeat split; auto; congruence.
Qed.

(** with unique names the ref merged into a Pod's ref is the one recorded under that name *)
Lemma find_ref_unique l : NoDup (rnames l) -> forall e, In e l -> find_ref (tr_name e) l = Some e.
Proof.
  induction l as [|x t IH]; intros Hn e He; [destruct He|]. simpl in *.
  inversion Hn as [|? ? Hx Ht]; subst. destruct He as [->|He].
  - now rewrite String.eqb_refl.
  - destruct (String.eqb (tr_name x) (tr_name e)) eqn:E; [|now apply IH].
    apply String.eqb_eq in E. exfalso. apply Hx. rewrite E. unfold rnames. now apply in_map.
Qed.

Lemma find_ref_last_unique l e : NoDup (rnames l) -> In e l -> find_ref_last (tr_name e) l = Some e.
Proof.
  intros Hn He. unfold find_ref_last. apply find_ref_unique; [|now apply in_rev in He].
  unfold rnames. rewrite map_rev. now apply NoDup_rev.
Qed.

Lemma generate_tk now existing pods : NoDup (rnames existing) -> TK existing (generate_task_refs now existing pods).
Proof.
  intros Hn e He. unfold generate_task_refs.
  destruct (has_pod (tr_name e) pods) eqn:Hp.
  - apply has_pod_spec in Hp as (p & Hin & En).
    exists (get_task_ref (find_ref_last (p_name p) existing) p). split.
    + apply sort_refs_in, in_app_iff. left. apply in_map_iff. exists p. auto.
    + rewrite get_task_ref_name. split; [exact En|].
      rewrite En, (find_ref_last_unique existing e Hn He). apply timestamps_retained.
  - exists (vanished_ref now e). split; [|split; [reflexivity|]].
    + apply sort_refs_in, in_app_iff. right. apply in_map. apply filter_In. split; auto. now rewrite Hp.
    + destruct (vanished_keeps_times now e) as (V1 & V2 & V3). split; [now rewrite V1|auto].
Qed.

Definition JTK (j j' : job) : Prop := TK (j_tasks j) (j_tasks j').
Lemma jtk_refl j : JTK j j. Proof. apply tk_refl. Qed.
Lemma jtk_trans a b c : JTK a b -> JTK b c -> JTK a c. Proof. apply tk_trans. Qed.
Lemma jtk_same j j' : j_tasks j' = j_tasks j -> JTK j j'.
Proof. unfold JTK. intros ->. apply tk_refl. Qed.

Lemma update_task_refs_tk now j pods : JWF j -> JTK j (update_task_refs now j pods).
Proof. intros [Hn _]. unfold JTK, update_task_refs. simpl. now apply generate_tk. Qed.

Lemma sync_status_tk now s j s' j' : sync_status now s j = (s', j') -> JTK j j'.
Proof. intros H. apply sync_status_tasks in H. now apply jtk_same. Qed.

Lemma sync_status_refs_tk now s j pods s' j' : sync_status_refs now s j pods = (s', j') -> JWF j -> JTK j j'.
Proof.
  unfold sync_status_refs. intros H Hj. eapply jtk_trans; [now apply update_task_refs_tk|]. eapply sync_status_tk; eauto.
Qed.

Lemma mark_deleted_tk l st o f j : JTK j (mark_deleted l st o f j).
Proof.
  intros e He. unfold mark_deleted. simpl.
  exists (if mem_str (tr_name e) l
          then mkRef (tr_name e) (tr_hash e) (tr_retry e) (tr_created e) (tr_running e) (tr_finish e) (tr_status e)
                     (Some (let d := match tr_deleted e with Some d => if o then st else d | None => st end in
                            if f then mkSt (st_state d) (st_result d) ReForceDeleted else d))
          else e).
  split.
  - apply in_map_iff. exists e. split; auto.
  - destruct (mem_str (tr_name e) l); simpl; auto.
Qed.

(** * the pass: the status it computes keeps every recorded time *)
Lemma sync_create_tasks_tk s j tasks now s' j' t' res :
  sync_create_tasks s j tasks now = (s', j', t', res) ->
  JWF j -> NoDup (j_indexes j) -> Forall WFP (cf s) -> TL tasks -> incl (pnames tasks) (rnames (j_tasks j)) -> JTK j j'.
Proof.
  unfold sync_create_tasks. intros H Hj Hi Hc [T1 T2] Hin. revert H.
  destruct (negb (can_create_task j)); [intros [= _ <- _ _]; apply jtk_refl|].
  destruct (summary _ _ _ _) as [complete succ]. destruct complete; [intros [= _ <- _ _]; apply jtk_refl|].
  destruct (request_names j Hj Hi) as (R1 & R2 & R3).
  assert (Hn : NoDup (pnames tasks ++ map rqname (compute_missing j))).
  { apply nodup_app_intro; auto. intros x Hx Hq. apply in_map_iff in Hq as (rq & <- & Hrq). apply (R2 rq Hrq). now apply Hin. }
  destruct (create_loop s j tasks (compute_missing j) now) as [[[s1 j1] t1] [|]] eqn:E;
    destruct (create_loop_tl _ _ _ _ _ _ _ _ _ E R3 Hc Hn T2) as (C1 & J1 & TL1).
  - match goal with |- context [sync_status_refs now ?x j1 t1] => destruct (sync_status_refs now x j1 t1) as [s2 j2] eqn:E2 end.
    intros [= _ <- _ _]. eapply jtk_trans; [apply jtk_same; exact J1|].
    eapply sync_status_refs_tk; [exact E2|]. eapply jwf_same_tasks; eauto.
  - intros [= _ <- _ _]. apply jtk_refl.
Qed.

Lemma handle_pending_tk cfg s j tasks now s' j' ok : handle_pending cfg s j tasks now = (s', j', ok) -> JTK j j'.
Proof.
  unfold handle_pending. destruct (pending_timeout cfg j <=? 0); [intros [= _ <- _]; apply jtk_refl|].
  set (need := filter _ (filter _ tasks)).
  destruct need as [|p r] eqn:En; [intros [= _ <- _]; apply jtk_refl|].
  destruct (delete_tasks _ _ _ _) as [s1 ok1]. intros [= _ <- _]. apply mark_deleted_tk.
Qed.
Lemma handle_kill_tk s j tasks now s' j' ok : handle_kill s j tasks now = (s', j', ok) -> JTK j j'.
Proof.
  unfold handle_kill. destruct (negb (should_kill now j)); [intros [= _ <- _]; apply jtk_refl|].
  destruct (filter _ tasks) as [|p r]; [intros [= _ <- _]; apply jtk_refl|].
  destruct (delete_tasks _ _ _ _) as [s1 ok1]. intros [= _ <- _]. apply mark_deleted_tk.
Qed.
Lemma handle_force_tk cfg s j tasks now s' j' ok : handle_force cfg s j tasks now = (s', j', ok) -> JWF j -> JTK j j'.
Proof.
  unfold handle_force. destruct (force_timeout cfg <=? 0); [intros [= _ <- _]; intros; apply jtk_refl|].
  destruct (j_forbid_force j); [intros [= _ <- _]; intros; apply jtk_refl|].
  match goal with |- context [filter ?f (filter ?g tasks)] => set (dl := filter g tasks) end.
  set (need := filter (fun p => match p_deletion p with Some t => negb (now <? t + force_timeout cfg) | None => false end) dl).
  destruct need as [|p r] eqn:En; [intros [= _ <- _]; intros; apply jtk_refl|].
  destruct (delete_tasks _ _ _ _) as [s1 ok1]. intros [= _ <- _] Hj.
  eapply jtk_trans; [apply mark_deleted_tk|]. apply update_task_refs_tk. now apply mark_deleted_jwf.
Qed.

Lemma sync_job_tasks_tk cfg s j now s' j' ok :
  sync_job_tasks cfg s j now = (s', j', ok) -> JWF j -> NoDup (j_indexes j) -> Forall WFP (cf s) -> JTK j j'.
Proof.
  unfold sync_job_tasks. intros H Hj Hi Hc.
  destruct (cached_tasks_tl (cache_pods (ps_w s)) (j_tasks j) (proj1 Hj) Hc) as [Ht Hin].
  set (tasks := flat_map _ (j_tasks j)) in *.
  destruct (sync_create_tasks s j tasks now) as [[[s1 j1] t1] [|]] eqn:E1; [|injection H as _ <- _; apply jtk_refl].
  pose proof (sync_create_tasks_tk _ _ _ _ _ _ _ _ E1 Hj Hi Hc Ht Hin) as K1.
  destruct (sync_create_tasks_tl _ _ _ _ _ _ _ _ E1 Hj Hi Hc Ht Hin) as (C1 & J1 & T1).
  destruct (sync_status_refs now s1 j1 t1) as [s2 j2] eqn:E2.
  pose proof (sync_status_refs_tk _ _ _ _ _ _ E2 J1) as K2.
  assert (J2 : JWF j2) by (eapply sync_status_refs_jwf; eauto).
  destruct (handle_pending cfg s2 j2 t1 now) as [[s3 j3] ok3] eqn:E3.
  pose proof (handle_pending_tk _ _ _ _ _ _ _ _ E3) as K3. destruct (handle_pending_u _ _ _ _ _ _ _ _ E3 J2) as [_ J3].
  destruct (negb ok3); [injection H as _ <- _; apply jtk_refl|].
  destruct (handle_kill s3 j3 t1 now) as [[s4 j4] ok4] eqn:E4.
  pose proof (handle_kill_tk _ _ _ _ _ _ _ E4) as K4. destruct (handle_kill_u _ _ _ _ _ _ _ E4 J3) as [_ J4].
  destruct (negb ok4); [injection H as _ <- _; apply jtk_refl|].
  destruct (handle_force cfg s4 j4 t1 now) as [[s5 j5] ok5] eqn:E5.
  pose proof (handle_force_tk _ _ _ _ _ _ _ _ E5 J4) as K5. destruct (handle_force_u _ _ _ _ _ _ _ _ E5 J4 T1) as [_ J5].
  destruct (negb ok5); [injection H as _ <- _; apply jtk_refl|].
  destruct (sync_status_refs now s5 j5 t1) as [s6 j6] eqn:E6.
  pose proof (sync_status_refs_tk _ _ _ _ _ _ E6 J5) as K6.
  injection H as _ <- _.
  repeat (eapply jtk_trans; [eassumption|]). apply jtk_refl.
Qed.

Lemma handle_finalizer_tk s j now s' j' ok : handle_finalizer s j now = (s', j', ok) -> JWF j -> JTK j j'.
Proof.
  unfold handle_finalizer. intros H Hj. destruct (j_deletion j); [|injection H as _ <- _; apply jtk_refl].
  destruct (negb (j_finalizer j)); [injection H as _ <- _; apply jtk_refl|].
  set (tasks := flat_map _ (j_tasks j)) in *.
  destruct tasks as [|p r] eqn:Et.
  - destruct (sync_status_refs now s j []) as [s1 j1] eqn:E. injection H as _ <- _.
    eapply jtk_trans; [eapply sync_status_refs_tk; eauto|]. apply jtk_same. reflexivity.
  - destruct (sync_status_refs now s _ (p :: r)) as [s1 j2] eqn:E.
    destruct (delete_tasks s1 (p :: r) false now) as [s2 ok2]. injection H as _ <- _.
    eapply jtk_trans; [apply mark_deleted_tk|]. eapply sync_status_refs_tk; [exact E|]. now apply mark_deleted_jwf.
Qed.

Theorem sync_tk cfg s j now s' j' ok :
  sync cfg s j now = (s', j', ok) -> JWF j -> NoDup (j_indexes j) -> Forall WFP (cf s) -> JTK j j'.
Proof.
  unfold sync. intros H Hj Hi Hc.
  destruct (match j_start j, j_deletion j with Some _, None => sync_job_tasks cfg s j now | _, _ => (s, j, true) end)
    as [[s1 j1] ok1] eqn:E1.
  assert (R1 : JTK j j1 /\ JWF j1).
  { destruct (j_start j); [destruct (j_deletion j)|]; try (injection E1 as _ <- _; split; [apply jtk_refl|exact Hj]).
    split; [eapply sync_job_tasks_tk; eauto|]. destruct (sync_job_tasks_u _ _ _ _ _ _ _ E1 Hj Hi Hc) as [_ X]. exact X. }
  destruct R1 as [K1 J1].
  destruct (negb ok1); [injection H as _ <- _; apply jtk_refl|].
  destruct (sync_status now s1 j1) as [s2 j2] eqn:E2.
  pose proof (sync_status_tk _ _ _ _ _ E2) as K2. assert (J2 : JWF j2) by (eapply sync_status_jwf; eauto).
  destruct (handle_ttl cfg s2 j2 now) as [s3 ok3] eqn:E3.
  destruct (negb ok3); [injection H as _ <- _; eapply jtk_trans; eauto|].
  destruct (handle_finalizer s3 j2 now) as [[s4 j4] ok4] eqn:E4.
  pose proof (handle_finalizer_tk _ _ _ _ _ _ E4 J2) as K4.
  destruct (negb ok4); injection H as _ <- _; [eapply jtk_trans; eauto|].
  eapply jtk_trans; [exact K1|]. eapply jtk_trans; eauto.
Qed.

(** * the world: every step of every history *)
Lemma api_delete_job_tasks w w' out a a' :
  api_delete_job w = (w', out) -> api_job w = Some a -> api_job w' = Some a' -> j_tasks a' = j_tasks a.
Proof.
  unfold api_delete_job. intros H Ea. rewrite Ea in H.
  destruct (j_finalizer a); [destruct (j_deletion a)|]; injection H as <- _; simpl; intros E; try congruence.
  now injection E as <-.
Qed.

Lemma sync_api_tasks cfg s j now s1 newj ok a a1 :
  sync cfg s j now = (s1, newj, ok) -> api_job (ps_w s) = Some a -> api_job (ps_w s1) = Some a1 -> j_tasks a1 = j_tasks a.
Proof.
  unfold sync. intros H Ha.
  destruct (match j_start j, j_deletion j with Some _, None => sync_job_tasks cfg s j now | _, _ => (s, j, true) end)
    as [[s1' j1] ok1] eqn:E1.
  assert (A1 : api_job (ps_w s1') = Some a).
  { destruct (j_start j); [destruct (j_deletion j)|]; try (injection E1 as <- _ _; exact Ha).
    apply sync_job_tasks_jf in E1. unfold jf in E1. injection E1 as E1 _ _ _ _. congruence. }
  destruct (negb ok1); [injection H as <- _ _; intros E; congruence|].
  destruct (sync_status now s1' j1) as [s2 j2] eqn:E2. apply sync_status_w in E2.
  destruct (handle_ttl cfg s2 j2 now) as [s3 ok3] eqn:E3.
  assert (A3 : forall a3, api_job (ps_w s3) = Some a3 -> j_tasks a3 = j_tasks a).
  { unfold handle_ttl in E3. destruct (j_deletion j2); [injection E3 as <- _; intros a3 X; congruence|].
    destruct (j_cond j2); try (injection E3 as <- _; intros a3 X; congruence).
    destruct (now <? _); [injection E3 as <- _; intros a3 X; congruence|].
    destruct (take_fault FDeleteJob _); [injection E3 as <- _; simpl; intros a3 X; congruence|].
    destruct (api_delete_job (ps_w s2)) as [w' out] eqn:Ed. injection E3 as <- _. simpl. intros a3 X.
    eapply api_delete_job_tasks; [exact Ed| |exact X]. congruence. }
  destruct (negb ok3); [injection H as <- _ _; apply A3|].
  destruct (handle_finalizer s3 j2 now) as [[s4 j4] ok4] eqn:E4. apply handle_finalizer_jf in E4.
  unfold jf in E4. injection E4 as E4 _ _ _ _.
  destruct (negb ok4); injection H as <- _ _; intros X; apply A3; congruence.
Qed.

Theorem sync_one_tk cfg j0 w w' acts ok armed a a' :
  sync_one cfg w = (w', acts, ok, armed) -> NoDup (j_indexes j0) -> JV w -> SV j0 w -> WU w ->
  api_job w = Some a -> api_job w' = Some a' -> JTK a a'.
Proof.
  unfold sync_one. intros H Hi HV HS [HP HJ] Ea Ea'.
  destruct (cache_job w) as [j|] eqn:Ec; [|injection H as <- _ _ _; replace a' with a by congruence; apply jtk_refl].
  assert (Rj : JWF j) by (pose proof (ju_cache w HJ) as X; rewrite Ec in X; exact X).
  assert (Ij : NoDup (j_indexes j)).
  { destruct HS as (_ & C & _). rewrite Ec in C. simpl in C. destruct C as (_ & _ & Ei & _). now rewrite Ei. }
  destruct (sync cfg (mkPS w [] false []) j (clock w)) as [[s1 newj] ok1] eqn:Es.
  pose proof (sync_tk _ _ _ _ _ _ _ Es Rj Ij (psw_cache _ HP)) as Kn.
  pose proof (sync_evol _ _ _ _ _ _ _ Es) as V1. simpl in V1.
  pose proof (fun a1 => sync_api_tasks _ _ _ _ _ _ _ a a1 Es Ea) as T1. simpl in T1.
  destruct (jv_cache w HV) as [C1 C2].
  (* UpdateJob *)
  set (upd := if meta_eqb j newj then (s1, true) else _) in H.
  assert (U : evol w (ps_w (fst upd)) /\ forall a2, api_job (ps_w (fst upd)) = Some a2 -> j_tasks a2 = j_tasks a).
  { unfold upd. destruct (meta_eqb j newj); [split; [exact V1|exact T1]|].
    destruct (take_fault FUpdateJob _); [simpl; split; [eapply evol_trans; [exact V1|apply ev_same; reflexivity]|exact T1]|].
    destruct (api_update_job (ps_w s1) newj (cache_rv w)) as [wu out] eqn:Eu. simpl. split.
    - eapply evol_trans; [exact V1|now apply api_update_job_evol in Eu].
    - intros a2 X. unfold api_update_job in Eu. destruct (api_job (ps_w s1)) as [a1|] eqn:E1; [|injection Eu as <- _; congruence].
      destruct (negb (cache_rv w =? api_rv (ps_w s1))); [injection Eu as <- _; apply T1; congruence|].
      destruct (j_deletion a1); [destruct (j_finalizer newj)|]; injection Eu as <- _; simpl in X; try discriminate X;
        injection X as <-; simpl; now apply T1. }
  destruct upd as [s2 ok2]. simpl in U. destruct U as [V2 T2].
  destruct (negb ok2).
  { injection H as <- _ _ _. destruct (end_pass_api s2) as [E _]. apply jtk_same. apply T2. congruence. }
  (* UpdateJobStatus *)
  set (st := if status_eqb j newj then (s2, true) else _) in H.
  assert (U3 : forall a3, api_job (ps_w (fst st)) = Some a3 -> JTK a a3).
  { unfold st. destruct (status_eqb j newj); [intros a3 X; apply jtk_same; now apply T2|].
    destruct (take_fault FUpdateStatus _); [simpl; intros a3 X; apply jtk_same; now apply T2|].
    destruct (api_update_status (ps_w s2) newj (cache_rv w)) as [wu out] eqn:Eu. simpl. intros a3 X.
    unfold api_update_status in Eu. destruct (api_job (ps_w s2)) as [a2|] eqn:E2; [|injection Eu as <- _; congruence].
    destruct (negb (cache_rv w =? api_rv (ps_w s2))) eqn:Erv; [injection Eu as <- _; apply jtk_same; apply T2; congruence|].
    apply negb_false_iff, Z.eqb_eq in Erv.
    (* accepted: nothing touched the Job since the cache was read, the cached Job is the API's *)
    destruct (evol_facts _ _ V2) as (F1 & F2 & _ & _ & _).
    assert (Ew : api_rv (ps_w s2) = api_rv w) by lia.
    assert (Eja : j = a) by (specialize (C2 ltac:(lia)); congruence).
    injection Eu as <- _. simpl in X. injection X as <-. unfold JTK. simpl. subst j. exact Kn. }
  destruct st as [s3 ok3]. simpl in U3. injection H as <- _ _ _.
  destruct (end_pass_api s3) as [E _]. apply U3. congruence.
Qed.

Theorem jstep_tk cfg j0 w o a a' :
  NoDup (j_indexes j0) -> JV w -> SV j0 w -> WU w ->
  api_job w = Some a -> api_job (fst (fst (fst (jstep cfg w o)))) = Some a' -> JTK a a'.
Proof.
  intros Hi HV HS HW Ea. destruct o as [t|n k|h r| |t| |n|n|f|]; simpl; intros Ea'.
  - replace a' with a by congruence. apply jtk_refl.
  - pose proof (kubelet_jf w n k) as E. unfold jf in E. injection E as E _ _ _ _. replace a' with a by congruence. apply jtk_refl.
  - destruct (has_pod _ _); simpl in Ea'; replace a' with a by congruence; apply jtk_refl.
  - rewrite Ea in Ea'. destruct (j_start a); simpl in Ea'; [rewrite Ea in Ea'|]; injection Ea' as <-; [apply jtk_refl|apply jtk_same; reflexivity].
  - rewrite Ea in Ea'. simpl in Ea'. injection Ea' as <-. apply jtk_same. reflexivity.
  - destruct (api_delete_job w) as [w' out] eqn:E. simpl in Ea'. apply jtk_same. eapply api_delete_job_tasks; eauto.
  - destruct (apply_job_events n (job_pending w) (cache_job w, cache_rv w)) as [rest [cj crv]]. simpl in Ea'.
    replace a' with a by congruence. apply jtk_refl.
  - destruct (apply_pod_events n (pod_pending w) (cache_pods w)) as [rest cache]. simpl in Ea'.
    replace a' with a by congruence. apply jtk_refl.
  - replace a' with a by congruence. apply jtk_refl.
  - destruct (sync_one cfg w) as [[[w' acts] ok] armed] eqn:E. simpl in Ea'. eapply sync_one_tk; eauto.
Qed.

Lemma gone_stays_gone cfg ops : forall w, JV w -> api_job w = None -> api_job (jrun_world cfg w ops) = None.
Proof.
  intros w HV En. destruct (jrun_keeps cfg ops w HV) as [_ K]. rewrite En in K.
  destruct (api_job (jrun_world cfg w ops)); [contradiction|reflexivity].
Qed.

Lemma jrun_tk cfg j0 : NoDup (j_indexes j0) -> forall ops w a a2,
  Forall jop_ok ops -> JV w -> SV j0 w -> WU w ->
  api_job w = Some a -> api_job (jrun_world cfg w ops) = Some a2 -> JTK a a2.
Proof.
  intros Hi. induction ops as [|o r IH]; intros w a a2 Hok HV HS HW Ea E2; simpl in E2.
  - replace a2 with a by congruence. apply jtk_refl.
  - inversion Hok as [|? ? H1 H2]; subst.
    set (w' := fst (fst (fst (jstep cfg w o)))) in *.
    assert (HV' : JV w') by apply (jstep_evol cfg w o HV).
    destruct (api_job w') as [a'|] eqn:Ea'.
    + eapply jtk_trans; [eapply (jstep_tk cfg j0 w o); eauto|].
      eapply IH; eauto; [now apply jstep_sv|now apply (jstep_wu cfg j0)].
    + rewrite (gone_stays_gone cfg r w' HV' Ea') in E2. discriminate.
Qed.

(** C11 over histories *)
Theorem times_never_cleared cfg j0 now ops1 ops2 a1 a2 :
  NoDup (j_indexes j0) -> JWF j0 -> Forall jop_ok (ops1 ++ ops2) ->
  let w1 := jrun_world cfg (init_jworld j0 now) ops1 in
  let w2 := jrun_world cfg w1 ops2 in
  api_job w1 = Some a1 -> api_job w2 = Some a2 ->
  forall e, In e (j_tasks a1) -> exists r, In r (j_tasks a2) /\ tr_name r = tr_name e /\
    (tr_running e <> None -> tr_running r <> None) /\ (tr_finish e <> None -> tr_finish r <> None).
Proof.
  intros Hi H0 Hok w1 w2 E1 E2. apply Forall_app in Hok as [Ho1 Ho2].
  destruct (jrun_keeps cfg ops1 _ (jv_init j0 now)) as [HV1 _]. fold w1 in HV1.
  pose proof (jrun_sv cfg j0 ops1 _ (jv_init j0 now) (sv_init j0 now)) as HS1. fold w1 in HS1.
  pose proof (jrun_wu cfg j0 ops1 Hi Ho1 _ (jv_init j0 now) (sv_init j0 now) (wu_init j0 now H0)) as HW1. fold w1 in HW1.
  exact (jrun_tk cfg j0 Hi ops2 w1 a1 a2 Ho2 HV1 HS1 HW1 E1 E2).
Qed.
