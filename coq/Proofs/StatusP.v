(** C15: the JobConfig status at quiescence is exact; the high-water marks are monotone and
    dominate everything a completed pass has seen. *)
From Furiko Require Import JobConfig.Status.
From Coq Require Import Lia.
Open Scope list_scope.
Open Scope Z_scope.

(** * option-Z order *)
Definition opt_le (a b : option Z) : Prop :=
  match a, b with
  | None, _ => True
  | Some x, Some y => x <= y
  | Some _, None => False
  end.

Lemma opt_le_refl a : opt_le a a.
Proof. destruct a; simpl; lia. Qed.
Lemma opt_le_trans a b c : opt_le a b -> opt_le b c -> opt_le a c.
Proof. destruct a, b, c; simpl; try lia; tauto. Qed.
Lemma opt_max_l a b : opt_le a (opt_max a b).
Proof. destruct a, b; simpl; lia. Qed.
Lemma opt_max_r a b : opt_le b (opt_max a b).
Proof. destruct a, b; simpl; lia. Qed.

Lemma last_of_acc (f : sjob -> option Z) js : forall acc, opt_le acc (fold_left (fun a j => opt_max a (f j)) js acc).
Proof.
  induction js as [|j r IH]; intros acc; simpl; [apply opt_le_refl|].
  eapply opt_le_trans; [apply opt_max_l|apply IH].
Qed.

Lemma last_of_ge f js j : In j js -> opt_le (f j) (last_of f js).
Proof.
  unfold last_of. generalize (@None Z). induction js as [|x r IH]; intros acc; simpl; [intros []|].
  intros [->|Hin]; [|now apply IH].
  eapply opt_le_trans; [apply opt_max_r|apply last_of_acc].
Qed.

(** * status equality *)
Lemma eqb_oz_eq a b : eqb_oz a b = true -> a = b.
Proof. destruct a, b; simpl; intros H; try discriminate H; auto. apply Z.eqb_eq in H. now subst. Qed.
Lemma eqb_oz_refl a : eqb_oz a a = true.
Proof. destruct a; simpl; auto. apply Z.eqb_refl. Qed.

Lemma eqb_ref_eq a b : eqb_ref a b = true -> a = b.
Proof.
  destruct a as [[[i1 c1] p1] s1], b as [[[i2 c2] p2] s2]. simpl. intros H.
  apply andb_true_iff in H as [H H4]. apply andb_true_iff in H as [H H3]. apply andb_true_iff in H as [H1 H2].
  apply Z.eqb_eq in H1, H2, H3. apply eqb_oz_eq in H4. now subst.
Qed.

Lemma eqb_refs_eq a : forall b, eqb_refs a b = true -> a = b.
Proof.
  induction a as [|x a IH]; intros [|y b]; simpl; intros H; try discriminate H; auto.
  apply andb_true_iff in H as [H1 H2]. apply eqb_ref_eq in H1. apply IH in H2. now subst.
Qed.

Lemma eqb_status_eq a b : eqb_status a b = true -> a = b.
Proof.
  destruct a, b. unfold eqb_status. simpl. intros H.
  repeat match type of H with _ && _ = true => apply andb_true_iff in H as [H ?] end.
  repeat match goal with
         | H : eqb_refs _ _ = true |- _ => apply eqb_refs_eq in H
         | H : eqb_oz _ _ = true |- _ => apply eqb_oz_eq in H
         | H : (_ =? _) = true |- _ => apply Z.eqb_eq in H
         end.
  now subst.
Qed.

(** * the caches replay the API *)
Definition apply_jevent (c : list sjob) (e : jevent) : list sjob :=
  match e with JSet j => put_job j c | JDel id => del_job id c end.
Definition replay (evs : list jevent) (c : list sjob) : list sjob := fold_left apply_jevent evs c.

(** along the pending events the ownership of an existing id never changes *)
Fixpoint events_ok (c : list sjob) (evs : list jevent) : Prop :=
  match evs with
  | [] => True
  | JSet j :: r => (forall x, get_job (sj_id j) c = Some x -> sj_owned x = sj_owned j) /\ events_ok (put_job j c) r
  | JDel id :: r => events_ok (del_job id c) r
  end.

Lemma events_ok_app c evs e :
  events_ok c (evs ++ [e]) <-> events_ok c evs /\ events_ok (replay evs c) [e].
Proof.
  revert c. induction evs as [|x r IH]; intros c; simpl.
  - tauto.
  - destruct x as [j|id]; rewrite IH; unfold replay; simpl; tauto.
Qed.

Lemma replay_app evs e c : replay (evs ++ [e]) c = apply_jevent (replay evs c) e.
Proof. unfold replay. now rewrite fold_left_app. Qed.

Definition last_jc (w : sworld) : jcobj := last (w_jc_events w) (w_cache_jc w).

Definition jc_le (o a : jcobj) : Prop :=
  jc_rv o <= jc_rv a /\ (jc_rv o = jc_rv a -> o = a) /\
  opt_le (st_last_sched (jc_status o)) (st_last_sched (jc_status a)) /\
  opt_le (st_last_exec (jc_status o)) (st_last_exec (jc_status a)).

(** the cache-level fixpoint: a pass would change nothing *)
Definition clean (w : sworld) : Prop :=
  compute_status (jc_cron (w_cache_jc w)) (jc_status (w_cache_jc w)) (w_cache_jobs w) = jc_status (w_cache_jc w).

Record Inv (w : sworld) : Prop := {
  inv_jobs : replay (w_job_events w) (w_cache_jobs w) = w_api_jobs w;
  inv_own : events_ok (w_cache_jobs w) (w_job_events w);
  inv_jc : last_jc w = w_api_jc w;
  inv_le : forall o, In o (w_cache_jc w :: w_jc_events w) -> jc_le o (w_api_jc w);
  inv_clean : w_ready w = false -> w_delayed w = O -> w_jc_events w = [] -> clean w
}.

Lemma inv_init cron st : Inv (init_sworld cron st).
Proof.
  constructor; simpl; auto.
  - intros o [<-|[]]. repeat split; try lia; apply opt_le_refl.
  - intros H. discriminate H.
Qed.

(** ** list lemmas about put_job / del_job *)
Lemma owned_put_unowned j c :
  sj_owned j = false -> (forall x, get_job (sj_id j) c = Some x -> sj_owned x = false) ->
  owned_jobs (put_job j c) = owned_jobs c.
Proof.
  intros Hj. unfold owned_jobs. induction c as [|x r IH]; simpl; intros Hx.
  - now rewrite Hj.
  - destruct (sj_id x <? sj_id j) eqn:E1; simpl.
    + rewrite IH; auto. intros y Hy. apply Hx.
      destruct (sj_id x =? sj_id j) eqn:E2; auto. apply Z.eqb_eq in E2. apply Z.ltb_lt in E1. lia.
    + destruct (sj_id x =? sj_id j) eqn:E2; simpl.
      * rewrite Hj. now rewrite (Hx x eq_refl).
      * now rewrite Hj.
Qed.

Lemma owned_del_unowned id c :
  (forall x, get_job id c = Some x -> sj_owned x = false) -> owned_jobs (del_job id c) = owned_jobs c.
Proof.
  unfold owned_jobs. induction c as [|x r IH]; simpl; intros Hx; auto.
  destruct (sj_id x =? id) eqn:E; simpl.
  - now rewrite (Hx x eq_refl).
  - rewrite IH; auto.
Qed.

Lemma get_job_id id l j : get_job id l = Some j -> sj_id j = id.
Proof.
  induction l as [|x r IH]; simpl; [intros H; discriminate H|].
  destruct (sj_id x =? id) eqn:E; auto. intros [= <-]. now apply Z.eqb_eq.
Qed.

Lemma last_indep {A} (r : list A) : forall x d d', last (x :: r) d = last (x :: r) d'.
Proof. induction r as [|y r IH]; intros x d d'; [reflexivity|]. change (last (y :: r) d = last (y :: r) d'). apply IH. Qed.
Lemma last_cons {A} (e : A) r d : last (e :: r) d = last r e.
Proof. destruct r as [|x r]; [reflexivity|]. change (last (x :: r) d = last (x :: r) e). apply last_indep. Qed.

Lemma compute_ge_sched cron old c : opt_le (st_last_sched old) (st_last_sched (compute_status cron old c)).
Proof. unfold compute_status. cbn [st_last_sched]. destruct (last_of sj_sched _) as [z|]; [apply (opt_max_r (Some z))|apply opt_le_refl]. Qed.
Lemma compute_ge_exec cron old c : opt_le (st_last_exec old) (st_last_exec (compute_status cron old c)).
Proof. unfold compute_status. cbn [st_last_exec]. destruct (last_of sj_start _) as [z|]; [apply (opt_max_r (Some z))|apply opt_le_refl]. Qed.

Lemma jc_le_refl a : jc_le a a.
Proof. repeat split; try lia; apply opt_le_refl. Qed.

(** a new API object with the next resourceVersion and no smaller high-water marks *)
Lemma jc_le_next o a st cron :
  jc_le o a -> opt_le (st_last_sched (jc_status a)) (st_last_sched st) ->
  opt_le (st_last_exec (jc_status a)) (st_last_exec st) ->
  jc_le o (mkJC st (jc_rv a + 1) cron).
Proof.
  intros (H1 & H2 & H3 & H4) Hs He. repeat split; simpl; try lia.
  - eapply opt_le_trans; eauto.
  - eapply opt_le_trans; eauto.
Qed.

Lemma inv_api_set w j :
  Inv w -> (forall x, get_job (sj_id j) (w_api_jobs w) = Some x -> sj_owned x = sj_owned j) -> Inv (api_set w j).
Proof.
  intros [I1 I2 I3 I4 I5] Hx. constructor; simpl; auto.
  - now rewrite replay_app, I1.
  - apply events_ok_app. split; auto. simpl. split; auto. now rewrite I1.
Qed.

Lemma inv_api_change w id f :
  Inv w -> (forall j, sj_id (f j) = sj_id j /\ sj_owned (f j) = sj_owned j) -> Inv (api_change w id f).
Proof.
  intros HI Hf. unfold api_change. destruct (get_job id (w_api_jobs w)) as [j|] eqn:E; auto.
  apply inv_api_set; auto. destruct (Hf j) as [Hid Ho]. rewrite Hid, Ho.
  rewrite (get_job_id _ _ _ E). intros x Hx. congruence.
Qed.

Lemma clean_owned w cache' ready' :
  owned_jobs cache' = owned_jobs (w_cache_jobs w) -> clean w ->
  clean (mkSW (w_api_jobs w) cache' (tl (w_job_events w)) (w_api_jc w) (w_cache_jc w) (w_jc_events w)
              ready' (w_delayed w) (w_faults w)).
Proof. unfold clean, compute_status. simpl. now intros ->. Qed.

Lemma inv_step w o : Inv w -> Inv (fst (sstep w o)).
Proof.
  intros HI. destruct o as [j|id t|id p term|id|c| | | | |]; simpl.
  - (* create *)
    destruct (get_job (sj_id j) (w_api_jobs w)) eqn:E; auto. apply inv_api_set; auto.
    intros x Hx. congruence.
  - apply inv_api_change; auto.
  - apply inv_api_change; auto.
  - (* delete *)
    destruct (get_job id (w_api_jobs w)) eqn:E; auto. destruct HI as [I1 I2 I3 I4 I5].
    constructor; simpl; auto.
    + now rewrite replay_app, I1.
    + apply events_ok_app. split; auto. simpl. auto.
  - (* setcron *)
    destruct HI as [I1 I2 I3 I4 I5]. constructor; simpl; auto.
    + unfold last_jc. simpl. apply last_last.
    + intros o [<-|Ho].
      * apply jc_le_next; [apply I4; now left|apply opt_le_refl|apply opt_le_refl].
      * apply in_app_or in Ho as [Ho|[<-|[]]]; [|apply jc_le_refl].
        apply jc_le_next; [apply I4; now right|apply opt_le_refl|apply opt_le_refl].
    + intros _ _ H. apply app_eq_nil in H as [_ H]. discriminate H.
  - (* deliver job *)
    unfold deliver_job. destruct (w_job_events w) as [|e r] eqn:Ev; auto.
    destruct HI as [I1 I2 I3 I4 I5]. rewrite Ev in I1, I2.
    destruct e as [j|id].
    + simpl in I2. destruct I2 as [I2a I2b]. constructor; simpl; auto.
      intros Hr Hd Hj. apply orb_false_iff in Hr as [Hr Ho].
      pose proof (clean_owned w (put_job j (w_cache_jobs w)) (w_ready w || sj_owned j)) as Hc.
      rewrite Ev in Hc. simpl in Hc. apply Hc; auto.
      apply owned_put_unowned; auto. intros x Hx. rewrite (I2a x Hx). exact Ho.
    + simpl in I2. constructor; simpl; auto.
      intros Hr Hd Hj. apply orb_false_iff in Hr as [Hr Ho].
      pose proof (clean_owned w (del_job id (w_cache_jobs w))
                    (w_ready w || match get_job id (w_cache_jobs w) with Some j => sj_owned j | None => false end)) as Hc.
      rewrite Ev in Hc. simpl in Hc. apply Hc; auto.
      apply owned_del_unowned. intros x Hx. now rewrite Hx in Ho.
  - (* deliver jc *)
    unfold deliver_jc. destruct (w_jc_events w) as [|e r] eqn:Ev; auto.
    destruct HI as [I1 I2 I3 I4 I5]. constructor; simpl; auto.
    + unfold last_jc in *. simpl. rewrite Ev in I3. now rewrite <- last_cons with (d := w_cache_jc w).
    + intros o Ho. apply I4. rewrite Ev. now right.
    + intros H. discriminate H.
  - (* fault *)
    destruct HI as [I1 I2 I3 I4 I5]. constructor; simpl; auto.
  - (* fire *)
    destruct (w_delayed w) eqn:Ed; auto.
    destruct HI as [I1 I2 I3 I4 I5]. constructor; simpl; auto. intros H. discriminate H.
  - (* work *)
    unfold work. destruct (w_ready w) eqn:Er; simpl; auto.
    destruct (eqb_status _ _) eqn:Eq; simpl.
    { destruct HI as [I1 I2 I3 I4 I5]. constructor; simpl; auto.
      intros _ _ _. unfold clean. simpl. now apply eqb_status_eq. }
    destruct (w_faults w) eqn:Ef; simpl.
    2:{ destruct HI as [I1 I2 I3 I4 I5]. constructor; simpl; auto. intros _ H. discriminate H. }
    destruct (negb (jc_rv (w_cache_jc w) =? jc_rv (w_api_jc w))) eqn:Erv; simpl.
    { destruct HI as [I1 I2 I3 I4 I5]. constructor; simpl; auto. intros _ H. discriminate H. }
    apply negb_false_iff, Z.eqb_eq in Erv.
    destruct HI as [I1 I2 I3 I4 I5].
    assert (Hc : w_cache_jc w = w_api_jc w) by (apply (I4 (w_cache_jc w)); [now left|exact Erv]).
    constructor; simpl; auto.
    + unfold last_jc. simpl. apply last_last.
    + intros o Ho.
      assert (Hn : forall o', jc_le o' (w_api_jc w) ->
        jc_le o' (mkJC (compute_status (jc_cron (w_cache_jc w)) (jc_status (w_cache_jc w)) (w_cache_jobs w))
                       (jc_rv (w_api_jc w) + 1) (jc_cron (w_api_jc w)))).
      { intros o' Ho'. apply jc_le_next; auto; rewrite <- Hc; [apply compute_ge_sched|apply compute_ge_exec]. }
      destruct Ho as [<-|Ho]; [apply Hn, I4; now left|].
      apply in_app_or in Ho as [Ho|[<-|[]]]; [apply Hn, I4; now right|apply jc_le_refl].
    + intros _ _ H. apply app_eq_nil in H as [_ H]. discriminate H.
Qed.

Lemma inv_run ops : forall w, Inv w -> Inv (srun_world w ops).
Proof. induction ops as [|o r IH]; intros w HI; simpl; auto. apply IH. now apply inv_step. Qed.

(** * C15, exactness at quiescence *)
Definition settled (w : sworld) : Prop :=
  w_job_events w = [] /\ w_jc_events w = [] /\ w_ready w = false /\ w_delayed w = O.

Theorem exact_at_quiescence cron st ops :
  let w := srun_world (init_sworld cron st) ops in
  settled w ->
  let s := jc_status (w_api_jc w) in
  let js := owned_jobs (w_api_jobs w) in
  st_active s = map to_ref (filter s_active js) /\
  st_queued s = map to_ref (filter s_queued js) /\
  st_nact s = Z.of_nat (List.length (st_active s)) /\
  st_nq s = Z.of_nat (List.length (st_queued s)) /\
  st_state s = get_state (jc_cron (w_api_jc w)) (st_nact s) (st_nq s) /\
  (forall j t, In j js -> sj_sched j = Some t -> opt_le (Some t) (st_last_sched s)) /\
  (forall j t, In j js -> sj_start j = Some t -> opt_le (Some t) (st_last_exec s)).
Proof.
  intros w (H1 & H2 & H3 & H4).
  pose proof (inv_run ops _ (inv_init cron st)) as HI. fold w in HI.
  destruct HI as [I1 I2 I3 I4 I5]. specialize (I5 H3 H4 H2).
  unfold last_jc in I3. rewrite H2 in I3. simpl in I3. rewrite H1 in I1. simpl in I1. unfold replay in I1. simpl in I1.
  unfold clean in I5. rewrite I3, I1 in I5. simpl. rewrite <- I5 at 1 2 3 4 5 6 7 8 9.
  unfold compute_status. simpl. rewrite !map_length. repeat split; auto.
  - intros j t Hj Ht. rewrite <- I5. unfold compute_status. cbn [st_last_sched].
    pose proof (last_of_ge sj_sched _ _ Hj) as Hg. rewrite Ht in Hg.
    destruct (last_of sj_sched (owned_jobs (w_api_jobs w))) as [m|]; [|contradiction].
    pose proof (opt_max_l (Some m) (st_last_sched (jc_status (w_api_jc w)))) as Hm.
    destruct (opt_max (Some m) _) as [y|]; simpl in *; [lia|contradiction].
  - intros j t Hj Ht. rewrite <- I5. unfold compute_status. cbn [st_last_exec].
    pose proof (last_of_ge sj_start _ _ Hj) as Hg. rewrite Ht in Hg.
    destruct (last_of sj_start (owned_jobs (w_api_jobs w))) as [m|]; [|contradiction].
    pose proof (opt_max_l (Some m) (st_last_exec (jc_status (w_api_jc w)))) as Hm.
    destruct (opt_max (Some m) _) as [y|]; simpl in *; [lia|contradiction].
Qed.

(** * monotone high-water marks *)
Definition hw_sched (w : sworld) := st_last_sched (jc_status (w_api_jc w)).
Definition hw_exec (w : sworld) := st_last_exec (jc_status (w_api_jc w)).

Lemma step_monotone w o : Inv w ->
  opt_le (hw_sched w) (hw_sched (fst (sstep w o))) /\ opt_le (hw_exec w) (hw_exec (fst (sstep w o))).
Proof.
  intros HI. unfold hw_sched, hw_exec.
  destruct o as [j|id t|id p term|id|c| | | | |]; simpl;
    try (split; apply opt_le_refl).
  - destruct (get_job _ _); simpl; split; apply opt_le_refl.
  - unfold api_change. destruct (get_job _ _); simpl; split; apply opt_le_refl.
  - unfold api_change. destruct (get_job _ _); simpl; split; apply opt_le_refl.
  - destruct (get_job _ _); simpl; split; apply opt_le_refl.
  - unfold deliver_job. destruct (w_job_events w) as [|[j|id] r]; simpl; split; apply opt_le_refl.
  - unfold deliver_jc. destruct (w_jc_events w); simpl; split; apply opt_le_refl.
  - destruct (w_delayed w); simpl; split; apply opt_le_refl.
  - unfold work. destruct (w_ready w); simpl; [|split; apply opt_le_refl].
    destruct (eqb_status _ _); simpl; [split; apply opt_le_refl|].
    destruct (w_faults w); simpl; [|split; apply opt_le_refl].
    destruct (negb (jc_rv (w_cache_jc w) =? jc_rv (w_api_jc w))) eqn:Erv; simpl; [split; apply opt_le_refl|].
    apply negb_false_iff, Z.eqb_eq in Erv.
    assert (Hc : w_cache_jc w = w_api_jc w) by (apply (inv_le w HI (w_cache_jc w)); [now left|exact Erv]).
    rewrite <- Hc.
    split; [exact (compute_ge_sched None (jc_status (w_cache_jc w)) (w_cache_jobs w))
           |exact (compute_ge_exec None (jc_status (w_cache_jc w)) (w_cache_jobs w))].
Qed.

Theorem monotone_run ops : forall w, Inv w ->
  opt_le (hw_sched w) (hw_sched (srun_world w ops)) /\ opt_le (hw_exec w) (hw_exec (srun_world w ops)).
Proof.
  induction ops as [|o r IH]; intros w HI; simpl; [split; apply opt_le_refl|].
  destruct (step_monotone w o HI) as [H1 H2]. destruct (IH _ (inv_step w o HI)) as [H3 H4].
  split; eapply opt_le_trans; eauto.
Qed.

(** * a completed pass records what it saw, for good *)
Lemma pass_records w w' out j :
  Inv w -> w_ready w = true -> work w = (w', out) -> out = 1 \/ out = 2 ->
  In j (owned_jobs (w_cache_jobs w)) ->
  opt_le (sj_sched j) (hw_sched w') /\ opt_le (sj_start j) (hw_exec w').
Proof.
  intros HI Hr Hw Hout Hj. unfold work in Hw. rewrite Hr in Hw. simpl in Hw.
  set (st := compute_status (jc_cron (w_cache_jc w)) (jc_status (w_cache_jc w)) (w_cache_jobs w)) in *.
  assert (Hs : opt_le (sj_sched j) (st_last_sched st) /\ opt_le (sj_start j) (st_last_exec st)).
  { unfold st, compute_status. cbn [st_last_sched st_last_exec]. split.
    - pose proof (last_of_ge sj_sched _ _ Hj) as Hg.
      destruct (last_of sj_sched (owned_jobs (w_cache_jobs w))) as [m|].
      + eapply opt_le_trans; [exact Hg|apply (opt_max_l (Some m))].
      + destruct (sj_sched j); [contradiction|exact I].
    - pose proof (last_of_ge sj_start _ _ Hj) as Hg.
      destruct (last_of sj_start (owned_jobs (w_cache_jobs w))) as [m|].
      + eapply opt_le_trans; [exact Hg|apply (opt_max_l (Some m))].
      + destruct (sj_start j); [contradiction|exact I]. }
  destruct Hs as [Hs1 Hs2].
  destruct (eqb_status st (jc_status (w_cache_jc w))) eqn:Eq.
  - injection Hw as <- <-. apply eqb_status_eq in Eq. unfold hw_sched, hw_exec. simpl.
    destruct (inv_le w HI (w_cache_jc w) (or_introl eq_refl)) as (_ & _ & L1 & L2).
    rewrite Eq in Hs1, Hs2. split; eapply opt_le_trans; eauto.
  - destruct (w_faults w).
    2:{ injection Hw as <- <-. destruct Hout as [H|H]; discriminate H. }
    destruct (negb (jc_rv (w_cache_jc w) =? jc_rv (w_api_jc w))).
    { injection Hw as <- <-. destruct Hout as [H|H]; discriminate H. }
    injection Hw as <- <-. unfold hw_sched, hw_exec. simpl. auto.
Qed.

Theorem dominates cron st0 ops1 ops2 w' out j :
  let w := srun_world (init_sworld cron st0) ops1 in
  w_ready w = true -> work w = (w', out) -> out = 1 \/ out = 2 ->
  In j (w_cache_jobs w) -> sj_owned j = true ->
  let wf := srun_world w' ops2 in
  opt_le (sj_sched j) (hw_sched wf) /\ opt_le (sj_start j) (hw_exec wf).
Proof.
  intros w Hr Hw Hout Hj Ho wf.
  pose proof (inv_run ops1 _ (inv_init cron st0)) as HI. fold w in HI.
  assert (Hj' : In j (owned_jobs (w_cache_jobs w))) by (apply filter_In; auto).
  destruct (pass_records w w' out j HI Hr Hw Hout Hj') as [P1 P2].
  assert (HI' : Inv w').
  { pose proof (inv_step w SWork HI) as H. simpl in H. now rewrite Hw in H. }
  destruct (monotone_run ops2 w' HI') as [M1 M2].
  split; eapply opt_le_trans; eauto.
Qed.

(** * the state by cases *)
Lemma get_state_cases cron nact nq :
  0 <= nact -> 0 <= nq ->
  (0 < nact -> get_state cron nact nq = StExecuting) /\
  (nact = 0 -> 0 < nq -> get_state cron nact nq = StJobQueued) /\
  (nact = 0 -> nq = 0 -> get_state cron nact nq =
     match cron with Some true => StReadyDisabled | Some false => StReadyEnabled | None => StReady end).
Proof.
  intros Ha Hq. unfold get_state. repeat split; intros.
  - replace (0 <? nact) with true by (symmetry; apply Z.ltb_lt; lia). reflexivity.
  - subst. simpl. replace (0 <? nq) with true by (symmetry; apply Z.ltb_lt; lia). reflexivity.
  - subst. reflexivity.
Qed.
