(** C20 for the job controller: a pass in which every API call failed (server error, conflict,
    not found, already exists) leaves the API - the Job, its resourceVersion and the Pods -
    exactly as it was.  Nothing is half-done by a failing call; what a later pass finds is what
    the successful calls left. *)
From Furiko Require Import Job.Core Job.Sync Job.World Proofs.JobP Proofs.SyncP.
From Coq Require Import Lia.
Local Open Scope list_scope.
Local Open Scope Z_scope.

Definition changes (a : action) : bool :=
  match a with
  | ACreate _ 0 | ADelete _ _ 0 | AUpdateJob 0 | AUpdateStatus 0 | ADeleteJob 0 => true
  | _ => false
  end.
Definition noch (s : pstate) : Prop := existsb changes (ps_actions s) = false.
Definition api4 (w : jworld) := (api_job w, api_rv w, api_pods w, pod_scheduled w).
(** everything but the list of failures still to be injected *)
Definition core (w : jworld) :=
  (api_job w, api_rv w, api_pods w, pod_scheduled w, cache_job w, cache_rv w, job_pending w, cache_pods w, pod_pending w, clock w).
Definition fr (s : pstate) := (core (ps_w s), ps_del_events s).

Lemma noch_add s a : noch (add_action s a) -> changes a = false /\ noch s.
Proof. unfold noch. simpl. intros H. apply orb_false_iff in H. exact H. Qed.

Lemma sync_create_task_noop s j tasks h retry s' j' t' res :
  sync_create_task s j tasks h retry = (s', j', t', res) -> noch s' -> fr s' = fr s /\ noch s.
Proof.
  unfold sync_create_task. intros H Hn.
  destruct (take_fault FCreatePod _); [injection H as <- _ _ _; apply noch_add in Hn as [_ Hn]; auto|].
  destruct (take_fault FCreatePodInvalid _); [injection H as <- _ _ _; apply noch_add in Hn as [_ Hn]; auto|].
  destruct (has_pod _ _).
  - destruct (find_pod _ _) as [p|]; [destruct (p_controlled p)|]; injection H as <- _ _ _; apply noch_add in Hn as [_ Hn]; auto.
  - injection H as <- _ _ _. apply noch_add in Hn as [Hc _]. discriminate Hc.
Qed.

Lemma create_loop_noop reqs : forall s j tasks now s' j' t' res,
  create_loop s j tasks reqs now = (s', j', t', res) -> noch s' -> fr s' = fr s /\ noch s.
Proof.
  induction reqs as [|rq r IH]; intros s j tasks now s' j' t' res; simpl.
  - intros [= <- _ _ _]. auto.
  - destruct (match rq_earliest rq with Some e => now <? e | None => false end); [apply IH|].
    destruct (sync_create_task s j tasks (rq_hash rq) (rq_retry rq)) as [[[s1 j1] t1] [|]] eqn:E; intros H Hn.
    + destruct (IH _ _ _ _ _ _ _ _ H Hn) as [A1 N1]. destruct (sync_create_task_noop _ _ _ _ _ _ _ _ _ E N1) as [A2 N2].
      split; [congruence|exact N2].
    + injection H as <- _ _ _. eapply sync_create_task_noop; eauto.
Qed.

Lemma sync_status_noop now s j s' j' : sync_status now s j = (s', j') -> fr s' = fr s /\ ps_actions s' = ps_actions s.
Proof. unfold sync_status. intros [= <- _]. destruct (ttl_arms _); auto. Qed.

Lemma noch_same s s' : ps_actions s' = ps_actions s -> noch s' -> noch s.
Proof. unfold noch. now intros ->. Qed.

Lemma sync_create_tasks_noop s j tasks now s' j' t' res :
  sync_create_tasks s j tasks now = (s', j', t', res) -> noch s' -> fr s' = fr s /\ noch s.
Proof.
  unfold sync_create_tasks. intros H Hn. revert H.
  destruct (negb (can_create_task j)); [intros [= <- _ _ _]; auto|].
  destruct (summary _ _ _ _) as [complete succ]. destruct complete; [intros [= <- _ _ _]; auto|].
  destruct (create_loop s j tasks (compute_missing j) now) as [[[s1 j1] t1] [|]] eqn:E.
  - match goal with |- context [sync_status_refs now ?x j1 t1] => destruct (sync_status_refs now x j1 t1) as [s2 j2] eqn:E2 end.
    intros [= <- _ _ _]. apply sync_status_noop in E2 as [W A].
    assert (N1 : noch s1).
    { eapply noch_same; [|exact Hn]. rewrite A. destruct (existsb _ _); reflexivity. }
    destruct (create_loop_noop _ _ _ _ _ _ _ _ _ E N1) as [A1 N0]. split; [|exact N0].
    rewrite W. destruct (existsb _ (compute_missing j)); exact A1.
  - intros [= <- _ _ _]. eapply create_loop_noop; eauto.
Qed.

Lemma api_delete_pod_fail w n f w' out evs : api_delete_pod w n f = (w', out, evs) -> out <> 0 -> w' = w /\ evs = [].
Proof.
  unfold api_delete_pod. destruct (find_pod n (api_pods w)) as [p|]; [|now intros [= <- _ <-]].
  destruct (f || negb (mem_str n (pod_scheduled w))); [intros [= _ <- _] H; congruence|].
  destruct (p_deletion p); intros [= E1 E2 _] H; congruence.
Qed.

Lemma delete_tasks_ordered_noop tasks : forall s force now s' ok,
  delete_tasks_ordered s tasks force now = (s', ok) -> noch s' -> fr s' = fr s /\ noch s.
Proof.
  induction tasks as [|p r IH]; intros s force now s' ok; simpl.
  - intros [= <- _]. auto.
  - destruct (negb force && _); [apply IH|].
    destruct (take_fault FDeletePod _).
    + destruct (delete_tasks_ordered (add_action s _) r force now) as [s1 ok1] eqn:E. intros [= <- _] Hn.
      destruct (IH _ _ _ _ _ E Hn) as [A N]. apply noch_add in N as [_ N]. auto.
    + destruct (api_delete_pod (ps_w s) (p_name p) force) as [[w' out] evs] eqn:Ed. intros H Hn.
      destruct (IH _ _ _ _ _ H Hn) as [A N]. unfold noch in N. simpl in N. apply orb_false_iff in N as [Nc N].
      assert (Ho : out <> 0) by (intros ->; discriminate Nc).
      apply (api_delete_pod_fail _ _ _ _ _ _ Ed) in Ho as [-> ->]. unfold fr in A. simpl in A. rewrite app_nil_r in A. split; [exact A|exact N].
Qed.
Lemma delete_tasks_noop s tasks force now s' ok :
  delete_tasks s tasks force now = (s', ok) -> noch s' -> fr s' = fr s /\ noch s.
Proof. apply delete_tasks_ordered_noop. Qed.

Lemma arm_list_w {A} (l : list A) s : fr (match l with [] => s | _ :: _ => arm s end) = fr s /\
                                     ps_actions (match l with [] => s | _ :: _ => arm s end) = ps_actions s.
Proof. destruct l; auto. Qed.

Lemma handle_pending_noop cfg s j tasks now s' j' ok :
  handle_pending cfg s j tasks now = (s', j', ok) -> noch s' -> fr s' = fr s /\ noch s.
Proof.
  unfold handle_pending. destruct (pending_timeout cfg j <=? 0); [intros [= <- _ _]; auto|].
  set (nd := filter (fun p => now <? p_created p + pending_timeout cfg j) _).
  set (need := filter _ (filter _ tasks)).
  destruct (arm_list_w nd s) as [W A].
  destruct need as [|p r] eqn:En.
  - intros [= <- _ _] Hn. rewrite W. split; auto. eapply noch_same; eauto.
  - destruct (delete_tasks _ (p :: r) false now) as [s1 ok1] eqn:E. intros [= <- _ _] Hn.
    destruct (delete_tasks_noop _ _ _ _ _ _ E Hn) as [A1 N1]. rewrite W in A1. split; auto. eapply noch_same; eauto.
Qed.

Lemma handle_kill_noop s j tasks now s' j' ok :
  handle_kill s j tasks now = (s', j', ok) -> noch s' -> fr s' = fr s /\ noch s.
Proof.
  unfold handle_kill. destruct (negb (should_kill now j)); [intros [= <- _ _]; auto|].
  destruct (filter _ tasks) as [|p r]; [intros [= <- _ _]; auto|].
  destruct (delete_tasks _ _ _ _) as [s1 ok1] eqn:E. intros [= <- _ _] Hn. eapply delete_tasks_noop; eauto.
Qed.

Lemma handle_force_noop cfg s j tasks now s' j' ok :
  handle_force cfg s j tasks now = (s', j', ok) -> noch s' -> fr s' = fr s /\ noch s.
Proof.
  unfold handle_force. destruct (force_timeout cfg <=? 0); [intros [= <- _ _]; auto|].
  destruct (j_forbid_force j); [intros [= <- _ _]; auto|].
  match goal with |- context [filter ?f (filter ?g tasks)] => set (dl := filter g tasks) end.
  set (need := filter (fun p => match p_deletion p with Some t => negb (now <? t + force_timeout cfg) | None => false end) dl).
  set (wt := filter (fun p => match p_deletion p with Some t => now <? t + force_timeout cfg | None => false end) dl).
  destruct (arm_list_w wt s) as [W A].
  destruct need as [|p r] eqn:En.
  - intros [= <- _ _] Hn. rewrite W. split; auto. eapply noch_same; eauto.
  - destruct (delete_tasks _ (p :: r) true now) as [s1 ok1] eqn:E. intros [= <- _ _] Hn.
    destruct (delete_tasks_noop _ _ _ _ _ _ E Hn) as [A1 N1]. rewrite W in A1. split; auto. eapply noch_same; eauto.
Qed.

Lemma sync_job_tasks_noop cfg s j now s' j' ok :
  sync_job_tasks cfg s j now = (s', j', ok) -> noch s' -> fr s' = fr s /\ noch s.
Proof.
  unfold sync_job_tasks. set (tasks := flat_map _ (j_tasks j)). intros H Hn.
  destruct (sync_create_tasks s j tasks now) as [[[s1 j1] t1] [|]] eqn:E1;
    [|injection H as <- _ _; eapply sync_create_tasks_noop; eauto].
  destruct (sync_status_refs now s1 j1 t1) as [s2 j2] eqn:E2. apply sync_status_noop in E2 as [W2 A2].
  destruct (handle_pending cfg s2 j2 t1 now) as [[s3 j3] ok3] eqn:E3.
  assert (Chain3 : noch s3 -> fr s3 = fr s /\ noch s).
  { intros N3. destruct (handle_pending_noop _ _ _ _ _ _ _ _ E3 N3) as [A3 N2].
    assert (N1 : noch s1) by (eapply noch_same; eauto).
    destruct (sync_create_tasks_noop _ _ _ _ _ _ _ _ E1 N1) as [A1 N0]. split; [congruence|exact N0]. }
  destruct (negb ok3); [injection H as <- _ _; auto|].
  destruct (handle_kill s3 j3 t1 now) as [[s4 j4] ok4] eqn:E4.
  assert (Chain4 : noch s4 -> fr s4 = fr s /\ noch s).
  { intros N4. destruct (handle_kill_noop _ _ _ _ _ _ _ E4 N4) as [A4 N3]. destruct (Chain3 N3). split; [congruence|auto]. }
  destruct (negb ok4); [injection H as <- _ _; auto|].
  destruct (handle_force cfg s4 j4 t1 now) as [[s5 j5] ok5] eqn:E5.
  assert (Chain5 : noch s5 -> fr s5 = fr s /\ noch s).
  { intros N5. destruct (handle_force_noop _ _ _ _ _ _ _ _ E5 N5) as [A5 N4]. destruct (Chain4 N4). split; [congruence|auto]. }
  destruct (negb ok5); [injection H as <- _ _; auto|].
  destruct (sync_status_refs now s5 j5 t1) as [s6 j6] eqn:E6. apply sync_status_noop in E6 as [W6 A6].
  injection H as <- _ _. assert (N5 : noch s5) by (eapply noch_same; eauto).
  destruct (Chain5 N5). split; [congruence|auto].
Qed.

Lemma handle_finalizer_noop s j now s' j' ok :
  handle_finalizer s j now = (s', j', ok) -> noch s' -> fr s' = fr s /\ noch s.
Proof.
  unfold handle_finalizer. destruct (j_deletion j); [|intros [= <- _ _]; auto].
  destruct (negb (j_finalizer j)); [intros [= <- _ _]; auto|].
  set (tasks := flat_map _ (j_tasks j)). destruct tasks as [|p r] eqn:Et.
  - destruct (sync_status_refs now s j []) as [s1 j1] eqn:E. intros [= <- _ _] Hn.
    apply sync_status_noop in E as [W A]. rewrite W. split; auto. eapply noch_same; eauto.
  - destruct (sync_status_refs now s _ (p :: r)) as [s1 j2] eqn:E. apply sync_status_noop in E as [W A].
    destruct (delete_tasks s1 (p :: r) false now) as [s2 ok2] eqn:Ed. intros [= <- _ _] Hn.
    destruct (delete_tasks_noop _ _ _ _ _ _ Ed Hn) as [A1 N1]. rewrite W in A1. split; auto. eapply noch_same; eauto.
Qed.

Lemma api_delete_job_fail w w' out : api_delete_job w = (w', out) -> out <> 0 -> w' = w.
Proof.
  unfold api_delete_job. destruct (api_job w) as [a|]; [|now intros [= <- _]].
  destruct (j_finalizer a); [destruct (j_deletion a)|]; intros [= E1 E2] H; congruence.
Qed.

Lemma handle_ttl_noop cfg s j now s' ok :
  handle_ttl cfg s j now = (s', ok) -> noch s' -> fr s' = fr s /\ noch s.
Proof.
  unfold handle_ttl. destruct (j_deletion j); [intros [= <- _]; auto|].
  destruct (j_cond j); try (intros [= <- _]; auto).
  destruct (now <? _); [intros [= <- _]; auto|].
  destruct (take_fault FDeleteJob _); [intros [= <- _] Hn; apply noch_add in Hn as [_ Hn]; auto|].
  destruct (api_delete_job (ps_w s)) as [w' out] eqn:E. intros [= <- _] Hn. apply noch_add in Hn as [Hc Hn].
  assert (Ho : out <> 0) by (intros ->; discriminate Hc).
  apply (api_delete_job_fail _ _ _ E) in Ho. subst w'. auto.
Qed.

Lemma sync_noop cfg s j now s' j' ok :
  sync cfg s j now = (s', j', ok) -> noch s' -> fr s' = fr s /\ noch s.
Proof.
  unfold sync. intros H Hn.
  destruct (match j_start j, j_deletion j with Some _, None => sync_job_tasks cfg s j now | _, _ => (s, j, true) end)
    as [[s1 j1] ok1] eqn:E1.
  assert (C1 : noch s1 -> fr s1 = fr s /\ noch s).
  { intros N1. destruct (j_start j); [destruct (j_deletion j)|]; try (injection E1 as <- _ _; auto).
    eapply sync_job_tasks_noop; eauto. }
  destruct (negb ok1); [injection H as <- _ _; auto|].
  destruct (sync_status now s1 j1) as [s2 j2] eqn:E2. apply sync_status_noop in E2 as [W2 A2].
  destruct (handle_ttl cfg s2 j2 now) as [s3 ok3] eqn:E3.
  assert (C3 : noch s3 -> fr s3 = fr s /\ noch s).
  { intros N3. destruct (handle_ttl_noop _ _ _ _ _ _ E3 N3) as [A3 N2]. assert (N1 : noch s1) by (eapply noch_same; eauto).
    destruct (C1 N1). split; [congruence|auto]. }
  destruct (negb ok3); [injection H as <- _ _; auto|].
  destruct (handle_finalizer s3 j2 now) as [[s4 j4] ok4] eqn:E4.
  assert (C4 : noch s4 -> fr s4 = fr s /\ noch s).
  { intros N4. destruct (handle_finalizer_noop _ _ _ _ _ _ E4 N4) as [A4 N3]. destruct (C3 N3). split; [congruence|auto]. }
  destruct (negb ok4); injection H as <- _ _; auto.
Qed.

Lemma api_update_job_fail w newj rv w' out : api_update_job w newj rv = (w', out) -> out <> 0 -> w' = w.
Proof.
  unfold api_update_job. destruct (api_job w) as [a|]; [|now intros [= <- _]].
  destruct (negb (rv =? api_rv w)); [now intros [= <- _]|].
  destruct (j_deletion a); [destruct (j_finalizer newj)|]; intros [= E1 E2] H; congruence.
Qed.
Lemma api_update_status_fail w newj rv w' out : api_update_status w newj rv = (w', out) -> out <> 0 -> w' = w.
Proof.
  unfold api_update_status. destruct (api_job w) as [a|]; [|now intros [= <- _]].
  destruct (negb (rv =? api_rv w)); [now intros [= <- _]|]. intros [= E1 E2] H; congruence.
Qed.

Lemma end_pass_core s : ps_del_events s = [] -> core (end_pass s) = core (ps_w s).
Proof.
  intros Hd. unfold end_pass. rewrite Hd.
  assert (E : core (upd_pods (ps_w s) (api_pods (ps_w s)) (pod_scheduled (ps_w s)) (sort_evs []) (faults (ps_w s))) = core (ps_w s)).
  { unfold core, upd_pods. cbn. now rewrite app_nil_r. }
  destruct (existsb _ _); [|exact E]. destruct (take_fault FDeletePod _); exact E.
Qed.

Lemma existsb_rev {A} (f : A -> bool) l : existsb f (rev l) = existsb f l.
Proof.
  induction l as [|a l IH]; [reflexivity|]. simpl. rewrite existsb_app, IH. simpl. rewrite orb_false_r. apply orb_comm.
Qed.

(** the pass: if every call failed, the world is what it was - only injected failures were
    consumed *)
Theorem failed_pass_changes_nothing cfg w w' acts ok armed :
  sync_one cfg w = (w', acts, ok, armed) -> existsb changes acts = false -> core w' = core w.
Proof.
  unfold sync_one. intros H Hn. destruct (cache_job w) as [j|]; [|injection H as <- _ _ _; reflexivity].
  destruct (sync cfg (mkPS w [] false []) j (clock w)) as [[s1 newj] ok1] eqn:Es.
  set (upd := if meta_eqb j newj then (s1, true) else _) in H.
  assert (Fin : forall s, ps_actions s = rev acts -> noch s).
  { intros s E. unfold noch. rewrite E. rewrite existsb_rev. exact Hn. }
  set (s0 := mkPS w [] false []) in *.
  assert (U : noch (fst upd) -> fr (fst upd) = fr s0).
  { intros N. unfold upd in *. destruct (meta_eqb j newj).
    - simpl in *. destruct (sync_noop _ _ _ _ _ _ _ Es N) as [A _]. exact A.
    - destruct (take_fault FUpdateJob _).
      + simpl in *. apply noch_add in N as [_ N]. destruct (sync_noop _ _ _ _ _ _ _ Es N) as [A _]. exact A.
      + destruct (api_update_job (ps_w s1) newj (cache_rv w)) as [wu out] eqn:Eu. simpl in *.
        apply noch_add in N as [Hc N]. assert (Ho : out <> 0) by (intros ->; discriminate Hc).
        apply (api_update_job_fail _ _ _ _ _ Eu) in Ho. subst wu. destruct (sync_noop _ _ _ _ _ _ _ Es N) as [A _]. exact A. }
  assert (Done : forall s, fr s = fr s0 -> core (end_pass s) = core w).
  { intros s E. assert (E1 : core (ps_w s) = core w) by (change (fst (fr s) = fst (fr s0)); now rewrite E).
    assert (E2 : ps_del_events s = []) by (change (snd (fr s) = snd (fr s0)); now rewrite E).
    rewrite end_pass_core by exact E2. exact E1. }
  destruct upd as [s2 ok2]. simpl in U.
  destruct (negb ok2).
  { injection H as <- Ea _ _. apply Done. apply U. apply Fin. rewrite <- Ea. now rewrite rev_involutive. }
  set (st := if status_eqb j newj then (s2, true) else _) in H.
  assert (U3 : noch (fst st) -> fr (fst st) = fr s0).
  { intros N. unfold st in *. destruct (status_eqb j newj); [exact (U N)|].
    destruct (take_fault FUpdateStatus _).
    - simpl in *. apply noch_add in N as [_ N]. exact (U N).
    - destruct (api_update_status (ps_w s2) newj (cache_rv w)) as [wu out] eqn:Eu. simpl in *.
      apply noch_add in N as [Hc N]. assert (Ho : out <> 0) by (intros ->; discriminate Hc).
      apply (api_update_status_fail _ _ _ _ _ Eu) in Ho. subst wu. exact (U N). }
  destruct st as [s3 ok3]. simpl in U3. injection H as <- Ea _ _. apply Done. apply U3. apply Fin.
  rewrite <- Ea. now rewrite rev_involutive.
Qed.

(** in words of worlds: the world after such a pass is the world before it with another list
    of failures still to come *)
Corollary failed_pass_world cfg w w' acts ok armed :
  sync_one cfg w = (w', acts, ok, armed) -> existsb changes acts = false -> w' = set_faults w (faults w').
Proof.
  intros H Hn. pose proof (failed_pass_changes_nothing _ _ _ _ _ _ H Hn) as E. unfold core in E.
  destruct w', w. unfold set_faults. simpl in *. injection E as -> -> -> -> -> -> -> -> -> ->. reflexivity.
Qed.

(** any number of such passes: the first pass in which a call succeeds starts from the world
    the failures found, with fewer failures to come - failures leave nothing behind *)
From Furiko Require Import Proofs.CacheP.
Fixpoint all_failed (cfg : jcfg) (n : nat) (w : jworld) : Prop :=
  match n with
  | O => True
  | S k => existsb changes (snd (fst (fst (sync_one cfg w)))) = false /\ all_failed cfg k (pass cfg w)
  end.

Theorem failed_passes_leave_the_world cfg n : forall w, all_failed cfg n w -> exists fl, iter_pass cfg n w = set_faults w fl.
Proof.
  induction n as [|n IH]; intros w H.
  - exists (faults w). simpl. now destruct w.
  - destruct H as [H1 H2]. simpl. destruct (IH _ H2) as (fl & E). exists fl. rewrite E.
    unfold pass in *. destruct (sync_one cfg w) as [[[w' acts] ok] armed] eqn:Es. simpl in *.
    rewrite (failed_pass_world _ _ _ _ _ _ Es H1). reflexivity.
Qed.

Lemma iter_pass_add cfg n m : forall w, iter_pass cfg (n + m) w = iter_pass cfg m (iter_pass cfg n w).
Proof. induction n as [|n IH]; intros w; simpl; [reflexivity|apply IH]. Qed.

(** the same outcome as without the failures: if the first n passes failed entirely and the
    injected failures are used up, everything that follows is what follows from the original
    world with no failure injected *)
Theorem failed_burst_same_outcome cfg n m w :
  all_failed cfg n w -> faults (iter_pass cfg n w) = [] ->
  iter_pass cfg (n + m) w = iter_pass cfg m (set_faults w []).
Proof.
  intros H Hf. rewrite iter_pass_add. destruct (failed_passes_leave_the_world cfg n w H) as (fl & E).
  rewrite E in Hf |- *. simpl in Hf. now rewrite Hf.
Qed.
