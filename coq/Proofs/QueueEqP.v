(** C05/C06, exact accounting: the counter plus the effect of the events the store has not seen
    yet EQUALS the number of owned active Jobs in the API; hence once everything is delivered
    the counter is exact (nothing leaks), and a pass that does nothing leaves no startable
    Job behind. *)
From Furiko Require Import Queue.World Proofs.QueueP Proofs.QueueInvP.
From Coq Require Import Lia.
Open Scope list_scope.
Open Scope Z_scope.

Definition payload (e : jevent) : list qjob :=
  match e with EAdd j => [j] | EUpd _ n => [n] | EDel _ => [] end.

(** every Job version the controller side knows about: the cache and what is on its way *)
Definition known (w : qworld) : list qjob := qc_jobs w ++ flat_map payload (qc_pending w).

(** resourceVersions identify versions: a known version with the id and resourceVersion of an
    API Job is that Job *)
Record QV (w : qworld) : Prop := {
  qv_known_rv : forall x, In x (known w) -> q_rv x <= qa_rv w;
  qv_api_rv : forall a, In a (qa_jobs w) -> q_rv a <= qa_rv w;
  qv_same : forall x a, In x (known w) -> In a (qa_jobs w) -> q_id a = q_id x -> q_rv a = q_rv x -> a = x
}.

Definition phi_eq (w : qworld) : Prop :=
  q_counter w + dsum (qs_pending w) + dsum (qc_pending w) = acount (qa_jobs w).

Definition QE (w : qworld) : Prop := QInv w /\ QV w /\ phi_eq w.

Lemma qe_init now m : QE (init_qworld now m).
Proof.
  split; [apply qinv_init|]. split.
  - constructor; simpl; intros; contradiction.
  - unfold phi_eq. simpl. lia.
Qed.

Lemma set_job_in j l a : In a (set_job j l) -> a = j \/ In a l.
Proof.
  unfold set_job. destruct (find_job (q_id j) l).
  - intros H. apply in_map_iff in H as (x & E & Hx). destruct (q_id x =? q_id j); subst; auto.
  - intros H. apply in_app_or in H as [H|[H|[]]]; auto.
Qed.

Lemma del_job_in id l a : In a (del_job id l) -> In a l.
Proof. unfold del_job. intros H. now apply filter_In in H as [H _]. Qed.

Lemma flat_map_app {A B} (f : A -> list B) a b : flat_map f (a ++ b) = flat_map f a ++ flat_map f b.
Proof. induction a as [|x r IH]; simpl; auto. now rewrite IH, app_assoc. Qed.

(** an API write that stores a fresh version a'' and announces it *)
Lemma qv_with_api_set w a'' ev fl ctr :
  QV w -> q_rv a'' = qa_rv w + 1 -> payload ev = [a''] ->
  QV (with_api w (set_job a'' (qa_jobs w)) ev fl ctr).
Proof.
  intros [V1 V2 V3] Hrv Hp. constructor; simpl.
  - intros x Hx. unfold known in Hx. simpl in Hx. rewrite flat_map_app in Hx. simpl in Hx. rewrite Hp, app_nil_r in Hx.
    rewrite app_assoc in Hx. apply in_app_or in Hx as [Hx|[<-|[]]]; [|lia]. specialize (V1 x Hx). lia.
  - intros a Ha. apply set_job_in in Ha as [->|Ha]; [lia|]. specialize (V2 a Ha). lia.
  - intros x a Hx Ha Hid Hr. unfold known in Hx. simpl in Hx. rewrite flat_map_app in Hx. simpl in Hx. rewrite Hp, app_nil_r in Hx.
    rewrite app_assoc in Hx. apply set_job_in in Ha as [->|Ha]; apply in_app_or in Hx as [Hx|[<-|[]]]; auto.
    + specialize (V1 x Hx). lia.
    + specialize (V2 a Ha). lia.
Qed.

Lemma qv_with_api_del w id a fl ctr :
  QV w -> QV (with_api w (del_job id (qa_jobs w)) (EDel a) fl ctr).
Proof.
  intros [V1 V2 V3]. constructor; simpl.
  - intros x Hx. unfold known in Hx. simpl in Hx. rewrite flat_map_app in Hx. simpl in Hx. rewrite app_nil_r in Hx.
    specialize (V1 x Hx). lia.
  - intros b Hb. apply del_job_in in Hb. specialize (V2 b Hb). lia.
  - intros x b Hx Hb. unfold known in Hx. simpl in Hx. rewrite flat_map_app in Hx. simpl in Hx. rewrite app_nil_r in Hx.
    apply del_job_in in Hb. now apply V3.
Qed.

Lemma qv_with_ctr w ctr fl : QV w -> QV (with_ctr w ctr fl).
Proof. intros [V1 V2 V3]. constructor; auto. Qed.

Lemma qv_adv_cache n : forall w, QV w -> QV (adv_cache n w).
Proof.
  induction n as [|n IH]; intros w HV; simpl; auto.
  destruct (qc_pending w) as [|e r] eqn:Ep; auto. apply IH.
  destruct HV as [V1 V2 V3].
  assert (Sub : forall x, In x (apply_cache (qc_jobs w) e ++ flat_map payload r) -> In x (known w)).
  { intros x Hx. unfold known. rewrite Ep. simpl. apply in_app_or in Hx as [Hx|Hx].
    - destruct e as [j|o nn|j]; simpl in *.
      + apply set_job_in in Hx as [->|Hx]; apply in_or_app; [right; now left|now left].
      + apply set_job_in in Hx as [->|Hx]; apply in_or_app; [right; now left|now left].
      + apply del_job_in in Hx. apply in_or_app. now left.
    - apply in_or_app. right. apply in_or_app. now right. }
  constructor; simpl; auto.
Qed.

Lemma qv_deliver_store n : forall w, QV w -> QV (deliver_store n w).
Proof.
  induction n as [|n IH]; intros w HV; simpl; auto.
  destruct (qs_pending w) as [|e r] eqn:Ep; auto. apply IH. destruct HV as [V1 V2 V3]. constructor; auto.
Qed.

Lemma phi_adv_cache n : forall w, phi_eq w -> phi_eq (adv_cache n w).
Proof.
  induction n as [|n IH]; intros w H; simpl; auto.
  destruct (qc_pending w) as [|e r] eqn:Ep; auto. apply IH. unfold phi_eq in *. simpl. rewrite Ep in H.
  rewrite dsum_app. simpl in *. lia.
Qed.

Lemma phi_deliver_store n : forall w, phi_eq w -> phi_eq (deliver_store n w).
Proof.
  induction n as [|n IH]; intros w H; simpl; auto.
  destruct (qs_pending w) as [|e r] eqn:Ep; auto. apply IH. unfold phi_eq in *. simpl. rewrite Ep in H.
  rewrite store_event_delta. simpl in H. lia.
Qed.

(** exact accounting of one API write on behalf of a cached version cj *)
Lemma qe_api_write w cj upd fl ctr w' out :
  QE w -> In cj (qc_jobs w) -> api_write w cj upd fl ctr = (w', out) ->
  (forall a, q_id (upd a) = q_id a /\ q_owned (upd a) = q_owned a /\ q_terminal (upd a) = q_terminal a) ->
  delta (EUpd cj (upd cj)) = 0 ->
  ctr = q_counter w + b2z (owned_active (upd cj)) - b2z (owned_active cj) ->
  (out = 0 -> QE w') /\ (out <> 0 -> w' = with_ctr w ctr fl).
Proof.
  intros (HI & HV & HP) Hcj Hw Hupd Hd Hc.
  assert (Hq : forall a, find_job (q_id cj) (qa_jobs w) = Some a ->
               delta (EUpd a (upd a)) = 0 /\ q_counter w + b2z (owned_active (upd a)) - b2z (owned_active a) <= ctr \/
               q_rv a <> q_rv cj).
  { intros a Ha. destruct (Z.eq_dec (q_rv a) (q_rv cj)) as [E|E]; [left|now right].
    destruct (find_job_in _ _ _ Ha) as [Hin Hid].
    assert (a = cj) by (apply (qv_same w HV); auto; unfold known; apply in_or_app; now left).
    subst a. split; auto. lia. }
  unfold api_write in Hw. destruct (find_job (q_id cj) (qa_jobs w)) as [a|] eqn:Ef.
  - destruct (negb (q_rv a =? q_rv cj)) eqn:Erv.
    + injection Hw as <- <-. split; [intros H; discriminate H|auto].
    + apply negb_false_iff, Z.eqb_eq in Erv.
      destruct (find_job_in _ _ _ Ef) as [Hin Hid].
      assert (a = cj) by (apply (qv_same w HV); auto; unfold known; apply in_or_app; now left). subst a.
      destruct (Hupd cj) as (Hid' & Hown & Hterm).
      set (a'' := mkQJ _ _ _ _ _ _ _ _ _) in Hw. injection Hw as <- <-. split; [intros _|intros H; congruence].
      assert (Eid : q_id a'' = q_id cj) by (unfold a''; simpl; exact Hid').
      assert (Eoa : owned_active a'' = owned_active (upd cj)) by reflexivity.
      assert (Ed : delta (EUpd cj a'') = delta (EUpd cj (upd cj))) by reflexivity.
      assert (Ecnt : acount (set_job a'' (qa_jobs w)) = acount (qa_jobs w) - b2z (owned_active cj) + b2z (owned_active (upd cj))).
      { rewrite acount_set_job by apply HI. now rewrite Eid, Ef, Eoa. }
      split; [|split].
      * apply qinv_with_api; auto.
        -- apply set_job_ids_nodup, HI.
        -- rewrite Ed, Hd. lia.
        -- rewrite Ecnt, Ed, Hd. pose proof (qi_phi w HI). lia.
      * apply qv_with_api_set; auto.
      * unfold phi_eq in *. unfold with_api. cbn [q_counter qs_pending qc_pending qa_jobs]. rewrite dsum_app.
        cbn [dsum fold_right]. rewrite Ecnt, Ed, Hd. lia.
  - injection Hw as <- <-. split; [intros H; discriminate H|auto].
Qed.

Lemma qe_with_ctr w fl : QE w -> QE (with_ctr w (q_counter w) fl).
Proof.
  intros (HI & HV & HP). split; [now apply qinv_with_ctr|]. split; [now apply qv_with_ctr|exact HP].
Qed.

Lemma qe_rollback w fl fl' :
  QE w -> let w1 := with_ctr w (q_counter w + 1) fl in QE (with_ctr w1 (q_counter w1 - 1) fl').
Proof.
  intros (HI & HV & HP). split; [now apply qinv_rollback|]. split.
  - destruct HV as [V1 V2 V3]. constructor; auto.
  - unfold phi_eq in *. simpl. lia.
Qed.

Lemma api_write_cache w cj upd fl ctr w' out :
  api_write w cj upd fl ctr = (w', out) -> qc_jobs w' = qc_jobs w.
Proof.
  unfold api_write. destruct (find_job _ _); [destruct (negb _)|]; intros [= <- _]; reflexivity.
Qed.

(** the Jobs a pass looks at are cached, owned, unstarted and not terminal *)
Lemma insert_job_in j l x : In x (insert_job j l) -> x = j \/ In x l.
Proof.
  induction l as [|y t IH]; simpl; [intros [H|[]]; auto|].
  destruct (q_created y <=? q_created j); simpl; intros [H|H]; auto. destruct (IH H); auto.
Qed.

Lemma sort_jobs_in l x : In x (sort_jobs l) -> In x l.
Proof.
  unfold sort_jobs. intros H. apply in_rev.
  induction (rev l) as [|y t IH]; simpl in *; [contradiction|].
  apply insert_job_in in H as [->|H]; auto.
Qed.

Lemma queued_jobs_spec w j :
  In j (queued_jobs w) -> In j (qc_jobs w) /\ q_owned j = true /\ is_started j = false /\ q_terminal j = false.
Proof.
  unfold queued_jobs. intros H. apply sort_jobs_in, filter_In in H as [H1 H2].
  apply andb_true_iff in H2 as [Ho Hq]. unfold is_queued in Hq. apply andb_true_iff in Hq as [Hs Ht].
  apply negb_true_iff in Hs, Ht. auto.
Qed.

Definition pass_job (c : list qjob) (j : qjob) : Prop :=
  In j c /\ q_owned j = true /\ is_started j = false /\ q_terminal j = false.

Lemma start_exact t j : q_owned j = true -> is_started j = false -> q_terminal j = false ->
  b2z (owned_active (set_started t j)) - b2z (owned_active j) = 1.
Proof.
  intros Ho Hs Ht. unfold owned_active, set_started, is_active, is_started in *. simpl.
  rewrite Ho, Ht. destruct (q_started j); [discriminate Hs|]. reflexivity.
Qed.

Lemma adm_exact j : b2z (owned_active (set_adm j)) - b2z (owned_active j) = 0.
Proof. unfold owned_active, set_adm, is_active, is_started. simpl. lia. Qed.

Lemma sync_loop_eq jobs : forall w active acts armed w' acts' ok armed',
  QE w -> (forall j, In j jobs -> pass_job (qc_jobs w) j) ->
  sync_loop w jobs active acts armed = (w', acts', ok, armed') ->
  QE w' /\ qc_jobs w' = qc_jobs w.
Proof.
  induction jobs as [|j r IH]; intros w active acts armed w' acts' ok armed' HE Hjobs; simpl.
  - intros [= <- _ _ _]. auto.
  - assert (Hj : pass_job (qc_jobs w) j) by (apply Hjobs; now left).
    assert (Hr : forall x, In x r -> pass_job (qc_jobs w) x) by (intros x Hx; apply Hjobs; now right).
    destruct Hj as (Hjin & Hjo & Hjs & Hjt).
    assert (Step : forall w1, QE w1 -> qc_jobs w1 = qc_jobs w ->
              forall a' acts1 armed1, sync_loop w1 r a' acts1 armed1 = (w', acts', ok, armed') ->
              QE w' /\ qc_jobs w' = qc_jobs w).
    { intros w1 HE1 Hc1 a' acts1 armed1 H.
      assert (Hr1 : forall x, In x r -> pass_job (qc_jobs w1) x) by (rewrite Hc1; exact Hr).
      destruct (IH _ _ _ _ _ _ _ _ HE1 Hr1 H) as (I1 & I2). split; auto. congruence. }
    destruct (can_start (q_clock w) (max_conc w) active j) eqn:Ed.
    + (* DStart *)
      destruct (negb (q_counter w =? active)) eqn:Ec.
      { intros [= <- _ _ _]. auto. }
      destruct (take_qfault QFStart (q_faults w)) as [fl|].
      { intros [= <- _ _ _]. split; [now apply qe_with_ctr|reflexivity]. }
      destruct (api_write w j (set_started (q_clock w)) (q_faults w) (q_counter w + 1)) as [w1 out] eqn:Ew.
      destruct (qe_api_write _ _ _ _ _ _ _ HE Hjin Ew (upd_keeps_started (q_clock w))
                  (delta_start j (q_clock w) (q_rv j) Hjs)) as [Hok Hbad].
      { pose proof (start_exact (q_clock w) j Hjo Hjs Hjt). lia. }
      destruct (out =? 0) eqn:Eo.
      * apply Z.eqb_eq in Eo. intros H. apply (Step w1 (Hok Eo) (api_write_cache _ _ _ _ _ _ _ Ew) _ _ _ H).
      * apply Z.eqb_neq in Eo. specialize (Hbad Eo). subst w1. intros [= <- _ _ _].
        split; [now apply qe_rollback|reflexivity].
    + (* DSkip *) intros H. eapply IH; eauto.
    + (* DReject *)
      destruct (take_qfault QFReject (q_faults w)) as [fl|].
      { intros [= <- _ _ _]. split; [now apply qe_with_ctr|reflexivity]. }
      destruct (api_write w j set_adm (q_faults w) (q_counter w)) as [w1 out] eqn:Ew.
      destruct (qe_api_write _ _ _ _ _ _ _ HE Hjin Ew upd_keeps_adm
                  (delta_upd_same_activity j (set_adm j) eq_refl)) as [Hok Hbad].
      { pose proof (adm_exact j). lia. }
      destruct (out =? 0) eqn:Eo.
      * apply Z.eqb_eq in Eo. intros H. apply (Step w1 (Hok Eo) (api_write_cache _ _ _ _ _ _ _ Ew) _ _ _ H).
      * apply Z.eqb_neq in Eo. specialize (Hbad Eo). subst w1. intros [= <- _ _ _].
        split; [now apply qe_with_ctr|reflexivity].
    + (* DWait *) intros H. eapply IH; eauto.
Qed.

(** * every op keeps the exact accounting *)
Definition op_ok2 (w : qworld) (o : qop) : Prop :=
  match o with
  | QSyncIndep id => forall a, find_job id (qa_jobs w) = Some a -> q_owned a = false
  | QCreate j => find_job (q_id j) (qa_jobs w) = None        (* names are unique: a create of an existing name fails *)
  | _ => True
  end.

Lemma op_ok2_ok w o : op_ok2 w o -> op_ok w o.
Proof. destruct o; simpl; auto. Qed.

Lemma find_job_cache_api w id cj a :
  QV w -> find_job id (qc_jobs w) = Some cj -> find_job id (qa_jobs w) = Some a -> q_rv a = q_rv cj -> a = cj.
Proof.
  intros HV Hc Ha Hr. destruct (find_job_in _ _ _ Hc) as [H1 H2]. destruct (find_job_in _ _ _ Ha) as [H3 H4].
  apply (qv_same w HV); auto; [unfold known; apply in_or_app; now left|congruence].
Qed.

Theorem qstep_eq w o : QE w -> op_ok2 w o -> QE (fst (fst (fst (qstep w o)))).
Proof.
  intros HE Hop. pose proof (qstep_inv w o (proj1 HE) (op_ok2_ok w o Hop)) as HI'.
  destruct HE as (HI & HV & HP). split; [exact HI'|]. clear HI'.
  destruct o as [j|id|id|m|t|n|n|n|f| |id| |id]; simpl in *.
  - (* create *)
    set (j' := mkQJ _ _ _ _ _ _ _ _ _). split.
    + apply qv_with_api_set; auto.
    + unfold phi_eq in *. unfold with_api. cbn [q_counter qs_pending qc_pending qa_jobs]. rewrite dsum_app.
      cbn [dsum fold_right]. rewrite acount_set_job by apply HI. change (q_id j') with (q_id j). rewrite Hop.
      assert (E : owned_active j' = false) by (unfold owned_active, j', is_active, is_started; simpl; now rewrite andb_false_r).
      rewrite E. change (delta (EAdd j')) with 0. simpl. lia.
  - (* finish *)
    destruct (find_job id (qa_jobs w)) as [a|] eqn:Ef; simpl; [|auto].
    destruct (delta_finish a (qa_rv w + 1)) as [Hd Ho]. set (a'' := mkQJ _ _ _ _ _ _ _ _ _) in *.
    destruct (find_job_in _ _ _ Ef) as [_ Hid]. split.
    + apply qv_with_api_set; auto.
    + unfold phi_eq in *. unfold with_api. cbn [q_counter qs_pending qc_pending qa_jobs]. rewrite dsum_app.
      cbn [dsum fold_right]. rewrite acount_set_job by apply HI. change (q_id a'') with (q_id a). rewrite Hid, Ef, Hd, Ho.
      simpl. lia.
  - (* delete *)
    destruct (find_job id (qa_jobs w)) as [a|] eqn:Ef; simpl; [|auto]. split.
    + now apply qv_with_api_del.
    + unfold phi_eq in *. unfold with_api. cbn [q_counter qs_pending qc_pending qa_jobs]. rewrite dsum_app.
      cbn [dsum fold_right]. rewrite (acount_del_job _ _ _ (qi_nodup w HI) Ef), delta_del. lia.
  - split; [destruct HV as [V1 V2 V3]; constructor; auto|exact HP].
  - split; [destruct HV as [V1 V2 V3]; constructor; auto|exact HP].
  - split; [now apply qv_adv_cache|now apply phi_adv_cache].
  - split; [now apply qv_deliver_store|now apply phi_deliver_store].
  - split; [destruct HV as [V1 V2 V3]; constructor; auto|exact HP].
  - split; [destruct HV as [V1 V2 V3]; constructor; auto|exact HP].
  - (* sync *)
    unfold sync_q. destruct (sync_loop w (queued_jobs w) (q_counter w) [] false) as [[[w' acts] ok] armed] eqn:E. simpl.
    assert (HE : QE w) by (split; [exact HI|split; assumption]).
    destruct (sync_loop_eq _ _ _ _ _ _ _ _ _ HE (fun j Hj => queued_jobs_spec w j Hj) E) as ((_ & A & B) & _). auto.
  - (* independent sync *)
    unfold sync_indep. destruct (find_job id (qc_jobs w)) as [j|] eqn:Ef; simpl; [|auto].
    destruct (negb (is_queued j)); simpl; [auto|].
    match goal with |- context [if ?c then _ else _] => destruct c end; simpl; [auto|].
    destruct (take_qfault QFStart (q_faults w)) as [fl|]; simpl.
    { split; [now apply qv_with_ctr|exact HP]. }
    destruct (api_write w j (set_started (q_clock w)) (q_faults w) (q_counter w)) as [w1 out] eqn:Ea. simpl.
    destruct (find_job_in _ _ _ Ef) as [Hjin Hid].
    assert (HE : QE w) by (split; [exact HI|split; assumption]).
    (* the cached version is not owned: its API version with the same resourceVersion is itself *)
    destruct (find_job (q_id j) (qa_jobs w)) as [a|] eqn:Efa.
    + destruct (Z.eq_dec (q_rv a) (q_rv j)) as [Erv|Erv].
      * assert (a = j) by (apply (find_job_cache_api w (q_id j) j a HV); auto; now rewrite Hid). subst a.
        assert (Hno : q_owned j = false) by (apply Hop; now rewrite <- Hid).
        destruct (qe_api_write _ _ _ _ _ _ _ HE Hjin Ea (upd_keeps_started (q_clock w))) as [Hok Hbad].
        -- apply (start_write_ok w).
        -- unfold owned_active, set_started. simpl. rewrite Hno. simpl. lia.
        -- destruct (Z.eq_dec out 0) as [E0|E0]; [destruct (Hok E0) as (_ & A & B); auto|].
           rewrite (Hbad E0). split; [now apply qv_with_ctr|exact HP].
      * revert Ea. unfold api_write. rewrite Efa. apply Z.eqb_neq in Erv. rewrite Erv. simpl. intros [= <- _].
        split; [now apply qv_with_ctr|exact HP].
    + revert Ea. unfold api_write. rewrite Efa. intros [= <- _]. split; [now apply qv_with_ctr|exact HP].
  - (* restart *)
    set (w1 := adv_cache (List.length (qc_pending w)) w).
    assert (HI1 : QInv w1) by now apply adv_cache_inv.
    assert (HV1 : QV w1) by now apply qv_adv_cache.
    assert (Hp : qc_pending w1 = []) by (apply adv_cache_all; lia).
    pose proof (qi_replay w1 HI1) as Hr. rewrite Hp in Hr. unfold replay in Hr. simpl in Hr. split.
    + destruct HV1 as [V1 V2 V3]. constructor; simpl; auto.
      * intros x Hx. apply V1. unfold known in *. simpl in Hx. rewrite app_nil_r in Hx. apply in_or_app. now left.
      * intros x a Hx. apply V3. unfold known in *. simpl in Hx. rewrite app_nil_r in Hx. apply in_or_app. now left.
    + unfold phi_eq. simpl. rewrite Hr, <- acount_filter. lia.
  - (* touch *)
    destruct (find_job id (qa_jobs w)) as [a|] eqn:Ef; simpl; [|auto].
    set (a'' := mkQJ _ _ _ _ _ _ _ _ _) in *.
    assert (Hd : delta (EUpd a a'') = 0) by (apply delta_upd_same_activity; reflexivity).
    assert (Ho : owned_active a'' = owned_active a) by reflexivity.
    destruct (find_job_in _ _ _ Ef) as [_ Hid]. split.
    + apply qv_with_api_set; auto.
    + unfold phi_eq in *. unfold with_api. cbn [q_counter qs_pending qc_pending qa_jobs]. rewrite dsum_app.
      cbn [dsum fold_right]. rewrite acount_set_job by apply HI. change (q_id a'') with (q_id a). rewrite Hid, Ef, Hd, Ho. lia.
Qed.

Fixpoint run_ok2 (w : qworld) (ops : list qop) : Prop :=
  match ops with
  | [] => True
  | o :: r => op_ok2 w o /\ run_ok2 (fst (fst (fst (qstep w o)))) r
  end.

Lemma qrun_eq ops : forall w, QE w -> run_ok2 w ops -> QE (qrun_world w ops).
Proof.
  induction ops as [|o r IH]; intros w HE Hok; simpl; auto.
  destruct Hok as [H1 H2]. apply IH; auto. now apply qstep_eq.
Qed.

(** once the store has seen every event, the counter IS the number of owned active Jobs *)
Theorem counter_exact_when_delivered now m ops :
  run_ok2 (init_qworld now m) ops ->
  let w := qrun_world (init_qworld now m) ops in
  qc_pending w = [] -> qs_pending w = [] -> q_counter w = acount (qa_jobs w).
Proof.
  intros Hok w H1 H2. destruct (qrun_eq ops _ (qe_init now m) Hok) as (_ & _ & HP).
  fold w in HP. unfold phi_eq in HP. rewrite H1, H2 in HP. simpl in HP. lia.
Qed.

(** a pass that does nothing (no write, no error) decided Skip or Wait for every queued Job *)
Lemma sync_loop_idle jobs : forall w active acts armed w' acts' armed',
  sync_loop w jobs active acts armed = (w', acts', true, armed') -> List.length acts' = List.length acts ->
  forall j, In j jobs ->
    can_start (q_clock w) (max_conc w) active j = DSkip \/ can_start (q_clock w) (max_conc w) active j = DWait.
Proof.
  assert (Grow : forall js w active acts armed w' acts' ok armed',
            sync_loop w js active acts armed = (w', acts', ok, armed') -> (List.length acts <= List.length acts')%nat).
  { induction js as [|j r IH]; intros w active acts armed w' acts' ok armed'; simpl.
    - intros [= _ <- _ _]. lia.
    - destruct (can_start _ _ _ j); try (intros H; apply IH in H; exact H).
      + destruct (negb _); [intros [= _ <- _ _]; lia|].
        destruct (take_qfault _ _); [intros [= _ <- _ _]; simpl; lia|].
        destruct (api_write _ _ _ _ _) as [w1 out]. destruct (out =? 0); [intros H; apply IH in H; simpl in H; lia|intros [= _ <- _ _]; simpl; lia].
      + destruct (take_qfault _ _); [intros [= _ <- _ _]; simpl; lia|].
        destruct (api_write _ _ _ _ _) as [w1 out]. destruct (out =? 0); [intros H; apply IH in H; simpl in H; lia|intros [= _ <- _ _]; simpl; lia]. }
  induction jobs as [|j r IH]; intros w active acts armed w' acts' armed'; simpl; [intros _ _ j []|].
  destruct (can_start (q_clock w) (max_conc w) active j) eqn:Ed.
  - destruct (negb _); [intros H; discriminate H|].
    destruct (take_qfault _ _); [intros H; discriminate H|].
    destruct (api_write _ _ _ _ _) as [w1 out]. destruct (out =? 0); [|intros H; discriminate H].
    intros H Hl. apply Grow in H. simpl in H. lia.
  - intros H Hl x [<-|Hx]; auto. eapply IH; eauto.
  - destruct (take_qfault _ _); [intros H; discriminate H|].
    destruct (api_write _ _ _ _ _) as [w1 out]. destruct (out =? 0); [|intros H; discriminate H].
    intros H Hl. apply Grow in H. simpl in H. lia.
  - intros H Hl x [<-|Hx]; auto. eapply IH; eauto.
Qed.

(** C06, nothing stays stuck: in a history whose events have all been delivered, a pass that
    finds nothing to do leaves only Jobs that are really blocked - Enqueue Jobs while the API
    itself holds maxConcurrency owned active Jobs, or Jobs whose startAfter is in the future *)
Theorem idle_pass_means_blocked now m ops w' armed :
  run_ok2 (init_qworld now m) ops ->
  let w := qrun_world (init_qworld now m) ops in
  qc_pending w = [] -> qs_pending w = [] ->
  sync_q w = (w', [], true, armed) ->
  forall j, In j (queued_jobs w) ->
    can_start (q_clock w) (max_conc w) (acount (qa_jobs w)) j = DSkip \/
    can_start (q_clock w) (max_conc w) (acount (qa_jobs w)) j = DWait.
Proof.
  intros Hok w H1 H2 Hs j Hj. pose proof (counter_exact_when_delivered now m ops Hok H1 H2) as Ec. fold w in Ec. rewrite <- Ec.
  unfold sync_q in Hs. destruct (sync_loop w (queued_jobs w) (q_counter w) [] false) as [[[w1 acts1] ok1] armed1] eqn:E.
  injection Hs as _ Ha Hok1 _. subst ok1. assert (acts1 = []) by (destruct acts1; auto; simpl in Ha; destruct (rev acts1); discriminate Ha).
  subst acts1. eapply sync_loop_idle; eauto.
Qed.

Lemma can_start_wait now maxc active j :
  can_start now maxc active j = DWait -> exists a, q_start_after j = Some a /\ now < a.
Proof.
  unfold can_start. destruct (q_policy j); try (intros H; discriminate H);
    destruct (q_start_after j) as [a|]; try (destruct (now <? a) eqn:E);
    repeat match goal with |- context [if ?c then _ else _] => destruct c end;
    intros H; try discriminate H; exists a; split; auto; now apply Z.ltb_lt.
Qed.

Lemma can_start_skip now maxc active j :
  can_start now maxc active j = DSkip -> q_policy j = PEnqueue /\ maxc < active + 1.
Proof.
  unfold can_start. destruct (q_policy j); try (intros H; discriminate H);
    destruct (q_start_after j) as [a|]; try (destruct (now <? a));
    repeat match goal with |- context [if ?c then _ else _] => destruct c eqn:? end;
    intros H; try discriminate H; split; auto; now apply Z.ltb_lt.
Qed.

(** C07, eventual start: after an idle pass over a fully delivered history a Job whose
    startAfter has passed (or that has none) is still queued only if it is an Enqueue Job and
    the API holds maxConcurrency owned active Jobs *)
Theorem due_job_left_only_at_true_limit now m ops w' armed :
  run_ok2 (init_qworld now m) ops ->
  let w := qrun_world (init_qworld now m) ops in
  qc_pending w = [] -> qs_pending w = [] ->
  sync_q w = (w', [], true, armed) ->
  forall j, In j (queued_jobs w) ->
    match q_start_after j with Some a => a <= q_clock w | None => True end ->
    q_policy j = PEnqueue /\ max_conc w < acount (qa_jobs w) + 1.
Proof.
  intros Hok w H1 H2 Hs j Hj Hdue.
  destruct (idle_pass_means_blocked now m ops w' armed Hok H1 H2 Hs j Hj) as [H|H].
  - now apply can_start_skip in H.
  - apply can_start_wait in H as (a & Ha & Hlt). fold w in Ha, Hlt. rewrite Ha in Hdue. lia.
Qed.
