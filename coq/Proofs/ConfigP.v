(** C19: layering is field by field; a source's content is replaced atomically; reads fall
    back to the last good decode and never return a partially applied value. *)
From Furiko Require Import Config.Layer.
From Coq Require Import Lia.
Open Scope list_scope.

Lemma lget_lset k k' v l : lget k (lset k' v l) = if String.eqb k' k then Some v else lget k l.
Proof.
  induction l as [|[k2 v2] r IH]; simpl.
  - reflexivity.
  - destruct (String.eqb k2 k') eqn:E; simpl.
    + apply String.eqb_eq in E as ->. now destruct (String.eqb k' k).
    + rewrite IH. destruct (String.eqb k2 k) eqn:E2; auto.
      apply String.eqb_eq in E2 as ->. now rewrite String.eqb_sym, E.
Qed.

Definition is_map (v : jv) : bool := match v with JMap _ => true | _ => false end.

Lemma merge_key_other acc k kv : String.eqb (fst kv) k = false -> lget k (merge_key acc kv) = lget k acc.
Proof.
  destruct kv as [k' v]. simpl. intros E. unfold merge_key. simpl.
  destruct v; try (rewrite lget_lset, E; reflexivity).
  destruct (lget k' acc) as [d|].
  - destruct d; try (destruct (is_empty_jv _); [rewrite lget_lset, E|]; reflexivity);
      rewrite lget_lset, E; reflexivity.
  - now rewrite lget_lset, E.
Qed.

Lemma merge_key_same acc k v : is_map v = false -> lget k (merge_key acc (k, v)) = Some v.
Proof.
  intros Hm. unfold merge_key. simpl. destruct v; try discriminate Hm; rewrite lget_lset, String.eqb_refl; reflexivity.
Qed.

(** the last binding of k in a source document *)
Fixpoint last_binding (k : string) (l : layer) : option jv :=
  match l with
  | [] => None
  | (k', v) :: r => match last_binding k r with
                    | Some w => Some w
                    | None => if String.eqb k' k then Some v else None
                    end
  end.

(** field-wise override: a key the source sets to anything but a map takes the source's
    value - null, zero, false, empty string and lists included; a key the source does not
    mention keeps the lower-priority value *)
Lemma merge_fieldwise k src : forall dst,
  (forall e, ~ In (k, JMap e) src) ->
  lget k (merge_override dst src) =
  match last_binding k src with Some v => Some v | None => lget k dst end.
Proof.
  unfold merge_override. induction src as [|[k' v] r IH]; intros dst Hm; simpl; [reflexivity|].
  rewrite IH by (intros e He; apply (Hm e); now right).
  destruct (last_binding k r); auto.
  destruct (String.eqb k' k) eqn:E.
  - apply String.eqb_eq in E as ->. apply merge_key_same.
    destruct v; auto. exfalso. apply (Hm empty). now left.
  - now apply merge_key_other.
Qed.

(** the effective value of a field: Secret, else ConfigMap, else built-in default *)
Definition source_binding (c : content) (k : kind) (f : string) : option jv :=
  match cget (kind_name k) c with Some l => last_binding f l | None => None end.

Definition no_map_for (c : content) (k : kind) (f : string) : Prop :=
  forall l e, cget (kind_name k) c = Some l -> ~ In (f, JMap e) l.

Theorem effective_fieldwise s k f :
  no_map_for (cs_cm s) k f -> no_map_for (cs_sec s) k f ->
  lget f (effective_layer s k) =
  match source_binding (cs_sec s) k f with
  | Some v => Some v
  | None => match source_binding (cs_cm s) k f with
            | Some v => Some v
            | None => lget f (defaults_of k)
            end
  end.
Proof.
  intros H1 H2. unfold effective_layer, source_binding.
  destruct (cget (kind_name k) (cs_sec s)) as [ls|] eqn:Es;
    destruct (cget (kind_name k) (cs_cm s)) as [lc|] eqn:Ec;
    rewrite ?merge_fieldwise; auto; try (intros e; apply (H2 _ e eq_refl)); try (intros e; apply (H1 _ e eq_refl)).
Qed.

(** decoding is field by field, all or nothing *)
Lemma decode_fields sch : forall l c, decode sch l = Some c ->
  map fst c = map fst sch /\
  forall f t, In (f, t) sch -> exists d, In (f, d) c /\ decode_field t (lget f l) = Some d.
Proof.
  induction sch as [|[k t] r IH]; simpl; intros l c.
  - intros [= <-]. split; auto. intros f t [].
  - destruct (decode_field t (lget k l)) as [d|] eqn:Ed; [|intros H; discriminate H].
    destruct (decode r l) as [c'|] eqn:Er; [|intros H; discriminate H].
    intros [= <-]. destruct (IH l c' Er) as [I1 I2]. split; [simpl; now rewrite I1|].
    intros f t' [[= <- <-]|Hin].
    + exists d. split; [now left|exact Ed].
    + destruct (I2 f t' Hin) as (d' & Hd & He). exists d'. split; [now right|exact He].
Qed.

Lemma decode_fails sch : forall l, decode sch l = None <->
  exists f t, In (f, t) sch /\ decode_field t (lget f l) = None.
Proof.
  induction sch as [|[k t] r IH]; simpl; intros l.
  - split; [intros H; discriminate H|intros (f & t & [] & _)].
  - destruct (decode_field t (lget k l)) as [d|] eqn:Ed.
    + destruct (decode r l) as [c'|] eqn:Er.
      * split; [intros H; discriminate H|]. intros (f & t' & [[= <- <-]|Hin] & Hn); [congruence|].
        assert (Hc : decode r l = None) by (apply IH; eauto). congruence.
      * split; auto. intros _. destruct (proj1 (IH l) Er) as (f & t' & Hin & Hn). exists f, t'. auto.
    + split; auto. intros _. exists k, t. auto.
Qed.

(** * sources are replaced atomically *)
Lemma parse_event_all e c : parse_event e = Some c <-> e = map (fun kl => (fst kl, Some (snd kl))) c.
Proof.
  revert c. induction e as [|[k [l|]] r IH]; intros c; simpl.
  - split; [intros [= <-]; reflexivity|]. destruct c; [reflexivity|intros H; discriminate H].
  - destruct (parse_event r) as [c'|] eqn:E; simpl.
    + split.
      * intros [= <-]. simpl. f_equal. now apply IH.
      * destruct c as [|[k2 l2] c2]; simpl; [intros H; discriminate H|]. intros [= -> -> H]. f_equal. f_equal.
        apply IH in H. congruence.
    + split; [intros H; discriminate H|]. destruct c as [|[k2 l2] c2]; simpl; [intros H; discriminate H|].
      intros [= -> -> H]. apply IH in H. discriminate H.
  - split; [intros H; discriminate H|]. destruct c as [|[k2 l2] c2]; simpl; intros H; discriminate H.
Qed.

Definition cm_after (acc : content) (o : cop) : content :=
  match o with CCm true e => match parse_event e with Some c => c | None => acc end | _ => acc end.
Definition sec_after (acc : content) (o : cop) : content :=
  match o with CSec true e => match parse_event e with Some c => c | None => acc end | _ => acc end.

Theorem sources_atomic ops : forall s,
  cs_cm (crun_state s ops) = fold_left cm_after ops (cs_cm s) /\
  cs_sec (crun_state s ops) = fold_left sec_after ops (cs_sec s).
Proof.
  induction ops as [|o r IH]; intros s; simpl; auto.
  destruct (IH (fst (cstep s o))) as [I1 I2]. rewrite I1, I2.
  destruct o as [mine e|mine e|k]; simpl.
  - destruct mine; [destruct (parse_event e)|]; simpl; auto.
  - destruct mine; [destruct (parse_event e)|]; simpl; auto.
  - destruct (decode _ _); simpl; auto.
Qed.

(** * last known good *)
Lemma kind_eqb_eq a b : kind_eqb a b = true <-> a = b.
Proof. destruct a, b; simpl; split; intros H; try reflexivity; discriminate H. Qed.

Lemma lkg_get_set k k' c l : lkg_get k (lkg_set k' c l) = if kind_eqb k' k then Some c else lkg_get k l.
Proof.
  unfold lkg_set. simpl. destruct (kind_eqb k' k) eqn:E; auto.
  induction l as [|[k2 c2] r IH]; simpl; auto.
  destruct (kind_eqb k2 k') eqn:E2; simpl.
  - apply kind_eqb_eq in E2 as ->. now rewrite E.
  - destruct (kind_eqb k2 k); auto.
Qed.

(** a read returns the full decode of the current layering, or exactly the value of the most
    recent successful read of that kind, or (none yet) an error; nothing else *)
Theorem read_result s k :
  snd (cstep s (CRead k)) =
  match decode (schema_of k) (effective_layer s k) with
  | Some c => Some c
  | None => lkg_get k (cs_lkg s)
  end.
Proof. simpl. now destruct (decode _ _). Qed.

Theorem lkg_step s o k :
  lkg_get k (cs_lkg (fst (cstep s o))) =
  match o with
  | CRead k' =>
      if kind_eqb k' k then
        match decode (schema_of k') (effective_layer s k') with
        | Some c => Some c
        | None => lkg_get k (cs_lkg s)
        end
      else lkg_get k (cs_lkg s)
  | _ => lkg_get k (cs_lkg s)
  end.
Proof.
  destruct o as [mine e|mine e|k']; simpl.
  - destruct mine; [destruct (parse_event e)|]; reflexivity.
  - destruct mine; [destruct (parse_event e)|]; reflexivity.
  - destruct (decode (schema_of k') (effective_layer s k')) eqn:E; cbn [fst cs_lkg].
    + apply lkg_get_set.
    + now destruct (kind_eqb k' k).
Qed.

(** events never touch what reads have remembered, and reads never touch the sources *)
Theorem read_keeps_sources s k : cs_cm (fst (cstep s (CRead k))) = cs_cm s /\ cs_sec (fst (cstep s (CRead k))) = cs_sec s.
Proof. simpl. destruct (decode _ _); simpl; auto. Qed.

(** recovery: as soon as the layering decodes again the next read returns it *)
Theorem recovers s k c :
  decode (schema_of k) (effective_layer s k) = Some c -> snd (cstep s (CRead k)) = Some c.
Proof. intros H. rewrite read_result. now rewrite H. Qed.
