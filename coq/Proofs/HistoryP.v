(** C09/C11 over histories: a task that has once been recorded in the Job's status in the API
    stays recorded for as long as the Job exists - whatever the caches show (lag, loss), whatever
    fails, whoever else writes the Job.  Rests on: every status the controller computes keeps
    the names it started from, and a write is only accepted against the version it was
    computed from (resourceVersion). *)
From Furiko Require Import Job.Core Job.Sync Job.World Proofs.JobP.
From Coq Require Import Lia.
Local Open Scope list_scope.
Local Open Scope Z_scope.

Definition names (j : job) : list string := map tr_name (j_tasks j).
Definition keeps (j j' : job) : Prop := incl (names j) (names j').

Lemma keeps_refl j : keeps j j.
Proof. unfold keeps. apply incl_refl. Qed.
Lemma keeps_trans a b c : keeps a b -> keeps b c -> keeps a c.
Proof. unfold keeps. apply incl_tran. Qed.
Lemma keeps_same_tasks j j' : j_tasks j' = j_tasks j -> keeps j j'.
Proof. unfold keeps, names. intros ->. apply incl_refl. Qed.

(** * the status functions *)
Lemma update_status_tasks now j : j_tasks (update_status_from_refs now j) = j_tasks j.
Proof. unfold update_status_from_refs. destruct (j_parallel j); [destruct (summary _ _ _ _)|]; reflexivity. Qed.

Lemma update_task_refs_keeps now j pods : keeps j (update_task_refs now j pods).
Proof.
  unfold keeps, names, update_task_refs. simpl. intros n Hn. apply in_map_iff in Hn as (e & <- & He).
  destruct (listed_forever now (j_tasks j) pods e He) as (r & Hr & En). apply in_map_iff. exists r. auto.
Qed.

Lemma sync_status_tasks now s j s' j' : sync_status now s j = (s', j') -> j_tasks j' = j_tasks j.
Proof. unfold sync_status. intros [= _ <-]. apply update_status_tasks. Qed.

Lemma sync_status_refs_keeps now s j pods s' j' : sync_status_refs now s j pods = (s', j') -> keeps j j'.
Proof.
  unfold sync_status_refs. intros H. apply sync_status_tasks in H.
  eapply keeps_trans; [apply update_task_refs_keeps|]. apply keeps_same_tasks. exact H.
Qed.

Lemma mark_deleted_names l st o f j : names (mark_deleted l st o f j) = names j.
Proof.
  unfold names, mark_deleted. simpl. rewrite map_map. apply map_ext. intros r.
  destruct (mem_str (tr_name r) l); reflexivity.
Qed.

Lemma keeps_mark_deleted l st o f j : keeps j (mark_deleted l st o f j).
Proof. unfold keeps. rewrite mark_deleted_names. apply incl_refl. Qed.

(** * creation *)
Lemma sync_create_task_tasks s j tasks h retry s' j' tasks' res :
  sync_create_task s j tasks h retry = (s', j', tasks', res) -> j_tasks j' = j_tasks j.
Proof.
  unfold sync_create_task.
  destruct (take_fault FCreatePod _); [intros [= _ <- _ _]; reflexivity|].
  destruct (take_fault FCreatePodInvalid _); [intros [= _ <- _ _]; reflexivity|].
  destruct (has_pod _ _).
  - destruct (find_pod _ _) as [p|]; [destruct (p_controlled p)|]; intros [= _ <- _ _]; reflexivity.
  - intros [= _ <- _ _]. reflexivity.
Qed.

Lemma create_loop_tasks reqs : forall s j tasks now s' j' tasks' res,
  create_loop s j tasks reqs now = (s', j', tasks', res) -> j_tasks j' = j_tasks j.
Proof.
  induction reqs as [|rq r IH]; intros s j tasks now s' j' tasks' res; simpl.
  - intros [= _ <- _ _]. reflexivity.
  - destruct (match rq_earliest rq with Some e => now <? e | None => false end); [apply IH|].
    destruct (sync_create_task s j tasks (rq_hash rq) (rq_retry rq)) as [[[s1 j1] t1] [|]] eqn:E.
    + intros H. apply IH in H. apply sync_create_task_tasks in E. congruence.
    + intros [= _ <- _ _]. reflexivity.
Qed.

Lemma sync_create_tasks_keeps s j tasks now s' j' tasks' res :
  sync_create_tasks s j tasks now = (s', j', tasks', res) -> keeps j j'.
Proof.
  unfold sync_create_tasks. destruct (negb (can_create_task j)); [intros [= _ <- _ _]; apply keeps_refl|].
  destruct (summary _ _ _ _) as [complete succ]. destruct complete; [intros [= _ <- _ _]; apply keeps_refl|].
  destruct (create_loop s j tasks (compute_missing j) now) as [[[s1 j1] t1] [|]] eqn:E.
  - destruct (sync_status_refs now _ j1 t1) as [s2 j2] eqn:E2. intros [= _ <- _ _].
    apply create_loop_tasks in E. apply sync_status_refs_keeps in E2.
    eapply keeps_trans; [apply keeps_same_tasks; exact E|exact E2].
  - intros [= _ <- _ _]. apply keeps_refl.
Qed.

(** * the sweeps *)
Lemma handle_pending_keeps cfg s j tasks now s' j' ok : handle_pending cfg s j tasks now = (s', j', ok) -> keeps j j'.
Proof.
  unfold handle_pending. destruct (pending_timeout cfg j <=? 0); [intros [= _ <- _]; apply keeps_refl|].
  match goal with |- context [match ?need with [] => _ | _ => _ end = _] => idtac end.
  set (need := filter _ (filter _ tasks)).
  destruct need as [|p r] eqn:En; [intros [= _ <- _]; apply keeps_refl|].
  destruct (delete_tasks _ _ _ _) as [s1 ok1]. intros [= _ <- _]. apply keeps_mark_deleted.
Qed.

Lemma handle_kill_keeps s j tasks now s' j' ok : handle_kill s j tasks now = (s', j', ok) -> keeps j j'.
Proof.
  unfold handle_kill. destruct (negb (should_kill now j)); [intros [= _ <- _]; apply keeps_refl|].
  destruct (filter _ tasks) as [|p r]; [intros [= _ <- _]; apply keeps_refl|].
  destruct (delete_tasks _ _ _ _) as [s1 ok1]. intros [= _ <- _]. apply keeps_mark_deleted.
Qed.

Lemma handle_force_keeps cfg s j tasks now s' j' ok : handle_force cfg s j tasks now = (s', j', ok) -> keeps j j'.
Proof.
  unfold handle_force. destruct (force_timeout cfg <=? 0); [intros [= _ <- _]; apply keeps_refl|].
  destruct (j_forbid_force j); [intros [= _ <- _]; apply keeps_refl|].
  match goal with |- context [filter ?f (filter ?g tasks)] => set (need := filter f (filter g tasks)) end.
  destruct need as [|p r] eqn:En; [intros [= _ <- _]; apply keeps_refl|].
  destruct (delete_tasks _ _ _ _) as [s1 ok1]. intros [= _ <- _].
  eapply keeps_trans; [apply keeps_mark_deleted|apply update_task_refs_keeps].
Qed.

Lemma sync_job_tasks_keeps cfg s j now s' j' ok : sync_job_tasks cfg s j now = (s', j', ok) -> keeps j j'.
Proof.
  unfold sync_job_tasks. set (tasks := flat_map _ (j_tasks j)).
  destruct (sync_create_tasks s j tasks now) as [[[s1 j1] t1] [|]] eqn:E1; [|intros [= _ <- _]; apply keeps_refl].
  destruct (sync_status_refs now s1 j1 t1) as [s2 j2] eqn:E2.
  destruct (handle_pending cfg s2 j2 t1 now) as [[s3 j3] ok3] eqn:E3.
  destruct (negb ok3); [intros [= _ <- _]; apply keeps_refl|].
  destruct (handle_kill s3 j3 t1 now) as [[s4 j4] ok4] eqn:E4.
  destruct (negb ok4); [intros [= _ <- _]; apply keeps_refl|].
  destruct (handle_force cfg s4 j4 t1 now) as [[s5 j5] ok5] eqn:E5.
  destruct (negb ok5); [intros [= _ <- _]; apply keeps_refl|].
  destruct (sync_status_refs now s5 j5 t1) as [s6 j6] eqn:E6. intros [= _ <- _].
  apply sync_create_tasks_keeps in E1. apply sync_status_refs_keeps in E2, E6.
  apply handle_pending_keeps in E3. apply handle_kill_keeps in E4. apply handle_force_keeps in E5.
  repeat (eapply keeps_trans; [eassumption|]). apply keeps_refl.
Qed.

Lemma set_finalizer_tasks j b : j_tasks (set_finalizer j b) = j_tasks j.
Proof. reflexivity. Qed.

Lemma handle_finalizer_keeps s j now s' j' ok : handle_finalizer s j now = (s', j', ok) -> keeps j j'.
Proof.
  unfold handle_finalizer. destruct (j_deletion j); [|intros [= _ <- _]; apply keeps_refl].
  destruct (negb (j_finalizer j)); [intros [= _ <- _]; apply keeps_refl|].
  set (tasks := flat_map _ (j_tasks j)). destruct tasks as [|p r] eqn:Et.
  - destruct (sync_status_refs now s j []) as [s1 j1] eqn:E. intros [= _ <- _].
    apply sync_status_refs_keeps in E. eapply keeps_trans; [exact E|]. apply keeps_same_tasks. reflexivity.
  - destruct (sync_status_refs now s _ (p :: r)) as [s1 j2] eqn:E. destruct (delete_tasks _ _ _ _) as [s2 ok2].
    intros [= _ <- _]. apply sync_status_refs_keeps in E.
    eapply keeps_trans; [apply keeps_mark_deleted|exact E].
Qed.

(** the whole reconcile function: whatever it returns keeps every recorded name *)
Theorem sync_keeps cfg s j now s' j' ok : sync cfg s j now = (s', j', ok) -> keeps j j'.
Proof.
  unfold sync.
  destruct (match j_start j, j_deletion j with Some _, None => sync_job_tasks cfg s j now | _, _ => (s, j, true) end)
    as [[s1 j1] ok1] eqn:E1.
  assert (K1 : keeps j j1).
  { destruct (j_start j); [destruct (j_deletion j)|]; try (injection E1 as _ <- _; apply keeps_refl).
    now apply sync_job_tasks_keeps in E1. }
  destruct (negb ok1); [intros [= _ <- _]; apply keeps_refl|].
  destruct (sync_status now s1 j1) as [s2 j2] eqn:E2. apply sync_status_tasks in E2.
  assert (K2 : keeps j j2) by (eapply keeps_trans; [exact K1|apply keeps_same_tasks; exact E2]).
  destruct (handle_ttl cfg s2 j2 now) as [s3 ok3]. destruct (negb ok3); [intros [= _ <- _]; exact K2|].
  destruct (handle_finalizer s3 j2 now) as [[s4 j4] ok4] eqn:E4. apply handle_finalizer_keeps in E4.
  destruct (negb ok4); intros [= _ <- _]; [exact K2|eapply keeps_trans; eauto].
Qed.

(** * the world: what can happen to the Job object in the API *)
Definition jf (w : jworld) := (api_job w, api_rv w, cache_job w, cache_rv w, job_pending w).

(** between two versions of the Job in the API: recorded names kept, a start time that is set
    stays what it is *)
Definition same_spec (x y : job) : Prop := j_indexes y = j_indexes x /\ j_max_attempts y = j_max_attempts x.
Definition jkeeps (x y : job) : Prop :=
  keeps x y /\ (forall t, j_start x = Some t -> j_start y = Some t) /\ same_spec x y.
Lemma jkeeps_refl x : jkeeps x x.
Proof. split; [apply keeps_refl|]. split; [auto|split; reflexivity]. Qed.
Lemma jkeeps_trans a b c : jkeeps a b -> jkeeps b c -> jkeeps a c.
Proof.
  intros (K1 & S1 & E1 & M1) (K2 & S2 & E2 & M2). split; [eapply keeps_trans; eauto|]. split; [auto|].
  split; congruence.
Qed.
Lemma jkeeps_same x y : j_tasks y = j_tasks x -> j_start y = j_start x ->
  j_indexes y = j_indexes x -> j_max_attempts y = j_max_attempts x -> jkeeps x y.
Proof. intros E1 E2 E3 E4. split; [now apply keeps_same_tasks|]. split; [intros t; congruence|split; assumption]. Qed.

Definition okeeps (a : option job) (b : option job) : Prop :=
  match a, b with
  | Some x, Some y => jkeeps x y
  | None, Some _ => False          (* a deleted Job does not come back *)
  | _, None => True
  end.

Lemma okeeps_refl a : okeeps a a.
Proof. destruct a; simpl; auto. apply jkeeps_refl. Qed.
Lemma okeeps_trans a b c : okeeps a b -> okeeps b c -> okeeps a c.
Proof. destruct a, b, c; simpl; try tauto. apply jkeeps_trans. Qed.

(** [evol w w']: w' results from w by steps that leave the Job fields alone and by API writes
    of the Job (each with the next resourceVersion, each keeping the recorded names) *)
Inductive evol : jworld -> jworld -> Prop :=
| ev_same w w' : jf w' = jf w -> evol w w'
| ev_upd w w1 w' j fl : evol w w1 -> okeeps (api_job w1) j -> jf w' = jf (upd_job w1 j (api_rv w1 + 1) fl) -> evol w w'.

Lemma evol_refl w : evol w w.
Proof. now apply ev_same. Qed.

Lemma evol_then_same a b c : evol a b -> jf c = jf b -> evol a c.
Proof.
  intros H E. destruct H as [w w' E1|w w1 w' j fl H K E1].
  - apply ev_same. now rewrite E, E1.
  - eapply ev_upd; [exact H|exact K|]. now rewrite E, E1.
Qed.

Lemma evol_trans a b c : evol a b -> evol b c -> evol a c.
Proof.
  intros H1 H2. induction H2 as [w w' E|w w1 w' j fl H IH K E].
  - eapply evol_then_same; eauto.
  - apply (ev_upd a w1 w' j fl); [apply IH; exact H1|exact K|exact E].
Qed.

Lemma evol_same_then a b c : jf b = jf a -> evol b c -> evol a c.
Proof. intros E H. eapply evol_trans; [apply ev_same; exact E|exact H]. Qed.

Lemma evol_facts w w' : evol w w' ->
  api_rv w <= api_rv w' /\ (api_rv w' = api_rv w -> jf w' = jf w) /\ okeeps (api_job w) (api_job w') /\
  cache_job w' = cache_job w /\ cache_rv w' = cache_rv w.
Proof.
  induction 1 as [w w' E|w w1 w' j fl H IH K E].
  - unfold jf in E. injection E as E1 E2 E3 E4 E5. repeat split; try congruence; try lia.
    + intros _. unfold jf. congruence.
    + rewrite E1. apply okeeps_refl.
  - destruct IH as (I1 & I2 & I3 & I4 & I5). unfold jf in E. simpl in E. injection E as E1 E2 E3 E4 E5.
    repeat split; try congruence; try lia.
    rewrite E1. eapply okeeps_trans; eauto.
Qed.

(** resourceVersions identify versions of the Job *)
Record JV (w : jworld) : Prop := {
  jv_cache : cache_rv w <= api_rv w /\ (cache_rv w = api_rv w -> cache_job w = api_job w);
  jv_pending : forall j rv, In (j, rv) (job_pending w) -> rv <= api_rv w /\ (rv = api_rv w -> j = api_job w)
}.

Lemma jv_jf w w' : jf w' = jf w -> JV w -> JV w'.
Proof.
  unfold jf. intros E [[C1 C2] P]. injection E as E1 E2 E3 E4 E5. constructor.
  - rewrite E1, E2, E3, E4. auto.
  - rewrite E1, E2, E5. exact P.
Qed.

Lemma jv_upd w j fl : JV w -> JV (upd_job w j (api_rv w + 1) fl).
Proof.
  intros [[C1 C2] P]. constructor; simpl.
  - split; [lia|intros Hx; lia].
  - intros j' rv Hin. apply in_app_or in Hin as [Hin|[[= <- <-]|[]]].
    + destruct (P _ _ Hin) as [P1 P2]. split; [lia|intros Hx; lia].
    + split; [lia|auto].
Qed.

Lemma jv_evol w w' : evol w w' -> JV w -> JV w'.
Proof.
  induction 1 as [w w' E|w w1 w' j fl H IH K E]; intros HV.
  - eapply jv_jf; eauto.
  - eapply jv_jf; [exact E|]. apply jv_upd. auto.
Qed.

(** * frame: the helpers of a pass do not touch the Job fields *)
Ltac jf_same := unfold jf; simpl; reflexivity.

Lemma jf_set_faults w fl : jf (set_faults w fl) = jf w. Proof. jf_same. Qed.
Lemma jf_upd_pods w p s e f : jf (upd_pods w p s e f) = jf w. Proof. jf_same. Qed.

Lemma sync_create_task_jf s j tasks h retry s' j' t' res :
  sync_create_task s j tasks h retry = (s', j', t', res) -> jf (ps_w s') = jf (ps_w s).
Proof.
  unfold sync_create_task.
  destruct (take_fault FCreatePod _); [intros [= <- _ _ _]; jf_same|].
  destruct (take_fault FCreatePodInvalid _); [intros [= <- _ _ _]; jf_same|].
  destruct (has_pod _ _).
  - destruct (find_pod _ _) as [p|]; [destruct (p_controlled p)|]; intros [= <- _ _ _]; jf_same.
  - intros [= <- _ _ _]. jf_same.
Qed.

Lemma create_loop_jf reqs : forall s j tasks now s' j' t' res,
  create_loop s j tasks reqs now = (s', j', t', res) -> jf (ps_w s') = jf (ps_w s).
Proof.
  induction reqs as [|rq r IH]; intros s j tasks now s' j' t' res; simpl.
  - intros [= <- _ _ _]. reflexivity.
  - destruct (match rq_earliest rq with Some e => now <? e | None => false end); [apply IH|].
    destruct (sync_create_task s j tasks (rq_hash rq) (rq_retry rq)) as [[[s1 j1] t1] [|]] eqn:E;
      apply sync_create_task_jf in E.
    + intros H. apply IH in H. congruence.
    + intros [= <- _ _ _]. exact E.
Qed.

Lemma sync_status_w now s j s' j' : sync_status now s j = (s', j') -> ps_w s' = ps_w s.
Proof. unfold sync_status. intros [= <- _]. destruct (ttl_arms _); reflexivity. Qed.
Lemma sync_status_refs_w now s j p s' j' : sync_status_refs now s j p = (s', j') -> ps_w s' = ps_w s.
Proof. apply sync_status_w. Qed.

Lemma sync_create_tasks_jf s j tasks now s' j' t' res :
  sync_create_tasks s j tasks now = (s', j', t', res) -> jf (ps_w s') = jf (ps_w s).
Proof.
  unfold sync_create_tasks. destruct (negb (can_create_task j)); [intros [= <- _ _ _]; reflexivity|].
  destruct (summary _ _ _ _) as [complete succ]. destruct complete; [intros [= <- _ _ _]; reflexivity|].
  destruct (create_loop s j tasks (compute_missing j) now) as [[[s1 j1] t1] [|]] eqn:E; apply create_loop_jf in E.
  - match goal with |- context [sync_status_refs now ?x j1 t1] => destruct (sync_status_refs now x j1 t1) as [s2 j2] eqn:E2 end.
    intros [= <- _ _ _]. apply sync_status_refs_w in E2. rewrite E2.
    destruct (existsb _ _); simpl; exact E.
  - intros [= <- _ _ _]. exact E.
Qed.

Lemma api_delete_pod_jf w n f w' out evs : api_delete_pod w n f = (w', out, evs) -> jf w' = jf w.
Proof.
  unfold api_delete_pod. destruct (find_pod n (api_pods w)) as [p|]; [|intros [= <- _ _]; reflexivity].
  destruct (f || negb (mem_str n (pod_scheduled w))); [intros [= <- _ _]; jf_same|].
  destruct (p_deletion p); intros [= <- _ _]; [reflexivity|jf_same].
Qed.

Lemma delete_tasks_ordered_jf tasks : forall s force now s' ok,
  delete_tasks_ordered s tasks force now = (s', ok) -> jf (ps_w s') = jf (ps_w s).
Proof.
  induction tasks as [|p r IH]; intros s force now s' ok; simpl.
  - intros [= <- _]. reflexivity.
  - destruct (negb force && _); [apply IH|].
    destruct (take_fault FDeletePod _).
    + destruct (delete_tasks_ordered (add_action s _) r force now) as [s1 ok1] eqn:E. intros [= <- _].
      apply IH in E. exact E.
    + destruct (api_delete_pod (ps_w s) (p_name p) force) as [[w' out] evs] eqn:Ed. intros H.
      apply IH in H. simpl in H. apply api_delete_pod_jf in Ed. congruence.
Qed.

Lemma delete_tasks_jf s tasks force now s' ok : delete_tasks s tasks force now = (s', ok) -> jf (ps_w s') = jf (ps_w s).
Proof. apply delete_tasks_ordered_jf. Qed.

Lemma handle_pending_jf cfg s j tasks now s' j' ok : handle_pending cfg s j tasks now = (s', j', ok) -> jf (ps_w s') = jf (ps_w s).
Proof.
  unfold handle_pending. destruct (pending_timeout cfg j <=? 0); [intros [= <- _ _]; reflexivity|].
  set (nd := filter (fun p => now <? p_created p + pending_timeout cfg j) _).
  set (need := filter _ (filter _ tasks)).
  destruct need as [|p r] eqn:En.
  - intros [= <- _ _]. destruct nd; reflexivity.
  - destruct (delete_tasks _ (p :: r) false now) as [s1 ok1] eqn:E. intros [= <- _ _].
    apply delete_tasks_jf in E. rewrite E. destruct nd; reflexivity.
Qed.

Lemma handle_kill_jf s j tasks now s' j' ok : handle_kill s j tasks now = (s', j', ok) -> jf (ps_w s') = jf (ps_w s).
Proof.
  unfold handle_kill. destruct (negb (should_kill now j)); [intros [= <- _ _]; reflexivity|].
  destruct (filter _ tasks) as [|p r]; [intros [= <- _ _]; reflexivity|].
  destruct (delete_tasks _ _ _ _) as [s1 ok1] eqn:E. intros [= <- _ _]. now apply delete_tasks_jf in E.
Qed.

Lemma handle_force_jf cfg s j tasks now s' j' ok : handle_force cfg s j tasks now = (s', j', ok) -> jf (ps_w s') = jf (ps_w s).
Proof.
  unfold handle_force. destruct (force_timeout cfg <=? 0); [intros [= <- _ _]; reflexivity|].
  destruct (j_forbid_force j); [intros [= <- _ _]; reflexivity|].
  match goal with |- context [filter ?f (filter ?g tasks)] => set (dl := filter g tasks) end.
  set (need := filter (fun p => match p_deletion p with Some t => negb (now <? t + force_timeout cfg) | None => false end) dl).
  set (wt := filter (fun p => match p_deletion p with Some t => now <? t + force_timeout cfg | None => false end) dl).
  destruct need as [|p r] eqn:En.
  - intros [= <- _ _]. destruct wt; reflexivity.
  - destruct (delete_tasks _ (p :: r) true now) as [s1 ok1] eqn:E. intros [= <- _ _].
    apply delete_tasks_jf in E. rewrite E. destruct wt; reflexivity.
Qed.

Lemma sync_job_tasks_jf cfg s j now s' j' ok : sync_job_tasks cfg s j now = (s', j', ok) -> jf (ps_w s') = jf (ps_w s).
Proof.
  unfold sync_job_tasks. set (tasks := flat_map _ (j_tasks j)).
  destruct (sync_create_tasks s j tasks now) as [[[s1 j1] t1] [|]] eqn:E1; apply sync_create_tasks_jf in E1;
    [|intros [= <- _ _]; exact E1].
  destruct (sync_status_refs now s1 j1 t1) as [s2 j2] eqn:E2. apply sync_status_refs_w in E2.
  destruct (handle_pending cfg s2 j2 t1 now) as [[s3 j3] ok3] eqn:E3. apply handle_pending_jf in E3.
  destruct (negb ok3); [intros [= <- _ _]; congruence|].
  destruct (handle_kill s3 j3 t1 now) as [[s4 j4] ok4] eqn:E4. apply handle_kill_jf in E4.
  destruct (negb ok4); [intros [= <- _ _]; congruence|].
  destruct (handle_force cfg s4 j4 t1 now) as [[s5 j5] ok5] eqn:E5. apply handle_force_jf in E5.
  destruct (negb ok5); [intros [= <- _ _]; congruence|].
  destruct (sync_status_refs now s5 j5 t1) as [s6 j6] eqn:E6. apply sync_status_refs_w in E6.
  intros [= <- _ _]. congruence.
Qed.

Lemma handle_finalizer_jf s j now s' j' ok : handle_finalizer s j now = (s', j', ok) -> jf (ps_w s') = jf (ps_w s).
Proof.
  unfold handle_finalizer. destruct (j_deletion j); [|intros [= <- _ _]; reflexivity].
  destruct (negb (j_finalizer j)); [intros [= <- _ _]; reflexivity|].
  set (tasks := flat_map _ (j_tasks j)). destruct tasks as [|p r] eqn:Et.
  - destruct (sync_status_refs now s j []) as [s1 j1] eqn:E. intros [= <- _ _]. apply sync_status_refs_w in E. congruence.
  - destruct (sync_status_refs now s _ (p :: r)) as [s1 j2] eqn:E. apply sync_status_refs_w in E.
    destruct (delete_tasks s1 (p :: r) false now) as [s2 ok2] eqn:Ed. apply delete_tasks_jf in Ed.
    intros [= <- _ _]. congruence.
Qed.

(** the API server's Job deletion keeps the recorded names (or removes the Job) *)
Lemma api_delete_job_evol w w' out : api_delete_job w = (w', out) -> evol w w'.
Proof.
  unfold api_delete_job. destruct (api_job w) as [a|] eqn:Ea; [|intros [= <- _]; apply evol_refl].
  destruct (j_finalizer a).
  - destruct (j_deletion a); intros [= <- _]; [apply evol_refl|].
    eapply ev_upd; [apply evol_refl| |reflexivity]. rewrite Ea. simpl. apply jkeeps_same; reflexivity.
  - intros [= <- _]. eapply ev_upd; [apply evol_refl| |reflexivity]. rewrite Ea. simpl. exact I.
Qed.

Lemma handle_ttl_evol cfg s j now s' ok : handle_ttl cfg s j now = (s', ok) -> evol (ps_w s) (ps_w s').
Proof.
  unfold handle_ttl. destruct (j_deletion j); [intros [= <- _]; apply evol_refl|].
  destruct (j_cond j); try (intros [= <- _]; apply evol_refl).
  destruct (now <? _); [intros [= <- _]; apply evol_refl|].
  destruct (take_fault FDeleteJob _); [intros [= <- _]; apply ev_same; jf_same|].
  destruct (api_delete_job (ps_w s)) as [w' out] eqn:E. intros [= <- _]. simpl. now apply api_delete_job_evol in E.
Qed.

Lemma sync_evol cfg s j now s' j' ok : sync cfg s j now = (s', j', ok) -> evol (ps_w s) (ps_w s').
Proof.
  unfold sync.
  destruct (match j_start j, j_deletion j with Some _, None => sync_job_tasks cfg s j now | _, _ => (s, j, true) end)
    as [[s1 j1] ok1] eqn:E1.
  assert (F1 : jf (ps_w s1) = jf (ps_w s)).
  { destruct (j_start j); [destruct (j_deletion j)|]; try (injection E1 as <- _ _; reflexivity).
    now apply sync_job_tasks_jf in E1. }
  destruct (negb ok1); [intros [= <- _ _]; now apply ev_same|].
  destruct (sync_status now s1 j1) as [s2 j2] eqn:E2. apply sync_status_w in E2.
  destruct (handle_ttl cfg s2 j2 now) as [s3 ok3] eqn:E3. apply handle_ttl_evol in E3.
  assert (V3 : evol (ps_w s) (ps_w s3)) by (eapply evol_same_then; [|exact E3]; congruence).
  destruct (negb ok3); [intros [= <- _ _]; exact V3|].
  destruct (handle_finalizer s3 j2 now) as [[s4 j4] ok4] eqn:E4. apply handle_finalizer_jf in E4.
  assert (V4 : evol (ps_w s) (ps_w s4)) by (eapply evol_trans; [exact V3|now apply ev_same]).
  destruct (negb ok4); intros [= <- _ _]; exact V4.
Qed.

(** * one reconcile pass with its two writes *)
Lemma end_pass_jf s : jf (end_pass s) = jf (ps_w s).
Proof.
  unfold end_pass. destruct (existsb _ _); [|jf_same].
  destruct (take_fault FDeletePod _); jf_same.
Qed.

Lemma api_update_job_evol w newj rv w' out : api_update_job w newj rv = (w', out) -> evol w w'.
Proof.
  unfold api_update_job. destruct (api_job w) as [a|] eqn:Ea; [|intros [= <- _]; apply evol_refl].
  destruct (negb (rv =? api_rv w)); [intros [= <- _]; apply evol_refl|].
  destruct (j_deletion a); [destruct (j_finalizer newj)|]; intros [= <- _];
    (eapply ev_upd; [apply evol_refl| |reflexivity]); rewrite Ea; simpl; try exact I;
    apply jkeeps_same; reflexivity.
Qed.

(** a status write is accepted only against the version it was computed from *)
Lemma api_update_status_evol w j newj rv w' out :
  api_update_status w newj rv = (w', out) ->
  (rv = api_rv w -> api_job w = Some j) -> keeps j newj -> evol w w'.
Proof.
  unfold api_update_status. intros H Hj K. destruct (api_job w) as [a|] eqn:Ea; [|injection H as <- _; apply evol_refl].
  destruct (negb (rv =? api_rv w)) eqn:Erv; [injection H as <- _; apply evol_refl|].
  apply negb_false_iff, Z.eqb_eq in Erv. specialize (Hj Erv). injection Hj as <-.
  injection H as <- _. eapply ev_upd; [apply evol_refl| |reflexivity]. rewrite Ea. simpl. split; [exact K|]. split; [auto|split; reflexivity].
Qed.

Theorem sync_one_evol cfg w w' acts ok armed :
  JV w -> sync_one cfg w = (w', acts, ok, armed) -> evol w w'.
Proof.
  intros HV. unfold sync_one. destruct (cache_job w) as [j|] eqn:Ec; [|intros [= <- _ _ _]; apply evol_refl].
  destruct (sync cfg (mkPS w [] false []) j (clock w)) as [[s1 newj] ok1] eqn:Es.
  pose proof (sync_keeps _ _ _ _ _ _ _ Es) as K. pose proof (sync_evol _ _ _ _ _ _ _ Es) as V1. simpl in V1.
  (* UpdateJob *)
  set (upd := if meta_eqb j newj then (s1, true) else _).
  assert (V2 : evol w (ps_w (fst upd))).
  { unfold upd. destruct (meta_eqb j newj); [exact V1|].
    destruct (take_fault FUpdateJob _); [simpl; eapply evol_trans; [exact V1|apply ev_same; jf_same]|].
    destruct (api_update_job (ps_w s1) newj (cache_rv w)) as [wu out] eqn:Eu. simpl.
    eapply evol_trans; [exact V1|now apply api_update_job_evol in Eu]. }
  destruct upd as [s2 ok2]. simpl in V2.
  destruct (negb ok2).
  { intros [= <- _ _ _]. eapply evol_then_same; [exact V2|apply end_pass_jf]. }
  (* UpdateJobStatus *)
  set (st := if status_eqb j newj then (s2, true) else _).
  assert (V3 : evol w (ps_w (fst st))).
  { unfold st. destruct (status_eqb j newj); [exact V2|].
    destruct (take_fault FUpdateStatus _); [simpl; eapply evol_trans; [exact V2|apply ev_same; jf_same]|].
    destruct (api_update_status (ps_w s2) newj (cache_rv w)) as [wu out] eqn:Eu. simpl.
    eapply evol_trans; [exact V2|]. eapply api_update_status_evol; [exact Eu| |exact K].
    (* accepted => nothing has touched the Job since the cache was read => the cached Job is the API's *)
    intros Hrv. destruct (evol_facts _ _ V2) as (F1 & F2 & _ & _ & _).
    destruct (jv_cache w HV) as [C1 C2].
    assert (Ew : api_rv (ps_w s2) = api_rv w) by lia.
    specialize (F2 Ew). unfold jf in F2. injection F2 as F2 _ _ _ _. rewrite F2, <- C2, Ec; [reflexivity|lia]. }
  destruct st as [s3 ok3]. simpl in V3. intros [= <- _ _ _].
  eapply evol_then_same; [exact V3|apply end_pass_jf].
Qed.

(** * every op of the world *)
Lemma kubelet_jf w n k : jf (kubelet w n k) = jf w.
Proof.
  unfold kubelet. destruct (find_pod n (api_pods w)) as [p|]; [|reflexivity].
  destruct k; try jf_same.
  - destruct (mem_str n (pod_scheduled w)); jf_same.
  - destruct (p_deletion p); jf_same.
Qed.

Lemma apply_job_events_in n : forall evs c rest c',
  apply_job_events n evs c = (rest, c') -> (c' = c \/ In c' evs) /\ (forall e, In e rest -> In e evs).
Proof.
  induction n as [|n IH]; intros evs c rest c'; simpl.
  - intros [= <- <-]. auto.
  - destruct evs as [|e r]; [intros [= <- <-]; auto|].
    intros H. destruct (IH _ _ _ _ H) as [[->|Hin] Hr]; split; auto; try (right; now left); try (right; now right);
      intros x Hx; right; auto.
Qed.

Theorem jstep_evol cfg w o : JV w ->
  let w' := fst (fst (fst (jstep cfg w o))) in
  JV w' /\ okeeps (api_job w) (api_job w').
Proof.
  intros HV. destruct o as [t|n k|h r| |t| |n|n|f|]; simpl.
  - split; [eapply jv_jf; [jf_same|exact HV]|apply okeeps_refl].
  - split; [eapply jv_jf; [apply kubelet_jf|exact HV]|]. pose proof (kubelet_jf w n k) as E. unfold jf in E.
    injection E as E _ _ _ _. rewrite E. apply okeeps_refl.
  - destruct (has_pod _ _); simpl; (split; [first [exact HV|eapply jv_jf; [jf_same|exact HV]]|apply okeeps_refl]).
  - destruct (api_job w) as [a|] eqn:Ea; simpl; [|split; [exact HV|rewrite Ea; exact I]].
    destruct (j_start a) eqn:Est; simpl; [split; [exact HV|rewrite Ea; apply jkeeps_refl]|].
    split; [now apply jv_upd|]. split; [apply keeps_same_tasks; reflexivity|]. split; [intros t; rewrite Est; discriminate|split; reflexivity].
  - destruct (api_job w) as [a|] eqn:Ea; simpl; [|split; [exact HV|rewrite Ea; exact I]].
    split; [now apply jv_upd|]. apply jkeeps_same; reflexivity.
  - destruct (api_delete_job w) as [w' out] eqn:E. simpl. apply api_delete_job_evol in E.
    split; [eapply jv_evol; eauto|]. now destruct (evol_facts _ _ E) as (_ & _ & K & _).
  - destruct (apply_job_events n (job_pending w) (cache_job w, cache_rv w)) as [rest [cj crv]] eqn:E. simpl.
    destruct (apply_job_events_in _ _ _ _ _ E) as [Hc Hr]. split; [|apply okeeps_refl].
    destruct HV as [[C1 C2] P]. constructor; simpl.
    + destruct Hc as [[= -> ->]|Hin]; [auto|]. apply (P _ _ Hin).
    + intros j rv Hin. apply P. auto.
  - destruct (apply_pod_events n (pod_pending w) (cache_pods w)) as [rest cache]. simpl.
    split; [eapply jv_jf; [jf_same|exact HV]|apply okeeps_refl].
  - split; [eapply jv_jf; [jf_same|exact HV]|apply okeeps_refl].
  - destruct (sync_one cfg w) as [[[w' acts] ok] armed] eqn:E. simpl. apply (sync_one_evol _ _ _ _ _ _ HV) in E.
    split; [eapply jv_evol; eauto|]. now destruct (evol_facts _ _ E) as (_ & _ & K & _).
Qed.

Fixpoint jrun_world (cfg : jcfg) (w : jworld) (ops : list jop) : jworld :=
  match ops with
  | [] => w
  | o :: r => jrun_world cfg (fst (fst (fst (jstep cfg w o)))) r
  end.

Lemma jv_init j now : JV (init_jworld j now).
Proof. constructor; simpl; [split; [lia|reflexivity]|intros ? ? []]. Qed.

Lemma jrun_keeps cfg ops : forall w, JV w ->
  JV (jrun_world cfg w ops) /\ okeeps (api_job w) (api_job (jrun_world cfg w ops)).
Proof.
  induction ops as [|o r IH]; intros w HV; simpl; [split; [exact HV|apply okeeps_refl]|].
  destruct (jstep_evol cfg w o HV) as [HV' K]. destruct (IH _ HV') as [HV'' K'].
  split; auto. eapply okeeps_trans; eauto.
Qed.

(** C09, over histories: whatever the caches showed, whatever failed, whoever else wrote the
    Job in between - a task that is recorded in the Job's status in the API at some moment is
    recorded at every later moment at which the Job still exists; and a Job that is gone
    stays gone *)
Theorem recorded_forever cfg j0 now ops1 ops2 :
  let w1 := jrun_world cfg (init_jworld j0 now) ops1 in
  let w2 := jrun_world cfg w1 ops2 in
  (forall a1 a2, api_job w1 = Some a1 -> api_job w2 = Some a2 ->
     forall n, In n (map tr_name (j_tasks a1)) -> In n (map tr_name (j_tasks a2))) /\
  (api_job w1 = None -> api_job w2 = None).
Proof.
  intros w1 w2. destruct (jrun_keeps cfg ops1 _ (jv_init j0 now)) as [HV1 _]. fold w1 in HV1.
  destruct (jrun_keeps cfg ops2 w1 HV1) as [_ K]. fold w2 in K. split.
  - intros a1 a2 E1 E2. rewrite E1, E2 in K. simpl in K. destruct K as [K _]. exact K.
  - intros E1. rewrite E1 in K. destruct (api_job w2); [contradiction|reflexivity].
Qed.

(** C11, over histories: the start time of a Job, once set, never changes or disappears while
    the Job exists *)
Theorem start_time_forever cfg j0 now ops1 ops2 :
  let w1 := jrun_world cfg (init_jworld j0 now) ops1 in
  let w2 := jrun_world cfg w1 ops2 in
  forall a1 a2 t, api_job w1 = Some a1 -> api_job w2 = Some a2 -> j_start a1 = Some t -> j_start a2 = Some t.
Proof.
  intros w1 w2 a1 a2 t E1 E2. destruct (jrun_keeps cfg ops1 _ (jv_init j0 now)) as [HV1 _]. fold w1 in HV1.
  destruct (jrun_keeps cfg ops2 w1 HV1) as [_ K]. fold w2 in K. rewrite E1, E2 in K. simpl in K.
  destruct K as (_ & K & _). apply K.
Qed.
