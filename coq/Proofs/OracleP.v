(** The cron oracle glue: next_in / multi_next / get_next are "the least in-window
    match strictly after [from]"; get_next equals a lookup in one merged, window-filtered
    list of fire times. *)
From Furiko Require Import Cron.Sched.
From Coq Require Import Lia Sorting.Sorted.

Definition ssorted (l : list Z) : Prop := StronglySorted Z.lt l.

Lemma ns_lt a b : a < b <-> ns a < ns b.
Proof. unfold ns; lia. Qed.
Lemma ns_le a b : a <= b <-> ns a <= ns b.
Proof. unfold ns; lia. Qed.

(** * next_in *)
Lemma next_in_some l f s :
  next_in l f = Some s -> In s l /\ f < ns s.
Proof.
  induction l as [|x l IH]; simpl; [discriminate|].
  destruct (f <? ns x) eqn:E.
  - intros [= <-]. split; [now left|]. now apply Z.ltb_lt.
  - intros H. destruct (IH H). split; [now right|assumption].
Qed.

Lemma next_in_least l f s :
  ssorted l -> next_in l f = Some s -> forall u, In u l -> f < ns u -> s <= u.
Proof.
  intros Hs; induction Hs as [|x l Hs IH Hx]; simpl; [discriminate|].
  destruct (f <? ns x) eqn:E.
  - intros [= <-] u [<-|Hu] Hf; [lia|].
    rewrite Forall_forall in Hx. specialize (Hx _ Hu). lia.
  - intros H u [<-|Hu] Hf.
    + apply Z.ltb_ge in E. lia.
    + now apply IH.
Qed.

Lemma next_in_none l f : next_in l f = None -> forall u, In u l -> ns u <= f.
Proof.
  induction l as [|x l IH]; simpl; [intros _ u []|].
  destruct (f <? ns x) eqn:E; [discriminate|].
  intros H u [<-|Hu]; [now apply Z.ltb_ge in E|now apply IH].
Qed.

(** * multi_next *)
Definition matches (es : list (list Z)) (t : Z) : Prop := exists e, In e es /\ In t e.

Definition least_after (P : Z -> Prop) (f : Z) (r : option Z) : Prop :=
  match r with
  | Some s => P s /\ f < ns s /\ forall u, P u -> f < ns u -> s <= u
  | None => forall u, P u -> ns u <= f
  end.

Lemma least_after_unique P f r1 r2 : least_after P f r1 -> least_after P f r2 -> r1 = r2.
Proof.
  destruct r1 as [a|], r2 as [b|]; simpl.
  - intros (Pa & Fa & La) (Pb & Fb & Lb). f_equal.
    specialize (La _ Pb Fb). specialize (Lb _ Pa Fa). lia.
  - intros (Pa & Fa & _) H. specialize (H _ Pa). lia.
  - intros H (Pb & Fb & _). specialize (H _ Pb). lia.
  - reflexivity.
Qed.

Lemma multi_next_acc_spec es f acc (Q : Z -> Prop) :
  Forall ssorted es ->
  least_after Q f acc ->
  least_after (fun t => Q t \/ matches es t) f (multi_next_acc es f acc).
Proof.
  intros Hs; revert acc Q; induction Hs as [|e es He Hes IH]; intros acc Q Hacc; cbn [multi_next_acc].
  - destruct acc as [a|]; simpl in *.
    + destruct Hacc as (Qa & Fa & La). repeat split; auto.
      intros u [Hu|(e & [] & _)] Hf. now apply La.
    + intros u [Hu|(e & [] & _)]. now apply Hacc.
  - set (acc' := match next_in e f with Some n => min_nonzero (Some n) acc | None => acc end).
    assert (Hacc' : least_after (fun t => Q t \/ In t e) f acc').
    { unfold acc'. destruct (next_in e f) as [n|] eqn:En.
      - destruct (next_in_some _ _ _ En) as [Hin Hf].
        pose proof (next_in_least _ _ _ He En) as Hl.
        destruct acc as [a|]; simpl in *.
        + destruct Hacc as (Qa & Fa & La).
          destruct (n <? a) eqn:Ena; simpl.
          * apply Z.ltb_lt in Ena. repeat split; auto.
            intros u [Hu|Hu] Hfu; [specialize (La _ Hu Hfu); lia|now apply Hl].
          * apply Z.ltb_ge in Ena. repeat split; auto.
            intros u [Hu|Hu] Hfu; [now apply La|specialize (Hl _ Hu Hfu); lia].
        + repeat split; auto. intros u [Hu|Hu] Hfu; [specialize (Hacc _ Hu); lia|now apply Hl].
      - pose proof (next_in_none _ _ En) as Hn.
        destruct acc as [a|]; simpl in *.
        + destruct Hacc as (Qa & Fa & La). repeat split; auto.
          intros u [Hu|Hu] Hfu; [now apply La|specialize (Hn _ Hu); lia].
        + intros u [Hu|Hu]; [now apply Hacc|now apply Hn]. }
    specialize (IH acc' _ Hacc').
    assert (Heq : forall t, ((Q t \/ In t e) \/ matches es t) <-> (Q t \/ matches (e :: es) t)).
    { intros t; unfold matches; split.
      - intros [[H|H]|(e' & He' & Ht)]; auto.
        + right; exists e; split; [now left|assumption].
        + right; exists e'; split; [now right|assumption].
      - intros [H|(e' & [<-|He'] & Ht)]; auto. right; exists e'; auto. }
    destruct (multi_next_acc es f acc') as [s|]; unfold least_after in IH |- *.
    + destruct IH as (Ps & Fs & Ls).
      refine (conj (proj1 (Heq s) Ps) (conj Fs _)).
      intros u Hu Hfu. exact (Ls u (proj2 (Heq u) Hu) Hfu).
    + intros u Hu. exact (IH u (proj2 (Heq u) Hu)).
Qed.

(** multiExpression.Next is the least match of the union of the expressions. *)
Lemma multi_next_spec es f :
  Forall ssorted es -> least_after (matches es) f (multi_next es f).
Proof.
  intros Hs. unfold multi_next.
  pose proof (multi_next_acc_spec es f None (fun _ => False) Hs) as H.
  simpl in H. specialize (H (fun u (F : False) => match F with end)).
  destruct (multi_next_acc es f None) as [s|]; simpl in *.
  - destruct H as ([[]|Hm] & Hf & Hl). repeat split; auto.
  - intros u Hu. apply H. now right.
Qed.

(** * get_next *)
Definition inwin (jc : jobconfig) (t : Z) : bool :=
  (match jc_nbf jc with Some nbf => nbf <=? ns t | None => true end)
  && (match jc_naf jc with Some naf => ns t <=? naf | None => true end).

Definition fires (jc : jobconfig) (t : Z) : Prop :=
  jc_active jc = true /\ matches (jc_exprs jc) t /\ inwin jc t = true.

Definition jc_sorted (jc : jobconfig) : Prop := Forall ssorted (jc_exprs jc).

(** getNext returns the least in-window match strictly after [from] (after the fix:
    also on the re-base paths), or nothing when there is none. *)
Lemma get_next_spec jc f : jc_sorted jc -> least_after (fires jc) f (get_next jc f).
Proof.
  intros Hs. unfold get_next, fires.
  destruct (jc_active jc) eqn:Ea; [|simpl; intros u (H & _); discriminate].
  pose proof (multi_next_spec _ f Hs) as H1.
  destruct (multi_next (jc_exprs jc) f) as [s|] eqn:E1; simpl in H1.
  2:{ simpl. intros u (_ & Hm & _). now apply H1. }
  destruct H1 as (Ms & Fs & Ls).
  (* the notBefore step *)
  set (r := match jc_nbf jc with
            | Some nbf => if ns s <? nbf then multi_next (jc_exprs jc) (nbf - 1) else Some s
            | None => Some s end).
  assert (Hr : least_after (fun t => matches (jc_exprs jc) t /\
                 (match jc_nbf jc with Some nbf => nbf <=? ns t | None => true end) = true) f r).
  { unfold r. destruct (jc_nbf jc) as [nbf|]; simpl.
    - destruct (ns s <? nbf) eqn:En.
      + apply Z.ltb_lt in En.
        pose proof (multi_next_spec _ (nbf - 1) Hs) as H2.
        destruct (multi_next (jc_exprs jc) (nbf - 1)) as [s2|]; simpl in *.
        * destruct H2 as (M2 & F2 & L2). repeat split; auto.
          -- apply Z.leb_le. lia.
          -- lia.
          -- intros u (Mu & Wu) Hfu. apply Z.leb_le in Wu. apply L2; auto. lia.
        * intros u (Mu & Wu). apply Z.leb_le in Wu. specialize (H2 _ Mu). lia.
      + apply Z.ltb_ge in En. simpl. repeat split; auto.
        * now apply Z.leb_le.
        * intros u (Mu & _) Hfu. now apply Ls.
    - repeat split; auto. intros u (Mu & _) Hfu. now apply Ls. }
  destruct r as [s2|]; simpl in Hr.
  2:{ simpl. intros u (_ & Mu & Wu). apply Hr. split; auto.
      unfold inwin in Wu. now apply andb_prop in Wu as [Wu _]. }
  destruct Hr as ((M2 & W2) & F2 & L2).
  unfold inwin.
  destruct (jc_naf jc) as [naf|]; simpl.
  - destruct (naf <? ns s2) eqn:En; simpl.
    + apply Z.ltb_lt in En. intros u (_ & Mu & Wu).
      apply andb_prop in Wu as [Wu1 Wu2]. apply Z.leb_le in Wu2.
      destruct (Z_lt_le_dec f (ns u)) as [Hfu|]; [|assumption].
      assert (s2 <= u) by (apply L2; auto). apply ns_le in H. lia.
    + apply Z.ltb_ge in En. repeat split; auto.
      * rewrite W2. simpl. now apply Z.leb_le.
      * intros u (_ & Mu & Wu) Hfu. apply andb_prop in Wu as [Wu1 _]. apply L2; auto.
  - repeat split; auto.
    + now rewrite W2.
    + intros u (_ & Mu & Wu) Hfu. apply andb_prop in Wu as [Wu1 _]. apply L2; auto.
Qed.

(** * One merged list of fire times *)
Fixpoint ins (x : Z) (l : list Z) : list Z :=
  match l with
  | [] => [x]
  | y :: r => if x <? y then x :: l else if x =? y then l else y :: ins x r
  end.
Definition merge_all (es : list (list Z)) : list Z :=
  fold_right (fun e acc => fold_right ins acc e) [] es.

Lemma ins_in x l t : In t (ins x l) <-> t = x \/ In t l.
Proof.
  induction l as [|y r IH]; simpl; [intuition|].
  destruct (x <? y) eqn:E1; simpl; [intuition|].
  destruct (x =? y) eqn:E2; simpl.
  - apply Z.eqb_eq in E2; subst. intuition.
  - rewrite IH. intuition.
Qed.

Lemma ins_sorted x l : ssorted l -> ssorted (ins x l).
Proof.
  intros H; induction H as [|y r Hr IH Hy]; simpl.
  - constructor; constructor.
  - destruct (x <? y) eqn:E1.
    + apply Z.ltb_lt in E1. constructor; [constructor; assumption|].
      constructor; [assumption|]. rewrite Forall_forall in *. intros u Hu. specialize (Hy _ Hu). lia.
    + destruct (x =? y) eqn:E2; [constructor; assumption|].
      apply Z.ltb_ge in E1. apply Z.eqb_neq in E2.
      constructor; [assumption|]. rewrite Forall_forall in *. intros u Hu.
      apply ins_in in Hu as [->|Hu]; [lia|now apply Hy].
Qed.

Lemma fold_ins_in e acc t : In t (fold_right ins acc e) <-> In t e \/ In t acc.
Proof. induction e as [|x e IH]; simpl; [intuition|]. rewrite ins_in, IH. intuition. Qed.
Lemma fold_ins_sorted e acc : ssorted acc -> ssorted (fold_right ins acc e).
Proof. intros H; induction e; simpl; auto using ins_sorted. Qed.

Lemma merge_all_in es t : In t (merge_all es) <-> matches es t.
Proof.
  unfold matches. induction es as [|e es IH]; simpl.
  - split; [intros []|intros (e & [] & _)].
  - rewrite fold_ins_in, IH. split.
    + intros [H|(e' & He' & Ht)]; [exists e; auto|exists e'; auto].
    + intros (e' & [<-|He'] & Ht); [auto|right; exists e'; auto].
Qed.
Lemma merge_all_sorted es : ssorted (merge_all es).
Proof. induction es; simpl; [constructor|now apply fold_ins_sorted]. Qed.

(** all fire times of a JobConfig, ascending, without duplicates *)
Definition fires_of (jc : jobconfig) : list Z :=
  if jc_active jc then filter (inwin jc) (merge_all (jc_exprs jc)) else [].

Lemma filter_sorted (p : Z -> bool) l : ssorted l -> ssorted (filter p l).
Proof.
  intros H; induction H as [|y r Hr IH Hy]; simpl; [constructor|].
  destruct (p y); auto. constructor; auto.
  rewrite Forall_forall in *. intros u Hu. apply filter_In in Hu as [Hu _]. auto.
Qed.

Lemma fires_of_sorted jc : ssorted (fires_of jc).
Proof. unfold fires_of. destruct (jc_active jc); [|constructor]. apply filter_sorted, merge_all_sorted. Qed.

Lemma fires_of_in jc t : In t (fires_of jc) <-> fires jc t.
Proof.
  unfold fires_of, fires. destruct (jc_active jc).
  - rewrite filter_In, merge_all_in. intuition.
  - simpl. intuition discriminate.
Qed.

Definition first_after (f : Z) (l : list Z) : option Z := find (fun t => f <? ns t) l.

Lemma first_after_spec f l :
  ssorted l -> least_after (fun t => In t l) f (first_after f l).
Proof.
  intros H; induction H as [|y r Hr IH Hy]; simpl; [intros u []|].
  unfold first_after in *. simpl.
  destruct (f <? ns y) eqn:E; simpl.
  - apply Z.ltb_lt in E. repeat split; auto.
    intros u [<-|Hu] _; [lia|]. rewrite Forall_forall in Hy. specialize (Hy _ Hu). lia.
  - apply Z.ltb_ge in E. destruct (find _ r) as [s|]; simpl in *.
    + destruct IH as (Is & Fs & Ls). repeat split; auto.
      intros u [<-|Hu] Hfu; [lia|now apply Ls].
    + intros u [<-|Hu]; [assumption|now apply IH].
Qed.

(** getNext is a lookup in the merged list. *)
Theorem get_next_first_after jc f :
  jc_sorted jc -> get_next jc f = first_after f (fires_of jc).
Proof.
  intros Hs. eapply least_after_unique with (P := fires jc).
  - now apply get_next_spec.
  - pose proof (first_after_spec f _ (fires_of_sorted jc)) as H.
    destruct (first_after f (fires_of jc)) as [s|]; simpl in *.
    + destruct H as (Is & Fs & Ls).
      refine (conj (proj1 (fires_of_in jc s) Is) (conj Fs _)).
      intros u Hu. apply Ls. exact (proj2 (fires_of_in jc u) Hu).
    + intros u Hu. apply H. exact (proj2 (fires_of_in jc u) Hu).
Qed.
