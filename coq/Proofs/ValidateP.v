(** C17: whatever validation accepts the scheduler can load and the Job factory can
    instantiate; an accepted update leaves the immutable fields alone. *)
From Furiko Require Import Admission.Validate Proofs.OptionsP.
From Coq Require Import Lia.
Open Scope list_scope.
Open Scope Z_scope.

Lemma forallb_impl {A} (f g : A -> bool) l : (forall x, f x = true -> g x = true) -> forallb f l = true -> forallb g l = true.
Proof. intros H. induction l as [|x r IH]; simpl; auto. intros E. apply andb_true_iff in E as [E1 E2]. rewrite (H _ E1). auto. Qed.

(** an accepted schedule loads under the JobConfig's own key: validation parses every
    expression with that key too (and with the empty id); the configured default time zone
    must parse *)
Lemma parses_for_hash o hash e : nonempty_s hash = true -> parses_for o hash e = true -> or_parse o hash e = true.
Proof. unfold parses_for. intros Hh H. apply andb_true_iff in H as [_ H]. rewrite Hh in H. exact H. Qed.

Lemma accepted_loadable o hash s :
  nonempty_s hash = true ->
  or_tz o (or_default_tz o) = true ->
  valid_sched o hash s = true -> loadable o hash s = true.
Proof.
  intros Hh Htz. unfold valid_sched, loadable. destruct s as [s|]; auto.
  destruct (as_cron s) as [[[e es] tz]|]; [|intros H; discriminate H].
  intros Hv. destruct (as_disabled s); auto. unfold valid_cron in Hv.
  apply andb_true_iff in Hv as [Hv Htzv]. apply andb_true_iff in Hv as [Hv Hes]. apply andb_true_iff in Hv as [Hn He].
  apply andb_true_iff. split.
  - unfold get_expressions. destruct (nonempty_s e) eqn:Ee.
    + simpl. rewrite andb_true_r. simpl in He. now apply parses_for_hash.
    + eapply forallb_impl; [|exact Hes]. intros x. now apply parses_for_hash.
  - destruct (nonempty_s tz); auto.
Qed.

(** before the repair (finding F18) validation tried the empty hash id only; the real parser
    accepts "H(0-0)/2 * * * *" with some ids and rejects it with others, so an accepted JobConfig
    could fail to load.  In the model: an oracle with such an expression, old rule vs. loading. *)
Definition f18_oracle : oracles :=
  mkOr (fun h e => String.eqb e "H(0-0)/2 * * * *" && String.eqb h "") (fun tz => String.eqb tz "UTC") "UTC".
Lemma f18_witness :
  or_parse f18_oracle "" "H(0-0)/2 * * * *" = true /\
  loadable f18_oracle "ns/jc" (Some (mkAS (Some ("H(0-0)/2 * * * *", [], "")) false)) = false /\
  valid_sched f18_oracle "ns/jc" (Some (mkAS (Some ("H(0-0)/2 * * * *", [], "")) false)) = false.
Proof. vm_compute. repeat split; reflexivity. Qed.

Lemma valid_jc_parts o hash jc : valid_jc o hash jc = true ->
  (String.length (ac_name jc) <= 49)%nat /\ valid_tmpl (ac_tmpl jc) = true /\
  valid_conc (ac_policy jc) (ac_maxc jc) = true /\ valid_sched o hash (ac_sched jc) = true /\
  valid_options (ac_opts jc) = true.
Proof.
  unfold valid_jc. intros H.
  repeat match type of H with _ && _ = true => apply andb_true_iff in H as [H ?] end.
  repeat split; auto. now apply Nat.leb_le.
Qed.

Theorem jc_accepted_loadable o hash jc :
  nonempty_s hash = true ->
  or_tz o (or_default_tz o) = true ->
  valid_jc o hash jc = true -> loadable o hash (ac_sched jc) = true.
Proof. intros Hh Htz Hv. apply accepted_loadable; auto. now destruct (valid_jc_parts _ _ _ Hv) as (_ & _ & _ & H & _). Qed.

(** accepted options always have renderable defaults: NewJobFromJobConfig cannot fail *)
Lemma valid_option_default oe : valid_option oe = true -> exists s, eval_default (fst oe) = Ok s.
Proof.
  destruct oe as [o extra]. unfold valid_option, eval_default. simpl. intros H.
  destruct (o_type o) as [f tv fv d|d tr|d vs cu|d vs cu de|]; eauto.
  apply andb_true_iff in H as [_ H]. apply andb_true_iff in H as [H _].
  destruct f; try discriminate H; simpl; eauto.
Qed.

Lemma valid_options_defaults opts : forall seen, valid_options_seen seen opts = true ->
  exists m, default_subs (map fst opts) = Some m.
Proof.
  induction opts as [|oe r IH]; intros seen; simpl; [eauto|].
  destruct (mem _ seen); [intros H; discriminate H|]. intros H. apply andb_true_iff in H as [H1 H2].
  destruct (valid_option_default _ H1) as [s Hs]. destruct (IH _ H2) as [m Hm].
  rewrite Hs, Hm. eauto.
Qed.

Theorem jc_accepted_instantiable o hash jc :
  valid_jc o hash jc = true -> exists m, default_subs (map fst (ac_opts jc)) = Some m.
Proof. intros Hv. destruct (valid_jc_parts _ _ _ Hv) as (_ & _ & _ & _ & H). now apply (valid_options_defaults _ []). Qed.

(** accepted option names are distinct *)
Lemma valid_options_nodup opts : forall seen, valid_options_seen seen opts = true ->
  NoDup (map (fun oe => o_name (fst oe)) opts) /\ forall oe, In oe opts -> ~ In (o_name (fst oe)) seen.
Proof.
  induction opts as [|oe r IH]; intros seen; simpl.
  - intros _. split; [constructor|intros ? []].
  - destruct (mem (o_name (fst oe)) seen) eqn:Em; [intros H; discriminate H|]. intros H.
    apply andb_true_iff in H as [_ H]. destruct (IH _ H) as [I1 I2]. split.
    + constructor; auto. intros Hin. apply in_map_iff in Hin as (x & Ex & Hx).
      apply (I2 x Hx). left. now rewrite Ex.
    + intros x [<-|Hx].
      * intros Hin. apply mem_spec in Hin. congruence.
      * intros Hin. apply (I2 x Hx). now right.
Qed.

(** an accepted update changes none of the immutable fields *)
Theorem update_immutable now o n :
  update_ok now o n = true ->
  jv_label_uid n = jv_label_uid o /\ jv_config_name n = jv_config_name o /\ jv_type n = jv_type o /\
  jv_option_values n = jv_option_values o /\ jv_subs n = jv_subs o /\
  jv_task_template n = jv_task_template o /\ jv_parallelism n = jv_parallelism o /\
  jv_max_attempts n = jv_max_attempts o /\ jv_retry_delay n = jv_retry_delay o /\
  (jv_started n = true -> jv_start_policy n = jv_start_policy o) /\
  (forall k, jv_kill o = Some k -> k < now -> jv_kill n = Some k).
Proof.
  unfold update_ok. intros H.
  repeat match type of H with _ && _ = true => apply andb_true_iff in H as [H ?] end.
  repeat match goal with E : (_ =? _) = true |- _ => apply Z.eqb_eq in E end.
  repeat split; auto.
  - intros Hs. match goal with E : negb (jv_started n) || _ = true |- _ => rewrite Hs in E; simpl in E; now apply Z.eqb_eq in E end.
  - intros k Hk Hlt.
    match goal with E : negb _ = true |- _ => rewrite Hk in E; apply negb_true_iff in E end.
    match goal with E : _ && _ = false |- _ =>
      apply andb_false_iff in E as [E|E]; [apply Z.ltb_ge in E; lia|apply negb_false_iff in E] end.
    destruct (jv_kill n) as [k'|]; simpl in *; try discriminate. f_equal. symmetry. now apply Z.eqb_eq.
Qed.

(** and an update that changes none of them - whatever else it changes - is accepted *)
Theorem update_accepts_unchanged now o n :
  jv_label_uid n = jv_label_uid o -> jv_config_name n = jv_config_name o -> jv_type n = jv_type o ->
  jv_option_values n = jv_option_values o -> jv_subs n = jv_subs o ->
  jv_task_template n = jv_task_template o -> jv_parallelism n = jv_parallelism o ->
  jv_max_attempts n = jv_max_attempts o -> jv_retry_delay n = jv_retry_delay o ->
  jv_start_policy n = jv_start_policy o -> jv_kill n = jv_kill o ->
  update_ok now o n = true.
Proof.
  intros. unfold update_ok. repeat match goal with E : _ = _ |- _ => rewrite E; clear E end.
  rewrite !Z.eqb_refl. simpl. rewrite orb_true_r, andb_true_r.
  destruct (jv_kill o) as [k|]; simpl; auto. rewrite Z.eqb_refl. simpl. now rewrite andb_false_r.
Qed.
