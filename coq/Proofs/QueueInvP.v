(** C05, the history invariant: the active-job counter never under-counts.
    Phi:  counter + (effect of the events the store has not seen yet) = number of owned active
    Jobs in the API; every pending effect is <= 0; hence  active(API) <= counter  in every
    reachable world, and every Forbid/Enqueue start keeps active(API) <= maxConcurrency. *)
From Furiko Require Import Queue.World Proofs.QueueP.
From Coq Require Import Lia.
Open Scope list_scope.
Open Scope Z_scope.

Definition owned_active (j : qjob) : bool := q_owned j && is_active j.
Definition b2z (b : bool) : Z := if b then 1 else 0.
Definition acount (l : list qjob) : Z := fold_right (fun j acc => b2z (owned_active j) + acc) 0 l.

(** the effect of one event on the counter *)
Definition delta (e : jevent) : Z := store_event 0 e.
Definition dsum (l : list jevent) : Z := fold_right (fun e acc => delta e + acc) 0 l.

Lemma store_event_delta ctr e : store_event ctr e = ctr + delta e.
Proof.
  unfold delta. destruct e as [j|o n|j]; simpl; try lia.
  - destruct (negb (q_owned o)); [lia|]. destruct (is_active o && negb (is_active n)); [lia|].
    destruct (negb (is_active o) && is_active n && _); lia.
  - destruct (q_owned j && is_active j); lia.
Qed.

Lemma dsum_app a b : dsum (a ++ b) = dsum a + dsum b.
Proof. induction a as [|x r IH]; simpl; lia. Qed.

(** * counting under set_job / del_job *)
Definition ids (l : list qjob) := map q_id l.

Lemma find_job_in id l a : find_job id l = Some a -> In a l /\ q_id a = id.
Proof.
  induction l as [|x r IH]; simpl; [intros H; discriminate H|].
  destruct (q_id x =? id) eqn:E.
  - intros [= <-]. split; [now left|now apply Z.eqb_eq].
  - intros H. destruct (IH H). split; auto.
Qed.

Lemma find_job_none id l : find_job id l = None -> ~ In id (ids l).
Proof.
  induction l as [|x r IH]; simpl; [tauto|]. destruct (q_id x =? id) eqn:E; [intros H; discriminate H|].
  intros H [Hx|Hx]; [apply Z.eqb_neq in E; congruence|now apply IH].
Qed.

Lemma acount_app a b : acount (a ++ b) = acount a + acount b.
Proof. induction a as [|x r IH]; simpl; lia. Qed.

Lemma map_replace_notin j l :
  ~ In (q_id j) (ids l) -> map (fun x => if q_id x =? q_id j then j else x) l = l.
Proof.
  induction l as [|x r IH]; simpl; auto. intros H.
  destruct (q_id x =? q_id j) eqn:E; [apply Z.eqb_eq in E; tauto|]. f_equal. apply IH. tauto.
Qed.

Lemma acount_replace j l a :
  NoDup (ids l) -> find_job (q_id j) l = Some a ->
  acount (map (fun x => if q_id x =? q_id j then j else x) l) = acount l - b2z (owned_active a) + b2z (owned_active j).
Proof.
  induction l as [|x r IH]; simpl; [intros _ H; discriminate H|]. intros Hn Hf.
  apply NoDup_cons_iff in Hn as [Hx Hn]. destruct (q_id x =? q_id j) eqn:E.
  - injection Hf as <-. apply Z.eqb_eq in E. rewrite map_replace_notin by (rewrite <- E; exact Hx). lia.
  - rewrite (IH Hn Hf). lia.
Qed.

Lemma ids_replace j l : ids (map (fun x => if q_id x =? q_id j then j else x) l) = ids l.
Proof.
  unfold ids. rewrite map_map. apply map_ext_in. intros x _.
  destruct (q_id x =? q_id j) eqn:E; auto. now apply Z.eqb_eq in E.
Qed.

Lemma set_job_ids_nodup j l : NoDup (ids l) -> NoDup (ids (set_job j l)).
Proof.
  intros H. unfold set_job. destruct (find_job (q_id j) l) eqn:E.
  - now rewrite ids_replace.
  - unfold ids. rewrite map_app. simpl. apply find_job_none in E.
    clear - H E. induction l as [|x r IH]; simpl in *.
    + repeat constructor. intros [].
    + apply NoDup_cons_iff in H as [H1 H2]. constructor.
      * intros Hin. apply in_app_iff in Hin as [Hin|[Hin|[]]]; [tauto|]. apply E. left. auto.
      * apply IH; tauto.
Qed.

Lemma acount_set_job j l :
  NoDup (ids l) ->
  acount (set_job j l) =
  acount l - match find_job (q_id j) l with Some a => b2z (owned_active a) | None => 0 end + b2z (owned_active j).
Proof.
  intros H. unfold set_job. destruct (find_job (q_id j) l) as [a|] eqn:E.
  - now apply acount_replace.
  - rewrite acount_app. simpl. lia.
Qed.

Lemma del_job_ids_nodup id l : NoDup (ids l) -> NoDup (ids (del_job id l)).
Proof.
  unfold del_job, ids. induction l as [|x r IH]; simpl; auto. intros H. apply NoDup_cons_iff in H as [H1 H2].
  destruct (negb (q_id x =? id)); simpl; auto. constructor; auto.
  intros Hin. apply H1. apply in_map_iff in Hin as (y & Ey & Hy). apply filter_In in Hy as [Hy _].
  rewrite <- Ey. now apply in_map.
Qed.

Lemma acount_del_job id l a :
  NoDup (ids l) -> find_job id l = Some a -> acount (del_job id l) = acount l - b2z (owned_active a).
Proof.
  unfold del_job. induction l as [|x r IH]; simpl; [intros _ H; discriminate H|]. intros Hn Hf.
  apply NoDup_cons_iff in Hn as [Hx Hn]. destruct (q_id x =? id) eqn:E; simpl.
  - injection Hf as <-. apply Z.eqb_eq in E.
    assert (Hr : filter (fun y => negb (q_id y =? id)) r = r).
    { clear - Hx E. induction r as [|y t IH]; simpl in *; auto.
      destruct (q_id y =? id) eqn:Ey; simpl.
      - apply Z.eqb_eq in Ey. exfalso. apply Hx. left. congruence.
      - f_equal. apply IH. tauto. }
    rewrite Hr. lia.
  - rewrite (IH Hn Hf). lia.
Qed.

(** * the invariant *)
Definition replay (evs : list jevent) (c : list qjob) : list qjob := fold_left apply_cache evs c.

Record QInv (w : qworld) : Prop := {
  qi_nodup : NoDup (ids (qa_jobs w));
  qi_replay : replay (qc_pending w) (qc_jobs w) = qa_jobs w;
  qi_phi : acount (qa_jobs w) <= q_counter w + dsum (qs_pending w) + dsum (qc_pending w);
  qi_neg : Forall (fun e => delta e <= 0) (qs_pending w ++ qc_pending w)
}.

Lemma replay_app evs e c : replay (evs ++ [e]) c = apply_cache (replay evs c) e.
Proof. unfold replay. now rewrite fold_left_app. Qed.

Lemma qinv_init now m : QInv (init_qworld now m).
Proof. constructor; simpl; auto; try constructor; lia. Qed.

(** a fresh API write: the new API list and its event keep the replay *)
Lemma qinv_with_api w jobs ev fl ctr :
  QInv w -> NoDup (ids jobs) -> apply_cache (qa_jobs w) ev = jobs -> delta ev <= 0 ->
  acount jobs <= ctr + dsum (qs_pending w) + dsum (qc_pending w) + delta ev ->
  QInv (with_api w jobs ev fl ctr).
Proof.
  intros [I1 I2 I3 I4] Hn Ha Hd Hphi. constructor; simpl; auto.
  - now rewrite replay_app, I2.
  - rewrite dsum_app. simpl. lia.
  - rewrite app_assoc. apply Forall_app. split; auto.
Qed.

Lemma qinv_with_ctr w fl : QInv w -> QInv (with_ctr w (q_counter w) fl).
Proof. intros [I1 I2 I3 I4]. constructor; simpl; auto. Qed.

(** the update events the controller and the job controller produce have effect <= 0, and
    exactly compensate the change of the API count together with the counter change *)
Lemma delta_upd_same_activity a a' :
  is_active a' = is_active a -> delta (EUpd a a') = 0.
Proof.
  intros E. unfold delta. simpl. destruct (negb (q_owned a)); auto. rewrite E.
  destruct (is_active a); simpl; auto.
Qed.

Lemma delta_start a t rv :
  is_started a = false ->
  let a' := mkQJ (q_id a) (q_owned a) (q_created a) (q_policy a) (q_start_after a) (Some t) (q_terminal a) (q_adm_err a) rv in
  delta (EUpd a a') = 0.
Proof.
  intros Hs a'. unfold delta. simpl. destruct (negb (q_owned a)); auto.
  unfold is_active. rewrite Hs. simpl. destruct (negb (q_terminal a)); reflexivity.
Qed.

(** api_write with an activity-preserving update, or a start of an unstarted Job *)
Lemma qinv_api_write w cj upd fl ctr w' out :
  QInv w -> api_write w cj upd fl ctr = (w', out) ->
  (forall a, q_id (upd a) = q_id a /\ q_owned (upd a) = q_owned a /\ q_terminal (upd a) = q_terminal a) ->
  (* the counter offered accounts for the change in activity *)
  (forall a, find_job (q_id cj) (qa_jobs w) = Some a ->
     delta (EUpd a (upd a)) = 0 /\
     q_counter w + b2z (owned_active (upd a)) - b2z (owned_active a) <= ctr) ->
  (out = 0 -> QInv w') /\ (out <> 0 -> w' = with_ctr w ctr fl).
Proof.
  intros HI Hw Hupd Hctr. unfold api_write in Hw.
  destruct (find_job (q_id cj) (qa_jobs w)) as [a|] eqn:Ef.
  - destruct (negb (q_rv a =? q_rv cj)) eqn:Erv.
    + injection Hw as <- <-. split; [intros H; discriminate H|auto].
    + clear Erv. destruct (Hctr a eq_refl) as [Hd Hc].
      destruct (Hupd a) as (Hid & Hown & Hterm).
      set (a'' := mkQJ _ _ _ _ _ _ _ _ _) in Hw. injection Hw as <- <-. split; [intros _|intros H; congruence].
      assert (Eid : q_id a'' = q_id a) by (unfold a''; simpl; exact Hid).
      assert (Eoa : owned_active a'' = owned_active (upd a)) by reflexivity.
      assert (Ed : delta (EUpd a a'') = delta (EUpd a (upd a))) by reflexivity.
      destruct (find_job_in _ _ _ Ef) as [_ Hida].
      apply qinv_with_api; auto.
      * apply set_job_ids_nodup. apply HI.
      * rewrite Ed, Hd. lia.
      * rewrite acount_set_job by apply HI. rewrite Eid, Hida, Ef, Ed, Hd, Eoa.
        pose proof (qi_phi w HI). lia.
  - injection Hw as <- <-. split; [intros H; discriminate H|auto].
Qed.

Lemma acount_le_counter w : QInv w -> acount (qa_jobs w) <= q_counter w.
Proof.
  intros [_ _ H3 H4]. assert (E : dsum (qs_pending w) + dsum (qc_pending w) <= 0).
  { rewrite <- dsum_app. induction (qs_pending w ++ qc_pending w) as [|e r IH]; simpl; [lia|].
    apply Forall_cons_iff in H4 as [H4a H4b]. specialize (IH H4b). lia. }
  lia.
Qed.

(** the start write: effect-free event, the API count grows by at most the counter's +1 *)
Lemma start_write_ok w t a :
  delta (EUpd a (set_started t a)) = 0 /\
  q_counter w + b2z (owned_active (set_started t a)) - b2z (owned_active a) <= q_counter w + 1.
Proof.
  split.
  - destruct (is_started a) eqn:Es.
    + apply delta_upd_same_activity. unfold is_active, set_started, is_started in *. simpl. now rewrite Es.
    + apply (delta_start a t (q_rv a) Es).
  - unfold owned_active, set_started, is_active, is_started. simpl.
    destruct (q_owned a), (q_started a), (q_terminal a); simpl; lia.
Qed.

Lemma adm_write_ok w a :
  delta (EUpd a (set_adm a)) = 0 /\
  q_counter w + b2z (owned_active (set_adm a)) - b2z (owned_active a) <= q_counter w.
Proof.
  split; [now apply delta_upd_same_activity|]. unfold owned_active, set_adm, is_active, is_started. simpl. lia.
Qed.

Lemma upd_keeps_started t a : q_id (set_started t a) = q_id a /\ q_owned (set_started t a) = q_owned a /\ q_terminal (set_started t a) = q_terminal a.
Proof. auto. Qed.
Lemma upd_keeps_adm a : q_id (set_adm a) = q_id a /\ q_owned (set_adm a) = q_owned a /\ q_terminal (set_adm a) = q_terminal a.
Proof. auto. Qed.

Lemma qinv_rollback w fl fl' :
  QInv w -> let w1 := with_ctr w (q_counter w + 1) fl in QInv (with_ctr w1 (q_counter w1 - 1) fl').
Proof.
  intros [I1 I2 I3 I4]. constructor; simpl; auto. lia.
Qed.

(** one pass: the invariant is kept, and every successful start was decided DStart in a world
    that satisfies the invariant, at a snapshot equal to that world's counter *)
Lemma sync_loop_inv jobs : forall w active acts armed w' acts' ok armed',
  QInv w -> sync_loop w jobs active acts armed = (w', acts', ok, armed') ->
  QInv w' /\ q_clock w' = q_clock w /\ q_max w' = q_max w /\
  forall id, In (QAStart id 0) acts' -> In (QAStart id 0) acts \/
    exists j wm, In j jobs /\ q_id j = id /\ QInv wm /\ q_clock wm = q_clock w /\ q_max wm = q_max w /\
      can_start (q_clock wm) (max_conc wm) (q_counter wm) j = DStart.
Proof.
  induction jobs as [|j r IH]; intros w active acts armed w' acts' ok armed' HI; simpl.
  - intros [= <- <- _ _]. auto.
  - destruct (can_start (q_clock w) (max_conc w) active j) eqn:Ed.
    + (* DStart *)
      destruct (negb (q_counter w =? active)) eqn:Ec.
      { intros [= <- <- _ _]. auto. }
      apply negb_false_iff, Z.eqb_eq in Ec. subst active.
      destruct (take_qfault QFStart (q_faults w)) as [fl|].
      { intros [= <- <- _ _]. split; [now apply qinv_with_ctr|]. simpl. repeat split; auto.
        intros id [H|H]; [discriminate H|now left]. }
      destruct (api_write w j (set_started (q_clock w)) (q_faults w) (q_counter w + 1)) as [w1 out] eqn:Ew.
      destruct (qinv_api_write _ _ _ _ _ _ _ HI Ew (upd_keeps_started (q_clock w))
                  (fun a _ => start_write_ok w (q_clock w) a)) as [Hok Hbad].
      destruct (api_write_keeps _ _ _ _ _ _ _ Ew) as (Hc & Hm & _).
      destruct (out =? 0) eqn:Eo.
      * apply Z.eqb_eq in Eo. intros H. specialize (Hok Eo).
        destruct (IH _ _ _ _ _ _ _ _ Hok H) as (I1 & I2 & I3 & I4).
        split; auto. split; [congruence|]. split; [congruence|].
        intros id Hin. destruct (I4 id Hin) as [[Hq|Hq]|(j' & wm & Hj & Hid & Hwm & Hcm & Hmm & Hd)].
        -- injection Hq as Hq. right. exists j, w. split; [now left|]. split; [exact Hq|]. split; [exact HI|].
           split; [reflexivity|]. split; [reflexivity|]. exact Ed.
        -- now left.
        -- right. exists j', wm. split; [now right|]. split; [exact Hid|]. split; [exact Hwm|].
           split; [congruence|]. split; [congruence|]. exact Hd.
      * apply Z.eqb_neq in Eo. specialize (Hbad Eo). subst w1. intros [= <- <- _ _].
        split; [now apply qinv_rollback|]. split; [reflexivity|]. split; [reflexivity|].
        intros id [H|H]; [injection H as _ E; congruence|now left].
    + (* DSkip *)
      intros H. destruct (IH _ _ _ _ _ _ _ _ HI H) as (I1 & I2 & I3 & I4).
      split; [exact I1|]. split; [exact I2|]. split; [exact I3|].
      intros id Hin. destruct (I4 id Hin) as [Hq|(j' & wm & Hj & Hr)]; auto.
      right. exists j', wm. split; [now right|exact Hr].
    + (* DReject *)
      destruct (take_qfault QFReject (q_faults w)) as [fl|].
      { intros [= <- <- _ _]. split; [now apply qinv_with_ctr|]. simpl. repeat split; auto.
        intros id [H|H]; [discriminate H|now left]. }
      destruct (api_write w j set_adm (q_faults w) (q_counter w)) as [w1 out] eqn:Ew.
      destruct (qinv_api_write _ _ _ _ _ _ _ HI Ew upd_keeps_adm (fun a _ => adm_write_ok w a)) as [Hok Hbad].
      destruct (api_write_keeps _ _ _ _ _ _ _ Ew) as (Hc & Hm & _).
      destruct (out =? 0) eqn:Eo.
      * apply Z.eqb_eq in Eo. intros H. specialize (Hok Eo).
        destruct (IH _ _ _ _ _ _ _ _ Hok H) as (I1 & I2 & I3 & I4).
        split; auto. split; [congruence|]. split; [congruence|].
        intros id Hin. destruct (I4 id Hin) as [[Hq|Hq]|(j' & wm & Hj & Hid & Hwm & Hcm & Hmm & Hd)].
        -- discriminate Hq.
        -- now left.
        -- right. exists j', wm. split; [now right|]. split; [exact Hid|]. split; [exact Hwm|].
           split; [congruence|]. split; [congruence|]. exact Hd.
      * apply Z.eqb_neq in Eo. specialize (Hbad Eo). intros [= <- <- _ _]. rewrite Hbad.
        split; [now apply qinv_with_ctr|]. simpl. repeat split; auto.
        intros id [H|H]; [discriminate H|now left].
    + (* DWait *)
      intros H. destruct (IH _ _ _ _ _ _ _ _ HI H) as (I1 & I2 & I3 & I4).
      split; [exact I1|]. split; [exact I2|]. split; [exact I3|].
      intros id Hin. destruct (I4 id Hin) as [Hq|(j' & wm & Hj & Hr)]; auto.
      right. exists j', wm. split; [now right|exact Hr].
Qed.

(** * every op keeps the invariant *)
Lemma delta_finish a rv :
  let a'' := mkQJ (q_id a) (q_owned a) (q_created a) (q_policy a) (q_start_after a) (q_started a) true (q_adm_err a) rv in
  delta (EUpd a a'') = - b2z (owned_active a) /\ owned_active a'' = false.
Proof.
  destruct a as [i o c p sa st tm ad r]. destruct o, st as [s|], tm; cbv; split; reflexivity.
Qed.

Lemma delta_del a : delta (EDel a) = - b2z (owned_active a).
Proof. unfold delta, owned_active. simpl. destruct (q_owned a && is_active a); reflexivity. Qed.

Lemma b2z_range b : 0 <= b2z b <= 1.
Proof. destruct b; simpl; lia. Qed.

Lemma adv_cache_inv n : forall w, QInv w -> QInv (adv_cache n w).
Proof.
  induction n as [|n IH]; intros w HI; simpl; auto.
  destruct (qc_pending w) as [|e r] eqn:Ep; auto. apply IH.
  destruct HI as [I1 I2 I3 I4]. rewrite Ep in *. constructor; simpl; auto.
  - rewrite dsum_app. simpl in *. lia.
  - rewrite <- app_assoc. exact I4.
Qed.

Lemma deliver_store_inv n : forall w, QInv w -> QInv (deliver_store n w).
Proof.
  induction n as [|n IH]; intros w HI; simpl; auto.
  destruct (qs_pending w) as [|e r] eqn:Ep; auto. apply IH.
  destruct HI as [I1 I2 I3 I4]. rewrite Ep in *. constructor; simpl; auto.
  - rewrite store_event_delta. simpl in I3. lia.
  - simpl in I4. now apply Forall_cons_iff in I4 as [_ I4].
Qed.

Lemma adv_cache_all n : forall w, (List.length (qc_pending w) <= n)%nat -> qc_pending (adv_cache n w) = [].
Proof.
  induction n as [|n IH]; intros w H; simpl.
  - destruct (qc_pending w); auto. simpl in H. lia.
  - destruct (qc_pending w) as [|e r] eqn:Ep; auto. apply IH. simpl. simpl in H. lia.
Qed.

Lemma adv_cache_api n : forall w, qa_jobs (adv_cache n w) = qa_jobs w.
Proof. induction n as [|n IH]; intros w; simpl; auto. destruct (qc_pending w); auto. now rewrite IH. Qed.

Lemma acount_filter l : acount l = Z.of_nat (List.length (filter (fun j => q_owned j && is_active j) l)).
Proof.
  induction l as [|x r IH]; simpl; auto. unfold owned_active at 1.
  destruct (q_owned x && is_active x); simpl b2z; simpl List.length; lia.
Qed.

(** the independent reconciler is only invoked for Jobs without a JobConfig owner (the
    informer routes owned Jobs to the per-JobConfig queue) *)
Definition op_ok (w : qworld) (o : qop) : Prop :=
  match o with
  | QSyncIndep id => forall a, find_job id (qa_jobs w) = Some a -> q_owned a = false
  | _ => True
  end.

Lemma indep_start_inv w j :
  QInv w -> (forall a, find_job (q_id j) (qa_jobs w) = Some a -> q_owned a = false) ->
  QInv (fst (fst (fst
    (match take_qfault QFStart (q_faults w) with
     | Some fl => (with_ctr w (q_counter w) fl, [QAStart (q_id j) 3], false, false)
     | None => let '(w', out) := api_write w j (set_started (q_clock w)) (q_faults w) (q_counter w) in
               (w', [QAStart (q_id j) out], out =? 0, false)
     end)))).
Proof.
  intros HI Hop. destruct (take_qfault QFStart (q_faults w)) as [fl|]; simpl; [now apply qinv_with_ctr|].
  destruct (api_write w j (set_started (q_clock w)) (q_faults w) (q_counter w)) as [w1 out] eqn:Ea. simpl.
  assert (Hq : forall a, find_job (q_id j) (qa_jobs w) = Some a ->
               delta (EUpd a (set_started (q_clock w) a)) = 0 /\
               q_counter w + b2z (owned_active (set_started (q_clock w) a)) - b2z (owned_active a) <= q_counter w).
  { intros a Ha. specialize (Hop a Ha). split; [apply (start_write_ok w)|].
    unfold owned_active, set_started. simpl. rewrite Hop. simpl. lia. }
  destruct (qinv_api_write _ _ _ _ _ _ _ HI Ea (upd_keeps_started (q_clock w)) Hq) as [Hok Hbad].
  destruct (Z.eq_dec out 0) as [E0|E0]; [now apply Hok|]. rewrite (Hbad E0). now apply qinv_with_ctr.
Qed.

Theorem qstep_inv w o : QInv w -> op_ok w o -> QInv (fst (fst (fst (qstep w o)))).
Proof.
  intros HI Hop. destruct o as [j|id|id|m|t|n|n|n|f| |id| |id]; simpl.
  - (* create *)
    set (j' := mkQJ _ _ _ _ _ _ _ _ _). apply qinv_with_api; auto.
    + apply set_job_ids_nodup, HI.
    + unfold delta. simpl. lia.
    + rewrite acount_set_job by apply HI. pose proof (qi_phi w HI).
      assert (E : owned_active j' = false) by (unfold owned_active, j', is_active, is_started; simpl; now rewrite andb_false_r).
      rewrite E. change (delta (EAdd j')) with 0. cbn [b2z].
      destruct (find_job (q_id j') (qa_jobs w)) as [a|]; [pose proof (b2z_range (owned_active a))|]; lia.
  - (* finish *)
    destruct (find_job id (qa_jobs w)) as [a|] eqn:Ef; simpl; auto.
    destruct (delta_finish a (qa_rv w + 1)) as [Hd Ho]. set (a'' := mkQJ _ _ _ _ _ _ _ _ _) in *.
    destruct (find_job_in _ _ _ Ef) as [_ Hid].
    apply qinv_with_api; auto.
    + apply set_job_ids_nodup, HI.
    + change (delta (EUpd a a'') <= 0). rewrite Hd. pose proof (b2z_range (owned_active a)). lia.
    + rewrite acount_set_job by apply HI. change (q_id a'') with (q_id a). rewrite Hid, Ef.
      change (delta (EUpd a a'')) with (delta (EUpd a a'')). rewrite Hd, Ho. pose proof (qi_phi w HI). simpl. lia.
  - (* delete *)
    destruct (find_job id (qa_jobs w)) as [a|] eqn:Ef; simpl; auto.
    destruct (find_job_in _ _ _ Ef) as [_ Hid].
    apply qinv_with_api; auto.
    + apply del_job_ids_nodup, HI.
    + simpl. now rewrite Hid.
    + rewrite delta_del. pose proof (b2z_range (owned_active a)). lia.
    + rewrite (acount_del_job _ _ _ (qi_nodup w HI) Ef), delta_del. pose proof (qi_phi w HI). lia.
  - destruct HI as [I1 I2 I3 I4]. constructor; auto.
  - destruct HI as [I1 I2 I3 I4]. constructor; auto.
  - now apply adv_cache_inv.
  - now apply deliver_store_inv.
  - destruct HI as [I1 I2 I3 I4]. constructor; auto.
  - destruct HI as [I1 I2 I3 I4]. constructor; auto.
  - (* sync *)
    unfold sync_q. destruct (sync_loop w (queued_jobs w) (q_counter w) [] false) as [[[w' acts] ok] armed] eqn:E.
    simpl. now destruct (sync_loop_inv _ _ _ _ _ _ _ _ _ HI E) as [H _].
  - (* independent sync *)
    unfold sync_indep. destruct (find_job id (qc_jobs w)) as [j|] eqn:Ef; simpl; auto.
    destruct (negb (is_queued j)); simpl; auto.
    match goal with |- context [if ?c then _ else _] => destruct c end; simpl; auto.
    destruct (find_job_in _ _ _ Ef) as [_ Hid].
    subst id. apply indep_start_inv; auto.
  - (* restart *)
    set (w1 := adv_cache (List.length (qc_pending w)) w).
    assert (H1 : QInv w1) by now apply adv_cache_inv.
    assert (Hp : qc_pending w1 = []) by (apply adv_cache_all; lia).
    destruct H1 as [I1 I2 I3 I4]. rewrite Hp in I2. unfold replay in I2. simpl in I2.
    constructor; simpl; auto.
    + rewrite I2, <- acount_filter. lia.
  - (* touch *)
    destruct (find_job id (qa_jobs w)) as [a|] eqn:Ef; simpl; auto.
    set (a'' := mkQJ _ _ _ _ _ _ _ _ _) in *.
    assert (Hd : delta (EUpd a a'') = 0) by (apply delta_upd_same_activity; reflexivity).
    assert (Ho : owned_active a'' = owned_active a) by reflexivity.
    destruct (find_job_in _ _ _ Ef) as [_ Hid].
    apply qinv_with_api; auto.
    + apply set_job_ids_nodup, HI.
    + rewrite Hd. lia.
    + rewrite acount_set_job by apply HI. change (q_id a'') with (q_id a). rewrite Hid, Ef, Hd, Ho.
      pose proof (qi_phi w HI). lia.
Qed.

(** * histories *)
Fixpoint qrun_world (w : qworld) (ops : list qop) : qworld :=
  match ops with
  | [] => w
  | o :: r => qrun_world (fst (fst (fst (qstep w o)))) r
  end.

(** every op of the history respects the routing of the informer *)
Fixpoint run_ok (w : qworld) (ops : list qop) : Prop :=
  match ops with
  | [] => True
  | o :: r => op_ok w o /\ run_ok (fst (fst (fst (qstep w o)))) r
  end.

Lemma qrun_inv ops : forall w, QInv w -> run_ok w ops -> QInv (qrun_world w ops).
Proof.
  induction ops as [|o r IH]; intros w HI Hok; simpl; auto.
  destruct Hok as [H1 H2]. apply IH; auto. now apply qstep_inv.
Qed.

(** the counter never under-counts the owned active Jobs of the API *)
Theorem counter_dominates now m ops :
  run_ok (init_qworld now m) ops ->
  let w := qrun_world (init_qworld now m) ops in
  acount (qa_jobs w) <= q_counter w.
Proof. intros Hok w. apply acount_le_counter. apply qrun_inv; auto. apply qinv_init. Qed.

(** C05 over histories: whenever a pass of the per-JobConfig reconciler starts a Forbid or
    Enqueue Job, the number of owned active Jobs in the API just before that start is at most
    maxConcurrency - 1: with the started Job it is at most maxConcurrency *)
Theorem start_respects_max now m ops w' acts ok armed id :
  run_ok (init_qworld now m) ops ->
  let w := qrun_world (init_qworld now m) ops in
  sync_q w = (w', acts, ok, armed) -> In (QAStart id 0) acts ->
  exists j wm, In j (queued_jobs w) /\ q_id j = id /\ q_clock wm = q_clock w /\ q_max wm = q_max w /\
    (q_policy j = PForbid \/ q_policy j = PEnqueue -> acount (qa_jobs wm) + 1 <= max_conc w).
Proof.
  intros Hok w Hs Hin. assert (HI : QInv w) by (apply qrun_inv; auto; apply qinv_init).
  unfold sync_q in Hs. destruct (sync_loop w (queued_jobs w) (q_counter w) [] false) as [[[w1 acts1] ok1] armed1] eqn:E.
  injection Hs as <- <- <- <-. apply in_rev in Hin.
  destruct (sync_loop_inv _ _ _ _ _ _ _ _ _ HI E) as (_ & _ & _ & H).
  destruct (H id Hin) as [[]|(j & wm & Hj & Hid & Hwm & Hc & Hm & Hd)].
  exists j, wm. repeat split; auto. intros Hp.
  pose proof (acount_le_counter wm Hwm) as Hle.
  pose proof (can_start_bound _ _ _ _ Hd Hp) as Hb.
  unfold max_conc in *. rewrite Hm in Hb. lia.
Qed.
