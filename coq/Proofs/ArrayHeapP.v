(** pkg/utils/heap, proved about the array-level model of Cron/ArrayHeap.v: every operation
    keeps the heap order, the name index and the set of keys in step; Peek / Pop give an item
    of least priority; Search / Push / Update / Delete / Pop act on the key -> priority content
    as on a finite map (the abstraction the cron model of Cron/Sched.v uses). *)
From Furiko Require Import Cron.ArrayHeap.
From Coq Require Import Lia Permutation ZifyBool ZifyNat.
Ltac Zify.zify_post_hook ::= Z.div_mod_to_equations.
Local Open Scope list_scope.
Local Open Scope nat_scope.

(** * slices *)
Lemma upd_length l : forall i x, length (upd l i x) = length l.
Proof. induction l as [|y r IH]; intros [|i] x; simpl; auto. Qed.

Lemma get_upd_same l : forall i x, i < length l -> get (upd l i x) i = x.
Proof. unfold get. induction l as [|y r IH]; intros [|i] x H; simpl in *; try lia; auto. apply IH. lia. Qed.

Lemma get_upd_other l : forall i k x, k <> i -> get (upd l i x) k = get l k.
Proof.
  unfold get. induction l as [|y r IH]; intros i k x H; [destruct i, k; reflexivity|].
  destruct i as [|i], k as [|k]; simpl; auto; try lia; apply IH; lia.
Qed.

Lemma swapl_length l i j : length (swapl l i j) = length l.
Proof. unfold swapl. now rewrite !upd_length. Qed.

Lemma get_swapl l i j k : i < length l -> j < length l ->
  get (swapl l i j) k = if k =? j then get l i else if k =? i then get l j else get l k.
Proof.
  intros Hi Hj. unfold swapl. destruct (Nat.eqb_spec k j) as [->|Hkj].
  - apply get_upd_same. now rewrite upd_length.
  - rewrite get_upd_other by exact Hkj. destruct (Nat.eqb_spec k i) as [->|Hki].
    + now apply get_upd_same.
    + now apply get_upd_other.
Qed.

Lemma upd_as_app l : forall i x, i < length l -> upd l i x = firstn i l ++ x :: skipn (S i) l.
Proof. induction l as [|y r IH]; intros [|i] x H; simpl in *; try lia; auto. f_equal. apply IH. lia. Qed.

Lemma get_as_app l : forall i, i < length l -> l = firstn i l ++ get l i :: skipn (S i) l.
Proof. unfold get. induction l as [|y r IH]; intros [|i] H; simpl in *; try lia; auto. f_equal. apply IH. lia. Qed.

Lemma get_ext (a b : list item) : length a = length b -> (forall k, k < length a -> get a k = get b k) -> a = b.
Proof.
  revert b. induction a as [|x r IH]; intros [|y t] Hl H; simpl in *; try lia; auto.
  f_equal; [apply (H 0); lia|]. apply IH; [lia|]. intros k Hk. apply (H (S k)). lia.
Qed.

(** swapping two slots permutes the slice *)
Lemma perm_upd r : forall j x, j < length r -> Permutation (x :: r) (get r j :: upd r j x).
Proof.
  induction r as [|y t IH]; intros [|j] x H; simpl in *; try lia.
  - apply perm_swap.
  - change (get (y :: t) (S j)) with (get t j).
    eapply perm_trans; [apply perm_swap|]. eapply perm_trans; [apply perm_skip, (IH j x); lia|]. apply perm_swap.
Qed.

Lemma swapl_cons x r i j : swapl (x :: r) (S i) (S j) = x :: swapl r i j.
Proof. reflexivity. Qed.

Lemma swapl_same l j : j < length l -> swapl l j j = l.
Proof.
  intros Hj. apply get_ext; [apply swapl_length|]. intros k Hk.
  rewrite get_swapl by assumption. destruct (Nat.eqb_spec k j) as [->|]; reflexivity.
Qed.

Lemma swapl_sym l i j : i < length l -> j < length l -> swapl l i j = swapl l j i.
Proof.
  intros Hi Hj. apply get_ext; [now rewrite !swapl_length|]. intros k Hk.
  rewrite !get_swapl by assumption.
  destruct (Nat.eqb_spec k j), (Nat.eqb_spec k i); subst; reflexivity.
Qed.

Lemma swapl_perm_lt l : forall i j, i < j -> j < length l -> Permutation l (swapl l i j).
Proof.
  induction l as [|x r IH]; intros i j Hij Hj; simpl in Hj; [lia|].
  destruct i as [|i]; destruct j as [|j]; try lia.
  - (* 0 < S j *)
    assert (E : swapl (x :: r) 0 (S j) = get r j :: upd r j x).
    { unfold swapl. simpl. reflexivity. }
    rewrite E. apply perm_upd. lia.
  - rewrite swapl_cons. apply perm_skip. apply IH; lia.
Qed.

Lemma swapl_perm l i j : i < length l -> j < length l -> Permutation l (swapl l i j).
Proof.
  intros Hi Hj. destruct (Nat.lt_trichotomy i j) as [H|[->|H]].
  - now apply swapl_perm_lt.
  - rewrite swapl_same by assumption. apply Permutation_refl.
  - rewrite swapl_sym by assumption. now apply swapl_perm_lt.
Qed.

(** * heap order *)
Definition prio (l : list item) (k : nat) : Z := iprio (get l k).
Definition parent (k : nat) : nat := (k - 1) / 2.
Definition edge (l : list item) (k : nat) : Prop := (prio l (parent k) <= prio l k)%Z.
(** every parent-child edge whose parent is at or after [lo], inside the first [n] slots *)
Definition Hrange (lo n : nat) (l : list item) : Prop := forall k, 0 < k < n -> lo <= parent k -> edge l k.

Lemma queue_swap h i j : queue (swap h i j) = swapl (queue h) i j.
Proof. reflexivity. Qed.
Lemma less_spec h i j : less h i j = (prio (queue h) i <? prio (queue h) j)%Z.
Proof. reflexivity. Qed.

Lemma prio_swapl l i j k : i < length l -> j < length l ->
  prio (swapl l i j) k = if k =? j then prio l i else if k =? i then prio l j else prio l k.
Proof.
  intros Hi Hj. unfold prio. rewrite get_swapl by assumption.
  destruct (k =? j); [reflexivity|]. destruct (k =? i); reflexivity.
Qed.

Lemma parent_lt k : 0 < k -> parent k < k.
Proof. unfold parent. intros H. lia. Qed.
Lemma parent_child k i : 0 < k -> parent k = i <-> (k = 2 * i + 1 \/ k = 2 * i + 2).
Proof. unfold parent. intros H. lia. Qed.

(** ** up *)
Definition UpInv (n j : nat) (l : list item) : Prop :=
  n <= length l /\ j < n /\
  (forall k, 0 < k < n -> k <> j -> edge l k) /\
  (0 < j -> forall c, 0 < c < n -> parent c = j -> (prio l (parent j) <= prio l c)%Z).

Lemma up_spec : forall fuel h j n, j < fuel -> UpInv n j (queue h) ->
  length (queue (up fuel h j)) = length (queue h) /\ Hrange 0 n (queue (up fuel h j)) /\
  (forall k, j < k -> get (queue (up fuel h j)) k = get (queue h) k) /\
  Permutation (queue h) (queue (up fuel h j)).
Proof.
  induction fuel as [|f IH]; intros h j n Hf (Hn & Hj & E & G); [lia|].
  cbn [up]. fold (parent j). set (l := queue h) in *.
  destruct (Nat.eqb_spec (parent j) j) as [E0|Hne].
  { (* j = 0 *) simpl. repeat split; auto.
    intros k Hk _. apply E; auto. assert (j = 0) by (unfold parent in E0; lia). lia. }
  assert (Hj0 : 0 < j) by (unfold parent in Hne; lia).
  pose proof (parent_lt j Hj0) as Hpj.
  rewrite less_spec. fold l.
  destruct (prio l j <? prio l (parent j))%Z eqn:El; simpl.
  2:{ repeat split; auto. intros k Hk _. destruct (Nat.eq_dec k j) as [->|Hkj]; [|now apply E].
      unfold edge. fold l. lia. }
  set (i := parent j) in *.
  assert (Hi : i < length l) by lia. assert (Hjl : j < length l) by lia.
  assert (Inv' : UpInv n i (queue (swap h i j))).
  { rewrite queue_swap. fold l. unfold UpInv. rewrite swapl_length. repeat split; try lia.
    - intros k Hk Hki. unfold edge. rewrite !prio_swapl by assumption.
      pose proof (parent_lt k (proj1 Hk)) as Hpk.
      destruct (Nat.eqb_spec k j) as [->|Hkj].
      + fold i. rewrite Nat.eqb_refl. destruct (Nat.eqb_spec i j); [lia|]. lia.
      + destruct (Nat.eqb_spec k i) as [->|_]; [lia|].
        destruct (Nat.eqb_spec (parent k) j) as [Epj|Npj].
        * apply (G Hj0 k Hk Epj).
        * destruct (Nat.eqb_spec (parent k) i) as [Epi|Npi].
          -- pose proof (E k Hk Hkj) as Ek. unfold edge in Ek. rewrite Epi in Ek. lia.
          -- apply (E k Hk Hkj).
    - intros Hi0 c Hc Epc. rewrite !prio_swapl by assumption.
      pose proof (parent_lt i Hi0) as Hpi.
      destruct (Nat.eqb_spec (parent i) j); [lia|]. destruct (Nat.eqb_spec (parent i) i); [lia|].
      assert (Ei : edge l i) by (apply E; lia). unfold edge in Ei.
      destruct (Nat.eqb_spec c j) as [->|Hcj]; [exact Ei|].
      destruct (Nat.eqb_spec c i) as [->|Hci]; [pose proof (parent_lt i Hi0); lia|].
      pose proof (E c Hc Hcj) as Ec. unfold edge in Ec. rewrite Epc in Ec. lia. }
  destruct (IH (swap h i j) i n ltac:(lia) Inv') as (L & HR & FR & PM).
  rewrite queue_swap in L, FR, PM. fold l in L, FR, PM. rewrite swapl_length in L.
  repeat split; auto.
  - intros k Hk. rewrite FR by lia. rewrite get_swapl by assumption.
    destruct (Nat.eqb_spec k j); [lia|]. destruct (Nat.eqb_spec k i); [lia|]. reflexivity.
  - eapply perm_trans; [apply (swapl_perm l i j Hi Hjl)|exact PM].
Qed.

(** ** down *)
Definition DownInv (fl : bool) (lo i n : nat) (l : list item) : Prop :=
  n <= length l /\ i < n /\ lo <= i /\
  (forall k, 0 < k < n -> lo <= parent k -> parent k <> i -> (k <> i \/ fl = true) -> edge l k) /\
  (0 < i -> lo <= parent i -> forall c, 0 < c < n -> parent c = i -> (prio l (parent i) <= prio l c)%Z).

Lemma down_spec : forall fuel h i n fl lo, n <= i + fuel -> DownInv fl lo i n (queue h) ->
  let h' := fst (down fuel h i n) in let i' := snd (down fuel h i n) in
  length (queue h') = length (queue h) /\ i <= i' /\ i' < n /\
  (forall k, 0 < k < n -> lo <= parent k -> (k <> i' \/ (fl || (i <? i')) = true) -> edge (queue h') k) /\
  (forall k, n <= k \/ k < i -> get (queue h') k = get (queue h) k) /\
  (i' = i -> queue h' = queue h) /\ Permutation (queue h) (queue h').
Proof.
  induction fuel as [|f IH]; intros h i n fl lo Hf (Hn & Hi & Hlo & E & G); [lia|].
  cbn [down]. set (l := queue h) in *. set (j1 := 2 * i + 1).
  (* stopping at i: both children (if any) are not smaller *)
  assert (Stop : (forall c, 0 < c < n -> parent c = i -> (prio l i <= prio l c)%Z) ->
                 length l = length l /\ i <= i /\ i < n /\
                 (forall k, 0 < k < n -> lo <= parent k -> (k <> i \/ (fl || (i <? i)) = true) -> edge l k) /\
                 (forall k, n <= k \/ k < i -> get l k = get l k) /\ (i = i -> l = l) /\ Permutation l l).
  { intros Hc. repeat split; auto. intros k Hk Hlk Hfl. rewrite Nat.ltb_irrefl, orb_false_r in Hfl.
    destruct (Nat.eq_dec (parent k) i) as [Ep|Np].
    - unfold edge. rewrite Ep. now apply Hc.
    - now apply E. }
  destruct (Nat.leb_spec n j1) as [Hj1|Hj1].
  { simpl. apply Stop. intros c Hc Epc. apply parent_child in Epc; [|lia]. unfold j1 in Hj1. lia. }
  rewrite !less_spec. fold l.
  set (j := if (j1 + 1 <? n) && (prio l (j1 + 1) <? prio l j1)%Z then j1 + 1 else j1).
  assert (Hjn : j < n /\ parent j = i /\ i < j /\
                forall c, 0 < c < n -> parent c = i -> (prio l j <= prio l c)%Z).
  { unfold j. destruct (Nat.ltb_spec (j1 + 1) n) as [H2|H2]; simpl.
    - destruct (prio l (j1 + 1) <? prio l j1)%Z eqn:El.
      + repeat split; try (unfold j1, parent; lia).
        intros c Hc Epc. apply parent_child in Epc; [|lia]. fold j1 in Epc.
        destruct Epc as [->| ->]; [lia|]. replace (2 * i + 2) with (j1 + 1) by (unfold j1; lia). lia.
      + repeat split; try (unfold j1, parent; lia).
        intros c Hc Epc. apply parent_child in Epc; [|lia]. fold j1 in Epc.
        destruct Epc as [->| ->]; [lia|]. replace (2 * i + 2) with (j1 + 1) by (unfold j1; lia). lia.
    - repeat split; try (unfold j1, parent; lia).
      intros c Hc Epc. apply parent_child in Epc; [|lia]. fold j1 in Epc. destruct Epc as [->| ->]; [lia|].
      unfold j1 in H2. lia. }
  destruct Hjn as (Hjn & Hpj & Hij & Hmin).
  destruct (prio l j <? prio l i)%Z eqn:El; simpl.
  2:{ apply Stop. intros c Hc Epc. pose proof (Hmin c Hc Epc). lia. }
  assert (Hil : i < length l) by lia. assert (Hjl : j < length l) by lia.
  assert (Inv' : DownInv true lo j n (queue (swap h i j))).
  { rewrite queue_swap. fold l. unfold DownInv. rewrite swapl_length. repeat split; try lia.
    - intros k Hk Hlk Hpk _. unfold edge. rewrite !prio_swapl by assumption.
      pose proof (parent_lt k (proj1 Hk)) as Hlt.
      destruct (Nat.eqb_spec (parent k) j) as [|_]; [contradiction|].
      destruct (Nat.eqb_spec k j) as [->|Hkj].
      + rewrite Hpj, Nat.eqb_refl. lia.
      + destruct (Nat.eqb_spec k i) as [->|Hki].
        * (* the edge into i: the grandparent condition *)
          destruct (Nat.eqb_spec (parent i) i); [lia|].
          apply (G (proj1 Hk) Hlk j); [lia|exact Hpj].
        * destruct (Nat.eqb_spec (parent k) i) as [Epi|Npi].
          -- apply Hmin; auto.
          -- apply E; auto.
    - intros Hj0 Hlj c Hc Epc. rewrite !prio_swapl by assumption.
      rewrite Hpj, Nat.eqb_refl. destruct (Nat.eqb_spec i j); [lia|].
      pose proof (parent_lt c (proj1 Hc)) as Hlt.
      destruct (Nat.eqb_spec c j); [lia|]. destruct (Nat.eqb_spec c i); [lia|].
      assert (Ec : edge l c) by (apply E; auto; lia). unfold edge in Ec. rewrite Epc in Ec. exact Ec. }
  pose proof (IH (swap h i j) j n true lo ltac:(lia) Inv') as R. cbv zeta in R.
  destruct R as (L & I1 & I2 & ED & FR & _ & PM).
  rewrite queue_swap in L, FR, PM. fold l in L, FR, PM. rewrite swapl_length in L.
  set (r := down f (swap h i j) j n) in *.
  repeat split; auto; try lia.
  - intros k Hk. rewrite FR by lia. rewrite get_swapl by assumption.
    destruct (Nat.eqb_spec k j); [lia|]. destruct (Nat.eqb_spec k i); [lia|]. reflexivity.
  - eapply perm_trans; [apply (swapl_perm l i j Hil Hjl)|exact PM].
Qed.

(** * the operations keep the heap order *)
Definition HeapOK (h : aheap) : Prop := Hrange 0 (hlen h) (queue h).

Lemma get_app_l (l : list item) x k : k < length l -> get (l ++ [x]) k = get l k.
Proof. intros H. unfold get. now apply app_nth1. Qed.
Lemma get_app_last (l : list item) x : get (l ++ [x]) (length l) = x.
Proof. unfold get. rewrite app_nth2 by lia. now rewrite Nat.sub_diag. Qed.

Lemma removelast_length (l : list item) : length (removelast l) = length l - 1.
Proof.
  destruct l as [|x r] using rev_ind; [reflexivity|]. rewrite removelast_last, app_length. simpl. lia.
Qed.
Lemma get_removelast (l : list item) k : k < length l - 1 -> get (removelast l) k = get l k.
Proof.
  destruct l as [|x r] using rev_ind; [simpl; lia|]. rewrite removelast_last, app_length. simpl. intros H.
  symmetry. apply get_app_l. lia.
Qed.
Lemma split_last (l : list item) : l <> [] -> l = removelast l ++ [get l (length l - 1)].
Proof.
  destruct l as [|x r] using rev_ind; [congruence|]. intros _. rewrite removelast_last, app_length. simpl.
  replace (length r + 1 - 1) with (length r) by lia. now rewrite get_app_last.
Qed.

Lemma hrange_ext lo n (a b : list item) : (forall k, k < n -> get a k = get b k) -> Hrange lo n a -> Hrange lo n b.
Proof.
  intros H HR k Hk Hlo. specialize (HR k Hk Hlo). unfold edge, prio in *.
  rewrite <- (H k), <- (H (parent k)); auto; try lia. pose proof (parent_lt k (proj1 Hk)). lia.
Qed.

Lemma hrange_weaken lo n m (l : list item) : m <= n -> Hrange lo n l -> Hrange lo m l.
Proof. intros H HR k Hk. apply HR. lia. Qed.

(** the root has the least priority *)
Theorem root_min h : HeapOK h -> forall k, k < hlen h -> (prio (queue h) 0 <= prio (queue h) k)%Z.
Proof.
  intros HO k. induction k as [k IH] using lt_wf_ind. intros Hk.
  destruct k as [|k]; [lia|].
  assert (E : edge (queue h) (S k)) by (apply HO; lia). unfold edge in E.
  pose proof (parent_lt (S k) ltac:(lia)) as Hp. specialize (IH (parent (S k)) Hp ltac:(lia)). lia.
Qed.

Theorem push_ok h x : HeapOK h ->
  HeapOK (heap_push h x) /\ hlen (heap_push h x) = S (hlen h) /\ Permutation (x :: queue h) (queue (heap_push h x)).
Proof.
  intros HO. unfold heap_push. set (h1 := pq_push h x).
  assert (L1 : hlen h1 = S (hlen h)) by (unfold hlen, h1; simpl; rewrite app_length; simpl; lia).
  assert (Inv : UpInv (hlen h1) (hlen h1 - 1) (queue h1)).
  { unfold UpInv. repeat split; try (unfold hlen in *; lia).
    - intros k Hk Hkj. unfold edge, prio, h1. simpl queue.
      pose proof (parent_lt k (proj1 Hk)) as Hp.
      rewrite !get_app_l by (unfold hlen in *; lia). apply HO; unfold hlen in *; lia.
    - intros Hj c Hc Epc. apply parent_child in Epc; [|lia]. lia. }
  destruct (up_spec (hlen h1) h1 (hlen h1 - 1) (hlen h1) ltac:(lia) Inv) as (L & HR & _ & PM).
  assert (L' : hlen (up (hlen h1) h1 (hlen h1 - 1)) = hlen h1) by exact L.
  unfold HeapOK. rewrite L'. repeat split; auto; try lia.
  eapply perm_trans; [|exact PM]. unfold h1. simpl. apply Permutation_cons_append.
Qed.

Theorem pop_ok h : HeapOK h -> queue h <> [] ->
  HeapOK (fst (heap_pop h)) /\ snd (heap_pop h) = get (queue h) 0 /\
  hlen (fst (heap_pop h)) = hlen h - 1 /\ Permutation (queue h) (snd (heap_pop h) :: queue (fst (heap_pop h))).
Proof.
  intros HO Hne. unfold heap_pop. set (n := hlen h - 1). set (l := queue h) in *.
  assert (Hlen : hlen h = S n) by (unfold n, hlen; fold l; destruct l; [congruence|simpl; lia]).
  set (h1 := swap h 0 n).
  assert (Q1 : queue h1 = swapl l 0 n) by reflexivity.
  assert (L0 : 0 < length l /\ n < length l) by (unfold hlen in Hlen; fold l in Hlen; lia).
  destruct (down (hlen h) h1 0 n) as [h2 i2] eqn:Ed. cbn [fst snd pq_pop].
  assert (R : length (queue h2) = length l /\ Hrange 0 n (queue h2) /\ get (queue h2) n = get l 0 /\
              Permutation l (queue h2)).
  { destruct (Nat.eq_dec n 0) as [En|Hn0].
    - (* a single item *)
      rewrite Hlen, En in Ed. cbn [down] in Ed. simpl in Ed. injection Ed as <- _.
      rewrite Q1, En, swapl_same by lia. repeat split; auto. intros k Hk. lia.
    - assert (Inv : DownInv false 0 0 n (queue h1)).
      { rewrite Q1. unfold DownInv. rewrite swapl_length. repeat split; try lia.
        intros k Hk _ Hp0 _. unfold edge. rewrite !prio_swapl by lia.
        pose proof (parent_lt k (proj1 Hk)) as Hp.
        destruct (Nat.eqb_spec k n); [lia|]. destruct (Nat.eqb_spec k 0); [lia|].
        destruct (Nat.eqb_spec (parent k) n); [lia|]. destruct (Nat.eqb_spec (parent k) 0); [lia|].
        apply HO; [unfold hlen; fold l; lia|lia]. }
      pose proof (down_spec (hlen h) h1 0 n false 0 ltac:(lia) Inv) as S. rewrite Ed in S. cbv zeta in S. simpl fst in S. simpl snd in S.
      destruct S as (L & _ & I2 & ED & FR & _ & PM). rewrite Q1 in L, FR, PM. rewrite swapl_length in L.
      repeat split; auto.
      + intros k Hk _. apply ED; [lia|lia|].
        destruct (Nat.eq_dec i2 0) as [->|]; [left; lia|right]. simpl. apply Nat.ltb_lt. lia.
      + rewrite FR by lia. rewrite get_swapl by lia. now rewrite Nat.eqb_refl.
      + eapply perm_trans; [apply (swapl_perm l 0 n); lia|exact PM]. }
  destruct R as (L2 & HR & Gx & PM).
  assert (Ln : length (queue h2) - 1 = n) by (unfold hlen in Hlen; fold l in Hlen; lia).
  rewrite Ln. repeat split.
  - unfold HeapOK, hlen. simpl queue. rewrite removelast_length, Ln.
    eapply hrange_ext; [|exact HR]. intros k Hk. symmetry. apply get_removelast. lia.
  - exact Gx.
  - unfold hlen. simpl queue. rewrite removelast_length. fold l. lia.
  - simpl queue. eapply perm_trans; [exact PM|].
    assert (Hne2 : queue h2 <> []) by (destruct (queue h2); [simpl in L2; lia|discriminate]).
    rewrite (split_last (queue h2) Hne2) at 1. rewrite Ln. apply Permutation_sym, Permutation_cons_append.
Qed.

(** re-establishing the order around one slot whose item changed (Fix, and the middle of Remove) *)
Lemma sift_ok fuel h i n : n <= fuel -> n <= hlen h -> i < n ->
  (forall k, 0 < k < n -> k <> i -> parent k <> i -> edge (queue h) k) ->
  (0 < i -> forall c, 0 < c < n -> parent c = i -> (prio (queue h) (parent i) <= prio (queue h) c)%Z) ->
  let h1 := fst (down fuel h i n) in let i' := snd (down fuel h i n) in
  let h' := if i <? i' then h1 else up fuel h1 i in
  length (queue h') = length (queue h) /\ Hrange 0 n (queue h') /\
  (forall k, n <= k -> get (queue h') k = get (queue h) k) /\ Permutation (queue h) (queue h').
Proof.
  intros Hf Hn Hi E G.
  assert (Inv : DownInv false 0 i n (queue h)).
  { unfold DownInv. repeat split; try (unfold hlen in Hn; lia).
    - intros k Hk _ Hp [Hki|Hfl]; [now apply E|discriminate].
    - intros Hi0 _. now apply G. }
  pose proof (down_spec fuel h i n false 0 ltac:(lia) Inv) as S. cbv zeta in S.
  destruct S as (L & I1 & I2 & ED & FR & EQ & PM). cbv zeta.
  set (h1 := fst (down fuel h i n)) in *. set (i' := snd (down fuel h i n)) in *.
  destruct (Nat.ltb_spec i i') as [Hm|Hm].
  - split; [exact L|]. split; [|split; [|exact PM]].
    + intros k Hk _. apply ED; [exact Hk|lia|]. right. reflexivity.
    + intros k Hk. apply FR. now left.
  - assert (Ei : i' = i) by lia. specialize (EQ Ei).
    assert (UI : UpInv n i (queue h1)).
    { unfold UpInv. rewrite EQ. repeat split; try (unfold hlen in Hn; lia).
      - intros k Hk Hki. rewrite <- EQ. apply ED; [exact Hk|lia|]. left. lia.
      - exact G. }
    destruct (up_spec fuel h1 i n ltac:(lia) UI) as (L' & HR & FR' & PM').
    split; [congruence|]. split; [exact HR|]. split.
    + intros k Hk. rewrite FR' by lia. apply FR. now left.
    + eapply perm_trans; eauto.
Qed.

Theorem fix_ok h i p : HeapOK h -> i < hlen h ->
  let h0 := mkAH (upd (queue h) i (ikey (get (queue h) i), p)) (names h) in
  HeapOK (heap_fix h0 i) /\ hlen (heap_fix h0 i) = hlen h /\
  Permutation (upd (queue h) i (ikey (get (queue h) i), p)) (queue (heap_fix h0 i)).
Proof.
  intros HO Hi h0. set (l := queue h) in *.
  assert (L0 : hlen h0 = hlen h) by (unfold hlen, h0; simpl; apply upd_length).
  assert (Gk : forall k, k <> i -> get (queue h0) k = get l k) by (intros k Hk; unfold h0; simpl; now apply get_upd_other).
  unfold heap_fix.
  pose proof (sift_ok (hlen h0) h0 i (hlen h0) ltac:(lia) ltac:(lia) ltac:(lia)) as S.
  destruct (down (hlen h0) h0 i (hlen h0)) as [h1 i'] eqn:Ed. cbv zeta in S. simpl fst in S. simpl snd in S.
  destruct S as (L & HR & _ & PM).
  - intros k Hk Hki Hpi. unfold edge, prio. rewrite !Gk by auto. apply HO; lia.
  - intros Hi0 c Hc Epc. unfold prio. pose proof (parent_lt i Hi0) as Hp.
    pose proof (parent_lt c (proj1 Hc)) as Hpc.
    rewrite (Gk (parent i)), (Gk c) by lia.
    assert (E1 : edge l i) by (apply HO; lia). assert (E2 : edge l c) by (apply HO; lia).
    unfold edge, prio in *. rewrite Epc in E2. lia.
  - set (h' := if i <? i' then h1 else up (hlen h0) h1 i) in *.
    assert (Lh : hlen h' = hlen h) by (unfold hlen at 1; rewrite L; fold (hlen h0); exact L0).
    unfold HeapOK. rewrite Lh, <- L0. repeat split; auto.
Qed.

Theorem remove_ok h i : HeapOK h -> i < hlen h ->
  HeapOK (fst (heap_remove h i)) /\ snd (heap_remove h i) = get (queue h) i /\
  hlen (fst (heap_remove h i)) = hlen h - 1 /\
  Permutation (queue h) (snd (heap_remove h i) :: queue (fst (heap_remove h i))).
Proof.
  intros HO Hi. unfold heap_remove. set (n := hlen h - 1). set (l := queue h) in *.
  assert (Hlen : hlen h = S n) by (unfold n; lia).
  assert (Ll : length l = S n) by exact Hlen.
  set (h1 := if n =? i then h else _).
  assert (R : length (queue h1) = length l /\ Hrange 0 n (queue h1) /\ get (queue h1) n = get l i /\
              Permutation l (queue h1)).
  { unfold h1. destruct (Nat.eqb_spec n i) as [En|Hne].
    - split; [reflexivity|]. split; [eapply hrange_weaken; [|exact HO]; lia|]. split; [now rewrite En|apply Permutation_refl].
    - set (hs := swap h i n).
      assert (Qs : queue hs = swapl l i n) by reflexivity.
      pose proof (sift_ok (hlen h) hs i n ltac:(lia)) as S.
      destruct (down (hlen h) hs i n) as [hd i'] eqn:Ed. cbv zeta in S. simpl fst in S. simpl snd in S.
      destruct S as (L & HR & FR & PM); try (unfold hlen; rewrite Qs, swapl_length; lia); try lia.
      + intros k Hk Hki Hpi. unfold edge. rewrite Qs, !prio_swapl by lia.
        pose proof (parent_lt k (proj1 Hk)) as Hp.
        destruct (Nat.eqb_spec k n); [lia|]. destruct (Nat.eqb_spec k i); [lia|].
        destruct (Nat.eqb_spec (parent k) n); [lia|]. destruct (Nat.eqb_spec (parent k) i); [lia|].
        apply HO; lia.
      + intros Hi0 c Hc Epc. rewrite Qs, !prio_swapl by lia. pose proof (parent_lt i Hi0) as Hp.
        destruct (Nat.eqb_spec (parent i) n); [lia|]. destruct (Nat.eqb_spec (parent i) i); [lia|].
        pose proof (parent_lt c (proj1 Hc)) as Hpc.
        destruct (Nat.eqb_spec c n); [lia|]. destruct (Nat.eqb_spec c i); [lia|].
        assert (E1 : edge l i) by (apply HO; lia). assert (E2 : edge l c) by (apply HO; lia).
        unfold edge in *. rewrite Epc in E2. lia.
      + rewrite Qs, swapl_length in L. rewrite Qs in FR, PM. repeat split; auto.
        * rewrite FR by lia. rewrite get_swapl by lia. now rewrite Nat.eqb_refl.
        * eapply perm_trans; [apply (swapl_perm l i n); lia|exact PM]. }
  destruct R as (L2 & HR & Gx & PM). cbn [pq_pop fst snd].
  assert (Ln : length (queue h1) - 1 = n) by lia.
  rewrite Ln. repeat split.
  - unfold HeapOK, hlen. simpl queue. rewrite removelast_length, Ln.
    eapply hrange_ext; [|exact HR]. intros k Hk. symmetry. apply get_removelast. lia.
  - exact Gx.
  - unfold hlen. simpl queue. rewrite removelast_length. fold l. lia.
  - simpl queue. eapply perm_trans; [exact PM|].
    assert (Hne2 : queue h1 <> []) by (destruct (queue h1); [simpl in L2; lia|discriminate]).
    rewrite (split_last (queue h1) Hne2) at 1. rewrite Ln. apply Permutation_sym, Permutation_cons_append.
Qed.

Lemma init_loop_ok : forall k h, 2 * k <= hlen h -> Hrange k (hlen h) (queue h) ->
  HeapOK (init_loop k h) /\ hlen (init_loop k h) = hlen h /\ Permutation (queue h) (queue (init_loop k h)).
Proof.
  induction k as [|i IH]; intros h Hk HR; simpl.
  - repeat split; auto.
  - set (n := hlen h) in *.
    assert (Inv : DownInv false i i n (queue h)).
    { unfold DownInv. repeat split; try (unfold n, hlen in *; lia).
      - intros k Hkn Hlo Hp _. apply HR; auto. lia.
      - intros Hi0 Hlo. pose proof (parent_lt i Hi0). lia. }
    pose proof (down_spec n h i n false i ltac:(lia) Inv) as S. cbv zeta in S.
    destruct S as (L & I1 & I2 & ED & _ & _ & PM).
    set (h' := fst (down n h i n)) in *. set (i' := snd (down n h i n)) in *.
    assert (Lh : hlen h' = n) by exact L.
    destruct (IH h') as (HO & L' & PM').
    + lia.
    + rewrite Lh. intros k Hkn Hlo. apply ED; auto.
      destruct (Nat.eq_dec k i') as [->|]; [|now left]. right. simpl. apply Nat.ltb_lt.
      destruct (Nat.eq_dec i' i) as [Ei|]; [|lia]. rewrite Ei in *.
      destruct (Nat.eq_dec i 0); [lia|]. pose proof (parent_lt i ltac:(lia)). lia.
    + repeat split; auto; try lia. eapply perm_trans; eauto.
Qed.

Theorem init_ok h : HeapOK (heap_init h) /\ hlen (heap_init h) = hlen h /\ Permutation (queue h) (queue (heap_init h)).
Proof.
  unfold heap_init. apply init_loop_ok.
  - pose proof (Nat.div_mod_eq (hlen h) 2). lia.
  - intros k Hk Hlo. exfalso. unfold parent in Hlo. lia.
Qed.

(** * the name index *)
Local Open Scope Z_scope.
Lemma nm_find_del k k' m : nm_find k (nm_del k' m) = if k' =? k then None else nm_find k m.
Proof.
  unfold nm_del. induction m as [|[a v] r IH]; simpl; [now destruct (k' =? k)|].
  destruct (a =? k') eqn:E1; simpl.
  - apply Z.eqb_eq in E1. subst a. rewrite IH. destruct (k' =? k); reflexivity.
  - destruct (a =? k) eqn:E2; [|exact IH]. apply Z.eqb_eq in E2. subst a.
    rewrite Z.eqb_sym, E1. reflexivity.
Qed.
Lemma nm_find_set k k' v m : nm_find k (nm_set k' v m) = if k' =? k then Some v else nm_find k m.
Proof. unfold nm_set. simpl. rewrite nm_find_del. destruct (k' =? k); reflexivity. Qed.
Local Close Scope Z_scope.

Definition keys (l : list item) : list Z := map ikey l.
Record WF (h : aheap) : Prop := {
  wf_nodup : NoDup (keys (queue h));
  wf_index : forall k i, nm_find k (names h) = Some i <-> i < length (queue h) /\ ikey (get (queue h) i) = k
}.

Lemma key_inj l i j : NoDup (keys l) -> i < length l -> j < length l -> ikey (get l i) = ikey (get l j) -> i = j.
Proof.
  intros ND Hi Hj E. unfold keys in ND.
  apply (proj1 (NoDup_nth (map ikey l) 0%Z) ND i j); try (rewrite map_length; assumption).
  change 0%Z with (ikey dflt). rewrite !map_nth. exact E.
Qed.

Lemma nm_get_wf h i : WF h -> i < length (queue h) -> nm_get (ikey (get (queue h) i)) (names h) = i.
Proof.
  intros W Hi. unfold nm_get.
  assert (E : nm_find (ikey (get (queue h) i)) (names h) = Some i) by (apply (wf_index h W); auto).
  now rewrite E.
Qed.

Lemma swap_wf h i j : i < hlen h -> j < hlen h -> WF h -> WF (swap h i j).
Proof.
  intros Hi Hj W. unfold hlen in *. set (l := queue h) in *.
  constructor.
  - rewrite queue_swap. fold l. unfold keys.
    eapply Permutation_NoDup; [apply Permutation_map, (swapl_perm l i j Hi Hj)|apply (wf_nodup h W)].
  - intros k x. unfold swap. cbn [queue names]. fold l. rewrite swapl_length.
    rewrite !get_swapl by assumption. rewrite !Nat.eqb_refl.
    (* q'[i] = l[j], q'[j] = l[i] *)
    assert (Eii : (if i =? j then get l i else get l j) = get l j) by (destruct (Nat.eqb_spec i j) as [->|]; reflexivity).
    rewrite Eii. rewrite !(nm_get_wf h) by assumption. fold l.
    rewrite !nm_find_set.
    destruct (Z.eqb_spec (ikey (get l i)) k) as [Eki|Nki].
    + (* k is the key that was at i: now at j *)
      split.
      * intros [= <-]. split; [exact Hj|]. rewrite Nat.eqb_refl. exact Eki.
      * intros [Hx Ex]. f_equal. destruct (Nat.eqb_spec x j) as [->|Nxj]; [reflexivity|].
        exfalso. destruct (Nat.eqb_spec x i) as [->|Nxi].
        -- apply Nxj. apply (key_inj l i j (wf_nodup h W) Hi Hj). congruence.
        -- apply Nxi. apply (key_inj l x i (wf_nodup h W) Hx Hi). congruence.
    + destruct (Z.eqb_spec (ikey (get l j)) k) as [Ekj|Nkj].
      * split.
        -- intros [= <-]. split; [exact Hi|]. rewrite Nat.eqb_refl.
           destruct (Nat.eqb_spec i j) as [->|]; [contradiction|exact Ekj].
        -- intros [Hx Ex]. f_equal. destruct (Nat.eqb_spec x j) as [->|Nxj]; [contradiction|].
           destruct (Nat.eqb_spec x i) as [->|Nxi]; [reflexivity|].
           exfalso. apply Nxj. apply (key_inj l x j (wf_nodup h W) Hx Hj). congruence.
      * rewrite (wf_index h W k x). fold l. split; intros [Hx Ex]; split; auto.
        -- destruct (Nat.eqb_spec x j) as [->|]; [contradiction|]. destruct (Nat.eqb_spec x i) as [->|]; [contradiction|exact Ex].
        -- destruct (Nat.eqb_spec x j) as [->|]; [contradiction|]. destruct (Nat.eqb_spec x i) as [->|]; [contradiction|exact Ex].
Qed.

Lemma hlen_swap h i j : hlen (swap h i j) = hlen h.
Proof. unfold hlen. rewrite queue_swap. apply swapl_length. Qed.

Lemma up_wf : forall fuel h j, j < hlen h -> WF h -> WF (up fuel h j) /\ hlen (up fuel h j) = hlen h.
Proof.
  induction fuel as [|f IH]; intros h j Hj W; [simpl; auto|].
  cbn [up]. destruct (_ || _); [auto|].
  assert (Hi : (j - 1) / 2 < hlen h) by lia.
  destruct (IH (swap h ((j - 1) / 2) j) ((j - 1) / 2)) as [W' L'].
  - rewrite hlen_swap. exact Hi.
  - now apply swap_wf.
  - split; [exact W'|]. now rewrite L', hlen_swap.
Qed.

Lemma down_wf : forall fuel h i n, n <= hlen h -> i < n -> WF h ->
  WF (fst (down fuel h i n)) /\ hlen (fst (down fuel h i n)) = hlen h.
Proof.
  induction fuel as [|f IH]; intros h i n Hn Hi W; [simpl; auto|].
  cbn [down]. destruct (n <=? 2 * i + 1) eqn:E1; [simpl; auto|]. apply Nat.leb_gt in E1.
  set (j := if _ && _ then 2 * i + 1 + 1 else 2 * i + 1).
  assert (Hj : j < n /\ i < j).
  { unfold j. destruct (Nat.ltb_spec (2 * i + 1 + 1) n); simpl; [destruct (less h _ _)|]; lia. }
  destruct (negb (less h j i)); [simpl; auto|].
  destruct (IH (swap h i j) j n) as [W' L'].
  - rewrite hlen_swap. exact Hn.
  - lia.
  - apply swap_wf; [lia|lia|exact W].
  - split; [exact W'|]. now rewrite L', hlen_swap.
Qed.

Lemma in_keys_get l k : In k (keys l) -> exists i, i < length l /\ ikey (get l i) = k.
Proof.
  unfold keys. intros H. apply in_map_iff in H as (x & <- & Hx).
  destruct (In_nth l x dflt Hx) as (i & Hi & E). exists i. split; auto. unfold get. now rewrite E.
Qed.
Lemma get_in_keys l i : i < length l -> In (ikey (get l i)) (keys l).
Proof. intros H. unfold keys, get. apply in_map. now apply nth_In. Qed.

Lemma absent_not_in h k : WF h -> nm_find k (names h) = None -> ~ In k (keys (queue h)).
Proof.
  intros W Hn Hin. apply in_keys_get in Hin as (i & Hi & E).
  assert (X : nm_find k (names h) = Some i) by (apply (wf_index h W); auto). congruence.
Qed.

Lemma pq_push_wf h k p : WF h -> nm_find k (names h) = None -> WF (pq_push h (k, p)).
Proof.
  intros W Hn. pose proof (absent_not_in h k W Hn) as Hni. constructor.
  - unfold pq_push, keys. simpl. rewrite map_app. simpl.
    eapply Permutation_NoDup; [apply Permutation_cons_append|]. constructor; [exact Hni|apply (wf_nodup h W)].
  - intros k' x. unfold pq_push. cbn [queue names ikey fst]. rewrite nm_find_set, app_length. simpl.
    destruct (Z.eqb_spec k k') as [<-|Nk].
    + split.
      * intros [= <-]. split; [lia|]. now rewrite get_app_last.
      * intros [Hx Ex]. f_equal. destruct (Nat.eq_dec x (length (queue h))) as [->|Nx]; [reflexivity|].
        exfalso. apply Hni. rewrite get_app_l in Ex by lia. rewrite <- Ex. apply get_in_keys. lia.
    + rewrite (wf_index h W k' x). split; intros [Hx Ex]; split.
      * lia.
      * now rewrite get_app_l.
      * destruct (Nat.eq_dec x (length (queue h))) as [->|Nx]; [|lia].
        rewrite get_app_last in Ex. simpl in Ex. contradiction.
      * destruct (Nat.eq_dec x (length (queue h))) as [->|Nx].
        -- rewrite get_app_last in Ex. simpl in Ex. contradiction.
        -- rewrite get_app_l in Ex by lia. exact Ex.
Qed.

Lemma pq_pop_wf h : WF h -> queue h <> [] -> WF (fst (pq_pop h)).
Proof.
  intros W Hne. set (l := queue h) in *. set (n := length l - 1).
  assert (Hl : length l = S n) by (unfold n; destruct l; [congruence|simpl; lia]).
  constructor.
  - unfold pq_pop. cbn [fst queue]. fold l. pose proof (wf_nodup h W) as ND. fold l in ND.
    rewrite (split_last l Hne) in ND. unfold keys in *. rewrite map_app in ND. simpl in ND.
    apply NoDup_remove_1 in ND. now rewrite app_nil_r in ND.
  - intros k x. unfold pq_pop. cbn [fst queue names]. fold l. fold n.
    rewrite nm_find_del, removelast_length. fold n. replace (length l - 1) with n by reflexivity.
    destruct (Z.eqb_spec (ikey (get l n)) k) as [Ek|Nk].
    + split; [discriminate|]. intros [Hx Ex]. exfalso. rewrite get_removelast in Ex by (fold n; lia).
      assert (x = n) by (apply (key_inj l x n (wf_nodup h W)); try lia; congruence). lia.
    + rewrite (wf_index h W k x). fold l. split; intros [Hx Ex].
      * assert (Hxn : x <> n) by (intros ->; contradiction). split; [lia|].
        rewrite get_removelast by (fold n; lia). exact Ex.
      * split; [lia|]. rewrite get_removelast in Ex by (fold n; lia). exact Ex.
Qed.

Lemma upd_prio_wf h i p : WF h -> i < hlen h -> WF (mkAH (upd (queue h) i (ikey (get (queue h) i), p)) (names h)).
Proof.
  intros W Hi. unfold hlen in Hi. set (l := queue h) in *.
  assert (Gk : forall k, ikey (get (upd l i (ikey (get l i), p)) k) = ikey (get l k)).
  { intros k. destruct (Nat.eq_dec k i) as [->|Nk]; [now rewrite get_upd_same|now rewrite get_upd_other]. }
  assert (Ek : keys (upd l i (ikey (get l i), p)) = keys l).
  { unfold keys. apply (nth_ext _ _ 0%Z 0%Z); [now rewrite !map_length, upd_length|].
    intros k Hk. change 0%Z with (ikey dflt). rewrite !map_nth. apply Gk. }
  constructor; cbn [queue names].
  - rewrite Ek. apply (wf_nodup h W).
  - intros k x. rewrite upd_length, Gk. apply (wf_index h W).
Qed.

(** ** well-formedness and order together *)
Definition Good (h : aheap) : Prop := WF h /\ HeapOK h.

Lemma heap_push_wf h k p : WF h -> nm_find k (names h) = None -> WF (heap_push h (k, p)).
Proof.
  intros W Hn. unfold heap_push. apply up_wf; [|now apply pq_push_wf].
  unfold hlen, pq_push. simpl. rewrite app_length. simpl. lia.
Qed.

Lemma heap_pop_wf h : WF h -> queue h <> [] -> WF (fst (heap_pop h)).
Proof.
  intros W Hne. unfold heap_pop.
  assert (Hl : 0 < hlen h) by (unfold hlen; destruct (queue h); [congruence|simpl; lia]).
  set (n := hlen h - 1).
  assert (W1 : WF (swap h 0 n)) by (apply swap_wf; auto; lia).
  destruct (down (hlen h) (swap h 0 n) 0 n) as [h2 i2] eqn:Ed.
  assert (R : WF h2 /\ hlen h2 = hlen h).
  { destruct (Nat.eq_dec n 0) as [En|Hn0].
    - assert (E1 : hlen h = 1) by lia. rewrite E1, En in Ed. cbn [down] in Ed. simpl in Ed. injection Ed as <- _.
      rewrite En in W1. split; [exact W1|apply hlen_swap].
    - pose proof (down_wf (hlen h) (swap h 0 n) 0 n) as D. rewrite Ed in D. simpl fst in D.
      rewrite hlen_swap in D. apply D; auto; lia. }
  destruct R as [W2 L2]. apply pq_pop_wf; auto.
  unfold hlen in *. destruct (queue h2); [simpl in L2; lia|discriminate].
Qed.

Lemma heap_fix_wf h i : WF h -> i < hlen h -> WF (heap_fix h i).
Proof.
  intros W Hi. unfold heap_fix.
  pose proof (down_wf (hlen h) h i (hlen h) ltac:(lia) Hi W) as [W1 L1].
  destruct (down (hlen h) h i (hlen h)) as [h1 i']. simpl fst in *.
  destruct (i <? i'); [exact W1|]. apply up_wf; [lia|exact W1].
Qed.

Lemma heap_remove_wf h i : WF h -> i < hlen h -> WF (fst (heap_remove h i)).
Proof.
  intros W Hi. unfold heap_remove. set (n := hlen h - 1).
  set (h1 := if n =? i then h else _).
  assert (R : WF h1 /\ hlen h1 = hlen h).
  { unfold h1. destruct (Nat.eqb_spec n i) as [En|Hne]; [auto|].
    assert (Ws : WF (swap h i n)) by (apply swap_wf; auto; lia).
    pose proof (down_wf (hlen h) (swap h i n) i n) as D. rewrite hlen_swap in D.
    destruct (down (hlen h) (swap h i n) i n) as [hd i']. simpl fst in D.
    destruct D as [Wd Ld]; auto; try lia.
    destruct (i <? i'); [auto|]. destruct (up_wf (hlen h) hd i ltac:(lia) Wd) as [Wu Lu]. split; [exact Wu|lia]. }
  destruct R as [W1 L1]. apply pq_pop_wf; auto.
  unfold hlen in *. destruct (queue h1); [simpl in L1; lia|discriminate].
Qed.

Lemma init_loop_wf : forall k h, 2 * k <= hlen h -> WF h -> WF (init_loop k h).
Proof.
  induction k as [|i IH]; intros h Hk W; simpl; auto.
  pose proof (down_wf (hlen h) h i (hlen h) ltac:(lia) ltac:(lia) W) as [W1 L1].
  apply IH; [lia|exact W1].
Qed.

(** New(items) over distinct names *)
Lemma index_items_find items : forall i m k x, NoDup (keys items) ->
  (nm_find k (index_items items i m) = Some x <->
   (exists y, y < length items /\ x = i + y /\ ikey (get items y) = k) \/ (~ In k (keys items) /\ nm_find k m = Some x)).
Proof.
  induction items as [|a r IH]; intros i m k x ND; simpl.
  - split; [intros H; right; auto|intros [(y & Hy & _)|[_ H]]; [lia|exact H]].
  - inversion ND as [|? ? Hni ND']; subst. rewrite (IH (S i) (nm_set (ikey a) i m) k x ND'). rewrite nm_find_set.
    split.
    + intros [(y & Hy & -> & Ey)|[Hn Hf]].
      * left. exists (S y). repeat split; [lia|lia|exact Ey].
      * destruct (Z.eqb_spec (ikey a) k) as [Ea|Na].
        -- injection Hf as <-. left. exists 0. repeat split; [lia|lia|exact Ea].
        -- right. split; [|exact Hf]. intros [X|X]; [contradiction|contradiction].
    + intros [(y & Hy & -> & Ey)|[Hn Hf]].
      * destruct y as [|y].
        -- change (get (a :: r) 0) with a in Ey. right. split; [rewrite <- Ey; exact Hni|].
           rewrite Ey, Z.eqb_refl. f_equal. lia.
        -- change (get (a :: r) (S y)) with (get r y) in Ey. left. exists y. repeat split; [simpl in Hy; lia|lia|exact Ey].
      * right. split; [intros X; apply Hn; now right|].
        destruct (Z.eqb_spec (ikey a) k) as [Ea|Na]; [exfalso; apply Hn; now left|exact Hf].
Qed.

Lemma new_wf items : NoDup (keys items) -> WF (h_new items).
Proof.
  intros ND. unfold h_new, heap_init. apply init_loop_wf.
  - unfold hlen. cbn [queue]. lia.
  - constructor; cbn [queue names]; [exact ND|].
    intros k x. rewrite (index_items_find items 0 [] k x ND). simpl. split.
    + intros [(y & Hy & -> & Ey)|[_ H]]; [auto|discriminate].
    + intros [Hx Ex]. left. exists x. auto.
Qed.

(** * the content: key -> priority *)
Lemma item_eta (x : item) : x = (ikey x, iprio x).
Proof. destruct x; reflexivity. Qed.

Lemma search_in h k p : WF h -> (h_search h k = Some p <-> In (k, p) (queue h)).
Proof.
  intros W. unfold h_search. split.
  - destruct (nm_find k (names h)) as [i|] eqn:E; [|discriminate]. intros [= <-].
    apply (wf_index h W) in E as [Hi Ek]. rewrite <- Ek, <- item_eta. unfold get. now apply nth_In.
  - intros Hin. destruct (In_nth _ _ dflt Hin) as (i & Hi & E).
    assert (F : nm_find k (names h) = Some i).
    { apply (wf_index h W). split; auto. unfold get. now rewrite E. }
    rewrite F. unfold get. now rewrite E.
Qed.

Lemma search_none h k : WF h -> (h_search h k = None <-> ~ In k (keys (queue h))).
Proof.
  intros W. unfold h_search. split.
  - destruct (nm_find k (names h)) eqn:E; [discriminate|]. intros _. now apply absent_not_in.
  - intros Hn. destruct (nm_find k (names h)) as [i|] eqn:E; [|reflexivity].
    apply (wf_index h W) in E as [Hi Ek]. exfalso. apply Hn. rewrite <- Ek. now apply get_in_keys.
Qed.

Lemma prio_unique l k p p' : NoDup (keys l) -> In (k, p) l -> In (k, p') l -> p = p'.
Proof.
  intros ND H1 H2. destruct (In_nth _ _ dflt H1) as (i & Hi & E1). destruct (In_nth _ _ dflt H2) as (j & Hj & E2).
  assert (i = j) by (apply (key_inj l i j ND Hi Hj); unfold get; now rewrite E1, E2).
  subst j. congruence.
Qed.

Lemma search_ext a b k : WF a -> WF b -> (forall p, In (k, p) (queue a) <-> In (k, p) (queue b)) -> h_search a k = h_search b k.
Proof.
  intros Wa Wb H. destruct (h_search a k) as [p|] eqn:Ea.
  - apply (search_in a k p Wa) in Ea. apply H in Ea. symmetry. now apply search_in.
  - destruct (h_search b k) as [p|] eqn:Eb; [|reflexivity].
    apply (search_in b k p Wb) in Eb. apply H in Eb. apply (search_in a k p Wa) in Eb. congruence.
Qed.

Local Open Scope Z_scope.

Theorem T_push h k p : Good h -> h_search h k = None ->
  Good (h_push h k p) /\ forall k', h_search (h_push h k p) k' = if k' =? k then Some p else h_search h k'.
Proof.
  intros [W HO] Hs. assert (Hn : nm_find k (names h) = None).
  { unfold h_search in Hs. destruct (nm_find k (names h)); [discriminate|reflexivity]. }
  unfold h_push. pose proof (heap_push_wf h k p W Hn) as W'. destruct (push_ok h (k, p) HO) as (HO' & _ & PM).
  split; [split; assumption|]. intros k'.
  destruct (Z.eqb_spec k' k) as [->|Nk].
  - apply search_in; auto. eapply Permutation_in; [exact PM|now left].
  - apply search_ext; auto. intros p'. split; intros Hin.
    + apply Permutation_sym in PM. apply (Permutation_in _ PM) in Hin. destruct Hin as [[= E _]|Hin]; [congruence|exact Hin].
    + eapply Permutation_in; [exact PM|now right].
Qed.

Theorem T_peek_min h x : Good h -> h_peek h = Some x ->
  h_search h (ikey x) = Some (iprio x) /\ forall k' p', h_search h k' = Some p' -> iprio x <= p'.
Proof.
  intros [W HO] Hp. unfold h_peek in Hp. destruct (queue h) as [|y r] eqn:Eq; [discriminate|]. injection Hp as ->.
  split.
  - apply search_in; auto. rewrite Eq, <- item_eta. now left.
  - intros k' p' Hs. apply (search_in h k' p' W) in Hs. destruct (In_nth _ _ dflt Hs) as (i & Hi & E).
    pose proof (root_min h HO i Hi) as R. unfold prio, get in R. rewrite E, Eq in R. exact R.
Qed.

Theorem T_pop h : Good h -> queue h <> [] ->
  let h' := fst (h_pop h) in let x := snd (h_pop h) in
  Good h' /\ h_peek h = Some x /\
  forall k', h_search h' k' = if k' =? ikey x then None else h_search h k'.
Proof.
  intros [W HO] Hne. cbv zeta. unfold h_pop.
  pose proof (heap_pop_wf h W Hne) as W'. destruct (pop_ok h HO Hne) as (HO' & Ex & _ & PM).
  set (h' := fst (heap_pop h)) in *. set (x := snd (heap_pop h)) in *.
  split; [split; assumption|]. split.
  - unfold h_peek. rewrite Ex. destruct (queue h); [congruence|reflexivity].
  - intros k'. pose proof (wf_nodup h W) as ND.
    assert (ND2 : NoDup (keys (x :: queue h'))) by (eapply Permutation_NoDup; [apply Permutation_map, PM|exact ND]).
    simpl in ND2. apply NoDup_cons_iff in ND2 as [Hni _].
    destruct (Z.eqb_spec k' (ikey x)) as [->|Nk].
    + now apply search_none.
    + apply search_ext; auto. intros p'. split; intros Hin.
      * eapply Permutation_in; [apply Permutation_sym, PM|now right].
      * apply (Permutation_in _ PM) in Hin. destruct Hin as [E|Hin]; [|exact Hin]. exfalso. apply Nk. now rewrite E.
Qed.

Theorem T_update h k p : Good h ->
  (h_search h k = None -> h_update h k p = (h, false)) /\
  (forall p0, h_search h k = Some p0 ->
     snd (h_update h k p) = true /\ Good (fst (h_update h k p)) /\
     forall k', h_search (fst (h_update h k p)) k' = if k' =? k then Some p else h_search h k').
Proof.
  intros [W HO]. unfold h_update. destruct (nm_find k (names h)) as [i|] eqn:E.
  2:{ split; [reflexivity|]. intros p0 Hs. unfold h_search in Hs. rewrite E in Hs. discriminate. }
  split; [intros Hs; unfold h_search in Hs; rewrite E in Hs; discriminate|].
  intros p0 _. apply (wf_index h W) in E as [Hi Ek].
  cbn [fst snd]. split; [reflexivity|].
  set (h0 := mkAH (upd (queue h) i (ikey (get (queue h) i), p)) (names h)).
  assert (W0 : WF h0) by (apply upd_prio_wf; auto).
  assert (L0 : hlen h0 = hlen h) by (unfold hlen, h0; simpl; apply upd_length).
  pose proof (heap_fix_wf h0 i W0 ltac:(unfold hlen in *; lia)) as W'.
  destruct (fix_ok h i p HO Hi) as (HO' & _ & PM). fold h0 in HO', PM.
  split; [split; assumption|]. intros k'.
  assert (G0 : forall j, j <> i -> get (queue h0) j = get (queue h) j) by (intros j Hj; unfold h0; simpl; now apply get_upd_other).
  assert (Gi : get (queue h0) i = (k, p)) by (unfold h0; simpl; rewrite get_upd_same by exact Hi; now rewrite Ek).
  rewrite (search_ext (heap_fix h0 i) h0 k' W' W0).
  2:{ intros p'. split; intros Hin; [eapply Permutation_in; [apply Permutation_sym, PM|exact Hin]|eapply Permutation_in; [exact PM|exact Hin]]. }
  destruct (Z.eqb_spec k' k) as [->|Nk].
  - apply search_in; auto. rewrite <- Gi. unfold get. apply nth_In. unfold hlen in *. lia.
  - apply search_ext; auto. intros p'. split; intros Hin.
    + destruct (In_nth _ _ dflt Hin) as (j & Hj & Ej). destruct (Nat.eq_dec j i) as [->|Nj].
      * exfalso. apply Nk. change (nth i (queue h0) dflt) with (get (queue h0) i) in Ej. rewrite Gi in Ej. congruence.
      * change (nth j (queue h0) dflt) with (get (queue h0) j) in Ej. rewrite G0 in Ej by exact Nj. rewrite <- Ej.
        unfold get. apply nth_In. unfold hlen in *. lia.
    + destruct (In_nth _ _ dflt Hin) as (j & Hj & Ej). destruct (Nat.eq_dec j i) as [->|Nj].
      * exfalso. apply Nk. change (nth i (queue h) dflt) with (get (queue h) i) in Ej. rewrite <- Ek, Ej. reflexivity.
      * rewrite <- Ej. change (nth j (queue h) dflt) with (get (queue h) j). rewrite <- G0 by exact Nj.
        unfold get. apply nth_In. unfold hlen in *. lia.
Qed.

Theorem T_delete h k : Good h ->
  (h_search h k = None -> h_delete h k = (h, false)) /\
  (forall p0, h_search h k = Some p0 ->
     snd (h_delete h k) = true /\ Good (fst (h_delete h k)) /\
     forall k', h_search (fst (h_delete h k)) k' = if k' =? k then None else h_search h k').
Proof.
  intros [W HO]. unfold h_delete. destruct (nm_find k (names h)) as [i|] eqn:E.
  2:{ split; [reflexivity|]. intros p0 Hs. unfold h_search in Hs. rewrite E in Hs. discriminate. }
  split; [intros Hs; unfold h_search in Hs; rewrite E in Hs; discriminate|].
  intros p0 _. apply (wf_index h W) in E as [Hi Ek].
  cbn [fst snd]. split; [reflexivity|].
  pose proof (heap_remove_wf h i W Hi) as W'. destruct (remove_ok h i HO Hi) as (HO' & Ex & _ & PM).
  set (h' := fst (heap_remove h i)) in *. set (x := snd (heap_remove h i)) in *.
  split; [split; assumption|]. intros k'.
  pose proof (wf_nodup h W) as ND.
  assert (ND2 : NoDup (keys (x :: queue h'))) by (eapply Permutation_NoDup; [apply Permutation_map, PM|exact ND]).
  simpl in ND2. apply NoDup_cons_iff in ND2 as [Hni _].
  assert (Ekx : ikey x = k) by (rewrite Ex; exact Ek).
  destruct (Z.eqb_spec k' k) as [->|Nk].
  - apply search_none; auto. now rewrite <- Ekx.
  - apply search_ext; auto. intros p'. split; intros Hin.
    + eapply Permutation_in; [apply Permutation_sym, PM|now right].
    + apply (Permutation_in _ PM) in Hin. destruct Hin as [E|Hin]; [|exact Hin]. exfalso. apply Nk. rewrite <- Ekx, E. reflexivity.
Qed.

Theorem T_new items : NoDup (keys items) ->
  Good (h_new items) /\ forall k p, h_search (h_new items) k = Some p <-> In (k, p) items.
Proof.
  intros ND. pose proof (new_wf items ND) as W. unfold h_new in *.
  destruct (init_ok (mkAH items (index_items items 0 []))) as (HO & _ & PM). simpl queue in PM.
  split; [split; assumption|]. intros k p. rewrite search_in by exact W. split; intros Hin.
  - eapply Permutation_in; [apply Permutation_sym, PM|exact Hin].
  - eapply Permutation_in; [exact PM|exact Hin].
Qed.

(** ** histories: every reachable heap is well-formed and ordered *)
Definition hop_ok (h : aheap) (o : hop) : Prop :=
  match o with HPush k _ => h_search h k = None | _ => True end.
Fixpoint hrun_ok (h : aheap) (ops : list hop) : Prop :=
  match ops with [] => True | o :: r => hop_ok h o /\ hrun_ok (hstep h o) r end.

Theorem hstep_good h o : Good h -> hop_ok h o -> Good (hstep h o).
Proof.
  intros G Hok. destruct o as [k p| |k p|k]; simpl in *.
  - apply (T_push h k p G Hok).
  - destruct (queue h) eqn:Eq; [exact G|]. apply (T_pop h G). rewrite Eq. discriminate.
  - destruct (T_update h k p G) as [Hn Hs]. destruct (h_search h k) as [p0|] eqn:E.
    + apply (Hs p0 eq_refl).
    + now rewrite (Hn eq_refl).
  - destruct (T_delete h k G) as [Hn Hs]. destruct (h_search h k) as [p0|] eqn:E.
    + apply (Hs p0 eq_refl).
    + now rewrite (Hn eq_refl).
Qed.

Theorem hrun_good ops : forall h, Good h -> hrun_ok h ops -> Good (fold_left hstep ops h).
Proof.
  induction ops as [|o r IH]; intros h G Hok; simpl; auto.
  destruct Hok as [H1 H2]. apply IH; auto. now apply hstep_good.
Qed.
