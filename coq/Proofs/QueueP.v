(** Decision and pass-level theorems of the admission queue (C05, C06, C07). *)
From Furiko Require Import Queue.World.
From Coq Require Import Lia.
Open Scope list_scope.

(** * the policy decision (canStartJob) *)
Lemma can_start_reject now maxc active j :
  can_start now maxc active j = DReject -> q_policy j = PForbid /\ maxc < active + 1.
Proof.
  unfold can_start. destruct (q_policy j); try discriminate;
    destruct (q_start_after j) as [a|]; try discriminate;
    repeat match goal with |- context [if ?c then _ else _] => destruct c eqn:? end;
    try discriminate; intros _; split; auto; now apply Z.ltb_lt.
Qed.

Lemma can_start_enqueue_never_rejected now maxc active j :
  q_policy j = PEnqueue -> can_start now maxc active j <> DReject.
Proof. intros H E. apply can_start_reject in E as [E _]. congruence. Qed.

Lemma can_start_allow_always now maxc active j :
  q_policy j = PAllow \/ q_policy j = PNone ->
  can_start now maxc active j = DStart \/ can_start now maxc active j = DWait.
Proof.
  unfold can_start. intros [-> | ->]; auto.
  destruct (q_start_after j) as [a|]; auto. destruct (now <? a); auto.
Qed.

(** Forbid and Enqueue Jobs are started only below the limit, as seen by the counter *)
Lemma can_start_bound now maxc active j :
  can_start now maxc active j = DStart ->
  q_policy j = PForbid \/ q_policy j = PEnqueue -> active + 1 <= maxc.
Proof.
  unfold can_start. intros H [Hp|Hp]; rewrite Hp in H;
    destruct (q_start_after j) as [a|];
    repeat match type of H with context [if ?c then _ else _] => destruct c eqn:? end;
    try discriminate; now apply Z.ltb_ge.
Qed.

(** at the limit: Forbid is refused, Enqueue waits *)
Lemma can_start_at_limit now maxc active j :
  maxc < active + 1 ->
  match q_start_after j with Some a => a <= now | None => True end ->
  (q_policy j = PForbid -> can_start now maxc active j = DReject) /\
  (q_policy j = PEnqueue -> can_start now maxc active j = DSkip).
Proof.
  intros Hl Ha. apply Z.ltb_lt in Hl. unfold can_start.
  split; intros ->; destruct (q_start_after j) as [a|];
    try (replace (now <? a) with false by (symmetry; apply Z.ltb_ge; lia)); now rewrite Hl.
Qed.

(** C07: never before startAfter *)
Lemma can_start_not_before now maxc active j a :
  can_start now maxc active j = DStart -> q_policy j <> PNone -> q_start_after j = Some a -> a <= now.
Proof.
  unfold can_start. intros H Hp Ha. rewrite Ha in H.
  destruct (q_policy j); try congruence;
    destruct (now <? a) eqn:E; try discriminate; now apply Z.ltb_ge.
Qed.

(** monotonicity: once an Enqueue/Forbid Job does not fit, it does not fit at any larger count *)
Lemma can_start_monotone now maxc a a' j :
  maxc < a + 1 -> a <= a' -> q_policy j = PForbid \/ q_policy j = PEnqueue ->
  can_start now maxc a' j <> DStart.
Proof.
  intros H1 H2 Hp E. pose proof (can_start_bound _ _ _ _ E Hp). lia.
Qed.

(** * one pass: every start is decided DStart at a snapshot equal to the counter, the
    snapshot never decreases along the pass, and the start stamps the clock *)
Lemma api_write_keeps w cj upd fl ctr w' out :
  api_write w cj upd fl ctr = (w', out) -> q_clock w' = q_clock w /\ q_max w' = q_max w /\
  (out = 0 -> q_counter w' = ctr).
Proof.
  unfold api_write. destruct (find_job (q_id cj) (qa_jobs w)) as [a|].
  - destruct (negb (q_rv a =? q_rv cj)); intros [= <- <-]; simpl; repeat split; auto; try discriminate.
  - intros [= <- <-]. simpl. repeat split; auto; try discriminate.
Qed.

(** every successful start of a pass was decided DStart at a snapshot that is at least the
    snapshot the pass began with *)
Lemma sync_loop_starts jobs : forall w active acts armed w' acts' ok armed' id,
  sync_loop w jobs active acts armed = (w', acts', ok, armed') ->
  In (QAStart id 0) acts' -> In (QAStart id 0) acts \/
  exists j a', In j jobs /\ q_id j = id /\ active <= a' /\
    can_start (q_clock w) (max_conc w) a' j = DStart.
Proof.
  induction jobs as [|j r IH]; intros w active acts armed w' acts' ok armed' id; simpl.
  - intros [= _ <- _ _] H. now left.
  - destruct (can_start (q_clock w) (max_conc w) active j) eqn:Ed.
    + (* DStart *)
      destruct (negb (q_counter w =? active)) eqn:Ec.
      { intros [= _ <- _ _] H. now left. }
      apply negb_false_iff, Z.eqb_eq in Ec.
      destruct (take_qfault QFStart (q_faults w)) as [fl|].
      { intros [= _ <- _ _] [H|H]; [discriminate|now left]. }
      destruct (api_write w j (set_started (q_clock w)) (q_faults w) (q_counter w + 1)) as [w1 out] eqn:Ew.
      destruct (api_write_keeps _ _ _ _ _ _ _ Ew) as (Hc & Hm & Hctr).
      destruct (out =? 0) eqn:Eo.
      * apply Z.eqb_eq in Eo. intros H Hin.
        destruct (IH _ _ _ _ _ _ _ _ _ H Hin) as [[Hq|Hq]|(j' & a' & Hj & Hid & Ha & Hd)].
        -- injection Hq as Hq. right. exists j, active. split; [now left|]. split; [exact Hq|]. split; [lia|exact Ed].
        -- now left.
        -- right. exists j', a'. split; [now right|]. split; auto.
           rewrite (Hctr Eo) in Ha. split; [lia|].
           unfold max_conc in *. now rewrite Hc, Hm in Hd.
      * intros [= _ <- _ _] [H|H]; [injection H as _ E; rewrite E in Eo; discriminate|now left].
    + (* DSkip *)
      intros H Hin. destruct (IH _ _ _ _ _ _ _ _ _ H Hin) as [Hq|(j' & a' & Hj & Hid & Ha & Hd)]; auto.
      right. exists j', a'. split; [now right|auto].
    + (* DReject *)
      destruct (take_qfault QFReject (q_faults w)) as [fl|].
      { intros [= _ <- _ _] [H|H]; [discriminate|now left]. }
      destruct (api_write w j set_adm (q_faults w) (q_counter w)) as [w1 out] eqn:Ew.
      destruct (api_write_keeps _ _ _ _ _ _ _ Ew) as (Hc & Hm & _).
      destruct (out =? 0).
      * intros H Hin.
        destruct (IH _ _ _ _ _ _ _ _ _ H Hin) as [[Hq|Hq]|(j' & a' & Hj & Hid & Ha & Hd)].
        -- discriminate.
        -- now left.
        -- right. exists j', a'. split; [now right|]. split; auto. split; auto.
           unfold max_conc in *. now rewrite Hc, Hm in Hd.
      * intros [= _ <- _ _] [H|H]; [discriminate|now left].
    + (* DWait *)
      intros H Hin. destruct (IH _ _ _ _ _ _ _ _ _ H Hin) as [Hq|(j' & a' & Hj & Hid & Ha & Hd)]; auto.
      right. exists j', a'. split; [now right|auto].
Qed.

(** C05, pass level: every Forbid/Enqueue Job started by a pass was admitted at a count
    [a'] that is at least the counter value the pass read, with a' + 1 <= maxConcurrency. *)
Theorem pass_start_bound w w' acts ok armed id :
  sync_q w = (w', acts, ok, armed) -> In (QAStart id 0) acts ->
  exists j a', In j (queued_jobs w) /\ q_id j = id /\ q_counter w <= a' /\
    (q_policy j = PForbid \/ q_policy j = PEnqueue -> a' + 1 <= max_conc w) /\
    (forall a, q_policy j <> PNone -> q_start_after j = Some a -> a <= q_clock w).
Proof.
  unfold sync_q. destruct (sync_loop w (queued_jobs w) (q_counter w) [] false) as [[[w1 acts1] ok1] armed1] eqn:E.
  intros [= <- <- <- <-] Hin. apply in_rev in Hin.
  destruct (sync_loop_starts _ _ _ _ _ _ _ _ _ _ E Hin) as [[]|(j & a' & Hj & Hid & Ha & Hd)].
  exists j, a'. repeat split; auto.
  - intros Hp. eapply can_start_bound; eauto.
  - intros a Hp Hs. eapply can_start_not_before; eauto.
Qed.

(** the store's listener: what changes the counter *)
Lemma store_event_cases ctr e :
  store_event ctr e = ctr \/ store_event ctr e = ctr - 1 \/ store_event ctr e = ctr + 1.
Proof.
  destruct e as [j|o n|j]; simpl; auto.
  - destruct (negb (q_owned o)); auto. destruct (is_active o && negb (is_active n)); auto.
    destruct (negb (is_active o) && is_active n && _); auto.
  - destruct (q_owned j && is_active j); auto.
Qed.

(** no double increment: the unstarted -> started transition that StartJob itself causes is
    not counted again *)
Lemma store_no_double_increment ctr o n :
  is_started o = false -> is_started n = true -> store_event ctr (EUpd o n) = ctr.
Proof.
  intros Ho Hn. simpl. destruct (negb (q_owned o)); auto.
  unfold is_active. rewrite Ho, Hn. simpl. now rewrite andb_false_r.
Qed.

(** a Job that stops being active (terminal phase), or an active Job that is deleted,
    releases its slot exactly once *)
Lemma store_release ctr o n :
  q_owned o = true -> is_active o = true -> is_active n = false -> store_event ctr (EUpd o n) = ctr - 1.
Proof. intros Ho Ha Hn. simpl. now rewrite Ho, Ha, Hn. Qed.
Lemma store_release_delete ctr j :
  q_owned j = true -> is_active j = true -> store_event ctr (EDel j) = ctr - 1.
Proof. intros Ho Ha. simpl. now rewrite Ho, Ha. Qed.

(** independent Jobs: started at once unless startAfter is in the future *)
Lemma indep_not_before w id w' acts ok armed j a :
  sync_indep w id = (w', acts, ok, armed) -> In (QAStart id 0) acts ->
  find_job id (qc_jobs w) = Some j -> q_policy j <> PNone -> q_start_after j = Some a -> a <= q_clock w.
Proof.
  unfold sync_indep. intros H Hin Hf Hp Ha. rewrite Hf in H.
  destruct (negb (is_queued j)); [injection H as _ <- _ _; destruct Hin|].
  rewrite Ha in H. destruct (q_policy j); try congruence;
    destruct (q_clock w <? a) eqn:E; try (injection H as _ <- _ _; destruct Hin); now apply Z.ltb_ge.
Qed.
