(** C10 over histories: "Succeeded" in a Job's status is real.  For every history of the
    one-Job world: a task recorded in the API status with result Succeeded (in its status or
    its tombstone) is the name of a Pod that was, at some moment of that history, in the API
    in phase Succeeded and not OOM-killed (or it was recorded so in the Job the history
    started from).  Whatever the caches show, whatever fails, whoever else writes. *)
From Furiko Require Import Job.Core Job.Sync Job.World Proofs.JobP Proofs.SyncP Proofs.HistoryP Proofs.CacheP.
From Coq Require Import Lia.
Local Open Scope list_scope.
Local Open Scope Z_scope.

Section Success.
Variable S : string -> Prop.   (* the names that may be recorded as succeeded *)

Definition POK (pods : list pod) : Prop := forall p, In p pods -> pod_result p = RSucceeded -> S (p_name p).
Definition EvOK (evs : list pod_event) : Prop := forall p, In (PSet p) evs -> pod_result p = RSucceeded -> S (p_name p).
Definition RS (r : taskref) : Prop :=
  (st_result (tr_status r) = RSucceeded -> S (tr_name r)) /\
  (forall d, tr_deleted r = Some d -> st_result d = RSucceeded -> S (tr_name r)).
Definition RSL (l : list taskref) : Prop := forall r, In r l -> RS r.
Definition RSJ (j : job) : Prop := RSL (j_tasks j).

Lemma pok_app a b : POK (a ++ b) <-> POK a /\ POK b.
Proof. unfold POK. split; [intros H; split; intros p Hp; apply H; apply in_or_app; auto|].
  intros [Ha Hb] p Hp. apply in_app_or in Hp as [Hp|Hp]; auto. Qed.
Lemma evok_app a b : EvOK (a ++ b) <-> EvOK a /\ EvOK b.
Proof. unfold EvOK. split; [intros H; split; intros p Hp; apply H; apply in_or_app; auto|].
  intros [Ha Hb] p Hp. apply in_app_or in Hp as [Hp|Hp]; auto. Qed.

(** * task refs *)
Lemma find_ref_in n l e : find_ref n l = Some e -> In e l /\ tr_name e = n.
Proof.
  induction l as [|r t IH]; simpl; [discriminate|].
  destruct (String.eqb (tr_name r) n) eqn:E.
  - intros [= <-]. split; [now left|now apply String.eqb_eq].
  - intros H. destruct (IH H). split; auto.
Qed.
Lemma find_ref_last_in n l e : find_ref_last n l = Some e -> In e l /\ tr_name e = n.
Proof. unfold find_ref_last. intros H. apply find_ref_in in H as [H1 H2]. split; auto. now apply in_rev. Qed.

Lemma pod_ref_status p : st_result (tr_status (pod_ref p)) = pod_result p.
Proof. reflexivity. Qed.

Lemma get_task_ref_rs ex p : (forall e, ex = Some e -> RS e /\ tr_name e = p_name p) ->
  (pod_result p = RSucceeded -> S (p_name p)) -> RS (get_task_ref ex p).
Proof.
  intros He Hp. unfold get_task_ref.
  destruct ex as [e|].
  - destruct (He e eq_refl) as [[R1 R2] En].
    destruct (tr_finish (pod_ref p)); split; simpl; try exact Hp.
    + intros d [= <-]. exact Hp.
    + intros d Hd Hr. rewrite <- En. eapply R2; eauto.
  - destruct (tr_finish (pod_ref p)); split; simpl; try exact Hp; try discriminate.
    intros d [= <-]. exact Hp.
Qed.

Lemma vanished_ref_rs now e : RS e -> RS (vanished_ref now e).
Proof.
  intros [R1 R2]. unfold vanished_ref. split; simpl.
  - destruct (tr_deleted e) as [d|] eqn:Ed; [intros Hr; eapply R2; eauto|exact R1].
  - exact R2.
Qed.

Lemma generate_task_refs_rs now existing pods : RSL existing -> POK pods -> RSL (generate_task_refs now existing pods).
Proof.
  intros He Hp r Hr. unfold generate_task_refs in Hr. apply sort_refs_in, in_app_or in Hr as [Hr|Hr].
  - apply in_map_iff in Hr as (p & <- & Hin). apply get_task_ref_rs.
    + intros e Ee. apply find_ref_last_in in Ee as [E1 E2]. split; auto.
    + now apply Hp.
  - apply in_map_iff in Hr as (e & <- & Hin). apply filter_In in Hin as [Hin _]. apply vanished_ref_rs. now apply He.
Qed.

Lemma update_task_refs_rs now j pods : RSJ j -> POK pods -> RSJ (update_task_refs now j pods).
Proof. intros Hj Hp. unfold RSJ, update_task_refs. simpl. now apply generate_task_refs_rs. Qed.

Lemma rsj_same_tasks j j' : j_tasks j' = j_tasks j -> RSJ j -> RSJ j'.
Proof. unfold RSJ. now intros ->. Qed.

Lemma sync_status_rs now s j s' j' : sync_status now s j = (s', j') -> RSJ j -> RSJ j'.
Proof. intros H. apply sync_status_tasks in H. now apply rsj_same_tasks. Qed.

Lemma sync_status_refs_rs now s j pods s' j' : sync_status_refs now s j pods = (s', j') -> RSJ j -> POK pods -> RSJ j'.
Proof. unfold sync_status_refs. intros H Hj Hp. eapply sync_status_rs; [exact H|]. now apply update_task_refs_rs. Qed.

Lemma mark_deleted_rs l st o f j : st_result st <> RSucceeded -> RSJ j -> RSJ (mark_deleted l st o f j).
Proof.
  intros Hst Hj r Hr. unfold mark_deleted in Hr. simpl in Hr. apply in_map_iff in Hr as (e & <- & He).
  destruct (Hj e He) as [R1 R2]. destruct (mem_str (tr_name e) l); [|split; assumption].
  split; simpl; [exact R1|]. intros d [= <-].
  assert (G : forall x, st_result (if f then mkSt (st_state x) (st_result x) ReForceDeleted else x) = st_result x) by (intros x; destruct f; reflexivity).
  rewrite G. destruct (tr_deleted e) as [d0|] eqn:Ed.
  - destruct o; [intros X; contradiction|intros X; eapply R2; eauto].
  - intros X. contradiction.
Qed.

(** * the pass: pods it looks at come from the cache or are the ones it just created *)
Record PSI (s : pstate) : Prop := {
  psi_api : POK (api_pods (ps_w s));
  psi_cache : POK (cache_pods (ps_w s));
  psi_pending : EvOK (pod_pending (ps_w s));
  psi_dels : EvOK (ps_del_events s)
}.

Definition pf4 (s : pstate) := (api_pods (ps_w s), cache_pods (ps_w s), pod_pending (ps_w s), ps_del_events s).
Lemma psi_same s s' : pf4 s' = pf4 s -> PSI s -> PSI s'.
Proof. unfold pf4. intros [= E1 E2 E3 E4] [A B C D]. constructor; [rewrite E1|rewrite E2|rewrite E3|rewrite E4]; assumption. Qed.

Ltac psi_id := eapply psi_same; [|eassumption]; reflexivity.

Lemma find_pod_in n l p : find_pod n l = Some p -> In p l.
Proof.
  induction l as [|q r IH]; simpl; [discriminate|].
  destruct (String.eqb (p_name q) n); [intros [= <-]; now left|intros H; right; auto].
Qed.

Lemma cached_tasks_pok s (refs : list taskref) : PSI s ->
  POK (flat_map (fun r => match find_pod (tr_name r) (cache_pods (ps_w s)) with Some p => [p] | None => [] end) refs).
Proof.
  intros HP p Hp Hr. apply in_flat_map in Hp as (r & _ & Hp).
  destruct (find_pod (tr_name r) (cache_pods (ps_w s))) as [q|] eqn:E; [|destruct Hp].
  destruct Hp as [<-|[]]. apply find_pod_in in E. now apply (psi_cache s HP).
Qed.

Lemma new_pod_result h r t : pod_result (new_pod h r t) = RNone.
Proof. reflexivity. Qed.

Lemma sync_create_task_ok s j tasks h retry s' j' t' res :
  sync_create_task s j tasks h retry = (s', j', t', res) -> PSI s -> POK tasks ->
  PSI s' /\ POK t' /\ j_tasks j' = j_tasks j.
Proof.
  unfold sync_create_task. intros H HP Ht.
  destruct (take_fault FCreatePod _); [injection H as <- <- <- _; split; [psi_id|auto]|].
  destruct (take_fault FCreatePodInvalid _); [injection H as <- <- <- _; split; [psi_id|auto]|].
  destruct (has_pod _ _).
  - assert (G : PSI (add_action s (ACreate (job_task_name h retry) 1))) by (psi_id).
    destruct (find_pod _ _) as [p|] eqn:Ef; [destruct (p_controlled p)|]; injection H as <- <- <- _; split; auto.
    split; auto. apply pok_app. split; auto. intros q [<-|[]] Hr. apply find_pod_in in Ef. now apply (psi_cache s HP).
  - injection H as <- <- <- _.
    assert (Hn : POK [new_pod h retry (clock (ps_w s))]) by (intros q [<-|[]] Hr; rewrite new_pod_result in Hr; discriminate).
    split; [|split; auto; apply pok_app; auto].
    destruct HP as [A B C D]. constructor; simpl; auto.
    + apply pok_app. auto.
    + apply evok_app. split; auto. intros q [[= <-]|[]] Hr. rewrite new_pod_result in Hr. discriminate.
Qed.

Lemma create_loop_ok reqs : forall s j tasks now s' j' t' res,
  create_loop s j tasks reqs now = (s', j', t', res) -> PSI s -> POK tasks ->
  PSI s' /\ POK t' /\ j_tasks j' = j_tasks j.
Proof.
  induction reqs as [|rq r IH]; intros s j tasks now s' j' t' res; simpl.
  - intros [= <- <- <- _]. auto.
  - destruct (match rq_earliest rq with Some e => now <? e | None => false end); [apply IH|].
    destruct (sync_create_task s j tasks (rq_hash rq) (rq_retry rq)) as [[[s1 j1] t1] [|]] eqn:E; intros H HP Ht;
      destruct (sync_create_task_ok _ _ _ _ _ _ _ _ _ E HP Ht) as (P1 & T1 & J1).
    + destruct (IH _ _ _ _ _ _ _ _ H P1 T1) as (P2 & T2 & J2). split; auto. split; auto. congruence.
    + injection H as <- <- <- _. auto.
Qed.

Lemma psi_arm_if (b : bool) s : PSI s -> PSI (if b then arm s else s).
Proof. destruct b; auto. intros H. psi_id. Qed.
Lemma psi_arm_list {A} (l : list A) s : PSI s -> PSI (match l with [] => s | _ :: _ => arm s end).
Proof. destruct l; auto. intros H. psi_id. Qed.

Lemma sync_status_psi now s j s' j' : sync_status now s j = (s', j') -> PSI s -> PSI s'.
Proof. unfold sync_status. intros [= <- _]. apply psi_arm_if. Qed.

Lemma sync_create_tasks_ok s j tasks now s' j' t' res :
  sync_create_tasks s j tasks now = (s', j', t', res) -> PSI s -> POK tasks -> RSJ j ->
  PSI s' /\ POK t' /\ RSJ j'.
Proof.
  unfold sync_create_tasks. intros H HP Ht Hj.
  destruct (negb (can_create_task j)); [injection H as <- <- <- _; auto|].
  destruct (summary _ _ _ _) as [complete succ]. destruct complete; [injection H as <- <- <- _; auto|].
  destruct (create_loop s j tasks (compute_missing j) now) as [[[s1 j1] t1] [|]] eqn:E;
    destruct (create_loop_ok _ _ _ _ _ _ _ _ _ E HP Ht) as (P1 & T1 & J1).
  - match type of H with context [sync_status_refs now ?x j1 t1] => destruct (sync_status_refs now x j1 t1) as [s2 j2] eqn:E2 end.
    injection H as <- <- <- _. split; [|split; auto].
    + eapply sync_status_psi; [exact E2|]. now apply psi_arm_if.
    + eapply sync_status_refs_rs; [exact E2| |exact T1]. eapply rsj_same_tasks; eauto.
  - injection H as <- <- <- _. auto.
Qed.

(** deletes: Pods only leave, or get a deletion timestamp *)
Lemma pok_remove n l : POK l -> POK (remove_pod n l).
Proof. intros H p Hp. apply filter_In in Hp as [Hp _]. now apply H. Qed.

Lemma pok_set p l : POK l -> (pod_result p = RSucceeded -> S (p_name p)) -> POK (set_pod p l).
Proof.
  intros H Hp q Hq. unfold set_pod in Hq. destruct (has_pod (p_name p) l).
  - apply in_map_iff in Hq as (x & <- & Hx). destruct (String.eqb (p_name x) (p_name p)); [exact Hp|now apply H].
  - apply in_app_or in Hq as [Hq|[<-|[]]]; [now apply H|exact Hp].
Qed.

Lemma api_delete_pod_psi s name force w' out evs a :
  api_delete_pod (ps_w s) name force = (w', out, evs) -> PSI s ->
  PSI (add_del_events (add_action (with_world s w') a) evs).
Proof.
  unfold api_delete_pod. intros H [A B C D].
  destruct (find_pod name (api_pods (ps_w s))) as [p|] eqn:Ef.
  2:{ injection H as <- _ <-. constructor; simpl; auto. now rewrite app_nil_r. }
  apply find_pod_in in Ef as Hin.
  destruct (force || negb (mem_str name (pod_scheduled (ps_w s)))).
  - injection H as <- _ <-. constructor; simpl; auto.
    + now apply pok_remove.
    + now rewrite app_nil_r.
    + apply evok_app. split; auto. intros q [X|[]]. discriminate X.
  - destruct (p_deletion p).
    + injection H as <- _ <-. constructor; simpl; auto. now rewrite app_nil_r.
    + injection H as <- _ <-.
      assert (Hp' : pod_result (set_deletion p (clock (ps_w s) + 30)) = RSucceeded -> S (p_name (set_deletion p (clock (ps_w s) + 30)))).
      { intros Hr. apply (A p Hin). exact Hr. }
      constructor; simpl; auto.
      * now apply pok_set.
      * now rewrite app_nil_r.
      * apply evok_app. split; auto. intros q [[= <-]|[]]. exact Hp'.
Qed.

Lemma delete_tasks_ordered_psi tasks : forall s force now s' ok,
  delete_tasks_ordered s tasks force now = (s', ok) -> PSI s -> PSI s'.
Proof.
  induction tasks as [|p r IH]; intros s force now s' ok; simpl.
  - intros [= <- _]. auto.
  - destruct (negb force && _); [apply IH|].
    destruct (take_fault FDeletePod _).
    + destruct (delete_tasks_ordered (add_action s _) r force now) as [s1 ok1] eqn:E. intros [= <- _] HP.
      eapply IH; [exact E|]. psi_id.
    + destruct (api_delete_pod (ps_w s) (p_name p) force) as [[w' out] evs] eqn:Ed. intros H HP.
      eapply IH; [exact H|]. eapply api_delete_pod_psi; eauto.
Qed.
Lemma delete_tasks_psi s tasks force now s' ok : delete_tasks s tasks force now = (s', ok) -> PSI s -> PSI s'.
Proof. apply delete_tasks_ordered_psi. Qed.

Lemma killed_not_succ r : st_result (killed_status r) <> RSucceeded.
Proof. discriminate. Qed.

Lemma handle_pending_ok cfg s j tasks now s' j' ok : handle_pending cfg s j tasks now = (s', j', ok) -> PSI s -> RSJ j -> PSI s' /\ RSJ j'.
Proof.
  unfold handle_pending. destruct (pending_timeout cfg j <=? 0); [intros [= <- <- _]; auto|].
  set (nd := filter (fun p => now <? p_created p + pending_timeout cfg j) _).
  set (need := filter _ (filter _ tasks)).
  destruct need as [|p r] eqn:En.
  - intros [= <- <- _] HP Hj. split; auto. now apply psi_arm_list.
  - destruct (delete_tasks _ (p :: r) false now) as [s1 ok1] eqn:E. intros [= <- <- _] HP Hj. split.
    + eapply delete_tasks_psi; [exact E|]. now apply psi_arm_list.
    + apply mark_deleted_rs; [apply killed_not_succ|exact Hj].
Qed.

Lemma handle_kill_ok s j tasks now s' j' ok : handle_kill s j tasks now = (s', j', ok) -> PSI s -> RSJ j -> PSI s' /\ RSJ j'.
Proof.
  unfold handle_kill. destruct (negb (should_kill now j)); [intros [= <- <- _]; auto|].
  destruct (filter _ tasks) as [|p r]; [intros [= <- <- _]; auto|].
  destruct (delete_tasks _ _ _ _) as [s1 ok1] eqn:E. intros [= <- <- _] HP Hj. split.
  - eapply delete_tasks_psi; eauto.
  - apply mark_deleted_rs; [apply killed_not_succ|exact Hj].
Qed.

Lemma handle_force_ok cfg s j tasks now s' j' ok : handle_force cfg s j tasks now = (s', j', ok) -> PSI s -> RSJ j -> POK tasks -> PSI s' /\ RSJ j'.
Proof.
  unfold handle_force. destruct (force_timeout cfg <=? 0); [intros [= <- <- _]; auto|].
  destruct (j_forbid_force j); [intros [= <- <- _]; auto|].
  match goal with |- context [filter ?f (filter ?g tasks)] => set (dl := filter g tasks) end.
  set (need := filter (fun p => match p_deletion p with Some t => negb (now <? t + force_timeout cfg) | None => false end) dl).
  set (wt := filter (fun p => match p_deletion p with Some t => now <? t + force_timeout cfg | None => false end) dl).
  destruct need as [|p r] eqn:En.
  - intros [= <- <- _] HP Hj Ht. split; auto. now apply psi_arm_list.
  - destruct (delete_tasks _ (p :: r) true now) as [s1 ok1] eqn:E. intros [= <- <- _] HP Hj Ht. split.
    + eapply delete_tasks_psi; [exact E|]. now apply psi_arm_list.
    + apply update_task_refs_rs; [|exact Ht]. apply mark_deleted_rs; [apply killed_not_succ|exact Hj].
Qed.

Lemma sync_job_tasks_ok cfg s j now s' j' ok :
  sync_job_tasks cfg s j now = (s', j', ok) -> PSI s -> RSJ j -> PSI s' /\ RSJ j'.
Proof.
  unfold sync_job_tasks. intros H HP Hj.
  pose proof (cached_tasks_pok s (j_tasks j) HP) as Ht. set (tasks := flat_map _ (j_tasks j)) in *.
  destruct (sync_create_tasks s j tasks now) as [[[s1 j1] t1] [|]] eqn:E1;
    destruct (sync_create_tasks_ok _ _ _ _ _ _ _ _ E1 HP Ht Hj) as (P1 & T1 & J1); [|injection H as <- <- _; auto].
  destruct (sync_status_refs now s1 j1 t1) as [s2 j2] eqn:E2.
  assert (P2 : PSI s2) by (eapply sync_status_psi; eauto).
  assert (J2 : RSJ j2) by (eapply sync_status_refs_rs; eauto).
  destruct (handle_pending cfg s2 j2 t1 now) as [[s3 j3] ok3] eqn:E3.
  destruct (handle_pending_ok _ _ _ _ _ _ _ _ E3 P2 J2) as [P3 J3].
  destruct (negb ok3); [injection H as <- <- _; auto|].
  destruct (handle_kill s3 j3 t1 now) as [[s4 j4] ok4] eqn:E4.
  destruct (handle_kill_ok _ _ _ _ _ _ _ E4 P3 J3) as [P4 J4].
  destruct (negb ok4); [injection H as <- <- _; auto|].
  destruct (handle_force cfg s4 j4 t1 now) as [[s5 j5] ok5] eqn:E5.
  destruct (handle_force_ok _ _ _ _ _ _ _ _ E5 P4 J4 T1) as [P5 J5].
  destruct (negb ok5); [injection H as <- <- _; auto|].
  destruct (sync_status_refs now s5 j5 t1) as [s6 j6] eqn:E6.
  injection H as <- <- _. split; [eapply sync_status_psi; eauto|eapply sync_status_refs_rs; eauto].
Qed.

Lemma handle_finalizer_ok s j now s' j' ok : handle_finalizer s j now = (s', j', ok) -> PSI s -> RSJ j -> PSI s' /\ RSJ j'.
Proof.
  unfold handle_finalizer. intros H HP Hj. destruct (j_deletion j); [|injection H as <- <- _; auto].
  destruct (negb (j_finalizer j)); [injection H as <- <- _; auto|].
  pose proof (cached_tasks_pok s (j_tasks j) HP) as Ht. set (tasks := flat_map _ (j_tasks j)) in *.
  destruct tasks as [|p r] eqn:Et.
  - destruct (sync_status_refs now s j []) as [s1 j1] eqn:E. injection H as <- <- _. split.
    + eapply sync_status_psi; eauto.
    + eapply rsj_same_tasks; [|eapply sync_status_refs_rs; [exact E|exact Hj|intros ? []]]. reflexivity.
  - destruct (sync_status_refs now s _ (p :: r)) as [s1 j2] eqn:E.
    destruct (delete_tasks s1 (p :: r) false now) as [s2 ok2] eqn:Ed. injection H as <- <- _. split.
    + eapply delete_tasks_psi; [exact Ed|]. eapply sync_status_psi; eauto.
    + eapply sync_status_refs_rs; [exact E| |exact Ht]. apply mark_deleted_rs; [apply killed_not_succ|exact Hj].
Qed.

Lemma handle_ttl_psi cfg s j now s' ok : handle_ttl cfg s j now = (s', ok) -> PSI s -> PSI s'.
Proof.
  unfold handle_ttl. destruct (j_deletion j); [intros [= <- _]; auto|].
  destruct (j_cond j); try (intros [= <- _]; auto).
  destruct (now <? _); [intros [= <- _]; auto|].
  destruct (take_fault FDeleteJob _); [intros [= <- _] HP; psi_id|].
  destruct (api_delete_job (ps_w s)) as [w' out] eqn:E. intros [= <- _] HP.
  eapply psi_same; [|exact HP]. unfold pf4. simpl.
  unfold api_delete_job in E. destruct (api_job (ps_w s)) as [a|]; [|injection E as <- _; reflexivity].
  destruct (j_finalizer a); [destruct (j_deletion a)|]; injection E as <- _; reflexivity.
Qed.

Theorem sync_ok cfg s j now s' j' ok : sync cfg s j now = (s', j', ok) -> PSI s -> RSJ j -> PSI s' /\ RSJ j'.
Proof.
  unfold sync. intros H HP Hj.
  destruct (match j_start j, j_deletion j with Some _, None => sync_job_tasks cfg s j now | _, _ => (s, j, true) end)
    as [[s1 j1] ok1] eqn:E1.
  assert (R1 : PSI s1 /\ RSJ j1).
  { destruct (j_start j); [destruct (j_deletion j)|]; try (injection E1 as <- <- _; auto).
    eapply sync_job_tasks_ok; eauto. }
  destruct R1 as [P1 J1].
  destruct (negb ok1); [injection H as <- <- _; auto|].
  destruct (sync_status now s1 j1) as [s2 j2] eqn:E2.
  assert (P2 : PSI s2) by (eapply sync_status_psi; eauto).
  assert (J2 : RSJ j2) by (eapply sync_status_rs; eauto).
  destruct (handle_ttl cfg s2 j2 now) as [s3 ok3] eqn:E3. apply handle_ttl_psi in E3; auto.
  destruct (negb ok3); [injection H as <- <- _; auto|].
  destruct (handle_finalizer s3 j2 now) as [[s4 j4] ok4] eqn:E4.
  destruct (handle_finalizer_ok _ _ _ _ _ _ E4 E3 J2) as [P4 J4].
  destruct (negb ok4); injection H as <- <- _; auto.
Qed.

(** * the world *)
Definition JOK (j : option job) : Prop := match j with Some x => RSJ x | None => True end.
Record JWI (w : jworld) : Prop := {
  jw_api : JOK (api_job w);
  jw_cache : JOK (cache_job w);
  jw_pending : forall j rv, In (j, rv) (job_pending w) -> JOK j
}.
Definition WI (w : jworld) : Prop := PSI (mkPS w [] false []) /\ JWI w.

Lemma jwi_jf w w' : jf w' = jf w -> JWI w -> JWI w'.
Proof. unfold jf. intros [= E1 E2 E3 E4 E5] [A B C]. constructor; [rewrite E1|rewrite E3|rewrite E5]; assumption. Qed.

Lemma jwi_upd w j fl rv : JWI w -> JOK j -> JWI (upd_job w j rv fl).
Proof.
  intros [A B C] Hj. constructor; simpl; auto.
  intros j' rv' Hin. apply in_app_or in Hin as [Hin|[[= <- _]|[]]]; eauto.
Qed.

Lemma api_delete_job_jwi w w' out : api_delete_job w = (w', out) -> JWI w -> JWI w'.
Proof.
  unfold api_delete_job. intros H HJ. destruct (api_job w) as [a|] eqn:Ea; [|injection H as <- _; exact HJ].
  assert (Ra : RSJ a) by (pose proof (jw_api w HJ) as X; rewrite Ea in X; exact X).
  destruct (j_finalizer a); [destruct (j_deletion a)|]; injection H as <- _; auto; apply jwi_upd; simpl; auto.
Qed.

Lemma handle_ttl_jwi cfg s j now s' ok : handle_ttl cfg s j now = (s', ok) -> JWI (ps_w s) -> JWI (ps_w s').
Proof.
  unfold handle_ttl. destruct (j_deletion j); [intros [= <- _]; auto|].
  destruct (j_cond j); try (intros [= <- _]; auto).
  destruct (now <? _); [intros [= <- _]; auto|].
  destruct (take_fault FDeleteJob _); [intros [= <- _] HJ; eapply jwi_jf; [|exact HJ]; reflexivity|].
  destruct (api_delete_job (ps_w s)) as [w' out] eqn:E. intros [= <- _] HJ. simpl. eapply api_delete_job_jwi; eauto.
Qed.

Lemma sync_jwi cfg s j now s' j' ok : sync cfg s j now = (s', j', ok) -> JWI (ps_w s) -> JWI (ps_w s').
Proof.
  unfold sync. intros H HJ.
  destruct (match j_start j, j_deletion j with Some _, None => sync_job_tasks cfg s j now | _, _ => (s, j, true) end)
    as [[s1 j1] ok1] eqn:E1.
  assert (J1 : JWI (ps_w s1)).
  { destruct (j_start j); [destruct (j_deletion j)|]; try (injection E1 as <- _ _; exact HJ).
    apply sync_job_tasks_jf in E1. eapply jwi_jf; eauto. }
  destruct (negb ok1); [injection H as <- _ _; exact J1|].
  destruct (sync_status now s1 j1) as [s2 j2] eqn:E2. apply sync_status_w in E2.
  destruct (handle_ttl cfg s2 j2 now) as [s3 ok3] eqn:E3. apply handle_ttl_jwi in E3; [|now rewrite E2].
  destruct (negb ok3); [injection H as <- _ _; exact E3|].
  destruct (handle_finalizer s3 j2 now) as [[s4 j4] ok4] eqn:E4. apply handle_finalizer_jf in E4.
  destruct (negb ok4); injection H as <- _ _; eapply jwi_jf; eauto.
Qed.

Lemma api_update_job_jwi w newj rv w' out : api_update_job w newj rv = (w', out) -> JWI w -> JWI w'.
Proof.
  unfold api_update_job. intros H HJ. destruct (api_job w) as [a|] eqn:Ea; [|injection H as <- _; exact HJ].
  assert (Ra : RSJ a) by (pose proof (jw_api w HJ) as X; rewrite Ea in X; exact X).
  destruct (negb (rv =? api_rv w)); [injection H as <- _; exact HJ|].
  destruct (j_deletion a); [destruct (j_finalizer newj)|]; injection H as <- _; apply jwi_upd; simpl; auto.
Qed.

Lemma api_update_status_jwi w newj rv w' out : api_update_status w newj rv = (w', out) -> RSJ newj -> JWI w -> JWI w'.
Proof.
  unfold api_update_status. intros H Hn HJ. destruct (api_job w) as [a|]; [|injection H as <- _; exact HJ].
  destruct (negb (rv =? api_rv w)); injection H as <- _; [exact HJ|]. apply jwi_upd; simpl; auto.
Qed.

Lemma end_pass_wi s : PSI s -> JWI (ps_w s) -> WI (end_pass s).
Proof.
  intros [A B C D] HJ.
  assert (G : WI (upd_pods (ps_w s) (api_pods (ps_w s)) (pod_scheduled (ps_w s)) (sort_evs (ps_del_events s)) (faults (ps_w s)))).
  { split.
    - constructor; cbn [ps_w ps_del_events upd_pods api_pods cache_pods pod_pending]; auto; [|intros ? []].
      apply evok_app. split; auto. intros p Hp. apply D. apply sort_evs_in. exact Hp.
    - eapply jwi_jf; [|exact HJ]. reflexivity. }
  unfold end_pass. destruct (existsb _ _); [|exact G].
  destruct (take_fault FDeletePod _); [|exact G]. destruct G as [[A' B' C' D'] J']. split.
  - constructor; simpl; auto.
  - eapply jwi_jf; [|exact J']. reflexivity.
Qed.

Lemma psi_world s w' : pf (ps_w s) = pf w' -> PSI s -> forall acts armed, PSI (mkPS w' acts armed (ps_del_events s)).
Proof. unfold pf. intros [= E1 E2 E3] [A B C D] acts armed. constructor; simpl; [rewrite <- E1|rewrite <- E2|rewrite <- E3|]; assumption. Qed.

Theorem sync_one_wi cfg w w' acts ok armed : sync_one cfg w = (w', acts, ok, armed) -> WI w -> WI w'.
Proof.
  unfold sync_one. intros H [HP HJ]. destruct (cache_job w) as [j|] eqn:Ec; [|injection H as <- _ _ _; split; assumption].
  assert (Rj : RSJ j) by (pose proof (jw_cache w HJ) as X; rewrite Ec in X; exact X).
  destruct (sync cfg (mkPS w [] false []) j (clock w)) as [[s1 newj] ok1] eqn:Es.
  destruct (sync_ok cfg _ _ _ _ _ _ Es HP Rj) as [P1 Rn].
  pose proof (sync_jwi _ _ _ _ _ _ _ Es HJ) as J1. simpl in J1.
  set (upd := if meta_eqb j newj then (s1, true) else _) in H.
  assert (U : PSI (fst upd) /\ JWI (ps_w (fst upd))).
  { unfold upd. destruct (meta_eqb j newj); [auto|].
    destruct (take_fault FUpdateJob _).
    - simpl. split; [psi_id|eapply jwi_jf; [|exact J1]; reflexivity].
    - destruct (api_update_job (ps_w s1) newj (cache_rv w)) as [wu out] eqn:Eu. simpl. split.
      + apply api_update_job_pf in Eu. eapply psi_same; [|exact P1]. unfold pf4. simpl. unfold pf in Eu. congruence.
      + eapply api_update_job_jwi; eauto. }
  destruct upd as [s2 ok2]. simpl in U. destruct U as [P2 J2].
  destruct (negb ok2); [injection H as <- _ _ _; now apply end_pass_wi|].
  set (st := if status_eqb j newj then (s2, true) else _) in H.
  assert (U3 : PSI (fst st) /\ JWI (ps_w (fst st))).
  { unfold st. destruct (status_eqb j newj); [auto|].
    destruct (take_fault FUpdateStatus _).
    - simpl. split; [psi_id|eapply jwi_jf; [|exact J2]; reflexivity].
    - destruct (api_update_status (ps_w s2) newj (cache_rv w)) as [wu out] eqn:Eu. simpl. split.
      + apply api_update_status_pf in Eu. eapply psi_same; [|exact P2]. unfold pf4. simpl. unfold pf in Eu. congruence.
      + eapply api_update_status_jwi; eauto. }
  destruct st as [s3 ok3]. simpl in U3. destruct U3 as [P3 J3]. injection H as <- _ _ _. now apply end_pass_wi.
Qed.

Lemma set_pod_in p l : In p (set_pod p l).
Proof.
  unfold set_pod. destruct (has_pod (p_name p) l) eqn:E; [|apply in_or_app; right; now left].
  apply has_pod_spec in E as (q & Hq & En). apply in_map_iff. exists q. split; auto.
  apply String.eqb_eq in En. now rewrite En.
Qed.

Lemma apply_pod_events_ok n : forall evs cache rest cache',
  apply_pod_events n evs cache = (rest, cache') -> EvOK evs -> POK cache -> EvOK rest /\ POK cache'.
Proof.
  induction n as [|n IH]; intros evs cache rest cache'; simpl.
  - intros [= <- <-]. auto.
  - destruct evs as [|[p|m] r]; [intros [= <- <-]; auto| |]; intros H He Hc.
    + eapply IH; [exact H| |].
      * intros q Hq. apply He. now right.
      * apply pok_set; auto. apply He. now left.
    + eapply IH; [exact H| |].
      * intros q Hq. apply He. now right.
      * now apply pok_remove.
Qed.

Lemma wi_pods w pods sched evs fl :
  WI w -> POK pods -> EvOK evs -> WI (upd_pods w pods sched evs fl).
Proof.
  intros [[A B C D] HJ] Hp He. split.
  - constructor; simpl; auto. apply evok_app. auto.
  - eapply jwi_jf; [|exact HJ]. reflexivity.
Qed.

Theorem jstep_wi cfg w o :
  WI w -> POK (api_pods (fst (fst (fst (jstep cfg w o))))) -> WI (fst (fst (fst (jstep cfg w o)))).
Proof.
  intros HW. pose proof HW as [[A B C D] HJ]. simpl in A, B, C.
  destruct o as [t|n k|h r| |t| |n|n|f|]; simpl; intros Hnew.
  - split; [constructor; simpl; auto|eapply jwi_jf; [|exact HJ]; reflexivity].
  - unfold kubelet in *. destruct (find_pod n (api_pods w)) as [p|] eqn:Ef; [|exact HW].
    assert (HSet : forall p' sched fl, POK (set_pod p' (api_pods w)) -> WI (upd_pods w (set_pod p' (api_pods w)) sched [PSet p'] fl)).
    { intros p' sched fl Hn. apply wi_pods; auto. intros q [[= <-]|[]]. apply Hn. apply set_pod_in. }
    assert (HDel : forall m sched fl, WI (upd_pods w (remove_pod m (api_pods w)) sched [PDel m] fl)).
    { intros m sched fl. apply wi_pods; auto; [now apply pok_remove|]. intros q [X|[]]. discriminate X. }
    destruct k; try (apply HSet; exact Hnew); try apply HDel.
    + destruct (mem_str n (pod_scheduled w)); [exact HW|apply HSet; exact Hnew].
    + destruct (p_deletion p); [apply HDel|exact HW].
  - destruct (has_pod _ _); simpl in *; [exact HW|]. apply wi_pods; auto.
    intros q [[= <-]|[]] Hr. discriminate Hr.
  - destruct (api_job w) as [a|] eqn:Ea; simpl; [|exact HW]. destruct (j_start a); simpl; [exact HW|].
    assert (Ra : RSJ a) by (pose proof (jw_api w HJ) as X; rewrite Ea in X; exact X).
    split; [constructor; simpl; auto|apply jwi_upd; simpl; auto].
  - destruct (api_job w) as [a|] eqn:Ea; simpl; [|exact HW].
    assert (Ra : RSJ a) by (pose proof (jw_api w HJ) as X; rewrite Ea in X; exact X).
    split; [constructor; simpl; auto|apply jwi_upd; simpl; auto].
  - destruct (api_delete_job w) as [w' out] eqn:E. simpl. split.
    + apply api_delete_job_pf in E. unfold pf in E. injection E as E1 E2 E3. constructor; simpl; [rewrite E1|rewrite E2|rewrite E3|]; auto.
    + eapply api_delete_job_jwi; eauto.
  - destruct (apply_job_events n (job_pending w) (cache_job w, cache_rv w)) as [rest [cj crv]] eqn:E. simpl.
    destruct (apply_job_events_in _ _ _ _ _ E) as [Hc Hr]. split; [constructor; simpl; auto|].
    destruct HJ as [JA JB JC]. constructor; simpl; auto.
    + destruct Hc as [[= -> _]|Hin]; [exact JB|]. apply (JC _ _ Hin).
    + intros j rv Hin. apply (JC j rv). auto.
  - destruct (apply_pod_events n (pod_pending w) (cache_pods w)) as [rest cache] eqn:E. simpl.
    destruct (apply_pod_events_ok _ _ _ _ _ E C B) as [He Hc]. split; [constructor; simpl; auto|].
    eapply jwi_jf; [|exact HJ]. reflexivity.
  - split; [constructor; simpl; auto|eapply jwi_jf; [|exact HJ]; reflexivity].
  - destruct (sync_one cfg w) as [[[w' acts] ok] armed] eqn:E. simpl. eapply sync_one_wi; eauto.
Qed.

Lemma wi_init j0 now : RSJ j0 -> WI (init_jworld j0 now).
Proof.
  intros H. split.
  - constructor; simpl; intros ? [].
  - constructor; simpl; [exact H|exact H|intros ? ? []].
Qed.

Theorem jrun_wi cfg ops : forall w, WI w ->
  (forall k, POK (api_pods (jrun_world cfg w (firstn k ops)))) -> WI (jrun_world cfg w ops).
Proof.
  induction ops as [|o r IH]; intros w HW Hk; simpl; auto.
  apply IH.
  - apply jstep_wi; auto. exact (Hk 1%nat).
  - intros k. exact (Hk (Datatypes.S k)).
Qed.

End Success.

(** C10, over histories *)
Definition really_succeeded (cfg : jcfg) (j0 : job) (now : Z) (ops : list jop) (n : string) : Prop :=
  (exists k p, In p (api_pods (jrun_world cfg (init_jworld j0 now) (firstn k ops))) /\
               p_name p = n /\ p_phase p = PSucceeded /\ p_oom p = false) \/
  (exists r0, In r0 (j_tasks j0) /\ tr_name r0 = n /\
              (st_result (tr_status r0) = RSucceeded \/ exists d, tr_deleted r0 = Some d /\ st_result d = RSucceeded)).

Lemma pod_result_succ p : pod_result p = RSucceeded -> p_phase p = PSucceeded /\ p_oom p = false.
Proof. unfold pod_result. destruct (p_oom p); [discriminate|]. destruct (p_phase p); try discriminate. auto. Qed.

Theorem recorded_success_is_real cfg j0 now ops a r :
  api_job (jrun_world cfg (init_jworld j0 now) ops) = Some a -> In r (j_tasks a) ->
  (st_result (tr_status r) = RSucceeded \/ exists d, tr_deleted r = Some d /\ st_result d = RSucceeded) ->
  really_succeeded cfg j0 now ops (tr_name r).
Proof.
  intros Ea Hr Hs. set (S := really_succeeded cfg j0 now ops).
  assert (H0 : RSJ S j0).
  { intros r0 H0. split; [intros X|intros d Hd X]; right; exists r0; repeat split; auto. right. eauto. }
  assert (Hk : forall k, POK S (api_pods (jrun_world cfg (init_jworld j0 now) (firstn k ops)))).
  { intros k p Hp Hres. left. apply pod_result_succ in Hres as [H1 H2]. exists k, p. auto. }
  destruct (jrun_wi S cfg ops _ (wi_init S j0 now H0) Hk) as [_ HJ].
  pose proof (jw_api S _ HJ) as X. rewrite Ea in X. destruct (X r Hr) as [R1 R2].
  destruct Hs as [Hs|(d & Hd & Hs)]; [now apply R1|eapply R2; eauto].
Qed.
