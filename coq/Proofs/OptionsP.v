(** C18: option evaluation respects the option's constraints, agrees with the defaults,
    yields one value per option; the admitted substitution map obeys the priority order and
    does not depend on the order in which a (Go) map is enumerated. *)
From Furiko Require Import Admission.Options.
From Coq Require Import Lia OrderedTypeEx Sorted.
Open Scope list_scope.

Lemma is_empty_spec s : is_empty s = true <-> s = EmptyString.
Proof. destruct s; simpl; split; intros H; try reflexivity; discriminate H. Qed.

Lemma is_empty_false s : is_empty s = false <-> s <> EmptyString.
Proof. destruct s; simpl; split; intros H; congruence. Qed.

Lemma mem_spec s l : mem s l = true <-> In s l.
Proof.
  unfold mem. rewrite existsb_exists. split.
  - intros (x & Hx & E). apply String.eqb_eq in E. now subst.
  - intros H. exists s. split; auto. apply String.eqb_refl.
Qed.

(** * per-type constraints *)
Lemma eval_bool_ok dates v o f tv fv d s :
  o_type o = TBool f tv fv d -> eval_option dates v o = Ok s ->
  exists b, (v = VNil /\ b = d \/ v = VBool b) /\ fmt_bool f tv fv b = Ok s.
Proof.
  unfold eval_option. intros ->. destruct v; try (intros H; discriminate H); intros H.
  - exists d. auto.
  - exists b. auto.
Qed.

Lemma eval_string_ok dates v o d tr s :
  o_type o = TString d tr -> eval_option dates v o = Ok s ->
  exists raw, (v = VNil /\ raw = d \/ v = VStr raw) /\
    s = (if tr then trim raw else raw) /\ (o_required o = true -> s <> EmptyString).
Proof.
  unfold eval_option. intros ->.
  assert (G : forall raw, (if o_required o && is_empty (if tr then trim raw else raw) then ErrRequired
                           else Ok (if tr then trim raw else raw)) = Ok s ->
                          s = (if tr then trim raw else raw) /\ (o_required o = true -> s <> EmptyString)).
  { intros raw. destruct (o_required o && is_empty _) eqn:E; intros H; [discriminate H|].
    injection H as <-. split; auto. intros Hr. rewrite Hr in E. simpl in E. now apply is_empty_false. }
  destruct v; try (intros H; discriminate H); intros H.
  - exists d. destruct (G _ H). auto.
  - exists s0. destruct (G _ H). auto.
Qed.

Lemma eval_select_ok dates v o d values custom s :
  o_type o = TSelect d values custom -> eval_option dates v o = Ok s ->
  (v = VNil /\ s = d \/ v = VStr s) /\
  (s = EmptyString \/ custom = true \/ In s values) /\ (o_required o = true -> s <> EmptyString).
Proof.
  unfold eval_option. intros ->.
  assert (G : forall raw, (if negb (is_empty raw) && negb custom && negb (mem raw values) then ErrNotSupported
                           else if is_empty raw && o_required o then ErrRequired else Ok raw) = Ok s ->
     s = raw /\ (s = EmptyString \/ custom = true \/ In s values) /\ (o_required o = true -> s <> EmptyString)).
  { intros raw. destruct (negb (is_empty raw) && negb custom && negb (mem raw values)) eqn:E1; intros H; [discriminate H|].
    destruct (is_empty raw && o_required o) eqn:E2; [discriminate H|]. injection H as <-.
    split; auto. split.
    - destruct (is_empty raw) eqn:Ee; [left; now apply is_empty_spec|].
      destruct custom; [auto|]. simpl in E1. right; right. apply mem_spec.
      now destruct (mem raw values).
    - intros Hr. rewrite Hr, andb_true_r in E2. now apply is_empty_false. }
  destruct v; try (intros H; discriminate H); intros H.
  - destruct (G _ H) as (-> & ?). auto.
  - destruct (G _ H) as (-> & ?). auto.
Qed.

Lemma multi_check_none values custom l :
  multi_check values custom l = None ->
  (custom = false -> forall x, In x l -> In x values) /\ (forall x, In x l -> x <> EmptyString).
Proof.
  induction l as [|v r IH]; simpl; [intros _; split; intros; contradiction|].
  destruct (negb custom && negb (mem v values)) eqn:E1; [intros H; discriminate H|].
  destruct (is_empty v) eqn:E2; [intros H; discriminate H|]. intros H.
  destruct (IH H) as [I1 I2]. split.
  - intros -> x [<-|Hx]; [|now apply I1]. simpl in E1. apply mem_spec. now destruct (mem v values).
  - intros x [<-|Hx]; [now apply is_empty_false|now apply I2].
Qed.

(** the list that a multi option evaluates: the submitted one, or the default when none or
    an empty one was submitted *)
Definition multi_input (v : oval) (d : list string) : option (list string) :=
  match v with
  | VNil => Some d
  | VList l => match strs_of l with Some [] => Some d | x => x end
  | _ => None
  end.

Lemma eval_multi_ok dates v o d values custom delim s :
  o_type o = TMulti d values custom delim -> eval_option dates v o = Ok s ->
  exists l, multi_input v d = Some l /\ s = join delim l /\
    (custom = false -> forall x, In x l -> In x values) /\ (forall x, In x l -> x <> EmptyString) /\
    (o_required o = true -> l <> []).
Proof.
  unfold eval_option, multi_input. intros ->.
  assert (G : forall l', match l' with
                         | [] => if o_required o then ErrRequired else Ok EmptyString
                         | _ => match multi_check values custom l' with Some e => e | None => Ok (join delim l') end
                         end = Ok s ->
     s = join delim l' /\ (custom = false -> forall x, In x l' -> In x values) /\
     (forall x, In x l' -> x <> EmptyString) /\ (o_required o = true -> l' <> [])).
  { intros [|a r].
    - destruct (o_required o); intros H; [discriminate H|]. injection H as <-.
      repeat split; try (intros; contradiction); try (intros H; discriminate H).
    - destruct (multi_check values custom (a :: r)) as [e|] eqn:E.
      + intros ->. exfalso. revert E. clear. generalize (a :: r). intros l.
        induction l as [|x t IH]; simpl; [intros H; discriminate H|].
        destruct (negb custom && negb (mem x values)); [intros H; discriminate H|].
        destruct (is_empty x); [intros H; discriminate H|]. exact IH.
      + intros H. injection H as <-. destruct (multi_check_none _ _ _ E). repeat split; auto.
        intros _ H'. discriminate H'. }
  destruct v; try (intros H; discriminate H).
  - intros H. exists d. split; [reflexivity|]. apply (G d). destruct d; exact H.
  - destruct (strs_of l) as [l0|]; [|intros H; discriminate H].
    destruct l0 as [|a r]; intros H.
    + exists d. split; [reflexivity|]. apply (G d). destruct d; exact H.
    + exists (a :: r). split; [reflexivity|]. now apply (G (a :: r)).
Qed.

Lemma eval_date_ok dates v o s :
  o_type o = TDate -> eval_option dates v o = Ok s ->
  (s = EmptyString /\ o_required o = false /\ (v = VNil \/ v = VStr EmptyString)) \/
  exists raw, v = VStr raw /\ raw <> EmptyString /\ dates raw = Some s.
Proof.
  unfold eval_option. intros ->. destruct v; try (intros H; discriminate H).
  - destruct (o_required o); intros H; [discriminate H|]. injection H as <-. left. auto.
  - destruct (is_empty s0) eqn:E.
    + apply is_empty_spec in E as ->. destruct (o_required o); intros H; [discriminate H|].
      injection H as <-. left. auto.
    + destruct (dates s0) eqn:Ed; intros H; [|discriminate H]. injection H as <-.
      right. exists s0. split; auto. split; auto. now apply is_empty_false.
Qed.

(** wrong-typed values are rejected, never coerced *)
Lemma eval_wrong_type dates v o :
  match o_type o, v with
  | TBool _ _ _ _, (VStr _ | VList _ | VNum _) => True
  | (TString _ _ | TSelect _ _ _ | TDate), (VBool _ | VList _ | VNum _) => True
  | TMulti _ _ _ _, (VBool _ | VStr _ | VNum _) => True
  | _, _ => False
  end -> eval_option dates v o = ErrInvalid.
Proof. unfold eval_option. destruct (o_type o), v; simpl; intros H; try contradiction; reflexivity. Qed.

(** * agreement with the defaults *)
Lemma eval_nil_default dates o s : eval_option dates VNil o = Ok s -> eval_default o = Ok s.
Proof.
  unfold eval_option, eval_default. destruct (o_type o) as [f tv fv d|d tr|d vs cu|d vs cu de|]; auto.
  - destruct (o_required o && is_empty _); intros H; [discriminate H|exact H].
  - destruct (negb (is_empty d) && negb cu && negb (mem d vs)); intros H; [discriminate H|].
    destruct (is_empty d && o_required o); [discriminate H|exact H].
  - destruct d as [|a r].
    + destruct (o_required o); intros H; [discriminate H|exact H].
    + destruct (multi_check vs cu (a :: r)) as [e|] eqn:E; [|auto].
      intros ->. exfalso. revert E. generalize (a :: r). intros l.
      induction l as [|x t IH]; simpl; [intros H; discriminate H|].
      destruct (negb cu && negb (mem x vs)); [intros H; discriminate H|].
      destruct (is_empty x); [intros H; discriminate H|]. exact IH.
  - destruct (o_required o); intros H; [discriminate H|exact H].
Qed.

(** * one value per declared option *)
Lemma eval_options_shape dates values opts m :
  eval_options dates values opts = Some m ->
  Forall2 (fun o e => fst e = ("option." ++ o_name o)%string /\
                      eval_option (fun s => date_lookup dates (o_name o ++ "|" ++ s)%string)
                                  (value_of (o_name o) values) o = Ok (snd e)) opts m.
Proof.
  revert m. induction opts as [|o r IH]; simpl; intros m.
  - intros [= <-]. constructor.
  - destruct (eval_option _ _ o) as [s| | |] eqn:E; try (intros H; discriminate H).
    destruct (eval_options dates values r) as [m'|]; [|intros H; discriminate H].
    intros [= <-]. constructor; [split; [reflexivity|exact E]|]. now apply IH.
Qed.

Lemma eval_options_reject dates values opts :
  eval_options dates values opts = None <->
  exists o, In o opts /\ forall s, eval_option (fun s => date_lookup dates (o_name o ++ "|" ++ s)%string)
                                               (value_of (o_name o) values) o <> Ok s.
Proof.
  induction opts as [|o r IH]; simpl.
  - split; [intros H; discriminate H|intros (o & [] & _)].
  - destruct (eval_option _ _ o) as [s| | |] eqn:E.
    + destruct (eval_options dates values r) as [m'|].
      * split; [intros H; discriminate H|]. intros (o' & [<-|Hin] & Hn).
        -- exfalso. now apply (Hn s).
        -- assert (Hc : Some m' = None) by (apply (proj2 IH); exists o'; auto). discriminate Hc.
      * split; auto. intros _. destruct (proj1 IH eq_refl) as (o' & Hin & Hn). exists o'. auto.
    + split; auto. intros _. exists o. split; auto. intros s H. rewrite E in H. discriminate H.
    + split; auto. intros _. exists o. split; auto. intros s H. rewrite E in H. discriminate H.
    + split; auto. intros _. exists o. split; auto. intros s H. rewrite E in H. discriminate H.
Qed.

(** * maps: sort_kv is a finite map with "later entries win" *)
Lemma ltb_irrefl s : String.ltb s s = false.
Proof. unfold String.ltb. pose proof (proj2 (String_as_OT.cmp_eq s s) eq_refl) as H. unfold String_as_OT.cmp in H. now rewrite H. Qed.

Lemma ltb_neq a b : String.ltb a b = true -> String.eqb a b = false.
Proof. intros H. apply String.eqb_neq. intros ->. rewrite ltb_irrefl in H. discriminate H. Qed.

Lemma insert_lookup k e l :
  lookup_kv k (insert_kv e l) = if String.eqb (fst e) k then Some (snd e) else lookup_kv k l.
Proof.
  destruct e as [ke ve]. simpl. induction l as [|[kx vx] t IH]; simpl; [reflexivity|].
  destruct (String.ltb kx ke) eqn:E1; simpl.
  - rewrite IH. destruct (String.eqb ke k) eqn:E2; auto.
    apply String.eqb_eq in E2 as ->. now rewrite (ltb_neq _ _ E1).
  - destruct (String.eqb kx ke) eqn:E3; simpl; auto.
    apply String.eqb_eq in E3 as ->. now destruct (String.eqb ke k).
Qed.

Fixpoint lookup_last (k : string) (l : kv) : option string :=
  match l with
  | [] => None
  | (k', v) :: r => match lookup_last k r with
                    | Some w => Some w
                    | None => if String.eqb k' k then Some v else None
                    end
  end.

Lemma fold_insert_lookup k l : forall acc,
  lookup_kv k (fold_left (fun a e => insert_kv e a) l acc) =
  match lookup_last k l with Some v => Some v | None => lookup_kv k acc end.
Proof.
  induction l as [|[k' v] r IH]; intros acc; simpl; [reflexivity|].
  rewrite IH. destruct (lookup_last k r); auto. rewrite insert_lookup. simpl.
  now destruct (String.eqb k' k).
Qed.

Lemma sort_lookup k l : lookup_kv k (sort_kv l) = lookup_last k l.
Proof. unfold sort_kv. rewrite fold_insert_lookup. now destruct (lookup_last k l). Qed.

Lemma lookup_last_app k a b :
  lookup_last k (a ++ b) = match lookup_last k b with Some v => Some v | None => lookup_last k a end.
Proof.
  induction a as [|[k' v] r IH]; simpl; [now destruct (lookup_last k b)|].
  rewrite IH. now destruct (lookup_last k b).
Qed.

(** the priority order of admission: explicit > evaluated option > jobconfig context *)
Lemma admit_precedence dates opts values explicit jcvars subs :
  admit_subs dates opts values explicit jcvars = Some subs ->
  exists ev, eval_options dates values opts = Some ev /\
  forall k, lookup_kv k subs =
    match lookup_last k explicit with
    | Some v => Some v
    | None => match lookup_last k ev with
              | Some v => Some v
              | None => lookup_last k jcvars
              end
    end.
Proof.
  unfold admit_subs, merge_kv. destruct (eval_options dates values opts) as [ev|]; [|intros H; discriminate H].
  intros [= <-]. exists ev. split; auto. intros k. rewrite sort_lookup. simpl.
  rewrite !lookup_last_app. simpl. destruct (lookup_last k explicit); auto.
Qed.

(** with distinct option names, the evaluated map holds each option's own value *)
Lemma app_inj_l (p a b : string) : (p ++ a)%string = (p ++ b)%string -> a = b.
Proof. induction p as [|c p IH]; simpl; auto. intros H. injection H as H. auto. Qed.

Lemma lookup_last_none k l : ~ In k (map fst l) -> lookup_last k l = None.
Proof.
  induction l as [|[k' v] r IH]; simpl; auto. intros H.
  rewrite IH by tauto. destruct (String.eqb k' k) eqn:E; auto. apply String.eqb_eq in E. tauto.
Qed.

Lemma eval_options_own dates values opts ev o s :
  eval_options dates values opts = Some ev -> NoDup (map o_name opts) -> In o opts ->
  eval_option (fun s => date_lookup dates (o_name o ++ "|" ++ s)%string) (value_of (o_name o) values) o = Ok s ->
  lookup_last ("option." ++ o_name o)%string ev = Some s.
Proof.
  intros He. apply eval_options_shape in He. induction He as [|o' e r m [Hk Hv] Hr IH]; simpl.
  - intros _ [].
  - intros Hnd Hin Hev. apply NoDup_cons_iff in Hnd as [Hni Hnd]. destruct e as [k v]. simpl in *.
    destruct Hin as [->|Hin].
    + rewrite lookup_last_none.
      * subst k. rewrite String.eqb_refl. congruence.
      * intros Hm. apply Hni. clear - Hr Hm. induction Hr as [|o2 e2 r2 m2 [Hk2 _] _ IH2]; simpl in *; [contradiction|].
        destruct Hm as [Hm|Hm]; [left|right; auto]. rewrite Hk2 in Hm. now apply (app_inj_l "option.") in Hm.
    + now rewrite (IH Hnd Hin Hev).
Qed.

(** * determinism: the sorted list depends only on the map, not on its enumeration *)
Definition slt (a b : string) : Prop := String.ltb a b = true.

Lemma slt_lt a b : slt a b <-> String_as_OT.lt a b.
Proof.
  unfold slt, String.ltb. rewrite <- String_as_OT.cmp_lt. unfold String_as_OT.cmp.
  destruct (String.compare a b); split; intros H; try reflexivity; discriminate H.
Qed.

Lemma slt_trans a b c : slt a b -> slt b c -> slt a c.
Proof. rewrite !slt_lt. apply String_as_OT.lt_trans. Qed.

Lemma slt_total a b : String.ltb a b = false -> String.eqb a b = false -> slt b a.
Proof.
  intros H1 H2. apply slt_lt. apply String_as_OT.cmp_lt. unfold String_as_OT.cmp.
  rewrite String.compare_antisym. unfold String.ltb in H1.
  destruct (String.compare a b) eqn:E; simpl; auto; try discriminate H1.
  apply String.compare_eq_iff in E. subst. rewrite String.eqb_refl in H2. discriminate H2.
Qed.

Definition key_lt (x y : string * string) : Prop := slt (fst x) (fst y).

Lemma insert_sorted e l : StronglySorted key_lt l -> StronglySorted key_lt (insert_kv e l).
Proof.
  induction l as [|x t IH]; simpl; intros Hs.
  - repeat constructor.
  - apply StronglySorted_inv in Hs as [Ht Hx].
    destruct (String.ltb (fst x) (fst e)) eqn:E1.
    + constructor; [now apply IH|].
      clear IH Ht. induction t as [|y t IHt]; simpl.
      * repeat constructor. exact E1.
      * apply Forall_cons_iff in Hx as [Hxy Hxt].
        destruct (String.ltb (fst y) (fst e)); [constructor; auto|].
        destruct (String.eqb (fst y) (fst e)); constructor; auto; try exact E1.
    + destruct (String.eqb (fst x) (fst e)) eqn:E2.
      * apply String.eqb_eq in E2. constructor; auto. unfold key_lt in *. rewrite <- E2. exact Hx.
      * pose proof (slt_total _ _ E1 E2) as Hlt. constructor; [constructor; auto|].
        constructor; [exact Hlt|]. eapply Forall_impl; [|exact Hx].
        intros y Hy. unfold key_lt in *. eapply slt_trans; eauto.
Qed.

Lemma sort_sorted l : StronglySorted key_lt (sort_kv l).
Proof.
  unfold sort_kv. assert (G : forall acc, StronglySorted key_lt acc ->
    StronglySorted key_lt (fold_left (fun a e => insert_kv e a) l acc)).
  { induction l as [|e r IH]; simpl; auto. intros acc Ha. apply IH. now apply insert_sorted. }
  apply G. constructor.
Qed.

Lemma lookup_above k t : Forall (fun y => slt k (fst y)) t -> lookup_kv k t = None.
Proof.
  induction t as [|[ky vy] t IH]; simpl; auto. intros H. apply Forall_cons_iff in H as [H1 H2].
  simpl in H1. rewrite String.eqb_sym, (ltb_neq _ _ H1). auto.
Qed.

Lemma sorted_ext l : forall l', StronglySorted key_lt l -> StronglySorted key_lt l' ->
  (forall k, lookup_kv k l = lookup_kv k l') -> l = l'.
Proof.
  induction l as [|[kx vx] t IH]; intros [|[ky vy] t'] Hs Hs' Hl; auto.
  - specialize (Hl ky). simpl in Hl. rewrite String.eqb_refl in Hl. discriminate Hl.
  - specialize (Hl kx). simpl in Hl. rewrite String.eqb_refl in Hl. discriminate Hl.
  - apply StronglySorted_inv in Hs as [Ht Hx]. apply StronglySorted_inv in Hs' as [Ht' Hy].
    unfold key_lt in Hx, Hy. simpl in Hx, Hy.
    assert (Ek : kx = ky).
    { destruct (String.eqb kx ky) eqn:E; [now apply String.eqb_eq|]. exfalso.
      destruct (String.ltb kx ky) eqn:E1.
      - pose proof (Hl kx) as H. simpl in H. rewrite String.eqb_refl, String.eqb_sym, E in H.
        rewrite lookup_above in H; [discriminate H|].
        eapply Forall_impl; [|exact Hy]. intros y Hyy. eapply slt_trans; eauto.
      - pose proof (slt_total _ _ E1 E) as Hlt.
        pose proof (Hl ky) as H. simpl in H. rewrite String.eqb_refl, E in H.
        rewrite lookup_above in H; [discriminate H|].
        eapply Forall_impl; [|exact Hx]. intros y Hyy. eapply slt_trans; eauto. }
    subst ky. pose proof (Hl kx) as H. simpl in H. rewrite String.eqb_refl in H. injection H as ->.
    f_equal. apply IH; auto. intros k. specialize (Hl k). simpl in Hl.
    destruct (String.eqb kx k) eqn:E; auto. apply String.eqb_eq in E as <-.
    now rewrite !lookup_above.
Qed.

(** two enumerations of the same map sort to the same list, hence substitute identically *)
Lemma sort_kv_deterministic l l' :
  (forall k, lookup_last k l = lookup_last k l') -> sort_kv l = sort_kv l'.
Proof.
  intros H. apply sorted_ext; try apply sort_sorted. intros k. now rewrite !sort_lookup.
Qed.

Lemma substitute_vars_deterministic t l l' :
  (forall k, lookup_last k l = lookup_last k l') -> substitute_vars t l = substitute_vars t l'.
Proof. intros H. unfold substitute_vars. now rewrite (sort_kv_deterministic _ _ H). Qed.

(** * other text is untouched: a string without '$' passes through every substitution *)
Fixpoint no_dollar (s : string) : bool :=
  match s with
  | EmptyString => true
  | String a r => negb (Ascii.eqb a "$") && no_dollar r
  end.

Lemma prefix_dollar_none p s : no_dollar s = true -> prefix_of (String "$" p) s = None.
Proof.
  destruct s as [|a r]; cbn [prefix_of no_dollar]; auto. intros H. apply andb_true_iff in H as [H _].
  rewrite Ascii.eqb_sym. destruct (Ascii.eqb a "$"); [discriminate H|reflexivity].
Qed.

Lemma replace_all_fuel_plain p v : forall fuel s, no_dollar s = true ->
  replace_all_fuel fuel s (String "$" p) v = s.
Proof.
  induction fuel as [|f IH]; intros s Hs; [reflexivity|]. cbn [replace_all_fuel].
  rewrite (prefix_dollar_none _ _ Hs). destruct s as [|a r]; auto.
  cbn [no_dollar] in Hs. apply andb_true_iff in Hs as [_ Hr]. now rewrite IH.
Qed.

Lemma replace_all_plain s n v : no_dollar s = true -> replace_all s (var_syntax n) v = s.
Proof.
  intros Hs. change (var_syntax n) with (String "$" (String "{" (n ++ "}"))).
  unfold replace_all. now apply replace_all_fuel_plain.
Qed.

Lemma substitute_vars_plain s m : no_dollar s = true -> substitute_vars s m = s.
Proof.
  intros Hs. unfold substitute_vars. induction (sort_kv m) as [|[k v] r IH]; cbn [fold_left fst snd]; auto.
  now rewrite replace_all_plain.
Qed.

Lemma blank_prefix_plain p s : no_dollar s = true -> blank_prefix p s = s.
Proof.
  unfold blank_prefix. change ("${" ++ p)%string with (String "$" (String "{" p)).
  generalize (S (String.length s)). intros fuel. revert s.
  induction fuel as [|f IH]; intros s Hs; [reflexivity|]. cbn [blank_prefix_fuel].
  destruct s as [|a r]; auto. rewrite (prefix_dollar_none _ _ Hs).
  cbn [no_dollar] in Hs. apply andb_true_iff in Hs as [_ Hr]. now rewrite IH.
Qed.

Lemma substitute_maps_plain s maps prefixes : no_dollar s = true -> substitute_maps s maps prefixes = s.
Proof.
  intros Hs. unfold substitute_maps.
  assert (E : fold_left substitute_vars maps s = s).
  { induction maps as [|m r IH]; cbn [fold_left]; auto. now rewrite substitute_vars_plain. }
  rewrite E. induction prefixes as [|p r IH]; cbn [fold_left]; auto. now rewrite blank_prefix_plain.
Qed.

(** a single ${name}: replaced by the value when the map has the name *)
Lemma prefix_of_self p : prefix_of p p = Some EmptyString.
Proof. induction p as [|a p IH]; simpl; auto. now rewrite Ascii.eqb_refl. Qed.

Lemma append_nil_r (s : string) : (s ++ "")%string = s.
Proof. induction s as [|a s IH]; simpl; congruence. Qed.

Lemma replace_all_exact search v : search <> EmptyString -> replace_all search search v = v.
Proof.
  intros Hn. unfold replace_all. destruct search as [|a r]; [congruence|].
  remember (String a r) as p eqn:E. cbn [replace_all_fuel]. rewrite prefix_of_self.
  subst p. cbn [String.length replace_all_fuel prefix_of]. apply append_nil_r.
Qed.
