(** C18, template semantics: on a tokenised template (literal text without '$' and
    well-formed ${name} tokens) whose substitution values contain no '$', the ReplaceAll /
    regexp pipeline of SubstituteVariableMaps renders every variable from the first
    (highest-priority) map that defines it, blanks unknown names of the reserved prefixes,
    and leaves everything else untouched. *)
From Furiko Require Import Admission.Options Proofs.OptionsP.
From Coq Require Import Lia.
Open Scope list_scope.

Local Open Scope string_scope.

(** * strings *)
Lemma append_assoc (a b c : string) : (a ++ b) ++ c = a ++ (b ++ c).
Proof. induction a as [|x a IH]; simpl; congruence. Qed.

Lemma length_append (a b : string) : String.length (a ++ b) = (String.length a + String.length b)%nat.
Proof. induction a as [|x a IH]; simpl; auto. Qed.

Lemma prefix_of_app p t : prefix_of p (p ++ t) = Some t.
Proof. induction p as [|a p IH]; simpl; auto. now rewrite Ascii.eqb_refl. Qed.

Lemma prefix_of_length p s rest : prefix_of p s = Some rest -> s = p ++ rest.
Proof.
  revert s. induction p as [|a p IH]; intros s; simpl.
  - now intros [= ->].
  - destruct s as [|b s]; [intros H; discriminate H|]. destruct (Ascii.eqb a b) eqn:E; [|intros H; discriminate H].
    apply Ascii.eqb_eq in E as ->. intros H. now rewrite (IH _ H).
Qed.

(** * ReplaceAll: fuel does not matter once it exceeds the length *)
Section Replace.
Variable search value : string.
Hypothesis search_nonempty : search <> EmptyString.

Lemma search_len : (0 < String.length search)%nat.
Proof. destruct search; [congruence|simpl; lia]. Qed.

Lemma replace_fuel_irrelevant : forall f1 f2 s,
  (String.length s < f1)%nat -> (String.length s < f2)%nat ->
  replace_all_fuel f1 s search value = replace_all_fuel f2 s search value.
Proof.
  induction f1 as [|f1 IH]; intros f2 s H1 H2; [lia|]. destruct f2 as [|f2]; [lia|].
  cbn [replace_all_fuel]. destruct (prefix_of search s) as [rest|] eqn:E.
  - apply prefix_of_length in E. pose proof search_len. subst s. rewrite length_append in *.
    f_equal. apply IH; lia.
  - destruct s as [|a r]; auto. simpl in H1, H2. f_equal. apply IH; lia.
Qed.

Definition R (s : string) : string := replace_all_fuel (S (String.length s)) s search value.

Lemma R_match s rest : prefix_of search s = Some rest -> R s = value ++ R rest.
Proof.
  intros E. unfold R at 1. cbn [replace_all_fuel]. rewrite E. f_equal.
  apply prefix_of_length in E. pose proof search_len. subst s. rewrite length_append.
  apply replace_fuel_irrelevant; lia.
Qed.

Lemma R_skip a r : prefix_of search (String a r) = None -> R (String a r) = String a (R r).
Proof.
  intros E. unfold R at 1. cbn [replace_all_fuel]. rewrite E. reflexivity.
Qed.

Lemma R_empty : R "" = "".
Proof. unfold R. cbn [replace_all_fuel String.length]. destruct (prefix_of search "") eqn:E; auto.
  apply prefix_of_length in E. destruct search; [congruence|discriminate E]. Qed.

Lemma replace_all_R s : replace_all s search value = R s.
Proof. unfold replace_all, R. destruct search; [congruence|reflexivity]. Qed.
End Replace.

(** * tokens *)
Inductive seg := Lit (s : string) | Var (n : string).

Definition render_seg (g : seg) : string := match g with Lit s => s | Var n => var_syntax n end.
Fixpoint render (l : list seg) : string :=
  match l with [] => "" | g :: r => render_seg g ++ render r end.

Fixpoint no_brace (s : string) : bool :=
  match s with EmptyString => true | String a r => negb (Ascii.eqb a "}") && no_brace r end.

Definition name_wf (n : string) : bool := no_dollar n && no_brace n.
Definition wf_seg (g : seg) : bool := match g with Lit s => no_dollar s | Var n => name_wf n end.

Lemma no_dollar_app a b : no_dollar (a ++ b) = no_dollar a && no_dollar b.
Proof. induction a as [|x a IH]; simpl; auto. rewrite IH. now rewrite andb_assoc. Qed.

(** a search string that starts with '$' never matches at a position holding another char *)
Lemma prefix_dollar_mismatch p a r : Ascii.eqb a "$" = false -> prefix_of (String "$" p) (String a r) = None.
Proof. intros H. cbn [prefix_of]. rewrite Ascii.eqb_sym, H. reflexivity. Qed.

Section ReplaceVar.
Variable k value : string.
Let search := var_syntax k.
Lemma search_ne : search <> EmptyString.
Proof. unfold search, var_syntax. simpl. discriminate. Qed.

Lemma search_shape : search = String "$" (String "{" (k ++ "}")).
Proof. reflexivity. Qed.

(** literal text passes through *)
Lemma R_lit s t : no_dollar s = true -> R search value (s ++ t) = s ++ R search value t.
Proof.
  induction s as [|a s IH]; intros H; simpl; auto. simpl in H. apply andb_true_iff in H as [Ha Hs].
  apply negb_true_iff in Ha. rewrite R_skip; [now rewrite IH|].
  rewrite search_shape. now apply prefix_dollar_mismatch.
Qed.

(** names without '}' : "k}" is a prefix of "n}..." only when k = n *)
Lemma name_prefix_eq : forall k' n t rest,
  no_brace k' = true -> no_brace n = true -> prefix_of (k' ++ "}") (n ++ "}" ++ t) = Some rest -> k' = n /\ rest = t.
Proof.
  induction k' as [|c k' IH]; intros n t rest Hk Hn.
  - destruct n as [|a n]; cbn [append prefix_of].
    + rewrite Ascii.eqb_refl. intros [= <-]. auto.
    + cbn [no_brace] in Hn. apply andb_true_iff in Hn as [Ha _]. apply negb_true_iff in Ha.
      rewrite Ascii.eqb_sym, Ha. intros H. discriminate H.
  - cbn [no_brace] in Hk. apply andb_true_iff in Hk as [Hc Hk]. apply negb_true_iff in Hc.
    destruct n as [|a n]; cbn [append prefix_of].
    + rewrite Hc. intros H. discriminate H.
    + cbn [no_brace] in Hn. apply andb_true_iff in Hn as [_ Hn]. destruct (Ascii.eqb c a) eqn:E; [|intros H; discriminate H].
      apply Ascii.eqb_eq in E as ->. intros H. destruct (IH n t rest Hk Hn H) as [-> ->]. auto.
Qed.

Hypothesis k_wf : no_brace k = true.

Lemma R_var_hit t : R search value (var_syntax k ++ t) = value ++ R search value t.
Proof. apply R_match; [apply search_ne|]. apply prefix_of_app. Qed.

Lemma R_var_miss n t : name_wf n = true -> n <> k ->
  R search value (var_syntax n ++ t) = var_syntax n ++ R search value t.
Proof.
  intros Hn Hne. apply andb_true_iff in Hn as [Hd Hb].
  change (var_syntax n ++ t) with (String "$" (String "{" ((n ++ "}") ++ t))).
  rewrite R_skip.
  - change (String "{" ((n ++ "}") ++ t)) with (("{" ++ n ++ "}") ++ t).
    rewrite (R_lit ("{" ++ n ++ "}")).
    + simpl. now rewrite !append_assoc.
    + simpl. rewrite no_dollar_app. rewrite Hd. reflexivity.
  - rewrite search_shape. cbn [prefix_of]. rewrite !Ascii.eqb_refl. rewrite append_assoc.
    destruct (prefix_of (k ++ "}") (n ++ "}" ++ t)) as [rest|] eqn:E; auto.
    destruct (name_prefix_eq _ _ _ _ k_wf Hb E) as [-> _]. congruence.
Qed.

Definition subst_seg (g : seg) : seg :=
  match g with
  | Var n => if String.eqb n k then Lit value else g
  | _ => g
  end.

Lemma replace_segs segs : forallb wf_seg segs = true ->
  replace_all (render segs) search value = render (map subst_seg segs).
Proof.
  rewrite replace_all_R by apply search_ne. induction segs as [|g r IH]; intros Hw; cbn [render map].
  - apply R_empty, search_ne.
  - cbn [forallb] in Hw. apply andb_true_iff in Hw as [Hg Hr]. destruct g as [s|n]; cbn [render_seg subst_seg wf_seg] in *.
    + rewrite R_lit by exact Hg. now rewrite IH.
    + destruct (String.eqb n k) eqn:E.
      * apply String.eqb_eq in E as ->. cbn [render_seg]. rewrite R_var_hit. now rewrite IH.
      * apply String.eqb_neq in E. cbn [render_seg]. rewrite R_var_miss; auto. now rewrite IH.
Qed.
End ReplaceVar.

(** * one map: SubstituteVariables *)
Definition apply_map (l : kv) (g : seg) : seg :=
  match g with
  | Var n => match lookup_kv n l with Some v => Lit v | None => g end
  | _ => g
  end.

Definition kv_wf (l : kv) : Prop := forall k v, In (k, v) l -> no_brace k = true /\ no_dollar v = true.

Lemma subst_seg_wf k v g : no_dollar v = true -> wf_seg g = true -> wf_seg (subst_seg k v g) = true.
Proof. intros Hv. destruct g as [s|n]; simpl; auto. destruct (String.eqb n k); simpl; auto. Qed.

Lemma forallb_map_wf k v segs : no_dollar v = true -> forallb wf_seg segs = true -> forallb wf_seg (map (subst_seg k v) segs) = true.
Proof.
  intros Hv. induction segs as [|g r IH]; simpl; auto. intros H. apply andb_true_iff in H as [H1 H2].
  rewrite subst_seg_wf; auto.
Qed.

Lemma fold_replace l : forall segs, kv_wf l -> forallb wf_seg segs = true ->
  fold_left (fun t e => replace_all t (var_syntax (fst e)) (snd e)) l (render segs) = render (map (apply_map l) segs) /\
  forallb wf_seg (map (apply_map l) segs) = true.
Proof.
  induction l as [|[k v] r IH]; intros segs Hl Hw; cbn [fold_left fst snd].
  - assert (E : map (apply_map []) segs = segs).
    { clear. induction segs as [|g t IHt]; simpl; auto. rewrite IHt. destruct g; reflexivity. }
    rewrite E. auto.
  - destruct (Hl k v (or_introl eq_refl)) as [Hk Hv].
    rewrite (replace_segs k v Hk segs Hw).
    assert (Hl' : kv_wf r) by (intros k' v' Hin; apply Hl; now right).
    destruct (IH (map (subst_seg k v) segs) Hl' (forallb_map_wf k v segs Hv Hw)) as [I1 I2].
    rewrite I1. rewrite map_map in *.
    assert (E : forall g, apply_map r (subst_seg k v g) = apply_map ((k, v) :: r) g).
    { intros [s|n]; simpl; auto. rewrite (String.eqb_sym k n). destruct (String.eqb n k); reflexivity. }
    rewrite (map_ext _ _ E) in *. auto.
Qed.

Lemma insert_kv_in e l x : In x (insert_kv e l) -> x = e \/ In x l.
Proof.
  induction l as [|y t IH]; simpl; [intros [H|[]]; auto|].
  destruct (String.ltb (fst y) (fst e)); simpl.
  - intros [H|H]; auto. destruct (IH H); auto.
  - destruct (String.eqb (fst y) (fst e)); simpl; intros [H|H]; auto.
Qed.

Lemma sort_kv_in m x : In x (sort_kv m) -> In x m.
Proof.
  unfold sort_kv. assert (G : forall acc, In x (fold_left (fun a e => insert_kv e a) m acc) -> In x m \/ In x acc).
  { induction m as [|e r IH]; intros acc; simpl; auto. intros H. destruct (IH _ H) as [H1|H1]; auto.
    destruct (insert_kv_in _ _ _ H1) as [->|H2]; auto. }
  intros H. destruct (G [] H) as [H1|[]]; auto.
Qed.

Lemma substitute_vars_segs m segs : kv_wf m -> forallb wf_seg segs = true ->
  substitute_vars (render segs) m = render (map (apply_map (sort_kv m)) segs) /\
  forallb wf_seg (map (apply_map (sort_kv m)) segs) = true.
Proof.
  intros Hm Hw. unfold substitute_vars. apply fold_replace; auto.
  intros k v Hin. apply Hm. now apply sort_kv_in.
Qed.

(** * all maps, in priority order *)
Fixpoint apply_maps (maps : list kv) (g : seg) : seg :=
  match maps with
  | [] => g
  | m :: r => apply_maps r (apply_map (sort_kv m) g)
  end.

Lemma fold_maps maps : forall segs, (forall m, In m maps -> kv_wf m) -> forallb wf_seg segs = true ->
  fold_left substitute_vars maps (render segs) = render (map (apply_maps maps) segs) /\
  forallb wf_seg (map (apply_maps maps) segs) = true.
Proof.
  induction maps as [|m r IH]; intros segs Hm Hw; cbn [fold_left apply_maps].
  - rewrite map_id. auto.
  - destruct (substitute_vars_segs m segs (Hm m (or_introl eq_refl)) Hw) as [E1 E2]. rewrite E1.
    destruct (IH _ (fun m' H => Hm m' (or_intror H)) E2) as [I1 I2]. rewrite map_map in *. auto.
Qed.

(** * reserved prefixes: SubstituteEmptyStringForPrefixes *)
Section Blank.
Variable p : string.
Hypothesis p_wf : no_brace p = true.
Let pat := "${" ++ p.

Lemma pat_shape : pat = String "$" (String "{" p).
Proof. reflexivity. Qed.

Lemma span_len s w rest : span_not_brace s = (w, rest) -> s = w ++ rest.
Proof.
  revert w rest. induction s as [|a s IH]; intros w rest; cbn [span_not_brace].
  - now intros [= <- <-].
  - destruct (Ascii.eqb a "}"); [now intros [= <- <-]|].
    destruct (span_not_brace s) as [w' r'] eqn:E. intros [= <- <-]. cbn [append]. now rewrite (IH w' r' eq_refl).
Qed.

Lemma blank_fuel_irrelevant : forall f1 f2 s,
  (String.length s < f1)%nat -> (String.length s < f2)%nat ->
  blank_prefix_fuel f1 pat s = blank_prefix_fuel f2 pat s.
Proof.
  induction f1 as [|f1 IH]; intros f2 s H1 H2; [lia|]. destruct f2 as [|f2]; [lia|].
  cbn [blank_prefix_fuel]. destruct s as [|a r]; auto. cbn [String.length] in H1, H2.
  destruct (prefix_of pat (String a r)) as [rest|] eqn:E.
  - destruct (span_not_brace rest) as [w rest'] eqn:Es.
    destruct w as [|c w]; [f_equal; apply IH; lia|].
    destruct rest' as [|b rest'']; [f_equal; apply IH; lia|].
    apply prefix_of_length in E. apply span_len in Es. rewrite Es in E.
    assert (L : (String.length rest'' < String.length (String a r))%nat).
    { rewrite E. rewrite !length_append. cbn [String.length]. lia. }
    cbn [String.length] in L. apply IH; lia.
  - f_equal. apply IH; lia.
Qed.

Definition B (s : string) : string := blank_prefix_fuel (S (String.length s)) pat s.

Lemma blank_prefix_B s : blank_prefix p s = B s.
Proof. reflexivity. Qed.

Lemma B_empty : B "" = "".
Proof. reflexivity. Qed.

Lemma B_skip a r :
  match prefix_of pat (String a r) with
  | Some rest => match span_not_brace rest with
                 | (String _ _, String _ _) => False
                 | _ => True
                 end
  | None => True
  end -> B (String a r) = String a (B r).
Proof.
  intros H. unfold B at 1. cbn [blank_prefix_fuel String.length].
  destruct (prefix_of pat (String a r)) as [rest|].
  - destruct (span_not_brace rest) as [[|c w] [|b r'']]; try contradiction; reflexivity.
  - reflexivity.
Qed.

Lemma blank_unfold f a r :
  blank_prefix_fuel (S f) pat (String a r) =
  match prefix_of pat (String a r) with
  | Some rest =>
      let '(w, rest') := span_not_brace rest in
      match w, rest' with
      | String _ _, String _ rest'' => blank_prefix_fuel f pat rest''
      | _, _ => String a (blank_prefix_fuel f pat r)
      end
  | None => String a (blank_prefix_fuel f pat r)
  end.
Proof. reflexivity. Qed.

Lemma B_hit a r rest c w b rest'' :
  prefix_of pat (String a r) = Some rest -> span_not_brace rest = (String c w, String b rest'') ->
  B (String a r) = B rest''.
Proof.
  intros E Es. unfold B at 1. rewrite blank_unfold, E, Es.
  apply blank_fuel_irrelevant; [|lia].
  apply prefix_of_length in E. apply span_len in Es. rewrite Es in E. rewrite E.
  rewrite !length_append. cbn [String.length]. lia.
Qed.

Lemma B_lit s t : no_dollar s = true -> B (s ++ t) = s ++ B t.
Proof.
  induction s as [|a s IH]; intros H; cbn [append]; auto. cbn [no_dollar] in H.
  apply andb_true_iff in H as [Ha Hs]. apply negb_true_iff in Ha.
  rewrite B_skip; [now rewrite IH|]. rewrite pat_shape, prefix_dollar_mismatch; auto.
Qed.

Definition reserved (n : string) : bool :=
  match prefix_of p n with Some rest => negb (is_empty rest) | None => false end.

Lemma prefix_of_app_r : forall q n x rest, prefix_of q n = Some rest -> prefix_of q (n ++ x) = Some (rest ++ x).
Proof.
  induction q as [|c q IH]; intros n x rest; cbn [prefix_of].
  - now intros [= <-].
  - destruct n as [|a n]; [intros H; discriminate H|]. cbn [append prefix_of].
    destruct (Ascii.eqb c a); [apply IH|intros H; discriminate H].
Qed.

Lemma prefix_none_brace : forall q n t, no_brace q = true -> prefix_of q n = None -> prefix_of q (n ++ "}" ++ t) = None.
Proof.
  induction q as [|c q IH]; intros n t Hq; cbn [prefix_of].
  - intros H. discriminate H.
  - cbn [no_brace] in Hq. apply andb_true_iff in Hq as [Hc Hq]. apply negb_true_iff in Hc.
    destruct n as [|a n]; cbn [append prefix_of].
    + intros _. now rewrite Hc.
    + destruct (Ascii.eqb c a); [intros H; now apply IH|auto].
Qed.

Lemma no_brace_app a b : no_brace (a ++ b) = no_brace a && no_brace b.
Proof. induction a as [|x a IH]; simpl; auto. rewrite IH. now rewrite andb_assoc. Qed.

Lemma span_name n t : no_brace n = true -> span_not_brace (n ++ String "}" t) = (n, String "}" t).
Proof.
  induction n as [|a n IH]; intros H; cbn [append span_not_brace].
  - rewrite Ascii.eqb_refl. reflexivity.
  - cbn [no_brace] in H. apply andb_true_iff in H as [Ha Hn]. apply negb_true_iff in Ha.
    rewrite Ha, (IH Hn). reflexivity.
Qed.

Lemma B_var n t : name_wf n = true ->
  B (var_syntax n ++ t) = (if reserved n then "" else var_syntax n) ++ B t.
Proof.
  intros Hn. apply andb_true_iff in Hn as [Hd Hb]. unfold reserved.
  change (var_syntax n ++ t) with (String "$" (String "{" ((n ++ "}") ++ t))).
  rewrite append_assoc.
  assert (Elit : B (String "{" (n ++ "}" ++ t)) = String "{" (n ++ "}" ++ B t)).
  { replace (String "{" (n ++ "}" ++ t)) with (("{" ++ n ++ "}") ++ t) by (cbn [append]; now rewrite append_assoc).
    rewrite (B_lit ("{" ++ n ++ "}")).
    - cbn [append]. now rewrite append_assoc.
    - cbn [append no_dollar]. rewrite no_dollar_app, Hd. reflexivity. }
  destruct (prefix_of p n) as [n'|] eqn:Ep.
  - pose proof (prefix_of_app_r _ _ ("}" ++ t) _ Ep) as Ep'.
    assert (Hn' : no_brace n' = true).
    { apply prefix_of_length in Ep. rewrite Ep, no_brace_app in Hb. now apply andb_true_iff in Hb as [_ Hb]. }
    destruct n' as [|c n'].
    + (* the name is exactly the prefix: not blanked *)
      cbn [is_empty negb]. rewrite B_skip.
      * rewrite Elit. unfold var_syntax. cbn [append]. now rewrite append_assoc.
      * rewrite pat_shape. cbn [prefix_of]. rewrite !Ascii.eqb_refl, Ep'. cbn [append span_not_brace].
        rewrite Ascii.eqb_refl. exact I.
    + cbn [is_empty negb].
      apply (B_hit _ _ (String c n' ++ "}" ++ t) c n' "}"%char t).
      * rewrite pat_shape. cbn [prefix_of]. rewrite !Ascii.eqb_refl. exact Ep'.
      * change ("}" ++ t) with (String "}" t). apply (span_name (String c n') t Hn').
  - rewrite B_skip.
    + rewrite Elit. unfold var_syntax. cbn [append]. now rewrite append_assoc.
    + rewrite pat_shape. cbn [prefix_of]. rewrite !Ascii.eqb_refl. now rewrite (prefix_none_brace _ _ t p_wf Ep).
Qed.

Definition blank_seg (g : seg) : seg :=
  match g with Var n => if reserved n then Lit "" else g | _ => g end.

Lemma blank_segs segs : forallb wf_seg segs = true ->
  blank_prefix p (render segs) = render (map blank_seg segs) /\ forallb wf_seg (map blank_seg segs) = true.
Proof.
  rewrite blank_prefix_B. induction segs as [|g r IH]; intros Hw; cbn [render map forallb].
  - auto.
  - cbn [forallb] in Hw. apply andb_true_iff in Hw as [Hg Hr]. destruct (IH Hr) as [I1 I2].
    destruct g as [s|n]; cbn [render_seg blank_seg wf_seg] in *.
    + rewrite B_lit by exact Hg. rewrite I1, Hg. auto.
    + rewrite B_var by exact Hg. rewrite I1. destruct (reserved n); cbn [render_seg wf_seg no_dollar]; rewrite ?Hg; auto.
Qed.
End Blank.

Fixpoint blank_all (prefixes : list string) (g : seg) : seg :=
  match prefixes with
  | [] => g
  | q :: r => blank_all r (blank_seg q g)
  end.

Lemma fold_blank prefixes : forall segs, (forall q, In q prefixes -> no_brace q = true) -> forallb wf_seg segs = true ->
  fold_left (fun t q => blank_prefix q t) prefixes (render segs) = render (map (blank_all prefixes) segs).
Proof.
  induction prefixes as [|q r IH]; intros segs Hp Hw; cbn [fold_left blank_all].
  - now rewrite map_id.
  - destruct (blank_segs q (Hp q (or_introl eq_refl)) segs Hw) as [E1 E2]. rewrite E1.
    rewrite (IH _ (fun q' H => Hp q' (or_intror H)) E2). now rewrite map_map.
Qed.

(** * the statement *)
Definition first_value (maps : list kv) (n : string) : option string :=
  fold_right (fun m acc => match lookup_last n m with Some v => Some v | None => acc end) None maps.

Definition final_seg (maps : list kv) (prefixes : list string) (g : seg) : seg :=
  match g with
  | Lit s => Lit s
  | Var n => match first_value maps n with
             | Some v => Lit v
             | None => if existsb (fun q => reserved q n) prefixes then Lit "" else Var n
             end
  end.

Lemma blank_all_lit prefixes s : blank_all prefixes (Lit s) = Lit s.
Proof. induction prefixes; simpl; auto. Qed.

Lemma blank_all_var prefixes n :
  render_seg (blank_all prefixes (Var n)) = render_seg (if existsb (fun q => reserved q n) prefixes then Lit "" else Var n).
Proof.
  induction prefixes as [|q r IH]; cbn [blank_all existsb blank_seg]; auto.
  destruct (reserved q n); cbn [orb]; auto. now rewrite blank_all_lit.
Qed.

Lemma apply_maps_lit maps s : apply_maps maps (Lit s) = Lit s.
Proof. induction maps; simpl; auto. Qed.

Lemma apply_maps_var maps n :
  apply_maps maps (Var n) = match first_value maps n with Some v => Lit v | None => Var n end.
Proof.
  induction maps as [|m r IH]; cbn [apply_maps first_value fold_right apply_map]; auto.
  rewrite sort_lookup. destruct (lookup_last n m); [apply apply_maps_lit|exact IH].
Qed.

Lemma render_map_ext {A} (f g : A -> seg) (segs : list A) : (forall x, render_seg (f x) = render_seg (g x)) -> render (map f segs) = render (map g segs).
Proof. intros H. induction segs as [|x r IH]; cbn [map render]; auto. now rewrite H, IH. Qed.

Theorem template_semantics segs maps prefixes :
  forallb wf_seg segs = true ->
  (forall m, In m maps -> kv_wf m) ->
  (forall q, In q prefixes -> no_brace q = true) ->
  substitute_maps (render segs) maps prefixes = render (map (final_seg maps prefixes) segs).
Proof.
  intros Hw Hm Hp. unfold substitute_maps.
  destruct (fold_maps maps segs Hm Hw) as [E1 E2]. rewrite E1.
  rewrite (fold_blank prefixes _ Hp E2). rewrite map_map. apply render_map_ext.
  intros [s|n]; cbn [final_seg].
  - now rewrite apply_maps_lit, blank_all_lit.
  - rewrite apply_maps_var. destruct (first_value maps n); [now rewrite blank_all_lit|apply blank_all_var].
Qed.
