(** C20: transient API failures delay work but never lose or corrupt it.
    Retry loops of the three reconciler worlds: a failed work item stays queued and leaves the
    API untouched; after any finite number of failures the outcome is the fault-free one. *)
From Furiko Require Import Cron.Recon JobConfig.Status Queue.World Proofs.ReconP Proofs.StatusP.
From Coq Require Import Lia.
Open Scope list_scope.
Open Scope Z_scope.

(** * cron reconciler *)

(** a failed item is re-queued (rate limited) and the API is exactly as before *)
Lemma recon_failed_requeued w k w' :
  process w k = (w', 3) -> rw_api w' = rw_api w /\ rw_delayed w' = rw_delayed w ++ [k] /\
  rw_ready w' = rw_ready w /\ rw_cache w' = rw_cache w /\ rw_jcs w' = rw_jcs w.
Proof.
  unfold process. destruct (split_key k) as [[name t]|]; [|intros [= <-]; simpl; auto].
  destruct (find_jc name (rw_jcs w)); [|intros H; discriminate H].
  destruct (_ && _); [intros H; discriminate H|].
  destruct (match rw_maxq w with Some m => m <=? rc_queued r | None => false end); [intros H; discriminate H|].
  destruct (mem_str _ _); [intros H; discriminate H|].
  destruct (rw_faults w) as [|[|] f]; try (intros H; discriminate H).
  - destruct (api_has _ _); [|intros H; discriminate H]. intros [= <-]. simpl. auto.
  - intros [= <-]. simpl. auto.
Qed.

(** queue membership: nothing but a completed processing (or a process restart) removes a key *)
Definition queued (k : string) (w : rworld) : Prop := In k (rw_ready w) \/ In k (rw_delayed w).

Lemma q_add_in k x q : In k q -> In k (q_add x q).
Proof. unfold q_add. destruct (mem_str x q); auto. intros H. apply in_or_app. now left. Qed.
Lemma q_add_self x q : In x (q_add x q).
Proof.
  unfold q_add. destruct (mem_str x q) eqn:E.
  - unfold mem_str in E. apply existsb_exists in E as (y & Hy & Ey). apply String.eqb_eq in Ey. now subst.
  - apply in_or_app. right. now left.
Qed.

Lemma process_queue w k w' out :
  process w k = (w', out) ->
  rw_ready w' = rw_ready w /\ (rw_delayed w' = rw_delayed w \/ (out = 3 /\ rw_delayed w' = rw_delayed w ++ [k])).
Proof.
  unfold process. destruct (split_key k) as [[name t]|]; [|intros [= <- <-]; simpl; auto].
  destruct (find_jc name (rw_jcs w)); [|intros [= <- <-]; auto].
  destruct (_ && _); [intros [= <- <-]; auto|].
  destruct (match rw_maxq w with Some m => m <=? rc_queued r | None => false end); [intros [= <- <-]; auto|].
  destruct (mem_str _ _); [intros [= <- <-]; auto|].
  destruct (rw_faults w) as [|[|] f]; try (intros [= <- <-]; simpl; auto).
  destruct (api_has _ _); intros [= <- <-]; simpl; auto.
Qed.

Theorem recon_never_lost w o k :
  queued k w ->
  queued k (fst (rstep w o)) \/
  (o = RWork /\ exists r, rw_ready w = k :: r /\ snd (rstep w o) <> 3) \/ o = RRestart.
Proof.
  intros [Hr|Hd]; destruct o; simpl; auto; try (left; left; now apply q_add_in) ; try (left; now left); try (left; now right).
  - (* work, k ready *)
    destruct (rw_ready w) as [|x r] eqn:Er; [destruct Hr|].
    destruct (process _ x) as [w' out] eqn:Ep. simpl.
    destruct (process_queue _ _ _ _ Ep) as [E1 E2]. simpl in E1, E2.
    destruct Hr as [<-|Hr].
    + destruct E2 as [E2|[-> E2]].
      * right. left. split; auto. exists r. split; auto.
        intros ->. apply recon_failed_requeued in Ep as (_ & Ed & _). simpl in Ed.
        rewrite E2 in Ed. apply (f_equal (@List.length string)) in Ed. rewrite app_length in Ed. simpl in Ed. lia.
      * left. right. rewrite E2. apply in_or_app. right. now left.
    + left. left. now rewrite E1.
  - (* fire, k ready *)
    destruct (rw_delayed w); simpl; left; left; auto. now apply q_add_in.
  - destruct (rw_pending w) as [|[n|n] r]; simpl; left; now left.
  - destruct (api_has name (rw_api w)); simpl; left; now left.
  - (* work, k delayed *)
    destruct (rw_ready w) as [|x r] eqn:Er; [left; now right|].
    destruct (process _ x) as [w' out] eqn:Ep. simpl.
    destruct (process_queue _ _ _ _ Ep) as [E1 E2]. simpl in E1, E2.
    left. right. destruct E2 as [->|[_ ->]]; auto. apply in_or_app. now left.
  - (* fire, k delayed *)
    destruct (rw_delayed w) as [|x r] eqn:Ed; [destruct Hd|]. simpl.
    destruct Hd as [<-|Hd]; left; [left; apply q_add_self|now right].
  - destruct (rw_pending w) as [|[n|n] r]; simpl; left; now right.
  - destruct (api_has name (rw_api w)); simpl; left; now right.
Qed.

(** one attempt of the retry loop: process the head item; if it failed, let its rate-limited
    re-add fire *)
Definition r_attempt (w : rworld) : rworld :=
  let '(w1, out) := rstep w RWork in if out =? 3 then fst (rstep w1 RFire) else w1.

Fixpoint iter {A} (n : nat) (f : A -> A) (x : A) : A :=
  match n with O => x | S m => iter m f (f x) end.

Lemma r_attempt_fault w k name t jc f :
  rw_faults w = RFServer :: f -> rw_ready w = [k] -> rw_delayed w = [] ->
  split_key k = Some (name, t) -> find_jc name (rw_jcs w) = Some jc ->
  (rc_forbid jc && (rc_maxc jc <? rw_active w + 1)) = false ->
  match rw_maxq w with Some m => m <=? rc_queued jc | None => false end = false ->
  mem_str (gen_name (rc_name jc) t) (rw_cache w) = false ->
  r_attempt w = mkRW (rw_jcs w) (rw_api w) (rw_cache w) (rw_pending w) (rw_active w) (rw_maxq w) [k] [] f.
Proof.
  intros Hf Hr Hd Hs Hj Hp Hq Hc. unfold r_attempt. simpl. rewrite Hr. unfold process. simpl.
  rewrite Hs, Hj, Hp, Hq, Hc, Hf. simpl. rewrite Hd. reflexivity.
Qed.

Lemma r_attempt_ok w k name t jc :
  rw_faults w = [] -> rw_ready w = [k] -> rw_delayed w = [] ->
  split_key k = Some (name, t) -> find_jc name (rw_jcs w) = Some jc ->
  (rc_forbid jc && (rc_maxc jc <? rw_active w + 1)) = false ->
  match rw_maxq w with Some m => m <=? rc_queued jc | None => false end = false ->
  mem_str (gen_name (rc_name jc) t) (rw_cache w) = false ->
  api_has (gen_name (rc_name jc) t) (rw_api w) = false ->
  r_attempt w = mkRW (rw_jcs w) (rw_api w ++ [new_job jc t]) (rw_cache w)
                     (rw_pending w ++ [REAdd (gen_name (rc_name jc) t)]) (rw_active w) (rw_maxq w) [] [] [].
Proof.
  intros Hf Hr Hd Hs Hj Hp Hq Hc Ha. unfold r_attempt. simpl. rewrite Hr. unfold process. simpl.
  rewrite Hs, Hj, Hp, Hq, Hc, Hf, Ha. simpl. rewrite Hd. reflexivity.
Qed.

(** any finite burst of server errors on create: after as many retries the Job exists, the
    API is exactly what the fault-free run gives, and the queue is empty *)
Theorem recon_retry_converges n : forall w k name t jc,
  rw_faults w = repeat RFServer n -> rw_ready w = [k] -> rw_delayed w = [] ->
  split_key k = Some (name, t) -> find_jc name (rw_jcs w) = Some jc ->
  (rc_forbid jc && (rc_maxc jc <? rw_active w + 1)) = false ->
  match rw_maxq w with Some m => m <=? rc_queued jc | None => false end = false ->
  mem_str (gen_name (rc_name jc) t) (rw_cache w) = false ->
  api_has (gen_name (rc_name jc) t) (rw_api w) = false ->
  let w' := iter (S n) r_attempt w in
  rw_api w' = rw_api w ++ [new_job jc t] /\ rw_ready w' = [] /\ rw_delayed w' = [] /\ rw_faults w' = [].
Proof.
  induction n as [|n IH]; intros w k name t jc Hf Hr Hd Hs Hj Hp Hq Hc Ha; cbn [iter].
  - rewrite (r_attempt_ok w k name t jc); auto.
  - rewrite (r_attempt_fault w k name t jc (repeat RFServer n)); auto.
    exact (IH (mkRW (rw_jcs w) (rw_api w) (rw_cache w) (rw_pending w) (rw_active w) (rw_maxq w) [k] [] (repeat RFServer n))
              k name t jc eq_refl eq_refl eq_refl Hs Hj Hp Hq Hc Ha).
Qed.

(** * jobconfig status controller *)
Lemma status_failed_requeued w w' :
  JobConfig.Status.work w = (w', 3) ->
  w_api_jc w' = w_api_jc w /\ w_api_jobs w' = w_api_jobs w /\ w_delayed w' = S (w_delayed w) /\
  w_cache_jobs w' = w_cache_jobs w /\ w_cache_jc w' = w_cache_jc w.
Proof.
  unfold JobConfig.Status.work. destruct (w_ready w); simpl; [|intros H; discriminate H].
  destruct (eqb_status _ _); [intros H; discriminate H|].
  destruct (w_faults w).
  - destruct (negb _); [|intros H; discriminate H]. intros [= <-]. simpl. auto.
  - intros [= <-]. simpl. auto.
Qed.

Definition s_attempt (w : sworld) : sworld :=
  let '(w1, out) := sstep w SWork in if out =? 3 then fst (sstep w1 SFire) else w1.

Lemma s_attempt_fault w n :
  w_faults w = S n -> w_ready w = true -> w_delayed w = O ->
  eqb_status (compute_status (jc_cron (w_cache_jc w)) (jc_status (w_cache_jc w)) (w_cache_jobs w)) (jc_status (w_cache_jc w)) = false ->
  s_attempt w = mkSW (w_api_jobs w) (w_cache_jobs w) (w_job_events w) (w_api_jc w) (w_cache_jc w) (w_jc_events w) true O n.
Proof.
  intros Hf Hr Hd Hne. unfold s_attempt. cbn [sstep]. unfold JobConfig.Status.work. rewrite Hr. cbn [negb].
  rewrite Hne, Hf. cbn [Z.eqb fst sstep w_delayed]. rewrite Hd. reflexivity.
Qed.

Lemma s_attempt_ok w :
  w_faults w = O -> w_ready w = true -> w_delayed w = O -> jc_rv (w_cache_jc w) = jc_rv (w_api_jc w) ->
  eqb_status (compute_status (jc_cron (w_cache_jc w)) (jc_status (w_cache_jc w)) (w_cache_jobs w)) (jc_status (w_cache_jc w)) = false ->
  s_attempt w = fst (JobConfig.Status.work w) /\
  jc_status (w_api_jc (s_attempt w)) = compute_status (jc_cron (w_cache_jc w)) (jc_status (w_cache_jc w)) (w_cache_jobs w) /\
  w_ready (s_attempt w) = false /\ w_delayed (s_attempt w) = O /\ w_faults (s_attempt w) = O.
Proof.
  intros Hf Hr Hd Hrv Hne. unfold s_attempt. cbn [sstep]. unfold JobConfig.Status.work. rewrite Hr. cbn [negb].
  rewrite Hne, Hf, Hrv, Z.eqb_refl. cbn [negb Z.eqb fst]. simpl. auto.
Qed.

(** any finite burst of failed status writes: the status finally written is the one the
    fault-free pass writes *)
Theorem status_retry_converges n : forall w,
  w_faults w = n -> w_ready w = true -> w_delayed w = O ->
  jc_rv (w_cache_jc w) = jc_rv (w_api_jc w) ->
  let st := compute_status (jc_cron (w_cache_jc w)) (jc_status (w_cache_jc w)) (w_cache_jobs w) in
  eqb_status st (jc_status (w_cache_jc w)) = false ->
  let w' := iter (S n) s_attempt w in
  jc_status (w_api_jc w') = st /\ w_ready w' = false /\ w_delayed w' = O /\ w_faults w' = O.
Proof.
  induction n as [|n IH]; intros w Hf Hr Hd Hrv st Hne; cbn [iter].
  - destruct (s_attempt_ok w Hf Hr Hd Hrv Hne) as (_ & A & B & C & D). auto.
  - rewrite (s_attempt_fault w n Hf Hr Hd Hne).
    exact (IH (mkSW (w_api_jobs w) (w_cache_jobs w) (w_job_events w) (w_api_jc w) (w_cache_jc w) (w_jc_events w) true O n)
              eq_refl eq_refl eq_refl Hrv Hne).
Qed.

(** * admission queue: a failed start write consumes the fault and changes nothing else *)
Theorem queue_failed_start_changes_nothing w j r acts armed fl :
  can_start (q_clock w) (max_conc w) (q_counter w) j = DStart ->
  take_qfault QFStart (q_faults w) = Some fl ->
  fst (fst (fst (sync_loop w (j :: r) (q_counter w) acts armed))) = with_ctr w (q_counter w) fl.
Proof. intros Hd Hf. simpl. rewrite Hd, Z.eqb_refl, Hf. reflexivity. Qed.

Lemma with_ctr_same w fl :
  let w' := with_ctr w (q_counter w) fl in
  qa_jobs w' = qa_jobs w /\ qc_jobs w' = qc_jobs w /\ q_counter w' = q_counter w /\ q_max w' = q_max w /\
  q_clock w' = q_clock w /\ qc_pending w' = qc_pending w /\ qs_pending w' = qs_pending w /\ q_faults w' = fl.
Proof. simpl. repeat split. Qed.
