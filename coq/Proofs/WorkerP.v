(** CronWorker.Work over a fixed population of JobConfigs: the shared pop loop behaves,
    key by key, like "request the first maxMissed due fire times, then resume after now". *)
From Furiko Require Import Cron.Sched Proofs.OracleP Proofs.HeapP.
From Coq Require Import Lia Sorting.Sorted.

(** ** list facts on strictly sorted lists *)
Lemma ssorted_inv x l : ssorted (x :: l) -> ssorted l /\ forall u, In u l -> x < u.
Proof.
  intros H. inversion H as [|? ? Hs Hf]; subst. split; auto. now rewrite Forall_forall in Hf.
Qed.

Lemma filter_from_mem (q : Z -> bool) W p :
  ssorted W -> In p W -> q p = true ->
  filter (fun t => (p <=? t) && q t) W = p :: filter (fun t => (p <? t) && q t) W.
Proof.
  intros Hs; induction W as [|y r IH]; simpl; [tauto|].
  destruct (ssorted_inv _ _ Hs) as [Hr Hy].
  intros [->|Hin] Hq.
  - rewrite Z.leb_refl, Z.ltb_irrefl, Hq. simpl. f_equal.
    apply filter_ext_in. intros t Ht. specialize (Hy _ Ht).
    replace (p <=? t) with true by (symmetry; apply Z.leb_le; lia).
    replace (p <? t) with true by (symmetry; apply Z.ltb_lt; lia). reflexivity.
  - specialize (Hy _ Hin).
    replace (p <=? y) with false by (symmetry; apply Z.leb_gt; lia).
    replace (p <? y) with false by (symmetry; apply Z.ltb_ge; lia). simpl. auto.
Qed.

Lemma filter_gt_nil (q : Z -> bool) W p :
  (forall u, In u W -> ns u <= ns p) -> filter (fun t => (p <? t) && q t) W = [].
Proof.
  induction W as [|y r IH]; simpl; auto. intros Hall.
  assert (H : ns y <= ns p) by (apply Hall; now left). apply (proj2 (ns_le _ _)) in H.
  replace (p <? y) with false by (symmetry; apply Z.ltb_ge; lia). simpl.
  apply IH. intros u Hu. apply Hall. now right.
Qed.

Definition due_from (p now : Z) (W : list Z) : list Z :=
  filter (fun t => (p <=? t) && (ns t <=? now)) W.

Lemma due_from_nil p now W : now < ns p -> due_from p now W = [].
Proof.
  intros H. unfold due_from. induction W as [|y r IH]; simpl; auto.
  destruct (p <=? y) eqn:E1; simpl; auto.
  apply Z.leb_le in E1. apply (proj1 (ns_le _ _)) in E1.
  replace (ns y <=? now) with false by (symmetry; apply Z.leb_gt; lia). auto.
Qed.

(** ** assumptions on the population *)
Definition lister_ok (L : list jobconfig) : Prop :=
  forall k jc, lookup k L = Some jc -> jc_sorted jc.

Lemma lookup_key k L jc : lookup k L = Some jc -> jc_key jc = k.
Proof.
  induction L as [|x r IH]; simpl; [discriminate|].
  destruct (jc_key x =? k) eqn:E; [intros [= <-]; now apply Z.eqb_eq|auto].
Qed.

Lemma lookup_in k L jc : lookup k L = Some jc -> In jc L.
Proof.
  induction L as [|x r IH]; simpl; [discriminate|].
  destruct (jc_key x =? k); [intros [= <-]; now left|intros H; right; auto].
Qed.

Lemma lister_ok_forall L : Forall jc_sorted L -> lister_ok L.
Proof. intros H k jc Hl. rewrite Forall_forall in H. apply H. eapply lookup_in; eauto. Qed.

Definition heap_ok (L : list jobconfig) (h : heap) : Prop :=
  keys_nodup h /\
  forall k p, h_find k h = Some p ->
    match lookup k L with Some jc => In p (fires_of jc) | None => True end.

Lemma bump_eq h jc from :
  jc_sorted jc ->
  bump h jc from =
  match first_after from (fires_of jc) with
  | None => h_delete (jc_key jc) h
  | Some s => h_upsert (jc_key jc) s h
  end.
Proof.
  intros Hs. unfold bump. rewrite (get_next_first_after jc from Hs).
  pose proof (first_after_spec from _ (fires_of_sorted jc)) as H.
  destruct (first_after from (fires_of jc)) as [s|]; auto.
  simpl in H. destruct H as (_ & Hf & _).
  replace (ns s <=? from) with false by (symmetry; apply Z.leb_gt; lia). reflexivity.
Qed.

Lemma first_after_in f W s : first_after f W = Some s -> In s W /\ f < ns s.
Proof.
  unfold first_after. intros H. apply find_some in H as [Hi Hf]. split; auto. now apply Z.ltb_lt.
Qed.

Lemma heap_ok_bump L h jc from :
  lister_ok L -> lookup (jc_key jc) L = Some jc -> heap_ok L h -> heap_ok L (bump h jc from).
Proof.
  intros HL Hl [Hn Hh]. rewrite bump_eq by (eapply HL; eauto).
  destruct (first_after from (fires_of jc)) as [s|] eqn:E.
  - split; [now apply h_upsert_nodup|].
    intros k p. rewrite h_find_upsert. destruct (k =? jc_key jc) eqn:Ek.
    + apply Z.eqb_eq in Ek; subst. intros [= <-]. rewrite Hl.
      apply first_after_in in E. tauto.
    + intros Hf. exact (Hh _ _ Hf).
  - split; [now apply h_delete_nodup|].
    intros k p. rewrite h_find_delete. destruct (k =? jc_key jc); [discriminate|]. intros Hf. exact (Hh _ _ Hf).
Qed.

Lemma heap_ok_delete L h k : heap_ok L h -> heap_ok L (h_delete k h).
Proof.
  intros [Hn Hh]. split; [now apply h_delete_nodup|].
  intros k' p. rewrite h_find_delete. destruct (k' =? k); [discriminate|]. intros Hf. exact (Hh _ _ Hf).
Qed.

(** ** per-key view of the requests of one tick *)
Definition reqs_of (k : Z) (reqs : list (Z * Z)) : list Z :=
  map snd (filter (fun e => fst e =? k) reqs).

Lemma get_count_incr k k' c :
  get_count k (incr_count k' c) = if k' =? k then get_count k' c + 1 else get_count k c.
Proof. unfold incr_count. simpl. destruct (k' =? k); reflexivity. Qed.

Section Tick.
Variable L : list jobconfig.
Variable maxc now : Z.
Hypothesis HL : lister_ok L.

(** What one key sees of the rest of the loop, given its count so far. *)
Definition key_result (h h2 : heap) (c : counts) (reqs : list (Z * Z)) (k : Z) : Prop :=
  match h_find k h with
  | None => reqs_of k reqs = [] /\ h_find k h2 = None
  | Some p =>
      match lookup k L with
      | Some jc =>
          reqs_of k reqs = firstn (Z.to_nat (maxc - get_count k c)) (due_from p now (fires_of jc)) /\
          h_find k h2 = (if ns p <=? now then first_after now (fires_of jc) else Some p)
      | None =>     (* deleted JobConfig: a due entry is popped and dropped *)
          reqs_of k reqs = [] /\ h_find k h2 = (if ns p <=? now then None else Some p)
      end
  end.

Lemma first_after_none_all f W : first_after f W = None -> forall u, In u W -> ns u <= f.
Proof.
  unfold first_after. intros H u Hu. pose proof (find_none _ _ H _ Hu) as E. now apply Z.ltb_ge in E.
Qed.

Lemma work_loop_spec fuel : forall h c h2 reqs,
  heap_ok L h ->
  work_loop fuel L maxc now h c = (h2, reqs, false) ->
  heap_ok L h2 /\ forall k, key_result h h2 c reqs k.
Proof.
  induction fuel as [|fuel IH]; intros h c h2 reqs Hok; simpl; [discriminate|].
  destruct Hok as [Hn Hh].
  destruct (pop_due h now) as [[[k0 p0] h']|] eqn:Epop.
  2:{ (* nothing due *)
    intros [= <- <-]. split; [split; assumption|].
    intros k. unfold key_result. destruct (h_find k h) as [p|] eqn:Ek; [|auto].
    pose proof (pop_due_none _ _ Epop _ _ (h_find_some_in _ _ _ Ek)) as Hlt.
    replace (ns p <=? now) with false by (symmetry; apply Z.leb_gt; lia).
    destruct (lookup k L) as [jc|]; [|auto].
    rewrite due_from_nil by assumption. rewrite firstn_nil. auto. }
  destruct (pop_due_some _ _ _ _ _ Hn Epop) as (Hf0 & Hdue0 & -> & Hmin).
  assert (Hok' : heap_ok L (h_delete k0 h)) by (apply heap_ok_delete; split; assumption).
  pose proof (Hh _ _ Hf0) as Hin0.
  destruct (lookup k0 L) as [jc0|] eqn:Hl0.
  2:{ (* the JobConfig is gone: the entry is dropped *)
    intros Hw. destruct (IH _ _ _ _ Hok' Hw) as [Hok2 Hkeys]. split; auto.
    intros k. specialize (Hkeys k). unfold key_result in *.
    rewrite h_find_delete in Hkeys.
    destruct (Z.eq_dec k k0) as [->|Hne].
    - rewrite Z.eqb_refl in Hkeys. rewrite Hf0, Hl0.
      replace (ns p0 <=? now) with true by (symmetry; apply Z.leb_le; lia). exact Hkeys.
    - replace (k =? k0) with false in Hkeys by (symmetry; now apply Z.eqb_neq). exact Hkeys. }
  pose proof (lookup_key _ _ _ Hl0) as Hk0.
  pose proof (HL _ _ Hl0) as Hs0.
  pose proof (fires_of_sorted jc0) as HW.
  destruct (maxc <=? get_count k0 c) eqn:Ecap.
  - (* cap: Bump(jobConfig, now) *)
    apply Z.leb_le in Ecap. intros Hw.
    assert (Hok'' : heap_ok L (bump (h_delete k0 h) jc0 now))
      by (apply heap_ok_bump; auto; now rewrite Hk0).
    destruct (IH _ _ _ _ Hok'' Hw) as [Hok2 Hkeys]. split; auto.
    intros k. specialize (Hkeys k). unfold key_result in *.
    rewrite bump_eq in Hkeys by assumption. rewrite Hk0 in Hkeys.
    destruct (Z.eq_dec k k0) as [->|Hne].
    + rewrite Hf0, Hl0. rewrite Hl0 in Hkeys.
      replace (Z.to_nat (maxc - get_count k0 c)) with O by lia. simpl firstn.
      replace (ns p0 <=? now) with true by (symmetry; apply Z.leb_le; lia).
      destruct (first_after now (fires_of jc0)) as [s|] eqn:Efa.
      * rewrite h_find_upsert, Z.eqb_refl in Hkeys.
        destruct Hkeys as (Hr & Hp).
        destruct (first_after_in _ _ _ Efa) as [_ Hlt].
        rewrite due_from_nil in Hr by assumption. rewrite firstn_nil in Hr.
        replace (ns s <=? now) with false in Hp by (symmetry; apply Z.leb_gt; lia). auto.
      * rewrite h_find_delete, Z.eqb_refl in Hkeys. destruct Hkeys. auto.
    + assert (Ekk : (k =? k0) = false) by now apply Z.eqb_neq.
      destruct (first_after now (fires_of jc0)) as [s|].
      * rewrite h_find_upsert, Ekk, h_find_delete, Ekk in Hkeys. exact Hkeys.
      * rewrite !h_find_delete, Ekk in Hkeys. exact Hkeys.
  - (* request p0, then Bump(jobConfig, p0) *)
    apply Z.leb_gt in Ecap.
    destruct (work_loop fuel L maxc now (bump (h_delete k0 h) jc0 (ns p0)) (incr_count k0 c))
      as [[h2' reqs'] oof] eqn:Ew.
    intros [= <- <- ->].
    assert (Hok'' : heap_ok L (bump (h_delete k0 h) jc0 (ns p0)))
      by (apply heap_ok_bump; auto; now rewrite Hk0).
    destruct (IH _ _ _ _ Hok'' Ew) as [Hok2 Hkeys]. split; auto.
    intros k. specialize (Hkeys k). unfold key_result in *.
    rewrite bump_eq in Hkeys by assumption. rewrite Hk0 in Hkeys.
    rewrite get_count_incr in Hkeys.
    destruct (Z.eq_dec k k0) as [->|Hne].
    + rewrite Hf0, Hl0. rewrite Hl0, Z.eqb_refl in Hkeys.
      unfold reqs_of. simpl filter. rewrite Z.eqb_refl. simpl map. fold (reqs_of k0 reqs').
      replace (ns p0 <=? now) with true by (symmetry; apply Z.leb_le; lia).
      unfold due_from at 1.
      rewrite (filter_from_mem (fun t => ns t <=? now) _ p0 HW Hin0)
        by (apply Z.leb_le; lia).
      replace (Z.to_nat (maxc - get_count k0 c)) with (S (Z.to_nat (maxc - (get_count k0 c + 1)))) by lia.
      simpl firstn.
      destruct (first_after (ns p0) (fires_of jc0)) as [s|] eqn:Efa.
      * rewrite h_find_upsert, Z.eqb_refl in Hkeys.
        destruct Hkeys as (Hr & Hp).
        pose proof (first_after_spec (ns p0) _ HW) as Hsp. rewrite Efa in Hsp. simpl in Hsp.
        destruct Hsp as (Hs_in & Hs_gt & Hs_least). apply (proj2 (ns_lt _ _)) in Hs_gt.
        assert (Hext : filter (fun t => (p0 <? t) && (ns t <=? now)) (fires_of jc0)
                       = due_from s now (fires_of jc0)).
        { unfold due_from. apply filter_ext_in. intros t Ht. f_equal.
          destruct (p0 <? t) eqn:E1.
          - apply Z.ltb_lt in E1. symmetry. apply Z.leb_le. apply Hs_least; auto. now apply (proj1 (ns_lt _ _)).
          - apply Z.ltb_ge in E1. symmetry. apply Z.leb_gt. lia. }
        rewrite Hext, Hr. split; [reflexivity|].
        rewrite Hp. destruct (ns s <=? now) eqn:Esn; [reflexivity|].
        apply Z.leb_gt in Esn. symmetry.
        eapply least_after_unique with (P := fun t => In t (fires_of jc0)) (f := now).
        -- apply first_after_spec; assumption.
        -- simpl. repeat split; auto. intros u Hu Hnu. apply Hs_least; auto. lia.
      * rewrite h_find_delete, Z.eqb_refl in Hkeys. destruct Hkeys as [Hr Hp].
        pose proof (first_after_none_all _ _ Efa) as Hall.
        assert (Hnil : filter (fun t => (p0 <? t) && (ns t <=? now)) (fires_of jc0) = [])
          by (apply filter_gt_nil; exact Hall).
        rewrite Hnil, Hr, firstn_nil. split; [reflexivity|].
        rewrite Hp. symmetry.
        eapply least_after_unique with (P := fun t => In t (fires_of jc0)) (f := now).
        -- apply first_after_spec; assumption.
        -- simpl. intros u Hu. specialize (Hall _ Hu). lia.
    + assert (Ekk : (k =? k0) = false) by now apply Z.eqb_neq.
      assert (Ekk' : (k0 =? k) = false) by (rewrite Z.eqb_sym; assumption).
      rewrite Ekk' in Hkeys.
      assert (Hreq : reqs_of k ((k0, p0) :: reqs') = reqs_of k reqs').
      { unfold reqs_of. simpl filter. now rewrite Ekk'. }
      rewrite Hreq.
      destruct (first_after (ns p0) (fires_of jc0)) as [s|].
      * rewrite h_find_upsert, Ekk, h_find_delete, Ekk in Hkeys. exact Hkeys.
      * rewrite !h_find_delete, Ekk in Hkeys. exact Hkeys.
Qed.

End Tick.

(** ** Termination: the loop ends within the fuel that [work] gives it. *)
Section Fuel.
Variable L : list jobconfig.
Variable maxc now : Z.
Hypothesis HL : lister_ok L.

Definition entry_cost (c : counts) (e : Z * Z) : nat :=
  if ns (snd e) <=? now then (Z.to_nat (maxc - get_count (fst e) c) + 1)%nat else O.
Definition cost (h : heap) (c : counts) : nat := list_sum (map (entry_cost c) h).

Lemma h_delete_notin k h : ~ In k (map fst h) -> h_delete k h = h.
Proof.
  unfold h_delete. induction h as [|[a q] r IH]; simpl; auto.
  intros Hnot. destruct (a =? k) eqn:E.
  - apply Z.eqb_eq in E. subst. tauto.
  - simpl. rewrite IH by tauto. reflexivity.
Qed.

Lemma h_delete_cons_eq k p r : h_delete k ((k, p) :: r) = h_delete k r.
Proof. unfold h_delete. simpl. now rewrite Z.eqb_refl. Qed.
Lemma h_delete_cons_neq k a q r : (a =? k) = false -> h_delete k ((a, q) :: r) = (a, q) :: h_delete k r.
Proof. intros E. unfold h_delete. simpl. now rewrite E. Qed.

Lemma cost_delete_split h c k p :
  keys_nodup h -> h_find k h = Some p ->
  cost h c = (entry_cost c (k, p) + cost (h_delete k h) c)%nat.
Proof.
  unfold keys_nodup. induction h as [|[a q] r IH]; [simpl; discriminate|].
  cbn [h_find map fst].
  intros Hn. inversion Hn as [|? ? Hnot Hn']; subst.
  destruct (a =? k) eqn:E.
  - apply Z.eqb_eq in E; subst. intros [= ->].
    rewrite h_delete_cons_eq, (h_delete_notin k r Hnot). reflexivity.
  - intros Hf. rewrite (h_delete_cons_neq _ _ _ _ E).
    unfold cost in *. simpl. rewrite (IH Hn' Hf). lia.
Qed.

Lemma h_delete_idem k h : h_delete k (h_delete k h) = h_delete k h.
Proof.
  unfold h_delete. induction h as [|[a q] r IH]; simpl; auto.
  destruct (a =? k) eqn:E; simpl; auto. rewrite E. simpl. now rewrite IH.
Qed.

Lemma cost_incr_notin h c k :
  ~ In k (map fst h) -> cost h (incr_count k c) = cost h c.
Proof.
  unfold cost. induction h as [|[a q] r IH]; simpl; auto.
  intros Hnot. rewrite IH by tauto. f_equal.
  unfold entry_cost. cbn [fst snd]. destruct (ns q <=? now); auto.
  rewrite get_count_incr. destruct (k =? a) eqn:E; auto.
  apply Z.eqb_eq in E. subst. tauto.
Qed.

Lemma work_loop_terminates fuel : forall h c h2 reqs oof,
  heap_ok L h -> (cost h c < fuel)%nat ->
  work_loop fuel L maxc now h c = (h2, reqs, oof) -> oof = false.
Proof.
  induction fuel as [|fuel IH]; intros h c h2 reqs oof Hok Hc; [lia|]. simpl.
  destruct Hok as [Hn Hh].
  destruct (pop_due h now) as [[[k0 p0] h']|] eqn:Epop; [|now intros [= _ _ <-]].
  destruct (pop_due_some _ _ _ _ _ Hn Epop) as (Hf0 & Hdue0 & -> & Hmin).
  assert (Hok' : heap_ok L (h_delete k0 h)) by (apply heap_ok_delete; split; assumption).
  rewrite (cost_delete_split h c k0 p0 Hn Hf0) in Hc.
  assert (Hec : (entry_cost c (k0, p0) = Z.to_nat (maxc - get_count k0 c) + 1)%nat).
  { unfold entry_cost. cbn [fst snd]. now replace (ns p0 <=? now) with true by (symmetry; apply Z.leb_le; lia). }
  destruct (lookup k0 L) as [jc0|] eqn:Hl0.
  2:{ intros Hw. eapply IH; [exact Hok'| |exact Hw]. lia. }
  pose proof (lookup_key _ _ _ Hl0) as Hk0. pose proof (HL _ _ Hl0) as Hs0.
  assert (Hbump : forall from, now <= from \/ from = ns p0 ->
            forall c', (cost (bump (h_delete k0 h) jc0 from) c' <=
              (match first_after from (fires_of jc0) with
               | Some s => entry_cost c' (k0, s) | None => O end) + cost (h_delete k0 h) c')%nat).
  { intros from _ c'. rewrite bump_eq by assumption. rewrite Hk0.
    destruct (first_after from (fires_of jc0)) as [s|].
    - unfold h_upsert. rewrite h_delete_idem. unfold cost. cbn [map list_sum fold_right]. apply Nat.le_refl.
    - rewrite h_delete_idem. lia. }
  destruct (maxc <=? get_count k0 c) eqn:Ecap.
  - intros Hw. eapply IH; [| |exact Hw].
    + apply heap_ok_bump; auto. now rewrite Hk0.
    + specialize (Hbump now (or_introl (Z.le_refl _)) c).
      destruct (first_after now (fires_of jc0)) as [s|] eqn:Efa.
      * destruct (first_after_in _ _ _ Efa) as [_ Hlt].
        unfold entry_cost in Hbump at 1. cbn [fst snd] in Hbump.
        replace (ns s <=? now) with false in Hbump by (symmetry; apply Z.leb_gt; lia). lia.
      * lia.
  - apply Z.leb_gt in Ecap.
    destruct (work_loop fuel L maxc now (bump (h_delete k0 h) jc0 (ns p0)) (incr_count k0 c))
      as [[h2' reqs'] oof'] eqn:Ew.
    intros [= _ _ <-]. eapply IH; [| |exact Ew].
    + apply heap_ok_bump; auto. now rewrite Hk0.
    + specialize (Hbump (ns p0) (or_intror eq_refl) (incr_count k0 c)).
      rewrite (cost_incr_notin (h_delete k0 h) c k0) in Hbump by apply h_delete_keys_notin.
      destruct (first_after (ns p0) (fires_of jc0)) as [s|].
      * unfold entry_cost in Hbump at 1. cbn [fst snd] in Hbump. rewrite get_count_incr, Z.eqb_refl in Hbump.
        destruct (ns s <=? now); lia.
      * lia.
Qed.

Lemma cost_bound h : (cost h [] <= length h * (Z.to_nat (Z.max maxc 0) + 1))%nat.
Proof.
  unfold cost. induction h as [|e r IH]; simpl; [lia|].
  assert (entry_cost [] e <= Z.to_nat (Z.max maxc 0) + 1)%nat.
  { unfold entry_cost. simpl. destruct (ns (snd e) <=? now); lia. }
  lia.
Qed.
End Fuel.
