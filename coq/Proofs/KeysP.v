From Furiko Require Import Base.Str Cron.Keys Proofs.StrP.
From Coq Require Import Lia.

Lemma split_join key t : is_int64 t = true -> split_key (join_key key t) = Some (key, t).
Proof.
  intros Ht. unfold split_key, join_key.
  change ("." ++ show_Z t) with (String "." (show_Z t)).
  rewrite split_last_app by apply show_Z_no_dot.
  now rewrite parse_int_show.
Qed.

Lemma join_key_inj k1 t1 k2 t2 : join_key k1 t1 = join_key k2 t2 -> k1 = k2 /\ t1 = t2.
Proof.
  unfold join_key. change ("." ++ show_Z t1) with (String "." (show_Z t1)).
  change ("." ++ show_Z t2) with (String "." (show_Z t2)).
  intros E. apply app_inj_tail_sep in E; try apply show_Z_no_dot.
  destruct E as [-> E]. split; auto. now apply show_Z_inj.
Qed.

Lemma gen_name_inj n1 t1 n2 t2 :
  0 <= t1 -> 0 <= t2 -> gen_name n1 t1 = gen_name n2 t2 -> n1 = n2 /\ t1 = t2.
Proof.
  unfold gen_name. change ("-" ++ show_Z t1) with (String "-" (show_Z t1)).
  change ("-" ++ show_Z t2) with (String "-" (show_Z t2)).
  intros H1 H2 E. apply app_inj_tail_sep in E; try now apply show_Z_nonneg_no_dash.
  destruct E as [-> E]. split; auto. now apply show_Z_inj.
Qed.

Lemma sched_annotation_inj t1 t2 : sched_annotation t1 = sched_annotation t2 -> t1 = t2.
Proof. apply show_Z_inj. Qed.
