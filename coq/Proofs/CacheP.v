(** C13 over histories.  Two facts about the one-Job world, for every history:

    - Pod cache coverage: every Pod that exists in the API is present in the Pod cache once the
      events still on their way are delivered (creates are logged before the deletes of a pass,
      deletes of one pass in any order) - so a Pod cache with nothing pending covers the API;
    - the Job object leaves the API, while it carries the delete-dependents finalizer, only in a
      reconcile pass that saw no Pod cached under any task name recorded in the Job's status.

    Together: with all Pod events delivered, a finalizer-protected Job disappears only after
    every task listed in its status is gone from the API. *)
From Furiko Require Import Job.Core Job.Sync Job.World Proofs.JobP Proofs.SyncP Proofs.HistoryP.
From Coq Require Import Lia.
Local Open Scope list_scope.
Local Open Scope Z_scope.

(** * presence of a name after replaying events *)
Definition ev_present (n : string) (b : bool) (e : pod_event) : bool :=
  match e with
  | PSet p => if String.eqb (p_name p) n then true else b
  | PDel m => if String.eqb m n then false else b
  end.
Definition present (n : string) (evs : list pod_event) (cache : list pod) : bool :=
  fold_left (ev_present n) evs (has_pod n cache).

Definition no_del (n : string) (evs : list pod_event) : Prop := ~ In (PDel n) evs.

Lemma fold_present_app n a b x : fold_left (ev_present n) (a ++ b) x = fold_left (ev_present n) b (fold_left (ev_present n) a x).
Proof. apply fold_left_app. Qed.

Lemma present_app n a b c : present n (a ++ b) c = fold_left (ev_present n) b (present n a c).
Proof. unfold present. apply fold_left_app. Qed.

Lemma fold_true_no_del n evs : no_del n evs -> fold_left (ev_present n) evs true = true.
Proof.
  induction evs as [|e r IH]; intros H; simpl; auto.
  assert (Hr : no_del n r) by (intros X; apply H; now right).
  destruct e as [p|m]; simpl.
  - destruct (String.eqb (p_name p) n); auto.
  - destruct (String.eqb m n) eqn:E; auto. apply String.eqb_eq in E. subst m. exfalso. apply H. now left.
Qed.

Lemma has_pod_app n a b : has_pod n (a ++ b) = has_pod n a || has_pod n b.
Proof. unfold has_pod. apply existsb_app. Qed.

Lemma has_pod_single n p : has_pod n [p] = String.eqb (p_name p) n.
Proof. unfold has_pod. simpl. apply orb_false_r. Qed.

Lemma has_pod_remove n m l : has_pod n (remove_pod m l) = negb (String.eqb m n) && has_pod n l.
Proof.
  unfold has_pod, remove_pod. induction l as [|p r IH]; simpl; [now rewrite andb_false_r|].
  destruct (String.eqb (p_name p) m) eqn:E1; simpl.
  - rewrite IH. apply String.eqb_eq in E1. subst m.
    destruct (String.eqb (p_name p) n); simpl; auto.
  - rewrite IH. destruct (String.eqb (p_name p) n) eqn:E2; simpl; auto.
    apply String.eqb_eq in E2. subst n. rewrite String.eqb_sym, E1. reflexivity.
Qed.

Lemma has_pod_map_same n (f : pod -> pod) l : (forall q, p_name (f q) = p_name q) -> has_pod n (map f l) = has_pod n l.
Proof.
  intros Hf. unfold has_pod. induction l as [|p r IH]; simpl; auto. now rewrite Hf, IH.
Qed.

Lemma has_pod_set n p l : has_pod n (set_pod p l) = String.eqb (p_name p) n || has_pod n l.
Proof.
  unfold set_pod. destruct (has_pod (p_name p) l) eqn:Eh.
  - rewrite has_pod_map_same.
    + destruct (String.eqb (p_name p) n) eqn:E; simpl; auto. apply String.eqb_eq in E. now subst n.
    + intros q. destruct (String.eqb (p_name q) (p_name p)) eqn:E; auto. apply String.eqb_eq in E. auto.
  - rewrite has_pod_app. simpl. rewrite orb_false_r. apply orb_comm.
Qed.

Lemma find_has n l : find_pod n l = None <-> has_pod n l = false.
Proof.
  unfold has_pod. induction l as [|p r IH]; simpl; [tauto|].
  destruct (String.eqb (p_name p) n); simpl; [split; discriminate|exact IH].
Qed.

Lemma find_some_has n l p : find_pod n l = Some p -> has_pod n l = true.
Proof. intros H. destruct (has_pod n l) eqn:E; auto. apply find_has in E. congruence. Qed.

Lemma find_pod_name n l p : find_pod n l = Some p -> p_name p = n.
Proof.
  induction l as [|q r IH]; simpl; [discriminate|].
  destruct (String.eqb (p_name q) n) eqn:E; [intros [= <-]; now apply String.eqb_eq|exact IH].
Qed.

(** delivering events to the cache does not change what will be present in the end *)
Lemma apply_pod_events_present n k : forall evs cache rest cache',
  apply_pod_events k evs cache = (rest, cache') -> present n rest cache' = present n evs cache.
Proof.
  induction k as [|k IH]; intros evs cache rest cache'; simpl.
  - intros [= <- <-]. reflexivity.
  - destruct evs as [|[p|m] r].
    + intros [= <- <-]. reflexivity.
    + intros H. rewrite (IH _ _ _ _ H). unfold present. simpl. now rewrite has_pod_set.
    + intros H. rewrite (IH _ _ _ _ H). unfold present. simpl. rewrite has_pod_remove.
      destruct (String.eqb m n); reflexivity.
Qed.

(** * the invariant *)
(** world level: every Pod in the API will be in the cache when the pending events are in *)
Definition PW (w : jworld) : Prop :=
  forall n, has_pod n (api_pods w) = true -> present n (pod_pending w) (cache_pods w) = true.

(** inside a pass: additionally, no delete event of the pass concerns a Pod that exists *)
Definition PS (s : pstate) : Prop :=
  forall n, has_pod n (api_pods (ps_w s)) = true ->
            present n (pod_pending (ps_w s)) (cache_pods (ps_w s)) = true /\ no_del n (ps_del_events s).

Definition pf (w : jworld) := (api_pods w, cache_pods w, pod_pending w).

Lemma ps_same_pf s s' : pf (ps_w s') = pf (ps_w s) -> ps_del_events s' = ps_del_events s -> PS s -> PS s'.
Proof. unfold PS, pf. intros [= E1 E2 E3] E4 H n. rewrite E1, E2, E3, E4. apply H. Qed.

Lemma pw_same_pf w w' : pf w' = pf w -> PW w -> PW w'.
Proof. unfold PW, pf. intros [= E1 E2 E3] H n. rewrite E1, E2, E3. apply H. Qed.

(** ** creation: only while the pass has logged no delete yet *)
Lemma sync_create_task_ps s j tasks h retry s' j' t' res :
  sync_create_task s j tasks h retry = (s', j', t', res) ->
  ps_del_events s = [] -> PS s -> PS s' /\ ps_del_events s' = [].
Proof.
  unfold sync_create_task. intros H Hd HP.
  destruct (take_fault FCreatePod _); [injection H as <- _ _ _; split; [eapply ps_same_pf; eauto; reflexivity|exact Hd]|].
  destruct (take_fault FCreatePodInvalid _); [injection H as <- _ _ _; split; [eapply ps_same_pf; eauto; reflexivity|exact Hd]|].
  destruct (has_pod _ _) eqn:Eh.
  - assert (G : PS (add_action s (ACreate (job_task_name h retry) 1)) /\ ps_del_events (add_action s (ACreate (job_task_name h retry) 1)) = [])
      by (split; [eapply ps_same_pf; eauto; reflexivity|exact Hd]).
    destruct (find_pod _ _) as [p|]; [destruct (p_controlled p)|]; injection H as <- _ _ _; exact G.
  - injection H as <- _ _ _. split; [|exact Hd]. intros n.
    cbn [ps_w add_action with_world upd_pods api_pods pod_pending cache_pods ps_del_events].
    rewrite Hd, has_pod_app, present_app, has_pod_single. cbn [fold_left ev_present].
    change (p_name (new_pod h retry (clock (ps_w s)))) with (job_task_name h retry).
    intros Hn. split; [|intros []].
    destruct (String.eqb (job_task_name h retry) n) eqn:E; auto.
    rewrite orb_false_r in Hn. apply (HP n Hn).
Qed.

Lemma create_loop_ps reqs : forall s j tasks now s' j' t' res,
  create_loop s j tasks reqs now = (s', j', t', res) ->
  ps_del_events s = [] -> PS s -> PS s' /\ ps_del_events s' = [].
Proof.
  induction reqs as [|rq r IH]; intros s j tasks now s' j' t' res; simpl.
  - intros [= <- _ _ _]. auto.
  - destruct (match rq_earliest rq with Some e => now <? e | None => false end); [apply IH|].
    destruct (sync_create_task s j tasks (rq_hash rq) (rq_retry rq)) as [[[s1 j1] t1] [|]] eqn:E; intros H Hd HP;
      destruct (sync_create_task_ps _ _ _ _ _ _ _ _ _ E Hd HP) as [HP1 Hd1].
    + eapply IH; eauto.
    + injection H as <- _ _ _. auto.
Qed.

Lemma sync_status_ps now s j s' j' : sync_status now s j = (s', j') -> ps_w s' = ps_w s /\ ps_del_events s' = ps_del_events s.
Proof. unfold sync_status. intros [= <- _]. destruct (ttl_arms _); auto. Qed.

Lemma ps_same s s' : ps_w s' = ps_w s -> ps_del_events s' = ps_del_events s -> PS s -> PS s'.
Proof. intros E1 E2. apply ps_same_pf; [now rewrite E1|exact E2]. Qed.

Lemma sync_create_tasks_ps s j tasks now s' j' t' res :
  sync_create_tasks s j tasks now = (s', j', t', res) ->
  ps_del_events s = [] -> PS s -> PS s' /\ ps_del_events s' = [].
Proof.
  unfold sync_create_tasks. destruct (negb (can_create_task j)); [intros [= <- _ _ _]; auto|].
  destruct (summary _ _ _ _) as [complete succ]. destruct complete; [intros [= <- _ _ _]; auto|].
  destruct (create_loop s j tasks (compute_missing j) now) as [[[s1 j1] t1] [|]] eqn:E; intros H Hd HP;
    destruct (create_loop_ps _ _ _ _ _ _ _ _ _ E Hd HP) as [HP1 Hd1].
  - match type of H with context [sync_status_refs now ?x j1 t1] => destruct (sync_status_refs now x j1 t1) as [s2 j2] eqn:E2 end.
    injection H as <- _ _ _. apply sync_status_ps in E2 as [W D].
    assert (X : forall b : bool, ps_w (if b then arm s1 else s1) = ps_w s1 /\ ps_del_events (if b then arm s1 else s1) = ps_del_events s1)
      by (intros []; auto).
    destruct (X (existsb (fun rq => match rq_earliest rq with Some _ => true | None => 0 <? j_retry_delay j end) (compute_missing j))) as [W2 D2].
    split; [eapply ps_same; [| |exact HP1]; congruence|congruence].
  - injection H as <- _ _ _. auto.
Qed.

(** ** deletion *)
Lemma no_del_app n a b : no_del n (a ++ b) <-> no_del n a /\ no_del n b.
Proof. unfold no_del. rewrite in_app_iff. tauto. Qed.

Lemma api_delete_pod_ps s name force w' out evs :
  api_delete_pod (ps_w s) name force = (w', out, evs) -> PS s ->
  forall a, PS (add_del_events (add_action (with_world s w') a) evs).
Proof.
  unfold api_delete_pod. intros H HP a n. simpl.
  destruct (find_pod name (api_pods (ps_w s))) as [p|] eqn:Ef.
  2:{ injection H as <- _ <-. rewrite app_nil_r. apply HP. }
  destruct (force || negb (mem_str name (pod_scheduled (ps_w s)))).
  - injection H as <- _ <-. simpl. rewrite app_nil_r, has_pod_remove. intros Hn. apply andb_prop in Hn as [Hne Hn].
    destruct (HP n Hn) as [P1 P2]. split; auto. apply no_del_app. split; auto.
    intros [[= ->]|[]]. rewrite String.eqb_refl in Hne. discriminate.
  - destruct (p_deletion p).
    + injection H as <- _ <-. rewrite app_nil_r. apply HP.
    + injection H as <- _ <-. simpl. rewrite app_nil_r, has_pod_set. intros Hn.
      assert (Hn' : has_pod n (api_pods (ps_w s)) = true).
      { apply orb_prop in Hn as [E|Hn]; auto. apply String.eqb_eq in E. simpl in E.
        apply find_some_has in Ef as Hh. apply find_pod_name in Ef. now rewrite <- E, Ef. }
      destruct (HP n Hn') as [P1 P2]. split; auto. apply no_del_app. split; auto. intros [X|[]]. discriminate X.
Qed.

Lemma delete_tasks_ordered_ps tasks : forall s force now s' ok,
  delete_tasks_ordered s tasks force now = (s', ok) -> PS s -> PS s'.
Proof.
  induction tasks as [|p r IH]; intros s force now s' ok; simpl.
  - intros [= <- _]. auto.
  - destruct (negb force && _); [apply IH|].
    destruct (take_fault FDeletePod _).
    + destruct (delete_tasks_ordered (add_action s _) r force now) as [s1 ok1] eqn:E. intros [= <- _] HP.
      eapply IH; [exact E|]. eapply ps_same; [| |exact HP]; reflexivity.
    + destruct (api_delete_pod (ps_w s) (p_name p) force) as [[w' out] evs] eqn:Ed. intros H HP.
      eapply IH; [exact H|]. eapply api_delete_pod_ps; eauto.
Qed.

Lemma delete_tasks_ps s tasks force now s' ok : delete_tasks s tasks force now = (s', ok) -> PS s -> PS s'.
Proof. apply delete_tasks_ordered_ps. Qed.

Lemma ps_arm_if {A} (l : list A) s : PS s -> PS (match l with [] => s | _ :: _ => arm s end).
Proof. intros H. destruct l; auto. Qed.

Lemma handle_pending_ps cfg s j tasks now s' j' ok : handle_pending cfg s j tasks now = (s', j', ok) -> PS s -> PS s'.
Proof.
  unfold handle_pending. destruct (pending_timeout cfg j <=? 0); [intros [= <- _ _]; auto|].
  set (nd := filter (fun p => now <? p_created p + pending_timeout cfg j) _).
  set (need := filter _ (filter _ tasks)).
  destruct need as [|p r] eqn:En.
  - intros [= <- _ _]. apply ps_arm_if.
  - destruct (delete_tasks _ (p :: r) false now) as [s1 ok1] eqn:E. intros [= <- _ _] HP.
    eapply delete_tasks_ps; [exact E|]. now apply ps_arm_if.
Qed.

Lemma handle_kill_ps s j tasks now s' j' ok : handle_kill s j tasks now = (s', j', ok) -> PS s -> PS s'.
Proof.
  unfold handle_kill. destruct (negb (should_kill now j)); [intros [= <- _ _]; auto|].
  destruct (filter _ tasks) as [|p r]; [intros [= <- _ _]; auto|].
  destruct (delete_tasks _ _ _ _) as [s1 ok1] eqn:E. intros [= <- _ _] HP. eapply delete_tasks_ps; eauto.
Qed.

Lemma handle_force_ps cfg s j tasks now s' j' ok : handle_force cfg s j tasks now = (s', j', ok) -> PS s -> PS s'.
Proof.
  unfold handle_force. destruct (force_timeout cfg <=? 0); [intros [= <- _ _]; auto|].
  destruct (j_forbid_force j); [intros [= <- _ _]; auto|].
  match goal with |- context [filter ?f (filter ?g tasks)] => set (dl := filter g tasks) end.
  set (need := filter (fun p => match p_deletion p with Some t => negb (now <? t + force_timeout cfg) | None => false end) dl).
  set (wt := filter (fun p => match p_deletion p with Some t => now <? t + force_timeout cfg | None => false end) dl).
  destruct need as [|p r] eqn:En.
  - intros [= <- _ _]. apply ps_arm_if.
  - destruct (delete_tasks _ (p :: r) true now) as [s1 ok1] eqn:E. intros [= <- _ _] HP.
    eapply delete_tasks_ps; [exact E|]. now apply ps_arm_if.
Qed.

Lemma sync_status_refs_ps now s j p s' j' : sync_status_refs now s j p = (s', j') -> PS s -> PS s'.
Proof. intros H. apply sync_status_ps in H as [W D]. now apply ps_same. Qed.

Lemma sync_job_tasks_ps cfg s j now s' j' ok :
  sync_job_tasks cfg s j now = (s', j', ok) -> ps_del_events s = [] -> PS s -> PS s'.
Proof.
  unfold sync_job_tasks. set (tasks := flat_map _ (j_tasks j)). intros H Hd HP.
  destruct (sync_create_tasks s j tasks now) as [[[s1 j1] t1] [|]] eqn:E1;
    destruct (sync_create_tasks_ps _ _ _ _ _ _ _ _ E1 Hd HP) as [HP1 _]; [|injection H as <- _ _; exact HP1].
  destruct (sync_status_refs now s1 j1 t1) as [s2 j2] eqn:E2. apply sync_status_refs_ps in E2; auto.
  destruct (handle_pending cfg s2 j2 t1 now) as [[s3 j3] ok3] eqn:E3. apply handle_pending_ps in E3; auto.
  destruct (negb ok3); [injection H as <- _ _; exact E3|].
  destruct (handle_kill s3 j3 t1 now) as [[s4 j4] ok4] eqn:E4. apply handle_kill_ps in E4; auto.
  destruct (negb ok4); [injection H as <- _ _; exact E4|].
  destruct (handle_force cfg s4 j4 t1 now) as [[s5 j5] ok5] eqn:E5. apply handle_force_ps in E5; auto.
  destruct (negb ok5); [injection H as <- _ _; exact E5|].
  destruct (sync_status_refs now s5 j5 t1) as [s6 j6] eqn:E6. apply sync_status_refs_ps in E6; auto.
  injection H as <- _ _. exact E6.
Qed.

Lemma handle_finalizer_ps s j now s' j' ok : handle_finalizer s j now = (s', j', ok) -> PS s -> PS s'.
Proof.
  unfold handle_finalizer. destruct (j_deletion j); [|intros [= <- _ _]; auto].
  destruct (negb (j_finalizer j)); [intros [= <- _ _]; auto|].
  set (tasks := flat_map _ (j_tasks j)). destruct tasks as [|p r] eqn:Et.
  - destruct (sync_status_refs now s j []) as [s1 j1] eqn:E. intros [= <- _ _] HP. eapply sync_status_refs_ps; eauto.
  - destruct (sync_status_refs now s _ (p :: r)) as [s1 j2] eqn:E.
    destruct (delete_tasks s1 (p :: r) false now) as [s2 ok2] eqn:Ed. intros [= <- _ _] HP.
    eapply delete_tasks_ps; [exact Ed|]. eapply sync_status_refs_ps; eauto.
Qed.

Lemma api_delete_job_pf w w' out : api_delete_job w = (w', out) -> pf w' = pf w.
Proof.
  unfold api_delete_job. destruct (api_job w) as [a|]; [|intros [= <- _]; reflexivity].
  destruct (j_finalizer a); [destruct (j_deletion a)|]; intros [= <- _]; reflexivity.
Qed.

Lemma handle_ttl_ps cfg s j now s' ok : handle_ttl cfg s j now = (s', ok) -> PS s -> PS s'.
Proof.
  unfold handle_ttl. destruct (j_deletion j); [intros [= <- _]; auto|].
  destruct (j_cond j); try (intros [= <- _]; auto).
  destruct (now <? _); [intros [= <- _]; auto|].
  destruct (take_fault FDeleteJob _); [intros [= <- _]; apply ps_same_pf; reflexivity|].
  destruct (api_delete_job (ps_w s)) as [w' out] eqn:E. intros [= <- _]. apply api_delete_job_pf in E.
  apply ps_same_pf; [exact E|reflexivity].
Qed.

Lemma sync_ps cfg s j now s' j' ok : sync cfg s j now = (s', j', ok) -> ps_del_events s = [] -> PS s -> PS s'.
Proof.
  unfold sync. intros H Hd HP.
  destruct (match j_start j, j_deletion j with Some _, None => sync_job_tasks cfg s j now | _, _ => (s, j, true) end)
    as [[s1 j1] ok1] eqn:E1.
  assert (P1 : PS s1).
  { destruct (j_start j); [destruct (j_deletion j)|]; try (injection E1 as <- _ _; exact HP).
    eapply sync_job_tasks_ps; eauto. }
  destruct (negb ok1); [injection H as <- _ _; exact P1|].
  destruct (sync_status now s1 j1) as [s2 j2] eqn:E2. apply sync_status_ps in E2 as [W2 D2].
  assert (P2 : PS s2) by (eapply ps_same; eauto).
  destruct (handle_ttl cfg s2 j2 now) as [s3 ok3] eqn:E3. apply handle_ttl_ps in E3; auto.
  destruct (negb ok3); [injection H as <- _ _; exact E3|].
  destruct (handle_finalizer s3 j2 now) as [[s4 j4] ok4] eqn:E4. apply handle_finalizer_ps in E4; auto.
  destruct (negb ok4); injection H as <- _ _; exact E4.
Qed.

(** ** the end of the pass logs the deletes, in whatever order *)
Lemma insert_ev_in e l x : In x (insert_ev e l) <-> x = e \/ In x l.
Proof.
  induction l as [|y t IH]; simpl; [intuition|].
  destruct (String.ltb (ev_name e) (ev_name y)); simpl; [intuition|]. rewrite IH. intuition.
Qed.
Lemma sort_evs_in l x : In x (sort_evs l) <-> In x l.
Proof. induction l as [|y t IH]; simpl; [tauto|]. rewrite insert_ev_in, IH. intuition. Qed.

Lemma present_mono n evs : forall b, no_del n evs -> b = true -> fold_left (ev_present n) evs b = true.
Proof. intros b H ->. now apply fold_true_no_del. Qed.

Lemma end_pass_pw s : PS s -> PW (end_pass s).
Proof.
  intros HP. assert (G : PW (upd_pods (ps_w s) (api_pods (ps_w s)) (pod_scheduled (ps_w s)) (sort_evs (ps_del_events s)) (faults (ps_w s)))).
  { intros n. cbn [upd_pods api_pods pod_pending cache_pods]. intros Hn. destruct (HP n Hn) as [P1 P2]. rewrite present_app.
    apply present_mono; auto. intros X. apply P2. apply sort_evs_in. exact X. }
  unfold end_pass. destruct (existsb _ _); [|exact G].
  destruct (take_fault FDeletePod _); [|exact G]. eapply pw_same_pf; [|exact G]. reflexivity.
Qed.

Lemma pf_upd_job w j rv fl : pf (upd_job w j rv fl) = pf w. Proof. reflexivity. Qed.
Lemma pf_set_faults w fl : pf (set_faults w fl) = pf w. Proof. reflexivity. Qed.

Lemma api_update_job_pf w newj rv w' out : api_update_job w newj rv = (w', out) -> pf w' = pf w.
Proof.
  unfold api_update_job. destruct (api_job w) as [a|]; [|intros [= <- _]; reflexivity].
  destruct (negb (rv =? api_rv w)); [intros [= <- _]; reflexivity|].
  destruct (j_deletion a); [destruct (j_finalizer newj)|]; intros [= <- _]; reflexivity.
Qed.
Lemma api_update_status_pf w newj rv w' out : api_update_status w newj rv = (w', out) -> pf w' = pf w.
Proof.
  unfold api_update_status. destruct (api_job w) as [a|]; [|intros [= <- _]; reflexivity].
  destruct (negb (rv =? api_rv w)); intros [= <- _]; reflexivity.
Qed.

Theorem sync_one_pw cfg w w' acts ok armed : sync_one cfg w = (w', acts, ok, armed) -> PW w -> PW w'.
Proof.
  unfold sync_one. intros H HW. destruct (cache_job w) as [j|]; [|injection H as <- _ _ _; exact HW].
  destruct (sync cfg (mkPS w [] false []) j (clock w)) as [[s1 newj] ok1] eqn:Es.
  assert (P0 : PS (mkPS w [] false [])) by (intros n Hn; split; [apply HW; exact Hn|intros []]).
  pose proof (sync_ps _ _ _ _ _ _ _ Es eq_refl P0) as P1.
  set (upd := if meta_eqb j newj then (s1, true) else _) in H.
  assert (P2 : PS (fst upd)).
  { unfold upd. destruct (meta_eqb j newj); [exact P1|].
    destruct (take_fault FUpdateJob _); [simpl; eapply ps_same_pf; [| |exact P1]; reflexivity|].
    destruct (api_update_job (ps_w s1) newj (cache_rv w)) as [wu out] eqn:Eu. simpl.
    apply api_update_job_pf in Eu. eapply ps_same_pf; [| |exact P1]; [exact Eu|reflexivity]. }
  destruct upd as [s2 ok2]. simpl in P2.
  destruct (negb ok2); [injection H as <- _ _ _; now apply end_pass_pw|].
  set (st := if status_eqb j newj then (s2, true) else _) in H.
  assert (P3 : PS (fst st)).
  { unfold st. destruct (status_eqb j newj); [exact P2|].
    destruct (take_fault FUpdateStatus _); [simpl; eapply ps_same_pf; [| |exact P2]; reflexivity|].
    destruct (api_update_status (ps_w s2) newj (cache_rv w)) as [wu out] eqn:Eu. simpl.
    apply api_update_status_pf in Eu. eapply ps_same_pf; [| |exact P2]; [exact Eu|reflexivity]. }
  destruct st as [s3 ok3]. simpl in P3. injection H as <- _ _ _. now apply end_pass_pw.
Qed.

(** ** every op *)
Lemma pw_add_set w p sched fl :
  PW w -> PW (upd_pods w (set_pod p (api_pods w)) sched [PSet p] fl).
Proof.
  intros HW n. simpl. rewrite has_pod_set, present_app. simpl. intros Hn.
  destruct (String.eqb (p_name p) n); auto; simpl in Hn; apply (HW n Hn).
Qed.

Lemma pw_remove w m sched fl :
  PW w -> PW (upd_pods w (remove_pod m (api_pods w)) sched [PDel m] fl).
Proof.
  intros HW n. simpl. rewrite has_pod_remove, present_app. simpl. intros Hn. apply andb_prop in Hn as [Hne Hn].
  apply negb_true_iff in Hne. rewrite Hne. apply (HW n Hn).
Qed.

Lemma kubelet_pw w n k : PW w -> PW (kubelet w n k).
Proof.
  intros HW. unfold kubelet. destruct (find_pod n (api_pods w)) as [p|] eqn:Ef; [|exact HW].
  destruct k; try (apply pw_add_set; exact HW); try (apply pw_remove; exact HW).
  - destruct (mem_str n (pod_scheduled w)); [exact HW|apply pw_add_set; exact HW].
  - destruct (p_deletion p); [apply pw_remove; exact HW|exact HW].
Qed.

Theorem jstep_pw cfg w o : PW w -> PW (fst (fst (fst (jstep cfg w o)))).
Proof.
  intros HW. destruct o as [t|n k|h r| |t| |n|n|f|]; simpl.
  - eapply pw_same_pf; [|exact HW]. reflexivity.
  - now apply kubelet_pw.
  - destruct (has_pod _ _) eqn:Eh; simpl; [exact HW|].
    intros n. cbn [upd_pods api_pods pod_pending cache_pods]. rewrite has_pod_app, present_app, has_pod_single.
    cbn [fold_left ev_present p_name]. intros Hn.
    destruct (String.eqb (job_task_name h r) n); auto. rewrite orb_false_r in Hn. apply (HW n Hn).
  - destruct (api_job w) as [a|]; simpl; [|exact HW]. destruct (j_start a); simpl; [exact HW|].
    eapply pw_same_pf; [|exact HW]. reflexivity.
  - destruct (api_job w) as [a|]; simpl; [|exact HW]. eapply pw_same_pf; [|exact HW]. reflexivity.
  - destruct (api_delete_job w) as [w' out] eqn:E. simpl. apply api_delete_job_pf in E. eapply pw_same_pf; eauto.
  - destruct (apply_job_events n (job_pending w) (cache_job w, cache_rv w)) as [rest [cj crv]]. simpl.
    eapply pw_same_pf; [|exact HW]. reflexivity.
  - destruct (apply_pod_events n (pod_pending w) (cache_pods w)) as [rest cache] eqn:E. simpl.
    intros m. simpl. intros Hm. rewrite (apply_pod_events_present m _ _ _ _ _ E). apply (HW m Hm).
  - eapply pw_same_pf; [|exact HW]. reflexivity.
  - destruct (sync_one cfg w) as [[[w' acts] ok] armed] eqn:E. simpl. eapply sync_one_pw; eauto.
Qed.

Lemma pw_init j now : PW (init_jworld j now).
Proof. intros n. simpl. discriminate. Qed.

Theorem jrun_pw cfg ops : forall w, PW w -> PW (jrun_world cfg w ops).
Proof. induction ops as [|o r IH]; intros w HW; simpl; auto. apply IH. now apply jstep_pw. Qed.

(** Pod cache coverage: with nothing on its way, the cache has every Pod of the API *)
Theorem cache_covers_api cfg j0 now ops :
  let w := jrun_world cfg (init_jworld j0 now) ops in
  pod_pending w = [] -> forall n, find_pod n (cache_pods w) = None -> find_pod n (api_pods w) = None.
Proof.
  intros w Hp n Hc. pose proof (jrun_pw cfg ops _ (pw_init j0 now)) as HW. fold w in HW.
  apply find_has. destruct (has_pod n (api_pods w)) eqn:E; auto.
  specialize (HW n E). rewrite Hp in HW. unfold present in HW. simpl in HW. apply find_has in Hc. congruence.
Qed.

(** * when the Job object leaves the API *)
Lemma handle_finalizer_removed_w s j now s' j' ok :
  handle_finalizer s j now = (s', j', ok) -> j_finalizer j = true -> j_finalizer j' = false ->
  ps_w s' = ps_w s /\ ps_del_events s' = ps_del_events s.
Proof.
  unfold handle_finalizer. destruct (j_deletion j) as [d|]; [|intros [= <- <- _] H1 H2; congruence].
  intros H Hf. rewrite Hf in H. simpl negb in H. cbv iota in H. cbv zeta in H.
  remember (flat_map (fun r : taskref => match find_pod (tr_name r) (cache_pods (ps_w s)) with
                                         | Some p => [p] | None => [] end) (j_tasks j)) as tasks eqn:Et.
  destruct tasks as [|x r].
  - destruct (sync_status_refs now s j []) as [s1 j1] eqn:E. injection H as <- _ _. intros _.
    now apply sync_status_ps in E.
  - intros Hc. exfalso.
    pose proof (fin_sync_status_refs now s
                  (mark_deleted (map p_name (x :: r)) (killed_status ReJobDeleted) false false j) (x :: r)) as Hk.
    destruct (sync_status_refs now s _ (x :: r)) as [s1 j2]. simpl snd in Hk.
    destruct (delete_tasks s1 (x :: r) false now) as [s2 ok2]. injection H as _ <- _.
    rewrite Hk, fin_mark_deleted in Hc. congruence.
Qed.

Lemma sync_deleting cfg s j now s1 newj ok d :
  sync cfg s j now = (s1, newj, ok) -> j_deletion j = Some d -> j_finalizer j = true -> j_finalizer newj = false ->
  ps_w s1 = ps_w s /\ ps_del_events s1 = ps_del_events s /\
  forall r, In r (j_tasks j) -> find_pod (tr_name r) (cache_pods (ps_w s)) = None.
Proof.
  unfold sync. intros H Hd Hf Hn.
  assert (E1 : match j_start j, j_deletion j with Some _, None => sync_job_tasks cfg s j now | _, _ => (s, j, true) end = (s, j, true))
    by (rewrite Hd; destruct (j_start j); reflexivity).
  rewrite E1 in H. simpl negb in H. cbv iota in H.
  destruct (sync_status now s j) as [s2 j2] eqn:E2.
  assert (Ej2 : j2 = update_status_from_refs now j) by (unfold sync_status in E2; now injection E2 as _ <-).
  apply sync_status_ps in E2 as [W2 D2].
  assert (Hd2 : j_deletion j2 = Some d) by (rewrite Ej2; exact Hd).
  assert (Hf2 : j_finalizer j2 = true) by (rewrite Ej2, fin_update_status; exact Hf).
  assert (Ettl : handle_ttl cfg s2 j2 now = (s2, true)) by (unfold handle_ttl; now rewrite Hd2).
  rewrite Ettl in H. simpl negb in H. cbv iota in H.
  destruct (handle_finalizer s2 j2 now) as [[s4 j4] ok4] eqn:E4.
  destruct ok4; simpl negb in H; cbv iota in H; injection H as <- <- _; [|congruence].
  destruct (handle_finalizer_removed_w _ _ _ _ _ _ E4 Hf2 Hn) as [W4 D4].
  destruct (finalizer_order _ _ _ _ _ _ E4 Hf2 Hn) as [_ Hc].
  split; [congruence|]. split; [congruence|].
  intros r Hr. rewrite <- W2. apply Hc. rewrite Ej2, update_status_tasks. exact Hr.
Qed.

(** the reconcile function never makes a finalizer-protected Job vanish by itself *)
Lemma sync_api_some cfg s j now s1 newj ok a :
  sync cfg s j now = (s1, newj, ok) -> api_job (ps_w s) = Some a -> j_finalizer a = true ->
  api_job (ps_w s1) <> None.
Proof.
  unfold sync. intros H Ha Hf.
  destruct (match j_start j, j_deletion j with Some _, None => sync_job_tasks cfg s j now | _, _ => (s, j, true) end)
    as [[s1' j1] ok1] eqn:E1.
  assert (F1 : jf (ps_w s1') = jf (ps_w s)).
  { destruct (j_start j); [destruct (j_deletion j)|]; try (injection E1 as <- _ _; reflexivity).
    now apply sync_job_tasks_jf in E1. }
  assert (A1 : api_job (ps_w s1') = Some a) by (unfold jf in F1; injection F1 as F1 _ _ _ _; congruence).
  destruct (negb ok1); [injection H as <- _ _; congruence|].
  destruct (sync_status now s1' j1) as [s2 j2] eqn:E2. apply sync_status_w in E2.
  destruct (handle_ttl cfg s2 j2 now) as [s3 ok3] eqn:E3.
  assert (A3 : api_job (ps_w s3) <> None).
  { unfold handle_ttl in E3. destruct (j_deletion j2); [injection E3 as <- _; congruence|].
    destruct (j_cond j2); try (injection E3 as <- _; congruence).
    destruct (now <? _); [injection E3 as <- _; congruence|].
    destruct (take_fault FDeleteJob _); [injection E3 as <- _; simpl; congruence|].
    unfold api_delete_job in E3. rewrite E2, A1, Hf in E3.
    destruct (j_deletion a); injection E3 as <- _; simpl; congruence. }
  destruct (negb ok3); [injection H as <- _ _; exact A3|].
  destruct (handle_finalizer s3 j2 now) as [[s4 j4] ok4] eqn:E4. apply handle_finalizer_jf in E4.
  assert (A4 : api_job (ps_w s4) <> None) by (unfold jf in E4; injection E4 as E4 _ _ _ _; congruence).
  destruct (negb ok4); injection H as <- _ _; assumption.
Qed.

Lemma end_pass_api s : api_job (end_pass s) = api_job (ps_w s) /\ api_pods (end_pass s) = api_pods (ps_w s) /\
                       cache_pods (end_pass s) = cache_pods (ps_w s).
Proof.
  unfold end_pass. destruct (existsb _ _); [|simpl; auto].
  destruct (take_fault FDeletePod _); simpl; auto.
Qed.

Lemma api_update_status_some w newj rv w' out : api_update_status w newj rv = (w', out) -> api_job w <> None -> api_job w' <> None.
Proof.
  unfold api_update_status. destruct (api_job w) as [a|] eqn:Ea; [|congruence].
  destruct (negb (rv =? api_rv w)); intros [= <- _] _; simpl; congruence.
Qed.

Lemma api_update_job_none w newj rv w' out a :
  api_update_job w newj rv = (w', out) -> api_job w = Some a -> api_job w' = None ->
  rv = api_rv w /\ j_deletion a <> None /\ j_finalizer newj = false /\ out = 0 /\
  w' = upd_job w None (api_rv w + 1) (faults w).
Proof.
  unfold api_update_job. intros H Ha. rewrite Ha in H.
  destruct (negb (rv =? api_rv w)) eqn:Erv; [injection H as <- _; congruence|].
  apply negb_false_iff, Z.eqb_eq in Erv.
  destruct (j_deletion a); [destruct (j_finalizer newj)|]; injection H as <- <-; simpl; try congruence.
  intros _. repeat split; auto. discriminate.
Qed.

Theorem sync_one_removal cfg w w' acts ok armed a :
  JV w -> sync_one cfg w = (w', acts, ok, armed) ->
  api_job w = Some a -> j_finalizer a = true -> api_job w' = None ->
  j_deletion a <> None /\ api_pods w' = api_pods w /\
  forall r, In r (j_tasks a) -> find_pod (tr_name r) (cache_pods w) = None.
Proof.
  intros HV H Ha Hf Hnone. unfold sync_one in H.
  destruct (cache_job w) as [j|] eqn:Ec; [|injection H as <- _ _ _; congruence].
  destruct (sync cfg (mkPS w [] false []) j (clock w)) as [[s1 newj] ok1] eqn:Es.
  pose proof (sync_evol _ _ _ _ _ _ _ Es) as V1. simpl in V1.
  pose proof (sync_api_some _ _ _ _ _ _ _ _ Es Ha Hf) as A1.
  destruct (evol_facts _ _ V1) as (R1 & R2 & _ & _ & _).
  destruct (jv_cache w HV) as [C1 C2].
  (* UpdateJob *)
  set (upd := if meta_eqb j newj then (s1, true) else _) in H.
  assert (U : api_job (ps_w (fst upd)) <> None \/
              (cache_rv w = api_rv w /\ jf (ps_w s1) = jf w /\ j_deletion a <> None /\ j_finalizer newj = false /\
               api_pods (ps_w (fst upd)) = api_pods (ps_w s1) /\ api_job (ps_w (fst upd)) = None)).
  { unfold upd. destruct (meta_eqb j newj); [left; exact A1|].
    destruct (take_fault FUpdateJob _); [left; simpl; exact A1|].
    destruct (api_update_job (ps_w s1) newj (cache_rv w)) as [wu out] eqn:Eu. simpl.
    destruct (api_job wu) eqn:Eaw; [left; congruence|]. right.
    destruct (api_job (ps_w s1)) as [a1|] eqn:Ea1; [|congruence].
    destruct (api_update_job_none _ _ _ _ _ _ Eu Ea1 Eaw) as (X1 & X2 & X3 & X4 & X5).
    assert (Erv : api_rv (ps_w s1) = api_rv w) by lia.
    specialize (R2 Erv). assert (Ea' : a1 = a).
    { unfold jf in R2. injection R2 as R2 _ _ _ _. congruence. }
    subst a1. repeat split; auto; try lia. rewrite X5. reflexivity. }
  destruct upd as [s2 ok2]. simpl in U.
  assert (Tail : api_job (ps_w s2) <> None -> False).
  { intros A2. destruct (negb ok2).
    - injection H as <- _ _ _. destruct (end_pass_api s2) as [E _]. congruence.
    - set (st := if status_eqb j newj then (s2, true) else _) in H.
      assert (A3 : api_job (ps_w (fst st)) <> None).
      { unfold st. destruct (status_eqb j newj); [exact A2|].
        destruct (take_fault FUpdateStatus _); [simpl; exact A2|].
        destruct (api_update_status (ps_w s2) newj (cache_rv w)) as [wu out] eqn:Eu. simpl.
        eapply api_update_status_some; eauto. }
      destruct st as [s3 ok3]. simpl in A3. injection H as <- _ _ _.
      destruct (end_pass_api s3) as [E _]. congruence. }
  destruct U as [A2|(Erv & F1 & Hd & Hfn & Hp & Hnn)]; [exfalso; auto|].
  (* the cached Job is the API's *)
  assert (Ej : j = a) by (specialize (C2 Erv); congruence). subst j.
  destruct (j_deletion a) as [d|] eqn:Ed; [|congruence].
  destruct (sync_deleting _ _ _ _ _ _ _ _ Es Ed Hf Hfn) as (W1 & D1 & Hc). simpl in W1, Hc.
  split; [discriminate|]. split; [|exact Hc].
  (* the rest of the pass does not touch the Pods *)
  assert (P2 : api_pods (ps_w s2) = api_pods w) by (rewrite Hp, W1; reflexivity).
  destruct (negb ok2).
  - injection H as <- _ _ _. destruct (end_pass_api s2) as (_ & E & _). congruence.
  - set (st := if status_eqb a newj then (s2, true) else _) in H.
    assert (P3 : api_pods (ps_w (fst st)) = api_pods w).
    { unfold st. destruct (status_eqb a newj); [exact P2|].
      destruct (take_fault FUpdateStatus _); [simpl; exact P2|].
      destruct (api_update_status (ps_w s2) newj (cache_rv w)) as [wu out] eqn:Eu. simpl.
      apply api_update_status_pf in Eu. unfold pf in Eu. injection Eu as Eu _ _. congruence. }
    destruct st as [s3 ok3]. simpl in P3. injection H as <- _ _ _.
    destruct (end_pass_api s3) as (_ & E & _). congruence.
Qed.

(** the other ops: only the API's own deletion of a Job without finalizer removes it *)
Lemma jstep_removal_is_sync cfg w o a :
  api_job w = Some a -> j_finalizer a = true -> api_job (fst (fst (fst (jstep cfg w o)))) = None -> o = JSync.
Proof.
  intros Ha Hf. destruct o as [t|n k|h r| |t| |n|n|f|]; simpl; auto; intros H; exfalso.
  - congruence.
  - pose proof (kubelet_jf w n k) as E. unfold jf in E. injection E as E _ _ _ _. congruence.
  - destruct (has_pod _ _); simpl in H; congruence.
  - rewrite Ha in H. destruct (j_start a); simpl in H; congruence.
  - rewrite Ha in H. simpl in H. congruence.
  - unfold api_delete_job in H. rewrite Ha, Hf in H. destruct (j_deletion a); simpl in H; congruence.
  - destruct (apply_job_events n (job_pending w) (cache_job w, cache_rv w)) as [rest [cj crv]]. simpl in H. congruence.
  - destruct (apply_pod_events n (pod_pending w) (cache_pods w)) as [rest cache]. simpl in H. congruence.
  - congruence.
Qed.

(** C13 over histories *)
Theorem job_removed_after_tasks cfg j0 now ops o a :
  let w := jrun_world cfg (init_jworld j0 now) ops in
  let w' := fst (fst (fst (jstep cfg w o))) in
  api_job w = Some a -> j_finalizer a = true -> api_job w' = None ->
  o = JSync /\ j_deletion a <> None /\ api_pods w' = api_pods w /\
  (forall r, In r (j_tasks a) -> find_pod (tr_name r) (cache_pods w) = None) /\
  (pod_pending w = [] -> forall r, In r (j_tasks a) -> find_pod (tr_name r) (api_pods w') = None).
Proof.
  intros w w' Ha Hf Hn.
  pose proof (jstep_removal_is_sync cfg w o a Ha Hf Hn) as ->.
  destruct (jrun_keeps cfg ops _ (jv_init j0 now)) as [HV _]. fold w in HV.
  unfold w' in *. simpl in *. destruct (sync_one cfg w) as [[[wx acts] ok] armed] eqn:E. simpl in *.
  destruct (sync_one_removal _ _ _ _ _ _ _ HV E Ha Hf Hn) as (D & P & C).
  repeat split; auto.
  intros Hp r Hr. rewrite P. apply (cache_covers_api cfg j0 now ops Hp). now apply C.
Qed.

(** ... and once they are gone, the deletion does complete: a pass over current caches, with
    nothing failing, removes the finalizer and with it the Job *)
Lemma sync_deleting_done cfg w j d now :
  j_deletion j = Some d -> j_finalizer j = true ->
  (forall r, In r (j_tasks j) -> find_pod (tr_name r) (cache_pods w) = None) ->
  exists s1 jn, sync cfg (mkPS w [] false []) j now = (s1, jn, true) /\ ps_w s1 = w /\ j_finalizer jn = false.
Proof.
  intros Hd Hf Hc. unfold sync. rewrite Hd.
  replace (match j_start j with Some _ | _ => (mkPS w [] false [], j, true) end)
    with (mkPS w [] false [], j, true) by (destruct (j_start j); reflexivity).
  simpl negb. cbv iota.
  destruct (sync_status now (mkPS w [] false []) j) as [s2 j2] eqn:E2.
  assert (Ej2 : j2 = update_status_from_refs now j) by (unfold sync_status in E2; now injection E2 as _ <-).
  assert (W2 : ps_w s2 = w) by (apply sync_status_ps in E2 as [W2 _]; exact W2).
  assert (Hd2 : j_deletion j2 = Some d) by (rewrite Ej2; exact Hd).
  assert (Hf2 : j_finalizer j2 = true) by (rewrite Ej2, fin_update_status; exact Hf).
  assert (Ettl : handle_ttl cfg s2 j2 now = (s2, true)) by (unfold handle_ttl; now rewrite Hd2).
  rewrite Ettl. simpl negb. cbv iota.
  unfold handle_finalizer. rewrite Hd2, Hf2. simpl negb. cbv iota. cbv zeta.
  assert (Et : flat_map (fun r : taskref => match find_pod (tr_name r) (cache_pods (ps_w s2)) with
                                            | Some p => [p] | None => [] end) (j_tasks j2) = []).
  { rewrite W2, Ej2, update_status_tasks. clear -Hc. induction (j_tasks j) as [|r t IH]; simpl; auto.
    rewrite (Hc r (or_introl eq_refl)). simpl. apply IH. intros x Hx. apply Hc. now right. }
  rewrite Et.
  destruct (sync_status_refs now s2 j2 []) as [s3 j3] eqn:E3. simpl negb. cbv iota.
  exists s3, (set_finalizer j3 false). split; [reflexivity|]. split; [|reflexivity].
  apply sync_status_ps in E3 as [W3 _]. congruence.
Qed.

Theorem deletion_completes cfg w j d :
  cache_job w = Some j -> api_job w = Some j -> cache_rv w = api_rv w ->
  j_deletion j = Some d -> j_finalizer j = true -> faults w = [] ->
  (forall r, In r (j_tasks j) -> find_pod (tr_name r) (cache_pods w) = None) ->
  api_job (fst (fst (fst (sync_one cfg w)))) = None.
Proof.
  intros Ec Ea Erv Hd Hf Hfl Hc. unfold sync_one. rewrite Ec.
  destruct (sync_deleting_done cfg w j d (clock w) Hd Hf Hc) as (s1 & jn & Es & W1 & Hfn).
  rewrite Es.
  assert (Em : meta_eqb j jn = false) by (unfold meta_eqb; rewrite Hf, Hfn; apply andb_false_r).
  rewrite Em, W1, Hfl. simpl take_fault. cbv iota.
  unfold api_update_job. rewrite Ea, Erv, Z.eqb_refl. simpl negb. cbv iota. rewrite Hd, Hfn. cbv iota.
  change (0 =? 0) with true. simpl negb. cbv iota.
  destruct (status_eqb j jn).
  - cbn [fst]. match goal with |- api_job (end_pass ?s) = None => rewrite (proj1 (end_pass_api s)) end. reflexivity.
  - cbn [ps_w add_action with_world upd_job faults]. rewrite Hfl. cbn [take_fault].
    unfold api_update_status. cbn [api_job upd_job]. cbv beta iota zeta. cbn [fst].
    match goal with |- api_job (end_pass ?s) = None => rewrite (proj1 (end_pass_api s)) end. reflexivity.
Qed.

(** * C20 for the deletion path: failed finalizer writes only delay the removal *)
Lemma sync_status_acts now s j s' j' : sync_status now s j = (s', j') -> ps_actions s' = ps_actions s.
Proof. unfold sync_status. intros [= <- _]. destruct (ttl_arms _); reflexivity. Qed.

Lemma sync_deleting_done_full cfg w j d now :
  j_deletion j = Some d -> j_finalizer j = true ->
  (forall r, In r (j_tasks j) -> find_pod (tr_name r) (cache_pods w) = None) ->
  exists s1 jn, sync cfg (mkPS w [] false []) j now = (s1, jn, true) /\ ps_w s1 = w /\ j_finalizer jn = false /\
                ps_actions s1 = [] /\ ps_del_events s1 = [].
Proof.
  intros Hd Hf Hc. unfold sync. rewrite Hd.
  replace (match j_start j with Some _ | _ => (mkPS w [] false [], j, true) end)
    with (mkPS w [] false [], j, true) by (destruct (j_start j); reflexivity).
  simpl negb. cbv iota.
  destruct (sync_status now (mkPS w [] false []) j) as [s2 j2] eqn:E2.
  assert (Ej2 : j2 = update_status_from_refs now j) by (unfold sync_status in E2; now injection E2 as _ <-).
  pose proof (sync_status_acts _ _ _ _ _ E2) as A2.
  apply sync_status_ps in E2 as [W2 D2]. simpl in W2, D2, A2.
  assert (Hd2 : j_deletion j2 = Some d) by (rewrite Ej2; exact Hd).
  assert (Hf2 : j_finalizer j2 = true) by (rewrite Ej2, fin_update_status; exact Hf).
  assert (Ettl : handle_ttl cfg s2 j2 now = (s2, true)) by (unfold handle_ttl; now rewrite Hd2).
  rewrite Ettl. simpl negb. cbv iota.
  unfold handle_finalizer. rewrite Hd2, Hf2. simpl negb. cbv iota. cbv zeta.
  assert (Et : flat_map (fun r : taskref => match find_pod (tr_name r) (cache_pods (ps_w s2)) with
                                            | Some p => [p] | None => [] end) (j_tasks j2) = []).
  { rewrite W2, Ej2, update_status_tasks. clear -Hc. induction (j_tasks j) as [|r t IH]; simpl; auto.
    rewrite (Hc r (or_introl eq_refl)). simpl. apply IH. intros x Hx. apply Hc. now right. }
  rewrite Et.
  destruct (sync_status_refs now s2 j2 []) as [s3 j3] eqn:E3. simpl negb. cbv iota.
  exists s3, (set_finalizer j3 false). split; [reflexivity|].
  pose proof (sync_status_acts _ _ _ _ _ E3) as A3.
  apply sync_status_ps in E3 as [W3 D3]. repeat split; congruence.
Qed.

Definition pass (cfg : jcfg) (w : jworld) : jworld := fst (fst (fst (sync_one cfg w))).

Lemma set_faults_eta w : set_faults w (faults w) = w.
Proof. destruct w; reflexivity. Qed.

(** a pass whose finalizer write fails changes nothing but the list of failures to come *)
Lemma failed_finalizer_write cfg w j d fl :
  cache_job w = Some j -> j_deletion j = Some d -> j_finalizer j = true ->
  (forall r, In r (j_tasks j) -> find_pod (tr_name r) (cache_pods w) = None) ->
  take_fault FUpdateJob (faults w) = Some fl ->
  pass cfg w = set_faults w fl.
Proof.
  intros Ec Hd Hf Hc Ht. unfold pass, sync_one. rewrite Ec.
  destruct (sync_deleting_done_full cfg w j d (clock w) Hd Hf Hc) as (s1 & jn & Es & W1 & Hfn & A1 & D1).
  rewrite Es.
  assert (Em : meta_eqb j jn = false) by (unfold meta_eqb; rewrite Hf, Hfn; apply andb_false_r).
  rewrite Em, W1, Ht. simpl negb. cbv iota. cbn [fst].
  unfold end_pass. cbn [ps_w add_action with_world ps_actions ps_del_events]. rewrite A1, D1.
  cbn [existsb sort_evs fold_right]. unfold upd_pods, set_faults. simpl. rewrite app_nil_r. reflexivity.
Qed.

Fixpoint iter_pass (cfg : jcfg) (n : nat) (w : jworld) : jworld :=
  match n with O => w | S k => iter_pass cfg k (pass cfg w) end.

Theorem deletion_retry_converges cfg n : forall w j d,
  cache_job w = Some j -> api_job w = Some j -> cache_rv w = api_rv w ->
  j_deletion j = Some d -> j_finalizer j = true -> faults w = repeat FUpdateJob n ->
  (forall r, In r (j_tasks j) -> find_pod (tr_name r) (cache_pods w) = None) ->
  iter_pass cfg n w = set_faults w [] /\ api_job (iter_pass cfg (S n) w) = None.
Proof.
  induction n as [|n IH]; intros w j d Ec Ea Erv Hd Hf Hfl Hc.
  - simpl in Hfl. split; [simpl; now rewrite <- Hfl, set_faults_eta|].
    simpl. apply (deletion_completes cfg w j d); auto.
  - simpl in Hfl.
    assert (Ht : take_fault FUpdateJob (faults w) = Some (repeat FUpdateJob n)) by (rewrite Hfl; reflexivity).
    pose proof (failed_finalizer_write cfg w j d _ Ec Hd Hf Hc Ht) as Ep.
    change (iter_pass cfg (S n) w) with (iter_pass cfg n (pass cfg w)).
    change (iter_pass cfg (S (S n)) w) with (iter_pass cfg (S n) (pass cfg w)).
    rewrite Ep. destruct (IH (set_faults w (repeat FUpdateJob n)) j d) as [I1 I2]; auto.
Qed.
