(** Per-pass guard theorems of the job controller model (C08, C09, C12, C13): whatever
    the cached Job, the Pod cache, the API state, the clock and the armed faults are, a
    pass creates / deletes only under its guards.  Every action of a history belongs to a
    pass, so these lift to all histories. *)
From Furiko Require Import Job.Core Job.Sync Proofs.JobP.
From Coq Require Import Lia.
Open Scope list_scope.

(** the actions a step added *)
Definition added (s s' : pstate) (l : list action) : Prop := ps_actions s' = l ++ ps_actions s.

Lemma added_refl s : added s s [].
Proof. reflexivity. Qed.
Lemma added_trans s1 s2 s3 l1 l2 : added s1 s2 l1 -> added s2 s3 l2 -> added s1 s3 (l2 ++ l1).
Proof. unfold added. intros H1 H2. rewrite H2, H1. now rewrite app_assoc. Qed.

(** * deleteTasks only deletes what it was given *)
Lemma delete_tasks_ordered_added tasks : forall s force now s' ok,
  delete_tasks_ordered s tasks force now = (s', ok) ->
  exists l, added s s' l /\
    forall a, In a l -> exists n o, a = ADelete n force o /\ In n (map p_name tasks).
Proof.
  induction tasks as [|p r IH]; intros s force now s' ok; simpl.
  - intros [= <- _]. exists []. split; [apply added_refl|intros a []].
  - destruct (negb force && match p_deletion p with Some t => t <? now | None => false end).
    + intros H. destruct (IH _ _ _ _ _ H) as (l & Ha & Hl). exists l. split; auto.
      intros a Hin. destruct (Hl a Hin) as (n & o & -> & Hn). eauto.
    + destruct (take_fault FDeletePod (faults (ps_w s))) as [fl|].
      * destruct (delete_tasks_ordered (add_action s (ADelete (p_name p) force 3)) r force now) as [s2 ok2] eqn:E.
        intros [= <- _]. destruct (IH _ _ _ _ _ E) as (l & Ha & Hl).
        exists (l ++ [ADelete (p_name p) force 3]). split.
        -- unfold added in *. rewrite Ha. simpl. now rewrite <- app_assoc.
        -- intros a Hin. apply in_app_iff in Hin as [Hin|[<-|[]]].
           ++ destruct (Hl a Hin) as (n & o & -> & Hn). eauto.
           ++ exists (p_name p), 3. auto.
      * destruct (api_delete_pod (ps_w s) (p_name p) force) as [[w' out] evs].
        intros H. destruct (IH _ _ _ _ _ H) as (l & Ha & Hl).
        exists (l ++ [ADelete (p_name p) force out]). split.
        -- unfold added in *. rewrite Ha. simpl. now rewrite <- app_assoc.
        -- intros a Hin. apply in_app_iff in Hin as [Hin|[<-|[]]].
           ++ destruct (Hl a Hin) as (n & o & -> & Hn). eauto.
           ++ exists (p_name p), out. auto.
Qed.

Lemma insert_pod_in p l x : In x (insert_pod p l) <-> x = p \/ In x l.
Proof.
  induction l as [|y t IH]; simpl; [intuition|].
  destruct (String.ltb (p_name y) (p_name p)); simpl; [rewrite IH|]; intuition.
Qed.
Lemma sort_pods_in l x : In x (sort_pods l) <-> In x l.
Proof. unfold sort_pods. induction l as [|y t IH]; simpl; [tauto|]. rewrite insert_pod_in, IH. intuition. Qed.

Lemma delete_tasks_added tasks s force now s' ok :
  delete_tasks s tasks force now = (s', ok) ->
  exists l, added s s' l /\
    forall a, In a l -> exists n o, a = ADelete n force o /\ exists p, In p tasks /\ p_name p = n.
Proof.
  unfold delete_tasks. intros H. destruct (delete_tasks_ordered_added _ _ _ _ _ _ H) as (l & Ha & Hl).
  exists l. split; auto. intros a Hin. destruct (Hl a Hin) as (n & o & -> & Hn).
  exists n, o. split; auto. apply in_map_iff in Hn as (p & <- & Hp). exists p. split; auto.
  now apply sort_pods_in.
Qed.

(** the common shape of the three sweeps *)
Lemma sweep_shape (s0 : pstate) (need : list pod) (j jm : job) force now s' j' ok :
  match need with
  | [] => (s0, j, true)
  | _ :: _ => let '(s1, ok1) := delete_tasks s0 need force now in (s1, jm, ok1)
  end = (s', j', ok) ->
  exists l, added s0 s' l /\ (l <> [] -> need <> []) /\
    forall a, In a l -> exists n o p, a = ADelete n force o /\ In p need /\ p_name p = n.
Proof.
  destruct need as [|x r].
  - intros [= <- _ _]. exists []. split; [apply added_refl|]. split; [congruence|intros a []].
  - destruct (delete_tasks s0 (x :: r) force now) as [s1 ok1] eqn:Ed. intros [= <- _ _].
    destruct (delete_tasks_added _ _ _ _ _ _ Ed) as (l & Ha & Hl). exists l.
    split; [exact Ha|]. split; [discriminate|].
    intros a Hin. destruct (Hl a Hin) as (n & o & -> & p & Hp & Hn). exists n, o, p. auto.
Qed.

(** * C12: the kill sweep *)
Theorem handle_kill_guard s j tasks now s' j' ok :
  handle_kill s j tasks now = (s', j', ok) ->
  exists l, added s s' l /\
    (l <> [] -> should_kill now j = true) /\
    forall a, In a l -> exists n o p, a = ADelete n false o /\ In p tasks /\ p_name p = n /\
                                  pod_finish_ts p = None /\ p_deletion p = None.
Proof.
  unfold handle_kill. destruct (should_kill now j) eqn:Ek; simpl negb; cbv iota.
  2:{ intros [= <- _ _]. exists []. split; [apply added_refl|]. split; [congruence|intros a []]. }
  cbv zeta. intros H. apply sweep_shape in H as (l & Ha & _ & Hl).
  exists l. split; [exact Ha|]. split; [reflexivity|].
  intros a Hin. destruct (Hl a Hin) as (n & o & p & -> & Hp & Hn).
  apply filter_In in Hp as [Hp Hc].
  exists n, o, p. repeat split; auto;
    destruct (pod_finish_ts p), (p_deletion p); try discriminate; reflexivity.
Qed.

(** no Pod is deleted on account of a kill timestamp that has not passed (and no decided
    strategy): the sweep does nothing *)
Corollary kill_not_early s j tasks now :
  should_kill now j = false -> handle_kill s j tasks now = (s, j, true).
Proof. unfold handle_kill. now intros ->. Qed.

Lemma should_kill_cases now j :
  should_kill now j = true ->
  (exists k, j_kill j = Some k /\ k <= now) \/ should_kill_parallel j = true.
Proof.
  unfold should_kill. intros H. apply orb_prop in H as [H|H]; auto.
  left. destruct (j_kill j) as [k|]; [|discriminate]. exists k. split; auto. now apply Z.leb_le.
Qed.

Lemma arm_if_actions {A} (l : list A) s : ps_actions (match l with [] => s | _ :: _ => arm s end) = ps_actions s.
Proof. destruct l; reflexivity. Qed.

(** * C12: the pending reaper *)
Theorem handle_pending_guard cfg s j tasks now s' j' ok :
  handle_pending cfg s j tasks now = (s', j', ok) ->
  exists l, added s s' l /\
    forall a, In a l -> exists n o p, a = ADelete n false o /\ In p tasks /\ p_name p = n /\
      0 < pending_timeout cfg j /\ p_created p + pending_timeout cfg j <= now /\
      p_cont_start p = None /\ pod_finish_ts p = None /\ p_deletion p = None.
Proof.
  unfold handle_pending. destruct (pending_timeout cfg j <=? 0) eqn:Ept.
  { intros [= <- _ _]. exists []. split; [apply added_refl|intros a []]. }
  apply Z.leb_gt in Ept. cbv zeta. intros H. apply sweep_shape in H as (l & Ha & _ & Hl).
  exists l. split.
  { unfold added in *. now rewrite Ha, arm_if_actions. }
  intros a Hin. destruct (Hl a Hin) as (n & o & p & -> & Hp & Hn).
  apply filter_In in Hp as [Hp Hc]. apply filter_In in Hp as [Hp Hc2].
  apply andb_prop in Hc as [Hc1 Hc3]. apply negb_true_iff, Z.ltb_ge in Hc1.
  exists n, o, p. repeat split; auto; try lia;
    destruct (pod_finish_ts p), (p_cont_start p), (p_deletion p); try discriminate; reflexivity.
Qed.

(** pending timeout 0 (job value, or unset with default 0 / unset) disables the reaper *)
Corollary pending_disabled cfg s j tasks now :
  pending_timeout cfg j <= 0 -> handle_pending cfg s j tasks now = (s, j, true).
Proof. unfold handle_pending. intros H. now replace (pending_timeout cfg j <=? 0) with true by (symmetry; now apply Z.leb_le). Qed.

(** * C12: force deletion *)
Theorem handle_force_guard cfg s j tasks now s' j' ok :
  handle_force cfg s j tasks now = (s', j', ok) ->
  exists l, added s s' l /\
    forall a, In a l -> exists n o p d, a = ADelete n true o /\ In p tasks /\ p_name p = n /\
      0 < force_timeout cfg /\ j_forbid_force j = false /\
      p_deletion p = Some d /\ d + force_timeout cfg <= now.
Proof.
  unfold handle_force. destruct (force_timeout cfg <=? 0) eqn:Efd.
  { intros [= <- _ _]. exists []. split; [apply added_refl|intros a []]. }
  apply Z.leb_gt in Efd.
  destruct (j_forbid_force j) eqn:Eforbid.
  { intros [= <- _ _]. exists []. split; [apply added_refl|intros a []]. }
  cbv zeta. intros H. apply sweep_shape in H as (l & Ha & _ & Hl).
  exists l. split.
  { unfold added in *. now rewrite Ha, arm_if_actions. }
  intros a Hin. destruct (Hl a Hin) as (n & o & p & -> & Hp & Hn).
  apply filter_In in Hp as [Hp Hc]. apply filter_In in Hp as [Hp _].
  destruct (p_deletion p) as [d|] eqn:Edel; [|discriminate].
  apply negb_true_iff, Z.ltb_ge in Hc.
  exists n, o, p, d. repeat split; auto; lia.
Qed.

(** * C13: TTL deletion *)
Theorem handle_ttl_guard cfg s j now s' ok :
  handle_ttl cfg s j now = (s', ok) ->
  exists l, added s s' l /\
    forall a, In a l -> exists o r f lc lr, a = ADeleteJob o /\
      j_deletion j = None /\ j_cond j = CFinished r f lc lr /\
      (match f with Some t => t | None => -62135596800 end) + ttl_after_finished cfg j <= now.
Proof.
  unfold handle_ttl. destruct (j_deletion j) eqn:Ed.
  { intros [= <- _]. exists []. split; [apply added_refl|intros a []]. }
  destruct (j_cond j) as [q|w|t lc lr|r f lc lr] eqn:Ec;
    try (intros [= <- _]; exists []; split; [apply added_refl|intros a []]).
  destruct (now <? _) eqn:En.
  { intros [= <- _]. exists []. split; [apply added_refl|intros a []]. }
  apply Z.ltb_ge in En.
  destruct (take_fault FDeleteJob (faults (ps_w s))) as [fl|].
  - intros [= <- _]. exists [ADeleteJob 3]. split; [reflexivity|].
    intros a [<-|[]]. exists 3, r, f, lc, lr. auto.
  - destruct (api_delete_job (ps_w s)) as [w' out]. intros [= <- _].
    exists [ADeleteJob out]. split; [reflexivity|].
    intros a [<-|[]]. exists out, r, f, lc, lr. auto.
Qed.

(** * C13: the finalizer is dropped only when no task named in the status is in the cache *)
Lemma fin_update_status now j : j_finalizer (update_status_from_refs now j) = j_finalizer j.
Proof. reflexivity. Qed.
Lemma fin_update_refs now j pods : j_finalizer (update_task_refs now j pods) = j_finalizer j.
Proof. reflexivity. Qed.
Lemma fin_mark_deleted names st o f j : j_finalizer (mark_deleted names st o f j) = j_finalizer j.
Proof. reflexivity. Qed.
Lemma fin_sync_status_refs now s j pods : j_finalizer (snd (sync_status_refs now s j pods)) = j_finalizer j.
Proof. unfold sync_status_refs, sync_status. destruct (ttl_arms _); reflexivity. Qed.

Theorem finalizer_order s j now s' j' ok :
  handle_finalizer s j now = (s', j', ok) ->
  j_finalizer j = true -> j_finalizer j' = false ->
  j_deletion j <> None /\
  forall r, In r (j_tasks j) -> find_pod (tr_name r) (cache_pods (ps_w s)) = None.
Proof.
  unfold handle_finalizer. destruct (j_deletion j) as [d|] eqn:Ed.
  2:{ intros [= _ <- _] H1 H2. congruence. }
  intros H Hf. rewrite Hf in H. simpl negb in H. cbv iota in H. cbv zeta in H.
  remember (flat_map (fun r : taskref => match find_pod (tr_name r) (cache_pods (ps_w s)) with
                                         | Some p => [p] | None => [] end) (j_tasks j)) as tasks eqn:Et.
  destruct tasks as [|x r].
  - intros _. split; [discriminate|].
    intros ref Hin. destruct (find_pod (tr_name ref) (cache_pods (ps_w s))) as [p|] eqn:Ef; auto.
    exfalso. assert (Hp : In p []).
    { rewrite Et. apply in_flat_map. exists ref. split; auto. rewrite Ef. now left. }
    destruct Hp.
  - intros Hc. exfalso.
    pose proof (fin_sync_status_refs now s
                  (mark_deleted (map p_name (x :: r)) (killed_status ReJobDeleted) false false j) (x :: r)) as Hk.
    destruct (sync_status_refs now s _ (x :: r)) as [s1 j2]. simpl snd in Hk.
    destruct (delete_tasks s1 (x :: r) false now) as [s2 ok2]. injection H as _ <- _.
    rewrite Hk, fin_mark_deleted in Hc. congruence.
Qed.

(** * C08 / C09: creation *)
Theorem create_gate s j tasks now :
  can_create_task j = false -> sync_create_tasks s j tasks now = (s, j, tasks, CrOk).
Proof. unfold sync_create_tasks. now intros ->. Qed.

Theorem create_none_when_complete s j tasks now :
  fst (summary (j_indexes j) (j_strategy j) (j_max_attempts j) (generate_task_refs now (j_tasks j) tasks)) = true ->
  sync_create_tasks s j tasks now = (s, j, tasks, CrOk).
Proof.
  unfold sync_create_tasks. destruct (can_create_task j); simpl; auto.
  destruct (summary _ _ _ _) as [c o]. simpl. now intros ->.
Qed.

(** one creation: the name is the request's; an existing object on that name is adopted
    only if this Job controls it, otherwise the Job is marked with an admission error *)
Theorem create_task_spec s j tasks h r s' j' tasks' res :
  sync_create_task s j tasks h r = (s', j', tasks', res) ->
  exists o, added s s' [ACreate (job_task_name h r) o] /\
    (forall p, In p tasks' -> In p tasks \/
       (p_name p = job_task_name h r /\ p_controlled p = true)) /\
    (o = 1 -> forall p, find_pod (job_task_name h r) (cache_pods (ps_w s)) = Some p ->
       p_controlled p = false -> tasks' = tasks /\ j_adm_err j' = true).
Proof.
  unfold sync_create_task.
  destruct (take_fault FCreatePod (faults (ps_w s))) as [fl|].
  { intros [= <- <- <- _]. exists 3. split; [reflexivity|]. split; [auto|intros HH; discriminate HH]. }
  destruct (take_fault FCreatePodInvalid (faults (ps_w s))) as [fl|].
  { intros [= <- <- <- _]. exists 2. split; [reflexivity|]. split; [auto|intros HH; discriminate HH]. }
  destruct (has_pod (job_task_name h r) (api_pods (ps_w s))).
  - destruct (find_pod (job_task_name h r) (cache_pods (ps_w s))) as [p|] eqn:Ef.
    + destruct (p_controlled p) eqn:Ec.
      * intros [= <- <- <- _]. exists 1. split; [reflexivity|]. split.
        -- intros q Hq. apply in_app_iff in Hq as [Hq|[<-|[]]]; auto. right. split; auto.
           clear - Ef. induction (cache_pods (ps_w s)) as [|y t IH]; simpl in Ef; [discriminate|].
           destruct (String.eqb (p_name y) (job_task_name h r)) eqn:E; [injection Ef as <-; now apply String.eqb_eq|auto].
        -- intros _ p0 Hp0 Hc. injection Hp0 as <-. congruence.
      * intros [= <- <- <- _]. exists 1. split; [reflexivity|]. split; [auto|].
        intros _ p0 _ _. split; reflexivity.
    + intros [= <- <- <- _]. exists 1. split; [reflexivity|]. split; [auto|]. intros _ p0 H. discriminate H.
  - intros [= <- <- <- _]. exists 0. split; [reflexivity|]. split.
    + intros q Hq. apply in_app_iff in Hq as [Hq|[<-|[]]]; auto.
    + intros HH; discriminate HH.
Qed.

(** the creates of one pass are exactly for requests of ComputeMissingIndexesForCreation
    whose earliest time has come *)
Theorem create_loop_requests reqs : forall s j tasks now s' j' tasks' res,
  create_loop s j tasks reqs now = (s', j', tasks', res) ->
  exists l, added s s' l /\
    forall a, In a l -> exists rq o, In rq reqs /\ a = ACreate (job_task_name (rq_hash rq) (rq_retry rq)) o /\
      match rq_earliest rq with Some e => e <= now | None => True end.
Proof.
  induction reqs as [|rq r IH]; intros s j tasks now s' j' tasks' res; simpl.
  - intros [= <- _ _ _]. exists []. split; [apply added_refl|intros a []].
  - destruct (match rq_earliest rq with Some e => now <? e | None => false end) eqn:Ee.
    + intros H. destruct (IH _ _ _ _ _ _ _ _ H) as (l & Ha & Hl). exists l. split; auto.
      intros a Hin. destruct (Hl a Hin) as (rq' & o & Hr & -> & He). exists rq', o. auto.
    + destruct (sync_create_task s j tasks (rq_hash rq) (rq_retry rq)) as [[[s1 j1] t1] r1] eqn:Ec.
      destruct (create_task_spec _ _ _ _ _ _ _ _ _ Ec) as (o & Ha1 & _).
      assert (Hdue : match rq_earliest rq with Some e => e <= now | None => True end).
      { destruct (rq_earliest rq); auto. now apply Z.ltb_ge in Ee. }
      destruct r1.
      * intros H. destruct (IH _ _ _ _ _ _ _ _ H) as (l & Ha & Hl).
        exists (l ++ [ACreate (job_task_name (rq_hash rq) (rq_retry rq)) o]). split.
        -- eapply added_trans; eauto.
        -- intros a Hin. apply in_app_iff in Hin as [Hin|[<-|[]]].
           ++ destruct (Hl a Hin) as (rq' & o' & Hr & -> & He). exists rq', o'. auto.
           ++ exists rq, o. auto.
      * intros [= <- _ _ _]. exists [ACreate (job_task_name (rq_hash rq) (rq_retry rq)) o]. split; auto.
        intros a [<-|[]]. exists rq, o. auto.
Qed.
