(** C17: what admission accepts (validation.Validator: ValidateJobConfig, ValidateJob,
    ValidateJobUpdate; options.ValidateOptionSpec) and what the controllers need
    (cronschedule.New / Bump: parseCronAndTimezone; jobconfig.NewJobFromJobConfig:
    MakeDefaultOptions).  The cron parser (furiko-io/cronexpr), the time zone parser and the
    Kubernetes core Pod validation are oracles: each case ships their verdicts.
    Model file: definitions only. *)
From Furiko Require Export Admission.Options Job.Index.
Open Scope list_scope.
Open Scope Z_scope.

Record oracles := mkOr {
  or_parse : string -> string -> bool;  (* hash id, expression: parses under the cron config *)
  or_tz : string -> bool;               (* tzutils.ParseTimezone succeeds *)
  or_default_tz : string                (* cfg.DefaultTimezone, else "UTC" *)
}.

(** ** Job template *)
Record jtmpl := mkJT {
  jt_max_attempts : option Z;
  jt_retry_delay : option Z;
  jt_pending : option Z;
  jt_par : option (pspec * bool * string);       (* spec, matrix keys match the regexp, completionStrategy *)
  jt_pod : option (string * list (string * bool)) (* restartPolicy; core validation verdict per restartPolicy *)
}.

Fixpoint lookup_sb (k : string) (l : list (string * bool)) : bool :=
  match l with
  | [] => false
  | (k', b) :: r => if String.eqb k' k then b else lookup_sb k r
  end.

Definition nonneg (o : option Z) : bool := match o with Some z => 0 <=? z | None => true end.

Definition valid_pod (p : string * list (string * bool)) : bool :=
  lookup_sb (fst p) (snd p) && negb (String.eqb (fst p) "Always").

Definition valid_strategy (s : string) : bool := String.eqb s "AllSuccessful" || String.eqb s "AnySuccessful".

Definition valid_tmpl (t : jtmpl) : bool :=
  match jt_pod t with Some p => valid_pod p | None => false end &&
  match jt_par t with
  | Some (s, keys_ok, cs) => valid_pspec s && keys_ok && valid_strategy cs
  | None => true
  end &&
  nonneg (jt_pending t) &&
  match jt_max_attempts t with Some n => (0 <? n) && (n <=? 50) | None => true end &&
  nonneg (jt_retry_delay t).

(** ** schedule *)
Record asched := mkAS {
  as_cron : option (string * list string * string);   (* expression, expressions, timezone *)
  as_disabled : bool
}.

Definition nonempty_s (s : string) : bool := match s with EmptyString => false | _ => true end.

(** [hash] is the key of the JobConfig (namespace/name), "" when it has no name yet: every
    expression must parse with the empty hash id AND with the id the scheduler will use
    (validateCronScheduleHashID; before the repair of finding F18 only the empty id was tried) *)
Definition parses_for (o : oracles) (hash : string) (e : string) : bool :=
  or_parse o "" e && (negb (nonempty_s hash) || or_parse o hash e).

Definition valid_cron (o : oracles) (hash : string) (c : string * list string * string) : bool :=
  let '(e, es, tz) := c in
  let n := ((if nonempty_s e then 1 else 0) + (match es with [] => 0 | _ => 1 end))%nat in
  Nat.eqb n 1 &&
  (negb (nonempty_s e) || parses_for o hash e) &&
  forallb (parses_for o hash) es &&
  (negb (nonempty_s tz) || or_tz o tz).

Definition valid_sched (o : oracles) (hash : string) (s : option asched) : bool :=
  match s with
  | None => true
  | Some s => match as_cron s with Some c => valid_cron o hash c | None => false end
  end.

(** CronSchedule.GetExpressions *)
Definition get_expressions (c : string * list string * string) : list string :=
  let '(e, es, _) := c in if nonempty_s e then [e] else es.

(** Schedule.parseCronAndTimezone for a JobConfig whose key is [hash] *)
Definition loadable (o : oracles) (hash : string) (s : option asched) : bool :=
  match s with
  | None => true
  | Some s =>
      if as_disabled s then true
      else match as_cron s with
           | None => true
           | Some c =>
               let '(_, _, tz) := c in
               forallb (or_parse o hash) (get_expressions c) &&
               or_tz o (if nonempty_s tz then tz else or_default_tz o)
           end
  end.

(** ** concurrency *)
Definition valid_policy (p : string) : bool :=
  String.eqb p "Allow" || String.eqb p "Forbid" || String.eqb p "Enqueue".
Definition valid_conc (policy : string) (maxc : option Z) : bool :=
  valid_policy policy &&
  match maxc with Some m => (0 <? m) && negb (String.eqb policy "Allow") | None => true end.

(** ** options *)
Definition name_char_ok (a : ascii) : bool :=
  let n := nat_of_ascii a in
  (Nat.leb 97 n && Nat.leb n 122) || (Nat.leb 65 n && Nat.leb n 90) || (Nat.leb 48 n && Nat.leb n 57) ||
  Nat.eqb n 95 || Nat.eqb n 46 || Nat.eqb n 45.
Fixpoint all_chars (f : ascii -> bool) (s : string) : bool :=
  match s with EmptyString => true | String a r => f a && all_chars f r end.
Definition name_ok (s : string) : bool := nonempty_s s && all_chars name_char_ok s.

(** the option and: a config of another type is also set *)
Definition valid_option (oe : optspec * bool) : bool :=
  let '(o, extra) := oe in
  negb extra && name_ok (o_name o) &&
  match o_type o with
  | TBool f _ _ _ => match f with BEmpty | BUnknown => false | _ => true end && negb (o_required o)
  | TSelect d vs _ => match vs with [] => false | _ => true end && (negb (nonempty_s d) || mem d vs) && forallb nonempty_s vs
  | TMulti d vs _ _ => match vs with [] => false | _ => true end && forallb (fun x => mem x vs) d &&
                       forallb nonempty_s vs && forallb nonempty_s d
  | TString _ _ | TDate => true
  end.

(** duplicates are reported and skipped; the rest is validated *)
Fixpoint valid_options_seen (seen : list string) (opts : list (optspec * bool)) : bool :=
  match opts with
  | [] => true
  | oe :: r =>
      if mem (o_name (fst oe)) seen then false
      else valid_option oe && valid_options_seen (o_name (fst oe) :: seen) r
  end.
Definition valid_options (opts : list (optspec * bool)) : bool := valid_options_seen [] opts.

(** ** JobConfig *)
Record ajc := mkAJC {
  ac_name : string;
  ac_policy : string;
  ac_maxc : option Z;
  ac_sched : option asched;
  ac_opts : list (optspec * bool);
  ac_tmpl : jtmpl
}.

Definition valid_jc (o : oracles) (hash : string) (jc : ajc) : bool :=
  Nat.leb (String.length (ac_name jc)) 49 &&
  valid_tmpl (ac_tmpl jc) && valid_conc (ac_policy jc) (ac_maxc jc) &&
  valid_sched o hash (ac_sched jc) && valid_options (ac_opts jc).

(** ** Job *)
Record ajob := mkAJ {
  aj_name : string;
  aj_type : string;
  aj_policy : option string;       (* spec.startPolicy.concurrencyPolicy when startPolicy is set *)
  aj_ttl : option Z;
  aj_tmpl : option jtmpl
}.

Definition valid_job (j : ajob) : bool :=
  Nat.leb (String.length (aj_name j)) 60 &&
  (String.eqb (aj_type j) "Adhoc" || String.eqb (aj_type j) "Scheduled") &&
  match aj_policy j with Some p => valid_policy p | None => true end &&
  match aj_tmpl j with Some t => valid_tmpl t | None => false end &&
  nonneg (aj_ttl j).

(** ** update of a Job: fields are compared with Semantic.DeepEqual; the model carries one
    identifier per equality class *)
Record jobver := mkJV {
  jv_config_name : Z; jv_type : Z; jv_option_values : Z; jv_subs : Z;
  jv_task_template : Z; jv_parallelism : Z; jv_max_attempts : Z; jv_retry_delay : Z;
  jv_label_uid : Z; jv_start_policy : Z;
  jv_kill : option Z;
  jv_started : bool
}.

Definition eqb_okill (a b : option Z) : bool :=
  match a, b with Some x, Some y => x =? y | None, None => true | _, _ => false end.

Definition update_ok (now : Z) (o n : jobver) : bool :=
  (jv_label_uid n =? jv_label_uid o) &&
  (jv_config_name n =? jv_config_name o) && (jv_type n =? jv_type o) &&
  (jv_option_values n =? jv_option_values o) && (jv_subs n =? jv_subs o) &&
  (jv_task_template n =? jv_task_template o) && (jv_parallelism n =? jv_parallelism o) &&
  (jv_max_attempts n =? jv_max_attempts o) && (jv_retry_delay n =? jv_retry_delay o) &&
  negb (match jv_kill o with Some k => (k <? now) && negb (eqb_okill (jv_kill o) (jv_kill n)) | None => false end) &&
  (negb (jv_started n) || (jv_start_policy n =? jv_start_policy o)).
