(** C18: option evaluation (core/options/options.go, default.go) and variable substitution
    (core/options/substitution.go; after the fix: keys in ascending order).
    Option values are the JSON-ish values a submitter can send.  Date formatting (goment)
    is an oracle: the harness ships the formatted text for every date string of the run.
    Model file: definitions only. *)
From Furiko Require Export Base.Str.
Open Scope list_scope.

Inductive oval := VNil | VBool (b : bool) | VStr (s : string) | VList (l : list oval) | VNum (n : Z).

Inductive bfmt := BTrueFalse | BOneZero | BYesNo | BCustom | BEmpty | BUnknown.   (* BEmpty: format not given *)
Inductive otype :=
| TBool (f : bfmt) (tv fv : string) (dflt : bool)
| TString (dflt : string) (trim : bool)
| TSelect (dflt : string) (values : list string) (custom : bool)
| TMulti (dflt : list string) (values : list string) (custom : bool) (delim : string)
| TDate.

Record optspec := mkOpt { o_name : string; o_required : bool; o_type : otype }.

Inductive eres := Ok (s : string) | ErrInvalid | ErrRequired | ErrNotSupported.

(** strings.TrimSpace, restricted to the ASCII white space the streams generate *)
Definition is_space (a : ascii) : bool :=
  let n := nat_of_ascii a in Nat.eqb n 32 || (Nat.leb 9 n && Nat.leb n 13).
Fixpoint trim_left (s : string) : string :=
  match s with
  | String a r => if is_space a then trim_left r else s
  | EmptyString => EmptyString
  end.
Fixpoint str_rev_acc (s acc : string) : string :=
  match s with EmptyString => acc | String a r => str_rev_acc r (String a acc) end.
Definition str_rev (s : string) : string := str_rev_acc s EmptyString.
Definition trim (s : string) : string := str_rev (trim_left (str_rev (trim_left s))).

Definition fmt_bool (f : bfmt) (tv fv : string) (b : bool) : eres :=
  match f with
  | BTrueFalse => Ok (if b then "true" else "false")
  | BOneZero => Ok (if b then "1" else "0")
  | BYesNo => Ok (if b then "yes" else "no")
  | BCustom => Ok (if b then tv else fv)
  | BEmpty | BUnknown => ErrInvalid
  end.

Definition mem (s : string) (l : list string) : bool := existsb (String.eqb s) l.
Definition is_empty (s : string) : bool := match s with EmptyString => true | _ => false end.

Fixpoint join (d : string) (l : list string) : string :=
  match l with
  | [] => ""
  | [x] => x
  | x :: r => x ++ d ++ join d r
  end.

Fixpoint strs_of (l : list oval) : option (list string) :=
  match l with
  | [] => Some []
  | VStr s :: r => option_map (cons s) (strs_of r)
  | _ :: _ => None
  end.

(** the per-value check of EvaluateOptionMulti, in list order: not allowed before empty *)
Fixpoint multi_check (values : list string) (custom : bool) (l : list string) : option eres :=
  match l with
  | [] => None
  | v :: r =>
      if negb custom && negb (mem v values) then Some ErrNotSupported
      else if is_empty v then Some ErrRequired
      else multi_check values custom r
  end.

(** [date_oracle]: formatted text of the RFC3339 strings of this run (None: does not parse) *)
Definition eval_option (date_oracle : string -> option string) (v : oval) (o : optspec) : eres :=
  match o_type o with
  | TBool f tv fv d =>
      match (match v with VNil => VBool d | x => x end) with
      | VBool b => fmt_bool f tv fv b
      | _ => ErrInvalid
      end
  | TString d tr =>
      match (match v with VNil => VStr d | x => x end) with
      | VStr s =>
          let s' := if tr then trim s else s in
          if o_required o && is_empty s' then ErrRequired else Ok s'
      | _ => ErrInvalid
      end
  | TSelect d values custom =>
      match (match v with VNil => VStr d | x => x end) with
      | VStr s =>
          if negb (is_empty s) && negb custom && negb (mem s values) then ErrNotSupported
          else if is_empty s && o_required o then ErrRequired
          else Ok s
      | _ => ErrInvalid
      end
  | TMulti d values custom delim =>
      match (match v with VNil => Some [] | VList l => strs_of l | _ => None end) with
      | None => ErrInvalid
      | Some l =>
          let l' := match l with [] => d | _ => l end in
          match l' with
          | [] => if o_required o then ErrRequired else Ok ""
          | _ => match multi_check values custom l' with
                 | Some e => e
                 | None => Ok (join delim l')
                 end
          end
      end
  | TDate =>
      match v with
      | VNil => if o_required o then ErrRequired else Ok ""
      | VStr s =>
          if is_empty s then (if o_required o then ErrRequired else Ok "")
          else match date_oracle s with Some f => Ok f | None => ErrInvalid end
      | _ => ErrInvalid
      end
  end.

(** EvaluateOptionDefault *)
Definition eval_default (o : optspec) : eres :=
  match o_type o with
  | TBool f tv fv d => fmt_bool f tv fv d
  | TString d tr => Ok (if tr then trim d else d)
  | TSelect d _ _ => Ok d
  | TMulti d _ _ delim => Ok (join delim d)
  | TDate => Ok ""
  end.

(** ** substitution *)
Fixpoint prefix_of (p s : string) : option string :=    (* Some rest when s = p ++ rest *)
  match p, s with
  | EmptyString, _ => Some s
  | String a p', String b s' => if Ascii.eqb a b then prefix_of p' s' else None
  | _, _ => None
  end.

(** strings.ReplaceAll for a non-empty search string (fuel = length of the target) *)
Fixpoint replace_all_fuel (fuel : nat) (s search value : string) : string :=
  match fuel with
  | O => s
  | S fuel' =>
      match prefix_of search s with
      | Some rest => value ++ replace_all_fuel fuel' rest search value
      | None =>
          match s with
          | EmptyString => EmptyString
          | String a r => String a (replace_all_fuel fuel' r search value)
          end
      end
  end.
Definition replace_all (s search value : string) : string :=
  match search with
  | EmptyString => s
  | _ => replace_all_fuel (S (String.length s)) s search value
  end.

Definition var_syntax (name : string) : string := "${" ++ name ++ "}".

Fixpoint insert_kv (e : string * string) (l : list (string * string)) : list (string * string) :=
  match l with
  | [] => [e]
  | x :: t => if String.ltb (fst x) (fst e) then x :: insert_kv e t
              else if String.eqb (fst x) (fst e) then e :: t     (* a Go map has one value per key *)
              else e :: l
  end.
Definition sort_kv (l : list (string * string)) := fold_left (fun acc e => insert_kv e acc) l [].

(** SubstituteVariables: every key of the map, ascending *)
Definition substitute_vars (target : string) (m : list (string * string)) : string :=
  fold_left (fun t kv => replace_all t (var_syntax (fst kv)) (snd kv)) (sort_kv m) target.

(** the regexp \$\{prefix\.[^}]+\} replaced by the empty string *)
Fixpoint span_not_brace (s : string) : string * string :=
  match s with
  | EmptyString => (EmptyString, EmptyString)
  | String a r => if Ascii.eqb a "}" then (EmptyString, s)
                  else let '(w, rest) := span_not_brace r in (String a w, rest)
  end.
Fixpoint blank_prefix_fuel (fuel : nat) (pat s : string) : string :=
  match fuel with
  | O => s
  | S fuel' =>
      match s with
      | EmptyString => EmptyString
      | String a r =>
          match prefix_of pat s with
          | Some rest =>
              let '(w, rest') := span_not_brace rest in
              match w, rest' with
              | String _ _, String _ rest'' => blank_prefix_fuel fuel' pat rest''
              | _, _ => String a (blank_prefix_fuel fuel' pat r)
              end
          | None => String a (blank_prefix_fuel fuel' pat r)
          end
      end
  end.
(** [prefix] as passed by the callers ends in "." *)
Definition blank_prefix (prefix s : string) : string :=
  blank_prefix_fuel (S (String.length s)) ("${" ++ prefix) s.

(** SubstituteVariableMaps *)
Definition substitute_maps (target : string) (maps : list (list (string * string))) (prefixes : list string) : string :=
  fold_left (fun t p => blank_prefix p t) prefixes (fold_left substitute_vars maps target).

(** ** the admission pipeline (mutation.evaluateOptionValues, MutateCreateJob) and the
    Pod-time pipeline (podtaskexecutor.SubstitutePodSpec) *)
Definition kv := list (string * string).

Fixpoint lookup_kv (k : string) (m : kv) : option string :=
  match m with
  | [] => None
  | (k', v) :: r => if String.eqb k' k then Some v else lookup_kv k r
  end.

Fixpoint value_of (name : string) (values : list (string * oval)) : oval :=
  match values with
  | [] => VNil
  | (k, v) :: r => if String.eqb k name then v else value_of name r
  end.

Definition date_lookup (dates : list (string * option string)) (s : string) : option string :=
  (fix go l := match l with
               | [] => None
               | (k, v) :: r => if String.eqb k s then v else go r
               end) dates.

(** EvaluateOptions: every declared option, in order; any error rejects the Job.
    The date oracle is keyed by "<option name>|<value>". *)
Fixpoint eval_options (dates : list (string * option string)) (values : list (string * oval))
         (opts : list optspec) : option kv :=
  match opts with
  | [] => Some []
  | o :: r =>
      match eval_option (fun s => date_lookup dates (o_name o ++ "|" ++ s)%string) (value_of (o_name o) values) o,
            eval_options dates values r with
      | Ok s, Some m => Some ((("option." ++ o_name o)%string, s) :: m)
      | _, _ => None
      end
  end.

(** MergeSubstitutions, lowest priority first: later entries win *)
Definition merge_kv (ms : list kv) : kv := sort_kv (List.concat ms).

Definition jobconfig_vars (name uid ns : string) : kv :=
  [("jobconfig.uid", uid); ("jobconfig.name", name); ("jobconfig.namespace", ns)].

(** spec.substitutions as stored at admission: explicit > evaluated options > jobconfig context *)
Definition admit_subs dates (opts : list optspec) (values : list (string * oval)) (explicit jcvars : kv) : option kv :=
  match eval_options dates values opts with
  | None => None
  | Some ev => Some (merge_kv [jcvars; ev; explicit])
  end.

(** MakeDefaultOptions: None when a default cannot be rendered (NewJobFromJobConfig fails) *)
Fixpoint default_subs (opts : list optspec) : option kv :=
  match opts with
  | [] => Some []
  | o :: r =>
      match eval_default o, default_subs r with
      | Ok s, Some m => Some ((("option." ++ o_name o)%string, s) :: m)
      | _, _ => None
      end
  end.

(** a Job created from the JobConfig by the cron controller: its explicit substitutions are
    the defaults, it submits no values, then it is admitted like any other Job *)
Definition admit_scheduled dates (opts : list optspec) (jcvars : kv) : option kv :=
  match default_subs opts with
  | None => None
  | Some d => admit_subs dates opts [] (sort_kv d) jcvars
  end.

Definition job_vars (name uid ns type : string) (max_attempts : option Z) : kv :=
  [("job.uid", uid); ("job.name", name); ("job.namespace", ns); ("job.type", type)]
  ++ match max_attempts with Some n => [("job.max_attempts", show_Z n)] | None => [] end.

Definition pod_prefixes : list string := ["jobconfig."; "job."; "task."; "option."].

(** SubstitutePodSpec on one string of the Pod template *)
Definition pod_subst (subs jobv taskv : kv) (target : string) : string :=
  substitute_maps target ((match subs with [] => [] | _ => [subs] end) ++ [jobv; taskv]) pod_prefixes.
