(** The JSON patch of the mutating webhooks: [cmp.CreateJSONPatch] = gomodules.xyz/jsonpatch/v2
    [CreatePatch] (handleValues / diff / compareEditDistance / backtrace, v2.2.0) over decoded
    JSON documents, and the RFC 6902 application of its add / remove / replace operations.

    Documents are the values [json.Unmarshal] yields into [interface{}]: null, bool, number,
    string, array, object (a Go map: keys unique, no order - here an association list whose
    order stands for the order in which Go happens to enumerate the map).  Numbers are integers
    (furiko's objects carry no fractional numbers; the harness keeps them inside +-2^53 where
    float64 is exact).  Paths are lists of reference tokens; their RFC 6901 text form
    ([makePath]) is [render_path] below.

    The generator passes the path prefix down and appends to one slice; the model builds the
    operations of a sub-document with relative paths and prefixes them ([pre]) - same list. *)
From Coq Require Import List String Ascii ZArith Bool Arith Lia DecimalString DecimalNat.
Import ListNotations.
Local Open Scope string_scope.
Local Open Scope list_scope.
Local Open Scope nat_scope.

Inductive json :=
| JNull | JBool (b : bool) | JNum (z : Z) | JStr (s : string)
| JArr (l : list json) | JObj (m : list (string * json)).

Fixpoint lookup (k : string) (m : list (string * json)) : option json :=
  match m with
  | [] => None
  | (k', v) :: r => if String.eqb k k' then Some v else lookup k r
  end.
Fixpoint set (k : string) (v : json) (m : list (string * json)) : list (string * json) :=
  match m with
  | [] => [(k, v)]
  | (k', v') :: r => if String.eqb k k' then (k, v) :: r else (k', v') :: set k v r
  end.
Definition del (k : string) (m : list (string * json)) : list (string * json) :=
  filter (fun kv => negb (String.eqb k (fst kv))) m.

Fixpoint size (j : json) : nat :=
  match j with
  | JArr l => S (fold_right (fun x acc => size x + acc) 0 l)
  | JObj m => S (fold_right (fun kv acc => size (snd kv) + acc) 0 m)
  | _ => 1
  end.

Fixpoint nodupb (l : list string) : bool :=
  match l with [] => true | x :: r => negb (existsb (String.eqb x) r) && nodupb r end.

(** what a decoded document is: object keys unique, at every depth *)
Fixpoint wfb (j : json) : bool :=
  match j with
  | JArr l => forallb wfb l
  | JObj m => nodupb (map fst m) && forallb (fun kv => wfb (snd kv)) m
  | _ => true
  end.

(** [reflect.DeepEqual] on decoded documents (maps compare by key, not by order) *)
Fixpoint jeqb (x y : json) {struct x} : bool :=
  match x, y with
  | JNull, JNull => true
  | JBool a, JBool b => Bool.eqb a b
  | JNum a, JNum b => Z.eqb a b
  | JStr a, JStr b => String.eqb a b
  | JArr l1, JArr l2 =>
      (fix go (l1 l2 : list json) : bool :=
         match l1, l2 with
         | [], [] => true
         | a :: r1, b :: r2 => jeqb a b && go r1 r2
         | _, _ => false
         end) l1 l2
  | JObj m1, JObj m2 =>
      (fix go (m : list (string * json)) : bool :=
         match m with
         | [] => true
         | kv :: r => match lookup (fst kv) m2 with Some v' => jeqb (snd kv) v' | None => false end && go r
         end) m1
      && forallb (fun kv => match lookup (fst kv) m1 with Some _ => true | None => false end) m2
  | _, _ => false
  end.

(** reference tokens, operations *)
Inductive tok := TK (k : string) | TI (i : nat).
Inductive opk := OAdd | ORemove | OReplace.
Record op := mkOp { o_kind : opk; o_path : list tok; o_val : json }.
Definition pre (t : tok) (o : op) : op := mkOp (o_kind o) (t :: o_path o) (o_val o).

(** ** the generator *)
Definition is_basic (j : json) : bool := match j with JBool _ | JNum _ | JStr _ => true | _ => false end.
Definition scalar_or_null (j : json) : bool := match j with JArr _ | JObj _ => false | _ => true end.

(** [isSimpleArray]: scalars are skipped; the first object element decides (all its values
    scalar or null), whatever follows it; anything else (null, array) is not simple *)
Fixpoint is_simple (l : list json) : bool :=
  match l with
  | [] => true
  | x :: r => match x with
              | JBool _ | JNum _ | JStr _ => is_simple r
              | JObj m => forallb (fun kv => scalar_or_null (snd kv)) m
              | _ => false
              end
  end.

(** the Wagner-Fischer matrix, column by column: [fill s tj prev del] is column j from row 1,
    given column j-1 ([prev], from row 0) and the cell above ([del] = d[i-1][j]) *)
Definition min3 (rep add del : nat) : nat := Nat.min rep (Nat.min add del).
Fixpoint fill (s : list json) (tj : json) (prev : list nat) (del : nat) : list nat :=
  match s, prev with
  | si :: s', diag :: prev' =>
      let add := hd 0 prev' in
      let v := if jeqb si tj then diag else min3 (diag + 1) (add + 1) (del + 1) in
      v :: fill s' tj prev' v
  | _, _ => []
  end.
Fixpoint cols_from (s t : list json) (prev : list nat) (j : nat) : list (list nat) :=
  match t with
  | [] => []
  | tj :: t' => let c := S j :: fill s tj prev (S j) in c :: cols_from s t' c (S j)
  end.
Definition matrix (s t : list json) : list (list nat) :=
  let c0 := seq 0 (S (List.length s)) in c0 :: cols_from s t c0 0.
Definition cell (mx : list (list nat)) (i j : nat) : nat := nth i (nth j mx []) 0.

Section Backtrace.
  Variable hv : json -> json -> list op.   (* handleValues on two elements *)
  Variable s t : list json.
  Variable mx : list (list nat).
  Fixpoint backtrace (fuel i j : nat) : list op :=
    match fuel with
    | O => []
    | S f =>
      if (0 <? i) && (cell mx (i - 1) j + 1 =? cell mx i j) then
        mkOp ORemove [TI (i - 1)] JNull :: backtrace f (i - 1) j
      else if (0 <? j) && (cell mx i (j - 1) + 1 =? cell mx i j) then
        mkOp OAdd [TI i] (nth (j - 1) t JNull) :: backtrace f i (j - 1)
      else if (0 <? i) && (0 <? j) && (cell mx (i - 1) (j - 1) + 1 =? cell mx i j) then
        (if is_basic (hd JNull s)
         then [mkOp OReplace [TI (i - 1)] (nth (j - 1) t JNull)]
         else map (pre (TI (i - 1))) (hv (nth (i - 1) s JNull) (nth (j - 1) t JNull)))
        ++ backtrace f (i - 1) (j - 1)
      else if (0 <? i) && (0 <? j) && (cell mx (i - 1) (j - 1) =? cell mx i j) then
        backtrace f (i - 1) (j - 1)
      else []
    end.
End Backtrace.

Definition kind_of (j : json) : nat :=
  match j with JNull => 0 | JBool _ => 1 | JNum _ => 2 | JStr _ => 3 | JArr _ => 4 | JObj _ => 5 end.

(** [handleValues]; the fuel is the nesting depth still allowed (a document is finite) *)
Fixpoint handle (fuel : nat) (a b : json) : list op :=
  match fuel with
  | O => []
  | S f =>
    match a, b with
    | JNull, JNull => []
    | JObj ma, JObj mb =>
        flat_map (fun kv => match lookup (fst kv) ma with
                            | None => [mkOp OAdd [TK (fst kv)] (snd kv)]
                            | Some av => map (pre (TK (fst kv))) (handle f av (snd kv))
                            end) mb
        ++ flat_map (fun kv => match lookup (fst kv) mb with
                               | None => [mkOp ORemove [TK (fst kv)] JNull]
                               | Some _ => []
                               end) ma
    | JArr la, JArr lb =>
        if is_simple la && is_simple lb then
          backtrace (handle f) la lb (matrix la lb) (S (List.length la + List.length lb)) (List.length la) (List.length lb)
        else
          let n := Nat.min (List.length la) (List.length lb) in
          map (fun i => mkOp ORemove [TI i] JNull) (rev (seq n (List.length la - n)))
          ++ map (fun iv => mkOp OAdd [TI (fst iv)] (snd iv)) (combine (seq n (List.length lb - n)) (skipn n lb))
          ++ flat_map (fun ixy => map (pre (TI (fst ixy))) (handle f (fst (snd ixy)) (snd (snd ixy))))
                      (combine (seq 0 n) (combine la lb))
    | _, _ =>
        if Nat.eqb (kind_of a) (kind_of b)
        then (if jeqb a b then [] else [mkOp OReplace [] b])
        else [mkOp OReplace [] b]
    end
  end.

Definition create_patch (a b : json) : list op := handle (size a) a b.

(** ** RFC 6902 application (add / remove / replace) *)
Definition descend (t : tok) (f : json -> option json) (doc : json) : option json :=
  match t, doc with
  | TK k, JObj m => match lookup k m with
                    | Some c => match f c with Some c' => Some (JObj (set k c' m)) | None => None end
                    | None => None
                    end
  | TI i, JArr l => match nth_error l i with
                    | Some c => match f c with Some c' => Some (JArr (firstn i l ++ c' :: skipn (S i) l)) | None => None end
                    | None => None
                    end
  | _, _ => None
  end.
Definition leaf_add (t : tok) (v : json) (doc : json) : option json :=
  match t, doc with
  | TK k, JObj m => Some (JObj (set k v m))
  | TI i, JArr l => if i <=? List.length l then Some (JArr (firstn i l ++ v :: skipn i l)) else None
  | _, _ => None
  end.
Definition leaf_remove (t : tok) (doc : json) : option json :=
  match t, doc with
  | TK k, JObj m => match lookup k m with Some _ => Some (JObj (del k m)) | None => None end
  | TI i, JArr l => if i <? List.length l then Some (JArr (firstn i l ++ skipn (S i) l)) else None
  | _, _ => None
  end.
Fixpoint apply_at (k : opk) (p : list tok) (v : json) (doc : json) : option json :=
  match p with
  | [] => match k with OReplace => Some v | _ => None end
  | t :: p' =>
      match k, p' with
      | OAdd, [] => leaf_add t v doc
      | ORemove, [] => leaf_remove t doc
      | _, _ => descend t (apply_at k p' v) doc
      end
  end.
Definition apply_op (o : op) (doc : json) : option json := apply_at (o_kind o) (o_path o) (o_val o) doc.
Fixpoint apply_ops (ops : list op) (doc : json) : option json :=
  match ops with
  | [] => Some doc
  | o :: r => match apply_op o doc with Some d => apply_ops r d | None => None end
  end.

(** ** RFC 6901 text of a path ([makePath]: "~" -> "~0", "/" -> "~1", joined by "/") and its
    reading back by the applier ("~1" -> "/", "~0" -> "~") *)
Fixpoint encode_tok (s : string) : string :=
  match s with
  | EmptyString => EmptyString
  | String c r => if Ascii.eqb c "~"%char then String "~" (String "0" (encode_tok r))
                  else if Ascii.eqb c "/"%char then String "~" (String "1" (encode_tok r))
                  else String c (encode_tok r)
  end.
Fixpoint decode_tok (s : string) : string :=
  match s with
  | EmptyString => EmptyString
  | String c r =>
      if Ascii.eqb c "~"%char then
        match r with
        | String d r' => if Ascii.eqb d "0"%char then String "~" (decode_tok r')
                         else if Ascii.eqb d "1"%char then String "/" (decode_tok r')
                         else String c (decode_tok r)
        | EmptyString => String c EmptyString
        end
      else String c (decode_tok r)
  end.

(** the text of a whole path and its reading: tokens joined by "/", each escaped; the reader
    splits on "/" and unescapes.  Array indices are written in decimal ([show_nat]). *)
Definition show_nat (n : nat) : string := NilZero.string_of_uint (Nat.to_uint n).
Definition raw_tok (t : tok) : string := match t with TK k => k | TI i => show_nat i end.
Fixpoint render_raw (ks : list string) : string :=
  match ks with
  | [] => EmptyString
  | k :: r => String "/" (String.append (encode_tok k) (render_raw r))
  end.
Definition render_path (p : list tok) : string := render_raw (map raw_tok p).

Fixpoint split_slash (s : string) (cur : string) : list string :=
  match s with
  | EmptyString => [cur]
  | String c r => if Ascii.eqb c "/"%char then cur :: split_slash r EmptyString
                  else split_slash r (String.append cur (String c EmptyString))
  end.
(** "" -> [], "/a/b" -> ["a";"b"] (decoded) *)
Definition parse_path (p : string) : option (list string) :=
  match p with
  | EmptyString => Some []
  | String c r => if Ascii.eqb c "/"%char then Some (map decode_tok (split_slash r EmptyString)) else None
  end.

(** what [makePath] really writes: the prefix is a string, and a prefix that ends in "/" gets
    no further separator - so after an empty member name the next "/" is missing.  Keys are
    escaped, so a prefix ends in "/" exactly when its last token is empty. *)
Fixpoint ends_slash (s : string) : bool :=
  match s with
  | EmptyString => false
  | String c EmptyString => Ascii.eqb c "/"%char
  | String _ r => ends_slash r
  end.
Definition make_path (path key : string) : string :=
  match path with
  | EmptyString => String "/" (encode_tok key)
  | _ => if ends_slash path then String.append path (encode_tok key)
         else String.append path (String "/" (encode_tok key))
  end.
Definition render_go (ks : list string) : string := fold_left make_path ks EmptyString.
Definition nonempty_s (s : string) : bool := match s with EmptyString => false | _ => true end.
