(** C16: the mutating admission path.  mutation.Mutator (MutateJob, MutateCreateJob with
    evaluateConfigName / ValidateLookupJobOwner / evaluateOptionValues, MutateJobTemplateSpec,
    MutateJobConfig, MutateCreateJobConfig, MutateUpdateJobConfig), JobPatcher /
    JobConfigPatcher (the order of the calls), jobconfig.NewJobFromJobConfig's labels,
    annotations, finalizers and owner reference, options.MutateDefaultingOptionSpec.
    Model file: definitions only. *)
From Furiko Require Export Admission.Validate.
Open Scope list_scope.
Open Scope Z_scope.
Open Scope string_scope.

Definition Finalizer := "execution.furiko.io/delete-dependents-finalizer".
Definition LabelUID := "execution.furiko.io/job-config-uid".
Definition AnnSchedule := "execution.furiko.io/schedule-time".

Record dyncfg := mkDyn { dc_ttl : option Z; dc_pending : option Z }.

(** MutateJobTemplateSpec *)
Definition mutate_tmpl (d : dyncfg) (task : bool) (t : jtmpl) : jtmpl :=
  mkJT (match jt_max_attempts t with Some n => Some n | None => Some 1 end)
       (jt_retry_delay t)
       (match jt_pending t with Some n => Some n | None => dc_pending d end)
       (match jt_par t with
        | Some (s, k, cs) => Some (s, k, if nonempty_s cs then cs else "AllSuccessful")
        | None => None
        end)
       (match jt_pod t with
        | Some (rp, tbl) => Some (if task && negb (nonempty_s rp) then "Never" else rp, tbl)
        | None => None
        end).

Definition empty_tmpl : jtmpl := mkJT None None None None None.

(** ** Job *)
Record mjob := mkMJ {
  mj_created : Z;                            (* creationTimestamp, unix *)
  mj_finalizers : list string;
  mj_labels : kv;
  mj_annotations : kv;
  mj_owner : option (string * string);       (* controller reference to a JobConfig: name, uid *)
  mj_type : string;
  mj_config_name : string;
  mj_ttl : option Z;
  mj_start_policy : option (string * option Z);
  mj_template : option jtmpl;
  mj_values : option (list (string * oval)); (* optionValues: None when empty, Some decoded *)
  mj_subs : kv
}.

(** MutateJob *)
Definition mutate_job (d : dyncfg) (j : mjob) : mjob :=
  mkMJ (mj_created j) (mj_finalizers j) (mj_labels j) (mj_annotations j) (mj_owner j)
       (if nonempty_s (mj_type j) then mj_type j else "Adhoc") (mj_config_name j)
       (match mj_ttl j with Some t => Some t | None => dc_ttl d end)
       (mj_start_policy j)
       (Some (mutate_tmpl d true (match mj_template j with Some t => t | None => empty_tmpl end)))
       (mj_values j) (mj_subs j).

(** ** JobConfig as the Job mutator sees it *)
Record mjc := mkMJC {
  mc_name : string;
  mc_uid : string;
  mc_policy : string;
  mc_opts : list optspec;
  mc_tmpl : jtmpl;
  mc_tmpl_labels : kv;
  mc_tmpl_annotations : kv
}.

Fixpoint find_mjc (n : string) (l : list mjc) : option mjc :=
  match l with
  | [] => None
  | x :: r => if String.eqb (mc_name x) n then Some x else find_mjc n r
  end.

(** meta.MergeFinalizers *)
Definition merge_finalizers (a b : list string) : list string :=
  a ++ filter (fun f => negb (mem f a)) b.

(** evaluateConfigName.  None: rejected (JobConfig not found) *)
Definition eval_config_name (jcs : list mjc) (j : mjob) : option mjob :=
  if negb (nonempty_s (mj_config_name j)) then Some j
  else match find_mjc (mj_config_name j) jcs with
       | None => None
       | Some jc =>
           if match default_subs (mc_opts jc) with None => true | Some _ => false end then None  (* NewJobFromJobConfig fails *)
           else
           let base_labels := merge_kv [mc_tmpl_labels jc; [(LabelUID, mc_uid jc)]] in
           let base_ann := merge_kv [mc_tmpl_annotations jc;
                                     if String.eqb (mj_type j) "Scheduled" then [(AnnSchedule, show_Z (mj_created j))] else []] in
           Some (mkMJ (mj_created j)
                      (merge_finalizers [Finalizer] (mj_finalizers j))
                      (merge_kv [base_labels; mj_labels j; [(LabelUID, mc_uid jc)]])
                      (merge_kv [base_ann; mj_annotations j])
                      (Some (mc_name jc, mc_uid jc))
                      (mj_type j) ""
                      (mj_ttl j)
                      (Some (match mj_start_policy j with
                             | Some (p, a) => (if nonempty_s p then p else mc_policy jc, a)
                             | None => (mc_policy jc, None)
                             end))
                      (Some (mc_tmpl jc))
                      (mj_values j) (mj_subs j))
       end.

(** ValidateLookupJobOwner.  inl: rejected; inr None: no JobConfig owner *)
Definition lookup_owner (jcs : list mjc) (j : mjob) : option (option mjc) :=
  match mj_owner j with
  | None => Some None
  | Some (n, u) =>
      match find_mjc n jcs with
      | None => None
      | Some jc =>
          if negb (String.eqb (mc_uid jc) u) then None
          else if negb (String.eqb (match lookup_kv LabelUID (mj_labels j) with Some l => l | None => "" end) (mc_uid jc)) then None
          else Some (Some jc)
      end
  end.

(** MutateCreateJob.  [bad_values]: optionValues is not valid JSON/YAML.  The option-spec
    hash annotation is left to the harness (presence only). *)
Definition mutate_create_job dates (jcs : list mjc) (bad_values : bool) (j : mjob) : option mjob :=
  let j0 := mkMJ (mj_created j)
                 (if mem Finalizer (mj_finalizers j) then mj_finalizers j else merge_finalizers (mj_finalizers j) [Finalizer])
                 (mj_labels j) (mj_annotations j) (mj_owner j) (mj_type j) (mj_config_name j) (mj_ttl j)
                 (mj_start_policy j) (mj_template j) (mj_values j) (mj_subs j) in
  match eval_config_name jcs j0 with
  | None => None
  | Some j1 =>
      match lookup_owner jcs j1 with
      | None => None
      | Some None => Some j1
      | Some (Some jc) =>
          if match mj_values j1 with Some _ => bad_values | None => false end then None
          else
            match admit_subs dates (mc_opts jc) (match mj_values j1 with Some v => v | None => [] end) (mj_subs j1)
                             (jobconfig_vars (mc_name jc) (mc_uid jc) "ns") with
            | None => None
            | Some subs =>
                Some (mkMJ (mj_created j1) (mj_finalizers j1) (mj_labels j1) (mj_annotations j1) (mj_owner j1)
                           (mj_type j1) (mj_config_name j1) (mj_ttl j1) (mj_start_policy j1) (mj_template j1)
                           (mj_values j1) subs)
            end
      end
  end.

(** JobPatcher.Patch *)
Definition patch_job_create dates d jcs bad (j : mjob) : option mjob :=
  option_map (mutate_job d) (mutate_create_job dates jcs bad j).
Definition patch_job_update d (j : mjob) : option mjob := Some (mutate_job d j).

(** ** JobConfig defaulting *)
Record mjcobj := mkMJO {
  mo_opts : list optspec;
  mo_tmpl : jtmpl;
  mo_sched : option (Z * option Z)      (* schedule: identity of everything but lastUpdated; lastUpdated *)
}.

Definition default_option (o : optspec) : optspec :=
  match o_type o with
  | TBool BEmpty tv fv d => mkOpt (o_name o) (o_required o) (TBool BTrueFalse tv fv d)
  | _ => o
  end.

Definition mutate_jobconfig (d : dyncfg) (c : mjcobj) : mjcobj :=
  mkMJO (map default_option (mo_opts c)) (mutate_tmpl d false (mo_tmpl c)) (mo_sched c).

(** ktime.IsTimeSetAndLaterThan *)
Definition later_than (t : option Z) (now : Z) : bool := match t with Some x => (now <? x)%Z | None => false end.

Definition stamp (now : Z) (c : mjcobj) : mjcobj :=
  match mo_sched c with
  | Some (id, lu) => mkMJO (mo_opts c) (mo_tmpl c) (Some (id, if later_than lu now then lu else Some now))
  | None => c
  end.

(** JobConfigPatcher.Patch *)
Definition patch_jc_create (d : dyncfg) (now : Z) (c : mjcobj) : mjcobj := mutate_jobconfig d (stamp now c).
Definition patch_jc_update (d : dyncfg) (now : Z) (old c : mjcobj) : mjcobj :=
  let c1 := mutate_jobconfig d c in
  match mo_sched c1 with
  | None => c1
  | Some (id, _) =>
      let changed := match mo_sched old with Some (id', _) => negb (id =? id')%Z | None => true end in
      if changed then stamp now c1 else c1
  end.
