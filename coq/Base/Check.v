(** Shared by every correspondence stream: the list of case numbers on which the
    model's answer differs from the implementation's recorded answer. *)
From Coq Require Export List ZArith String Bool.
Export ListNotations.

Fixpoint mismatches_from {A} (ok : A -> bool) (i : nat) (l : list A) : list nat :=
  match l with
  | [] => []
  | x :: r => if ok x then mismatches_from ok (S i) r else i :: mismatches_from ok (S i) r
  end.
Definition mismatches {A} (ok : A -> bool) (start : nat) (l : list A) : list nat :=
  mismatches_from ok start l.

Definition eqb_opt {A} (eqb : A -> A -> bool) (a b : option A) : bool :=
  match a, b with
  | Some x, Some y => eqb x y
  | None, None => true
  | _, _ => false
  end.

Fixpoint eqb_list {A} (eqb : A -> A -> bool) (a b : list A) : bool :=
  match a, b with
  | [], [] => true
  | x :: a', y :: b' => eqb x y && eqb_list eqb a' b'
  | _, _ => false
  end.

Definition eqb_pair {A B} (ea : A -> A -> bool) (eb : B -> B -> bool) (a b : A * B) : bool :=
  ea (fst a) (fst b) && eb (snd a) (snd b).
