(** Strings: decimal printing/parsing of integers (Go's %v of an int64 and
    strconv.Atoi), splitting at the last occurrence of a character. Model file:
    definitions only. *)
From Coq Require Export List ZArith String Ascii Bool.
From Coq Require Import DecimalString DecimalZ.
Export ListNotations.
Open Scope string_scope.
Open Scope Z_scope.

(** fmt.Sprintf("%v", int64) / strconv.Itoa *)
Definition show_Z (z : Z) : string := NilZero.string_of_int (Z.to_int z).

Definition int64_min : Z := - 2 ^ 63.
Definition int64_max : Z := 2 ^ 63 - 1.
Definition is_int64 (z : Z) : bool := (int64_min <=? z) && (z <=? int64_max).

(** strconv.Atoi on a 64-bit platform: optional sign, at least one digit, digits
    only, value inside int64. *)
Definition parse_uint (s : string) : option Z :=
  option_map (fun u => Z.of_int (Decimal.Pos u)) (NilZero.uint_of_string s).

Definition parse_int (s : string) : option Z :=
  match s with
  | EmptyString => None
  | String a s' =>
      let r :=
        if Ascii.eqb a "-" then option_map Z.opp (parse_uint s')
        else if Ascii.eqb a "+" then parse_uint s'
        else parse_uint s in
      match r with
      | Some v => if is_int64 v then Some v else None
      | None => None
      end
  end.

(** Position-free split at the last occurrence of [c]: returns (before, after)
    or None when [c] does not occur.  (strings.Split + Join of all but the last
    token, as in SplitJobConfigKeyName.) *)
Fixpoint split_last (c : ascii) (s : string) : option (string * string) :=
  match s with
  | EmptyString => None
  | String a s' =>
      match split_last c s' with
      | Some (l, r) => Some (String a l, r)
      | None => if Ascii.eqb a c then Some (EmptyString, s') else None
      end
  end.

Fixpoint contains_char (c : ascii) (s : string) : bool :=
  match s with
  | EmptyString => false
  | String a s' => Ascii.eqb a c || contains_char c s'
  end.

Definition is_digit (a : ascii) : bool :=
  let n := nat_of_ascii a in (Nat.leb 48 n) && (Nat.leb n 57).

Fixpoint all_digits (s : string) : bool :=
  match s with
  | EmptyString => true
  | String a s' => is_digit a && all_digits s'
  end.
