(** The admission queue of one JobConfig: jobqueuecontroller/reconciler_perjobconfig.go
    (SyncOne, listQueuedJobsForJobConfig, canStartJob, startJob), reconciler_independent.go,
    control.go (StartJob, RejectJob), stores/activejobstore/store.go (counter, OnUpdate,
    OnDelete, Recover), utils/atomic/counter.go, util/job/active.go.

    The world: the API Jobs of one JobConfig (plus independent Jobs), the Job informer
    cache (a prefix of the event log), two listeners with their own delivery positions (the
    active-job store and the queue controller's wake-up handler), the counter, the clock.
    Other controllers are environment ops: the job controller makes a Job terminal, users
    create / delete Jobs and change maxConcurrency.  A pass is atomic with respect to
    listener deliveries in this model (the CAS in startJob therefore always succeeds; stated
    in DESIGN.md).  Model file: definitions only. *)
From Coq Require Export List ZArith Bool.
Export ListNotations.
Open Scope Z_scope.

Inductive policy := PNone | PAllow | PForbid | PEnqueue.

Record qjob := mkQJ {
  q_id : Z;
  q_owned : bool;             (* controller owner reference + UID label of the JobConfig *)
  q_created : Z;
  q_policy : policy;          (* spec.startPolicy (PNone: no startPolicy at all) *)
  q_start_after : option Z;
  q_started : option Z;       (* status.startTime *)
  q_terminal : bool;          (* status.phase.IsTerminal() *)
  q_adm_err : bool;           (* admission-error annotation *)
  q_rv : Z
}.

Definition is_started (j : qjob) : bool := match q_started j with Some _ => true | None => false end.
Definition is_queued (j : qjob) : bool := negb (is_started j) && negb (q_terminal j).
Definition is_active (j : qjob) : bool := is_started j && negb (q_terminal j).

Inductive jevent := EAdd (j : qjob) | EUpd (old new : qjob) | EDel (j : qjob).
Inductive qfault := QFStart | QFReject.

Record qworld := mkQW {
  qa_jobs : list qjob;            (* API *)
  qa_rv : Z;
  qc_jobs : list qjob;            (* informer cache *)
  qc_pending : list jevent;       (* not yet applied to the cache *)
  qs_pending : list jevent;       (* applied to the cache, not yet delivered to the store *)
  qq_pending : nat;               (* ... not yet delivered to the queue controller's handler *)
  q_counter : Z;                  (* activejobstore counter of this JobConfig's UID *)
  q_max : option Z;               (* spec.concurrency.maxConcurrency of the cached JobConfig *)
  q_clock : Z;
  q_faults : list qfault;
  q_ready : bool                  (* the JobConfig key is in the workqueue *)
}.

Fixpoint find_job (id : Z) (l : list qjob) : option qjob :=
  match l with
  | [] => None
  | j :: r => if q_id j =? id then Some j else find_job id r
  end.
Definition set_job (j : qjob) (l : list qjob) : list qjob :=
  match find_job (q_id j) l with
  | Some _ => map (fun x => if q_id x =? q_id j then j else x) l
  | None => l ++ [j]
  end.
Definition del_job (id : Z) (l : list qjob) : list qjob := filter (fun x => negb (q_id x =? id)) l.

Definition max_conc (w : qworld) : Z := match q_max w with Some m => m | None => 1 end.

(** insertion sort by creation time (sort.Slice on CreationTimestamp.Before; the streams
    avoid equal creation seconds among queued Jobs, ties are unordered in the code) *)
Fixpoint insert_job (j : qjob) (l : list qjob) : list qjob :=
  match l with
  | [] => [j]
  | x :: t => if q_created x <=? q_created j then x :: insert_job j t else j :: l
  end.
Definition sort_jobs (l : list qjob) : list qjob := fold_right insert_job [] (rev l).

Definition queued_jobs (w : qworld) : list qjob :=
  sort_jobs (filter (fun j => q_owned j && is_queued j) (qc_jobs w)).

Inductive decision := DStart | DSkip | DReject | DWait.   (* DWait: startAfter in the future (arms a re-sync) *)

(** canStartJob *)
Definition can_start (now maxc active : Z) (j : qjob) : decision :=
  match q_policy j with
  | PNone => DStart
  | pol =>
      match q_start_after j with
      | Some a => if now <? a then DWait else
          match pol with
          | PForbid => if maxc <? active + 1 then DReject else DStart
          | PEnqueue => if maxc <? active + 1 then DSkip else DStart
          | _ => DStart
          end
      | None =>
          match pol with
          | PForbid => if maxc <? active + 1 then DReject else DStart
          | PEnqueue => if maxc <? active + 1 then DSkip else DStart
          | _ => DStart
          end
      end
  end.

Inductive qaction :=
| QAStart (id : Z) (outcome : Z)      (* 0 ok, 2 conflict, 3 error *)
| QAReject (id : Z) (outcome : Z).

Fixpoint take_qfault (f : qfault) (l : list qfault) : option (list qfault) :=
  match l with
  | [] => None
  | x :: t =>
      if match f, x with QFStart, QFStart | QFReject, QFReject => true | _, _ => false end
      then Some t else option_map (cons x) (take_qfault f t)
  end.

Definition with_api (w : qworld) (jobs : list qjob) (ev : jevent) (fl : list qfault) (ctr : Z) : qworld :=
  mkQW jobs (qa_rv w + 1) (qc_jobs w) (qc_pending w ++ [ev]) (qs_pending w) (qq_pending w)
       ctr (q_max w) (q_clock w) fl (q_ready w).
Definition with_ctr (w : qworld) (ctr : Z) (fl : list qfault) : qworld :=
  mkQW (qa_jobs w) (qa_rv w) (qc_jobs w) (qc_pending w) (qs_pending w) (qq_pending w)
       ctr (q_max w) (q_clock w) fl (q_ready w).

(** API write on behalf of the cached copy [cj]: conflict when the stored version is newer *)
Definition api_write (w : qworld) (cj : qjob) (upd : qjob -> qjob) (fl : list qfault) (ctr : Z) : qworld * Z :=
  match find_job (q_id cj) (qa_jobs w) with
  | None => (with_ctr w ctr fl, 3)
  | Some a =>
      if negb (q_rv a =? q_rv cj) then (with_ctr w ctr fl, 2)
      else
        let a' := upd a in
        let a'' := mkQJ (q_id a') (q_owned a') (q_created a') (q_policy a') (q_start_after a')
                        (q_started a') (q_terminal a') (q_adm_err a') (qa_rv w + 1) in
        (with_api w (set_job a'' (qa_jobs w)) (EUpd a a'') fl ctr, 0)
  end.

Definition set_started (t : Z) (j : qjob) : qjob :=
  mkQJ (q_id j) (q_owned j) (q_created j) (q_policy j) (q_start_after j) (Some t) (q_terminal j) (q_adm_err j) (q_rv j).
Definition set_adm (j : qjob) : qjob :=
  mkQJ (q_id j) (q_owned j) (q_created j) (q_policy j) (q_start_after j) (q_started j) (q_terminal j) true (q_rv j).
Definition set_terminal (j : qjob) : qjob :=
  mkQJ (q_id j) (q_owned j) (q_created j) (q_policy j) (q_start_after j) (q_started j) true (q_adm_err j) (q_rv j).

(** the loop of PerConfigReconciler.SyncOne; [active] is the snapshot of the counter, re-read
    after every successful start.  Returns world, actions (reverse), ok, armed. *)
Fixpoint sync_loop (w : qworld) (jobs : list qjob) (active : Z) (acts : list qaction) (armed : bool)
  : qworld * list qaction * bool * bool :=
  match jobs with
  | [] => (w, acts, true, armed)
  | j :: r =>
      match can_start (q_clock w) (max_conc w) active j with
      | DWait => sync_loop w r active acts true
      | DSkip => sync_loop w r active acts armed
      | DReject =>
          match take_qfault QFReject (q_faults w) with
          | Some fl => (with_ctr w (q_counter w) fl, QAReject (q_id j) 3 :: acts, false, armed)
          | None =>
              let '(w', out) := api_write w j set_adm (q_faults w) (q_counter w) in
              if out =? 0 then sync_loop w' r active (QAReject (q_id j) 0 :: acts) armed
              else (w', QAReject (q_id j) out :: acts, false, armed)
          end
      | DStart =>
          (* CheckAndAdd(oldCount = active): the counter is only changed by this pass here *)
          if negb (q_counter w =? active) then (w, acts, false, armed)
          else
            match take_qfault QFStart (q_faults w) with
            | Some fl =>      (* the write fails: rollback *)
                (with_ctr w (q_counter w) fl, QAStart (q_id j) 3 :: acts, false, armed)
            | None =>
                let '(w', out) := api_write w j (set_started (q_clock w)) (q_faults w) (q_counter w + 1) in
                if out =? 0 then sync_loop w' r (q_counter w') (QAStart (q_id j) 0 :: acts) armed
                else (with_ctr w' (q_counter w' - 1) (q_faults w'), QAStart (q_id j) out :: acts, false, armed)
            end
      end
  end.

Definition sync_q (w : qworld) : qworld * list qaction * bool * bool :=
  let '(w', acts, ok, armed) := sync_loop w (queued_jobs w) (q_counter w) [] false in
  (w', rev acts, ok, armed).

(** IndependentReconciler.SyncOne for one Job *)
Definition sync_indep (w : qworld) (id : Z) : qworld * list qaction * bool * bool :=
  match find_job id (qc_jobs w) with
  | None => (w, [], true, false)
  | Some j =>
      if negb (is_queued j) then (w, [], true, false)
      else if match q_policy j, q_start_after j with
              | PNone, _ => false
              | _, Some a => q_clock w <? a
              | _, None => false
              end
      then (w, [], true, true)
      else
        match take_qfault QFStart (q_faults w) with
        | Some fl => (with_ctr w (q_counter w) fl, [QAStart id 3], false, false)
        | None =>
            let '(w', out) := api_write w j (set_started (q_clock w)) (q_faults w) (q_counter w) in
            (w', [QAStart id out], out =? 0, false)
        end
  end.

(** the active-job store's listener *)
Definition store_event (ctr : Z) (e : jevent) : Z :=
  match e with
  | EAdd _ => ctr
  | EUpd o n =>
      if negb (q_owned o) then ctr
      else if is_active o && negb (is_active n) then ctr - 1
      else if negb (is_active o) && is_active n && negb (negb (is_started o) && is_started n) then ctr + 1
      else ctr
  | EDel j => if q_owned j && is_active j then ctr - 1 else ctr
  end.

Definition apply_cache (c : list qjob) (e : jevent) : list qjob :=
  match e with
  | EAdd j => set_job j c
  | EUpd _ n => set_job n c
  | EDel j => del_job (q_id j) c
  end.

Inductive qop :=
| QCreate (j : qjob)
| QFinish (id : Z)            (* the job controller writes a terminal phase *)
| QDelete (id : Z)
| QSetMax (m : option Z)
| QClock (t : Z)
| QAdvCache (n : nat)
| QDeliverStore (n : nat)
| QDeliverQueue (n : nat)
| QFault (f : qfault)
| QSync
| QSyncIndep (id : Z)
| QRestart                    (* controller restart: caches synced, then Store.Recover *)
| QTouch (id : Z).            (* an update that changes nothing the controller looks at: e.g. the user
                                 deletes the Job and a finalizer holds it (deletionTimestamp set) *)

Fixpoint adv_cache (n : nat) (w : qworld) : qworld :=
  match n, qc_pending w with
  | O, _ => w
  | _, [] => w
  | S n', e :: r =>
      adv_cache n' (mkQW (qa_jobs w) (qa_rv w) (apply_cache (qc_jobs w) e) r (qs_pending w ++ [e])
                         (S (qq_pending w)) (q_counter w) (q_max w) (q_clock w) (q_faults w) (q_ready w))
  end.

Fixpoint deliver_store (n : nat) (w : qworld) : qworld :=
  match n, qs_pending w with
  | O, _ => w
  | _, [] => w
  | S n', e :: r =>
      deliver_store n' (mkQW (qa_jobs w) (qa_rv w) (qc_jobs w) (qc_pending w) r (qq_pending w)
                             (store_event (q_counter w) e) (q_max w) (q_clock w) (q_faults w) (q_ready w))
  end.

Definition qstep (w : qworld) (o : qop) : qworld * list qaction * bool * bool :=
  match o with
  | QCreate j =>
      let j' := mkQJ (q_id j) (q_owned j) (q_created j) (q_policy j) (q_start_after j) None false false (qa_rv w + 1) in
      (with_api w (set_job j' (qa_jobs w)) (EAdd j') (q_faults w) (q_counter w), [], true, false)
  | QFinish id =>
      match find_job id (qa_jobs w) with
      | Some a =>
          let a' := set_terminal a in
          let a'' := mkQJ (q_id a') (q_owned a') (q_created a') (q_policy a') (q_start_after a')
                          (q_started a') (q_terminal a') (q_adm_err a') (qa_rv w + 1) in
          (with_api w (set_job a'' (qa_jobs w)) (EUpd a a'') (q_faults w) (q_counter w), [], true, false)
      | None => (w, [], true, false)
      end
  | QDelete id =>
      match find_job id (qa_jobs w) with
      | Some a => (with_api w (del_job id (qa_jobs w)) (EDel a) (q_faults w) (q_counter w), [], true, false)
      | None => (w, [], true, false)
      end
  | QSetMax m =>
      (mkQW (qa_jobs w) (qa_rv w) (qc_jobs w) (qc_pending w) (qs_pending w) (qq_pending w)
            (q_counter w) m (q_clock w) (q_faults w) (q_ready w), [], true, false)
  | QClock t =>
      (mkQW (qa_jobs w) (qa_rv w) (qc_jobs w) (qc_pending w) (qs_pending w) (qq_pending w)
            (q_counter w) (q_max w) (Z.max t (q_clock w)) (q_faults w) (q_ready w), [], true, false)
  | QAdvCache n => (adv_cache n w, [], true, false)
  | QDeliverStore n => (deliver_store n w, [], true, false)
  | QDeliverQueue n =>
      (mkQW (qa_jobs w) (qa_rv w) (qc_jobs w) (qc_pending w) (qs_pending w) (qq_pending w - Nat.min n (qq_pending w))
            (q_counter w) (q_max w) (q_clock w) (q_faults w)
            (q_ready w || negb (Nat.eqb (Nat.min n (qq_pending w)) 0)), [], true, false)
  | QFault f =>
      (mkQW (qa_jobs w) (qa_rv w) (qc_jobs w) (qc_pending w) (qs_pending w) (qq_pending w)
            (q_counter w) (q_max w) (q_clock w) (q_faults w ++ [f]) (q_ready w), [], true, false)
  | QSync => sync_q w
  | QSyncIndep id => sync_indep w id
  | QRestart =>
      let w1 := adv_cache (List.length (qc_pending w)) w in
      (mkQW (qa_jobs w1) (qa_rv w1) (qc_jobs w1) [] [] O
            (Z.of_nat (List.length (filter (fun j => q_owned j && is_active j) (qc_jobs w1))))
            (q_max w1) (q_clock w1) (q_faults w1) false, [], true, false)
  | QTouch id =>
      match find_job id (qa_jobs w) with
      | Some a =>
          let a'' := mkQJ (q_id a) (q_owned a) (q_created a) (q_policy a) (q_start_after a)
                          (q_started a) (q_terminal a) (q_adm_err a) (qa_rv w + 1) in
          (with_api w (set_job a'' (qa_jobs w)) (EUpd a a'') (q_faults w) (q_counter w), [], true, false)
      | None => (w, [], true, false)
      end
  end.

Definition init_qworld (now : Z) (m : option Z) : qworld := mkQW [] 1 [] [] [] O 0 m now [] false.

Fixpoint qrun (w : qworld) (ops : list qop) : list (qworld * list qaction * bool * bool) :=
  match ops with
  | [] => []
  | o :: r => let res := qstep w o in res :: qrun (fst (fst (fst res))) r
  end.
