(** One Job, its Pods, the (simulated) API server, the informer caches and one reconcile
    pass of the job controller: jobcontroller/reconciler.go (SyncOne, sync, syncJobTasks,
    syncCreateTasks, syncCreateTask, getTaskForAdoption, handlePendingTasks,
    handleKillJob, handleForceDeleteKillingTasks, handleTTLAfterFinished,
    handleFinishFinalizer, deleteTasks), control.go (UpdateJob / UpdateJobStatus with their
    equality short-cuts), job/timeout.go.

    API-server rules that the pass relies on (DESIGN.md section 3) are part of this model:
    name uniqueness, optimistic concurrency on the Job (resourceVersion), the status
    sub-resource split, finalizer-gated deletion of the Job, graceful Pod deletion (an
    unscheduled Pod disappears at once; otherwise deletionTimestamp = now + 30 s and the
    kubelet removes it), one-shot injected faults.  Model file: definitions only. *)
From Furiko Require Export Job.Core Base.Str.
Open Scope list_scope.

Record jcfg := mkCfg {
  cfg_pending : option Z;     (* defaultPendingTimeoutSeconds *)
  cfg_force : option Z;       (* forceDeleteTaskTimeoutSeconds *)
  cfg_ttl : option Z          (* defaultTTLSecondsAfterFinished *)
}.

Definition pending_timeout (cfg : jcfg) (j : job) : Z :=
  match j_pending_timeout j with
  | Some t => if 0 <=? t then t else match cfg_pending cfg with Some d => d | None => 0 end
  | None => match cfg_pending cfg with Some d => d | None => 0 end
  end.
Definition force_timeout (cfg : jcfg) : Z := match cfg_force cfg with Some d => d | None => 0 end.
Definition ttl_after_finished (cfg : jcfg) (j : job) : Z :=
  match j_ttl j with Some t => t | None => match cfg_ttl cfg with Some d => d | None => 0 end end.

Inductive pod_event := PSet (p : pod) | PDel (name : string).
Inductive fault := FCreatePod | FCreatePodInvalid | FDeletePod | FUpdateJob | FUpdateStatus | FDeleteJob.

Record jworld := mkJW {
  api_job : option job;
  api_rv : Z;
  api_pods : list pod;
  pod_scheduled : list string;          (* names of Pods bound to a node *)
  cache_job : option job;
  cache_rv : Z;
  job_pending : list (option job * Z);  (* Job events not yet in the cache: (object, rv) *)
  cache_pods : list pod;
  pod_pending : list pod_event;
  clock : Z;
  faults : list fault
}.

Definition job_task_name (h : string) (retry : Z) : string :=
  ("j-" ++ h ++ "-" ++ show_Z retry)%string.

Fixpoint find_pod (name : string) (l : list pod) : option pod :=
  match l with
  | [] => None
  | p :: t => if String.eqb (p_name p) name then Some p else find_pod name t
  end.
Definition remove_pod (name : string) (l : list pod) : list pod :=
  filter (fun p => negb (String.eqb (p_name p) name)) l.
Definition set_pod (p : pod) (l : list pod) : list pod :=
  if has_pod (p_name p) l
  then map (fun q => if String.eqb (p_name q) (p_name p) then p else q) l
  else l ++ [p].

Definition mem_str (s : string) (l : list string) : bool := existsb (String.eqb s) l.

Fixpoint take_fault (f : fault) (l : list fault) : option (list fault) :=
  match l with
  | [] => None
  | x :: t =>
      if match f, x with
         | FCreatePod, FCreatePod | FCreatePodInvalid, FCreatePodInvalid | FDeletePod, FDeletePod
         | FUpdateJob, FUpdateJob | FUpdateStatus, FUpdateStatus | FDeleteJob, FDeleteJob => true
         | _, _ => false
         end
      then Some t
      else option_map (cons x) (take_fault f t)
  end.

(** what a pass did, as the API saw it *)
Inductive action :=
| ACreate (name : string) (outcome : Z)     (* 0 created, 1 already exists, 2 invalid, 3 error *)
| ADelete (name : string) (force : bool) (outcome : Z)  (* 0 ok, 1 not found, 3 error *)
| AUpdateJob (outcome : Z)                  (* 0 ok, 2 conflict, 3 error *)
| AUpdateStatus (outcome : Z)
| ADeleteJob (outcome : Z).

(** the state threaded through one pass *)
Record pstate := mkPS {
  ps_w : jworld;
  ps_actions : list action;     (* reverse order *)
  ps_armed : bool;              (* some enqueueAfter was issued *)
  ps_del_events : list pod_event  (* Pod events of this pass's deletes; logged at the end of
                                     the pass in ascending name order (they run concurrently) *)
}.

Definition with_world (s : pstate) (w : jworld) : pstate := mkPS w (ps_actions s) (ps_armed s) (ps_del_events s).
Definition add_action (s : pstate) (a : action) : pstate := mkPS (ps_w s) (a :: ps_actions s) (ps_armed s) (ps_del_events s).
Definition arm (s : pstate) : pstate := mkPS (ps_w s) (ps_actions s) true (ps_del_events s).
Definition add_del_events (s : pstate) (evs : list pod_event) : pstate :=
  mkPS (ps_w s) (ps_actions s) (ps_armed s) (ps_del_events s ++ evs).

Definition upd_pods (w : jworld) (pods : list pod) (sched : list string) (evs : list pod_event) (fl : list fault) : jworld :=
  mkJW (api_job w) (api_rv w) pods sched (cache_job w) (cache_rv w) (job_pending w)
       (cache_pods w) (pod_pending w ++ evs) (clock w) fl.
Definition upd_job (w : jworld) (j : option job) (rv : Z) (fl : list fault) : jworld :=
  mkJW j rv (api_pods w) (pod_scheduled w) (cache_job w) (cache_rv w) (job_pending w ++ [(j, rv)])
       (cache_pods w) (pod_pending w) (clock w) fl.
Definition set_faults (w : jworld) (fl : list fault) : jworld :=
  mkJW (api_job w) (api_rv w) (api_pods w) (pod_scheduled w) (cache_job w) (cache_rv w) (job_pending w)
       (cache_pods w) (pod_pending w) (clock w) fl.

(** updateTaskRefStatus *)
Definition update_task_ref_status (now : Z) (j : job) (tasks : list pod) : job :=
  update_status_from_refs now (update_task_refs now j tasks).

(** syncJobStatusFromTaskRefs arms the TTL re-sync *)
Definition ttl_arms (j : job) : bool :=
  match j_cond j, j_deletion j, j_ttl j with
  | CFinished _ _ _ _, None, Some _ => true
  | _, _, _ => false
  end.
Definition sync_status (now : Z) (s : pstate) (j : job) : pstate * job :=
  let j' := update_status_from_refs now j in
  (if ttl_arms j' then arm s else s, j').
Definition sync_status_refs (now : Z) (s : pstate) (j : job) (tasks : list pod) : pstate * job :=
  sync_status now s (update_task_refs now j tasks).

Definition set_adm_err (j : job) : job :=
  mkJob (j_indexes j) (j_parallel j) (j_strategy j) (j_max_attempts j) (j_retry_delay j)
        (j_start_after j) (j_enqueue j) (j_kill j) true (j_ttl j) (j_pending_timeout j)
        (j_forbid_force j) (j_finalizer j) (j_deletion j) (j_start j)
        (j_tasks j) (j_created_tasks j) (j_running_tasks j) (j_pstatus j) (j_cond j) (j_phase j) (j_state j).
Definition set_finalizer (j : job) (b : bool) : job :=
  mkJob (j_indexes j) (j_parallel j) (j_strategy j) (j_max_attempts j) (j_retry_delay j)
        (j_start_after j) (j_enqueue j) (j_kill j) (j_adm_err j) (j_ttl j) (j_pending_timeout j)
        (j_forbid_force j) b (j_deletion j) (j_start j)
        (j_tasks j) (j_created_tasks j) (j_running_tasks j) (j_pstatus j) (j_cond j) (j_phase j) (j_state j).
Definition set_tasks (j : job) (tasks : list taskref) : job :=
  set_status j tasks (j_created_tasks j) (j_running_tasks j) (j_pstatus j) (j_cond j) (j_phase j) (j_state j).

(** ** creating one task (syncCreateTask) *)
Inductive create_result := CrOk | CrErr.

Definition new_pod (h : string) (retry now : Z) : pod :=
  mkPod (job_task_name h retry) h retry now true PPending false None None None None.

Definition sync_create_task (s : pstate) (j : job) (tasks : list pod) (h : string) (retry : Z)
  : pstate * job * list pod * create_result :=
  let w := ps_w s in
  let name := job_task_name h retry in
  match take_fault FCreatePod (faults w) with
  | Some fl => (add_action (with_world s (set_faults w fl)) (ACreate name 3), j, tasks, CrErr)
  | None =>
  match take_fault FCreatePodInvalid (faults w) with
  | Some fl =>
      (* Invalid => AdmissionRefusedError => annotation on the Job, no retry *)
      (add_action (with_world s (set_faults w fl)) (ACreate name 2), set_adm_err j, tasks, CrOk)
  | None =>
      if has_pod name (api_pods w) then
        let s1 := add_action s (ACreate name 1) in
        match find_pod name (cache_pods w) with
        | None => (s1, j, tasks, CrErr)                   (* adoption reads the cache *)
        | Some p =>
            if p_controlled p then (s1, j, tasks ++ [p], CrOk)
            else (s1, set_adm_err j, tasks, CrOk)         (* foreign object on the task's name *)
        end
      else
        let p := new_pod h retry (clock w) in
        (add_action (with_world s (upd_pods w (api_pods w ++ [p]) (pod_scheduled w) [PSet p] (faults w)))
                    (ACreate name 0), j, tasks ++ [p], CrOk)
  end end.

Fixpoint create_loop (s : pstate) (j : job) (tasks : list pod) (reqs : list create_req) (now : Z)
  : pstate * job * list pod * create_result :=
  match reqs with
  | [] => (s, j, tasks, CrOk)
  | rq :: r =>
      if match rq_earliest rq with Some e => now <? e | None => false end
      then create_loop s j tasks r now
      else
        match sync_create_task s j tasks (rq_hash rq) (rq_retry rq) with
        | (s1, j1, tasks1, CrOk) => create_loop s1 j1 tasks1 r now
        | (s1, _, _, CrErr) => (s1, j, tasks, CrErr)
        end
  end.

(** syncCreateTasks; on error the ORIGINAL job and task list are what the caller keeps.
    The retry re-sync is armed after the loop when some request has a non-zero
    "earliest" (a recorded finish, or - zero time plus a positive delay - any request of a
    Job with a retry delay). *)
Definition sync_create_tasks (s : pstate) (j : job) (tasks : list pod) (now : Z)
  : pstate * job * list pod * create_result :=
  if negb (can_create_task j) then (s, j, tasks, CrOk)
  else
    let current := generate_task_refs now (j_tasks j) tasks in
    let '(complete, _) := summary (j_indexes j) (j_strategy j) (j_max_attempts j) current in
    if complete then (s, j, tasks, CrOk)
    else
      let reqs := compute_missing j in
      match create_loop s j tasks reqs now with
      | (s1, j1, tasks1, CrOk) =>
          let s1' :=
            if existsb (fun rq => match rq_earliest rq with Some _ => true | None => 0 <? j_retry_delay j end) reqs
            then arm s1 else s1 in
          let '(s2, j2) := sync_status_refs now s1' j1 tasks1 in
          (s2, j2, tasks1, CrOk)
      | (s1, _, _, CrErr) => (s1, j, tasks, CrErr)
      end.

(** ** deleting tasks (deleteTasks + the API server's Pod deletion rules) *)
Definition set_deletion (p : pod) (t : Z) : pod :=
  mkPod (p_name p) (p_hash p) (p_retry p) (p_created p) (p_controlled p) (p_phase p) (p_oom p)
        (Some t) (p_status_start p) (p_cont_start p) (p_cont_finish p).

Definition api_delete_pod (w : jworld) (name : string) (force : bool) : jworld * Z * list pod_event :=
  match find_pod name (api_pods w) with
  | None => (w, 1, [])
  | Some p =>
      if force || negb (mem_str name (pod_scheduled w)) then
        (upd_pods w (remove_pod name (api_pods w)) (pod_scheduled w) [] (faults w), 0, [PDel name])
      else
        match p_deletion p with
        | Some _ => (w, 0, [])
        | None =>
            let p' := set_deletion p (clock w + 30) in
            (upd_pods w (set_pod p' (api_pods w)) (pod_scheduled w) [] (faults w), 0, [PSet p'])
        end
  end.

(** The deletes of one sweep run concurrently in the implementation; the order in which
    the API server sees them is unspecified.  The model (and the harness's event log)
    fix it to ascending Pod name. *)
Fixpoint insert_pod (p : pod) (l : list pod) : list pod :=
  match l with
  | [] => [p]
  | x :: t => if String.ltb (p_name x) (p_name p) then x :: insert_pod p t else p :: l
  end.
Definition sort_pods (l : list pod) : list pod := fold_right insert_pod [] l.

(** returns false when some delete failed *)
Fixpoint delete_tasks_ordered (s : pstate) (tasks : list pod) (force : bool) (now : Z) : pstate * bool :=
  match tasks with
  | [] => (s, true)
  | p :: r =>
      if negb force && match p_deletion p with Some t => t <? now | None => false end
      then delete_tasks_ordered s r force now
      else
        match take_fault FDeletePod (faults (ps_w s)) with
        | Some _ =>
            (* a delete fault fails every Pod delete of the pass (the deletes of one sweep run
               concurrently); it is consumed when the pass ends *)
            let '(s', _) := delete_tasks_ordered (add_action s (ADelete (p_name p) force 3)) r force now in
            (s', false)
        | None =>
            let '(w', out, evs) := api_delete_pod (ps_w s) (p_name p) force in
            delete_tasks_ordered (add_del_events (add_action (with_world s w') (ADelete (p_name p) force out)) evs) r force now
        end
  end.
Definition delete_tasks (s : pstate) (tasks : list pod) (force : bool) (now : Z) : pstate * bool :=
  delete_tasks_ordered s (sort_pods tasks) force now.

Definition mark_deleted (names : list string) (st : tstatus) (overwrite : bool) (force_reason : bool) (j : job) : job :=
  set_tasks j
    (map (fun r =>
            if mem_str (tr_name r) names then
              let d :=
                match tr_deleted r with
                | Some d => if overwrite then st else d
                | None => st
                end in
              let d' := if force_reason then mkSt (st_state d) (st_result d) ReForceDeleted else d in
              mkRef (tr_name r) (tr_hash r) (tr_retry r) (tr_created r) (tr_running r) (tr_finish r)
                    (tr_status r) (Some d')
            else r) (j_tasks j)).

Definition killed_status (r : treason) : tstatus := mkSt TTerminated RKilled r.

(** handlePendingTasks *)
Definition handle_pending (cfg : jcfg) (s : pstate) (j : job) (tasks : list pod) (now : Z)
  : pstate * job * bool :=
  let pt := pending_timeout cfg j in
  if pt <=? 0 then (s, j, true)
  else
    let cand := filter (fun p => match pod_finish_ts p, p_cont_start p with None, None => true | _, _ => false end) tasks in
    let not_due := filter (fun p => now <? p_created p + pt) cand in
    let s0 := match not_due with [] => s | _ => arm s end in
    let need := filter (fun p => negb (now <? p_created p + pt) &&
                                 match p_deletion p with None => true | Some _ => false end) cand in
    match need with
    | [] => (s0, j, true)
    | _ =>
        let j' := mark_deleted (map p_name need) (killed_status RePendingTimeout) true false j in
        let '(s1, ok) := delete_tasks s0 need false now in
        (s1, j', ok)
    end.

(** handleKillJob *)
Definition handle_kill (s : pstate) (j : job) (tasks : list pod) (now : Z) : pstate * job * bool :=
  if negb (should_kill now j) then (s, j, true)
  else
    let need := filter (fun p => match pod_finish_ts p, p_deletion p with None, None => true | _, _ => false end) tasks in
    match need with
    | [] => (s, j, true)
    | _ =>
        let j' := mark_deleted (map p_name need) (killed_status ReNone) true false j in
        let '(s1, ok) := delete_tasks s need false now in
        (s1, j', ok)
    end.

(** handleForceDeleteKillingTasks *)
Definition handle_force (cfg : jcfg) (s : pstate) (j : job) (tasks : list pod) (now : Z) : pstate * job * bool :=
  let fd := force_timeout cfg in
  if fd <=? 0 then (s, j, true)
  else if j_forbid_force j then (s, j, true)
  else
    let deleting := filter (fun p => match p_deletion p with Some _ => true | None => false end) tasks in
    let need := filter (fun p => match p_deletion p with Some t => negb (now <? t + fd) | None => false end) deleting in
    let waiting := filter (fun p => match p_deletion p with Some t => now <? t + fd | None => false end) deleting in
    let s0 := match waiting with [] => s | _ => arm s end in
    match need with
    | [] => (s0, j, true)
    | _ =>
        let j' := update_task_refs now (mark_deleted (map p_name need) (killed_status ReNone) false true j) tasks in
        let '(s1, ok) := delete_tasks s0 need true now in
        (s1, j', ok)
    end.

(** syncJobTasks; the boolean is false when the pass hit an error (the caller then keeps
    the job it started from) *)
Definition sync_job_tasks (cfg : jcfg) (s : pstate) (j : job) (now : Z) : pstate * job * bool :=
  let w := ps_w s in
  let tasks := flat_map (fun r => match find_pod (tr_name r) (cache_pods w) with Some p => [p] | None => [] end) (j_tasks j) in
  match sync_create_tasks s j tasks now with
  | (s1, _, _, CrErr) => (s1, j, false)
  | (s1, j1, tasks1, CrOk) =>
      let '(s2, j2) := sync_status_refs now s1 j1 tasks1 in
      let '(s3, j3, ok3) := handle_pending cfg s2 j2 tasks1 now in
      if negb ok3 then (s3, j, false) else
      let '(s4, j4, ok4) := handle_kill s3 j3 tasks1 now in
      if negb ok4 then (s4, j, false) else
      let '(s5, j5, ok5) := handle_force cfg s4 j4 tasks1 now in
      if negb ok5 then (s5, j, false) else
      let '(s6, j6) := sync_status_refs now s5 j5 tasks1 in
      (s6, j6, true)
  end.

(** the API server's Job deletion: finalizers gate it *)
Definition set_job_deletion (j : job) (t : Z) : job :=
  mkJob (j_indexes j) (j_parallel j) (j_strategy j) (j_max_attempts j) (j_retry_delay j)
        (j_start_after j) (j_enqueue j) (j_kill j) (j_adm_err j) (j_ttl j) (j_pending_timeout j)
        (j_forbid_force j) (j_finalizer j) (Some t) (j_start j)
        (j_tasks j) (j_created_tasks j) (j_running_tasks j) (j_pstatus j) (j_cond j) (j_phase j) (j_state j).

Definition api_delete_job (w : jworld) : jworld * Z :=
  match api_job w with
  | None => (w, 1)
  | Some a =>
      if j_finalizer a then
        match j_deletion a with
        | Some _ => (w, 0)
        | None => (upd_job w (Some (set_job_deletion a (clock w))) (api_rv w + 1) (faults w), 0)
        end
      else (upd_job w None (api_rv w + 1) (faults w), 0)
  end.

(** handleTTLAfterFinished *)
Definition handle_ttl (cfg : jcfg) (s : pstate) (j : job) (now : Z) : pstate * bool :=
  match j_deletion j, j_cond j with
  | None, CFinished _ f _ _ =>
      let fin := match f with Some t => t | None => -62135596800 end in
      if now <? fin + ttl_after_finished cfg j then (s, true)
      else
        match take_fault FDeleteJob (faults (ps_w s)) with
        | Some fl => (add_action (with_world s (set_faults (ps_w s) fl)) (ADeleteJob 3), false)
        | None =>
            let '(w', out) := api_delete_job (ps_w s) in
            (add_action (with_world s w') (ADeleteJob out), true)
        end
  | _, _ => (s, true)
  end.

(** handleFinishFinalizer *)
Definition handle_finalizer (s : pstate) (j : job) (now : Z) : pstate * job * bool :=
  match j_deletion j with
  | None => (s, j, true)
  | Some _ =>
      if negb (j_finalizer j) then (s, j, true)
      else
        let w := ps_w s in
        let tasks := flat_map (fun r => match find_pod (tr_name r) (cache_pods w) with Some p => [p] | None => [] end) (j_tasks j) in
        match tasks with
        | [] =>
            let '(s1, j1) := sync_status_refs now s j [] in
            (s1, set_finalizer j1 false, true)
        | _ =>
            let j1 := mark_deleted (map p_name tasks) (killed_status ReJobDeleted) false false j in
            let '(s1, j2) := sync_status_refs now s j1 tasks in
            let '(s2, ok) := delete_tasks s1 tasks false now in
            (s2, j2, ok)
        end
  end.

(** sync: on an error the job returned is the one the failing step started from *)
Definition sync (cfg : jcfg) (s : pstate) (j : job) (now : Z) : pstate * job * bool :=
  let '(s1, j1, ok1) :=
    match j_start j, j_deletion j with
    | Some _, None => sync_job_tasks cfg s j now
    | _, _ => (s, j, true)
    end in
  if negb ok1 then (s1, j, false) else
  let '(s2, j2) := sync_status now s1 j1 in
  let '(s3, ok3) := handle_ttl cfg s2 j2 now in
  if negb ok3 then (s3, j2, false) else
  let '(s4, j4, ok4) := handle_finalizer s3 j2 now in
  if negb ok4 then (s4, j2, false) else (s4, j4, true).

(** ** the writes (control.go) and the API server's update rules *)
Definition meta_eqb (a b : job) : bool :=
  Bool.eqb (j_adm_err a) (j_adm_err b) && Bool.eqb (j_finalizer a) (j_finalizer b).

(** Update of the main resource: spec/metadata from the request, status kept; an object
    whose last finalizer goes away while it is being deleted disappears. *)
Definition api_update_job (w : jworld) (newj : job) (rv : Z) : jworld * Z :=
  match api_job w with
  | None => (w, 3)
  | Some a =>
      if negb (rv =? api_rv w) then (w, 2)
      else
        let stored :=
          mkJob (j_indexes a) (j_parallel a) (j_strategy a) (j_max_attempts a) (j_retry_delay a)
                (j_start_after a) (j_enqueue a) (j_kill a) (j_adm_err newj) (j_ttl a) (j_pending_timeout a)
                (j_forbid_force a) (j_finalizer newj) (j_deletion a) (j_start a)
                (j_tasks a) (j_created_tasks a) (j_running_tasks a) (j_pstatus a) (j_cond a) (j_phase a) (j_state a) in
        match j_deletion a, j_finalizer newj with
        | Some _, false => (upd_job w None (api_rv w + 1) (faults w), 0)
        | _, _ => (upd_job w (Some stored) (api_rv w + 1) (faults w), 0)
        end
  end.

Definition api_update_status (w : jworld) (newj : job) (rv : Z) : jworld * Z :=
  match api_job w with
  | None => (w, 3)
  | Some a =>
      if negb (rv =? api_rv w) then (w, 2)
      else
        let stored := set_status a (j_tasks newj) (j_created_tasks newj) (j_running_tasks newj)
                                 (j_pstatus newj) (j_cond newj) (j_phase newj) (j_state newj) in
        (upd_job w (Some stored) (api_rv w + 1) (faults w), 0)
  end.
