(** C14: expansion of a parallelism spec into indexes (parallel.GenerateIndexes,
    matrix.GenerateMatrixCombinations with its index vector and carry), task names
    (job.GenerateTaskName), the variables a task receives (variablecontext.
    MakeVariablesFromTask) and the admission check (Validator.ValidateParallelismSpec, with
    the fix of duplicates / empty matrix value lists).  The 6-character index hash
    (parallel.HashIndex: hashstructure FNV -> decimal -> base32 -> first 6, lower case) is
    an oracle: the harness ships the hash of every index of the run.
    Model file: definitions only. *)
From Furiko Require Export Base.Str.
Open Scope list_scope.

Inductive pindex :=
| INum (n : Z)
| IKey (k : string)
| IMatrix (kv : list (string * string)).   (* ascending keys *)

Record pspec := mkPSpec {
  ps_count : option Z;
  ps_keys : list string;
  ps_matrix : list (string * list string)  (* the Go map, ascending keys (matrix.GetKeys sorts) *)
}.

Fixpoint count_from (n : nat) (i : Z) : list pindex :=
  match n with
  | O => []
  | S n' => INum i :: count_from n' (i + 1)
  end.

(** ** the odometer of GenerateMatrixCombinations (vectors are kept REVERSED: head = last key) *)
Fixpoint fix_carries (lens idx : list nat) : option (list nat) :=
  match lens, idx with
  | [], [] => Some []
  | l :: ls, i :: is =>
      if Nat.leb l i then
        match is with
        | [] => None                              (* indexes[j-1] with j = 0: index out of range *)
        | i2 :: is' => option_map (cons O) (fix_carries ls (S i2 :: is'))
        end
      else option_map (cons i) (fix_carries ls is)
  | _, _ => None
  end.

Fixpoint index_matrix (m : list (string * list string)) (idx : list nat) : option (list (string * string)) :=
  match m, idx with
  | [], [] => Some []
  | (k, vs) :: r, i :: is =>
      match nth_error vs i, index_matrix r is with
      | Some v, Some rest => Some ((k, v) :: rest)
      | _, _ => None                               (* matrix[key][idx] out of range *)
      end
  | _, _ => None
  end.

Definition bump_last (idx_rev : list nat) : list nat :=
  match idx_rev with [] => [] | i :: r => S i :: r end.

Fixpoint odometer (fuel : nat) (m : list (string * list string)) (lens_rev idx_rev : list nat)
  : option (list (list (string * string))) :=
  match fuel with
  | O => Some []
  | S fuel' =>
      match fix_carries lens_rev idx_rev with
      | None => None
      | Some idx' =>
          match index_matrix m (rev idx'), odometer fuel' m lens_rev (bump_last idx') with
          | Some c, Some rest => Some (c :: rest)
          | _, _ => None
          end
      end
  end.

(** NumCombinations when no value list is empty (with an empty list the Go result depends
    on map iteration order; admission now rejects such specs) *)
Definition num_combinations (m : list (string * list string)) : nat :=
  match m with
  | [] => O
  | _ => fold_left (fun acc kv => (acc * List.length (snd kv))%nat) m 1%nat
  end.

Definition gen_matrix (m : list (string * list string)) : option (list (list (string * string))) :=
  odometer (num_combinations m) m (rev (map (fun kv => List.length (snd kv)) m)) (map (fun _ => O) m).

(** GenerateIndexes; None = the Go code panics *)
Definition gen_indexes (s : pspec) : option (list pindex) :=
  match ps_count s with
  | Some n => if n <? 0 then None (* make([]T, n) with n < 0 panics *) else Some (count_from (Z.to_nat n) 0)
  | None =>
      match ps_keys s with
      | _ :: _ => Some (map IKey (ps_keys s))
      | [] =>
          match ps_matrix s with
          | _ :: _ => option_map (map IMatrix) (gen_matrix (ps_matrix s))
          | [] => Some [INum 0]
          end
      end
  end.

(** the specification: lexicographic cartesian product, first key most significant *)
Fixpoint product (m : list (string * list string)) : list (list (string * string)) :=
  match m with
  | [] => [[]]
  | (k, vs) :: r => flat_map (fun v => map (cons (k, v)) (product r)) vs
  end.

(** ** names and variables *)
Definition task_name (job hash : string) (retry : Z) : string :=
  (job ++ "-" ++ hash ++ "-" ++ show_Z retry)%string.

(** MakeVariablesFromTask: the index-specific variables *)
Definition index_vars (i : pindex) : list (string * string) :=
  match i with
  | INum n => [("task.index_num"%string, show_Z n)]
  | IKey k => match k with EmptyString => [] | _ => [("task.index_key"%string, k)] end
  | IMatrix kv => map (fun p => (("task.index_matrix." ++ fst p)%string, snd p)) kv
  end.

(** ** admission (ValidateParallelismSpec, the parts about the index set) *)
Fixpoint nodup_str (l : list string) : bool :=
  match l with
  | [] => true
  | x :: r => negb (existsb (String.eqb x) r) && nodup_str r
  end.
Definition nonempty_str (s : string) : bool := match s with EmptyString => false | _ => true end.

Definition valid_pspec (s : pspec) : bool :=
  let n_types := ((match ps_count s with Some _ => 1 | None => 0 end) +
                  (match ps_keys s with [] => 0 | _ => 1 end) +
                  (match ps_matrix s with [] => 0 | _ => 1 end))%nat in
  Nat.eqb n_types 1 &&
  match ps_count s with Some n => 0 <? n | None => true end &&
  forallb nonempty_str (ps_keys s) && nodup_str (ps_keys s) &&
  forallb (fun kv => match snd kv with [] => false | _ => true end &&
                     forallb nonempty_str (snd kv) && nodup_str (snd kv)) (ps_matrix s).
