(** The one-Job world: SyncOne with its two writes, the environment ops (kubelet, user,
    queue controller's StartJob, informer cache advances, clock, faults) and [run]. *)
From Furiko Require Export Job.Sync Cases.JobView.
Open Scope list_scope.

Definition status_eqb (a b : job) : bool := eqb_status_view (view_job_status a) (view_job_status b).

Definition ev_name (e : pod_event) : string := match e with PSet p => p_name p | PDel n => n end.
Fixpoint insert_ev (e : pod_event) (l : list pod_event) : list pod_event :=
  match l with
  | [] => [e]
  | x :: t => if String.ltb (ev_name e) (ev_name x) then e :: l else x :: insert_ev e t
  end.
Definition sort_evs (l : list pod_event) : list pod_event := fold_right insert_ev [] l.

(** end of a pass: log the delete events (ascending name), consume a delete fault that was hit *)
Definition end_pass (s : pstate) : jworld :=
  let w := ps_w s in
  let w1 := upd_pods w (api_pods w) (pod_scheduled w) (sort_evs (ps_del_events s)) (faults w) in
  if existsb (fun a => match a with ADelete _ _ 3 => true | _ => false end) (ps_actions s)
  then match take_fault FDeletePod (faults w1) with Some fl => set_faults w1 fl | None => w1 end
  else w1.

(** Reconciler.SyncOne *)
Definition sync_one (cfg : jcfg) (w : jworld) : jworld * list action * bool * bool :=
  match cache_job w with
  | None => (w, [], true, false)
  | Some j =>
      let now := clock w in
      let rv := cache_rv w in
      let '(s1, newj, ok) := sync cfg (mkPS w [] false []) j now in
      (* UpdateJob *)
      let '(s2, ok2) :=
        if meta_eqb j newj then (s1, true)
        else
          match take_fault FUpdateJob (faults (ps_w s1)) with
          | Some fl => (add_action (with_world s1 (set_faults (ps_w s1) fl)) (AUpdateJob 3), false)
          | None =>
              let '(w', out) := api_update_job (ps_w s1) newj rv in
              (add_action (with_world s1 w') (AUpdateJob out), out =? 0)
          end in
      if negb ok2 then (end_pass s2, rev (ps_actions s2), false, ps_armed s2) else
      (* UpdateJobStatus *)
      let '(s3, ok3) :=
        if status_eqb j newj then (s2, true)
        else
          match take_fault FUpdateStatus (faults (ps_w s2)) with
          | Some fl => (add_action (with_world s2 (set_faults (ps_w s2) fl)) (AUpdateStatus 3), false)
          | None =>
              let '(w', out) := api_update_status (ps_w s2) newj rv in
              (add_action (with_world s2 w') (AUpdateStatus out), out =? 0)
          end in
      (end_pass s3, rev (ps_actions s3), ok && ok3, ps_armed s3)
  end.

Inductive kstep := KSchedule | KRun | KSucceed | KFail | KOom | KTerminate | KVanish.

Definition set_pod_fields (p : pod) (ph : pphase) (oom : bool) (ss cs cf : option Z) : pod :=
  mkPod (p_name p) (p_hash p) (p_retry p) (p_created p) (p_controlled p) ph oom (p_deletion p) ss cs cf.

Inductive jop :=
| JClock (t : Z)
| JKubelet (name : string) (k : kstep)
| JForeign (h : string) (retry : Z)
| JStart                      (* queue controller: status.startTime := now *)
| JKill (t : Z)               (* user: spec.killTimestamp := t *)
| JDelete                     (* user: delete the Job *)
| JAdvanceJob (n : nat)
| JAdvancePods (n : nat)
| JFault (f : fault)
| JSync.

Definition set_job_start (j : job) (t : Z) : job :=
  mkJob (j_indexes j) (j_parallel j) (j_strategy j) (j_max_attempts j) (j_retry_delay j)
        (j_start_after j) (j_enqueue j) (j_kill j) (j_adm_err j) (j_ttl j) (j_pending_timeout j)
        (j_forbid_force j) (j_finalizer j) (j_deletion j) (Some t)
        (j_tasks j) (j_created_tasks j) (j_running_tasks j) (j_pstatus j) (j_cond j) (j_phase j) (j_state j).
Definition set_job_kill (j : job) (t : Z) : job :=
  mkJob (j_indexes j) (j_parallel j) (j_strategy j) (j_max_attempts j) (j_retry_delay j)
        (j_start_after j) (j_enqueue j) (Some t) (j_adm_err j) (j_ttl j) (j_pending_timeout j)
        (j_forbid_force j) (j_finalizer j) (j_deletion j) (j_start j)
        (j_tasks j) (j_created_tasks j) (j_running_tasks j) (j_pstatus j) (j_cond j) (j_phase j) (j_state j).

Fixpoint apply_pod_events (n : nat) (evs : list pod_event) (cache : list pod) : list pod_event * list pod :=
  match n, evs with
  | O, _ => (evs, cache)
  | _, [] => ([], cache)
  | S n', PSet p :: r => apply_pod_events n' r (set_pod p cache)
  | S n', PDel name :: r => apply_pod_events n' r (remove_pod name cache)
  end.
Fixpoint apply_job_events (n : nat) (evs : list (option job * Z)) (c : option job * Z)
  : list (option job * Z) * (option job * Z) :=
  match n, evs with
  | O, _ => (evs, c)
  | _, [] => ([], c)
  | S n', e :: r => apply_job_events n' r e
  end.

Definition kubelet (w : jworld) (name : string) (k : kstep) : jworld :=
  match find_pod name (api_pods w) with
  | None => w
  | Some p =>
      let now := clock w in
      match k with
      | KSchedule =>
          if mem_str name (pod_scheduled w) then w
          else
            let p' := set_pod_fields p (p_phase p) (p_oom p) (Some now) (p_cont_start p) (p_cont_finish p) in
            upd_pods w (set_pod p' (api_pods w)) (name :: pod_scheduled w) [PSet p'] (faults w)
      | KRun =>
          let p' := set_pod_fields p PRunning (p_oom p) (p_status_start p) (Some now) (p_cont_finish p) in
          upd_pods w (set_pod p' (api_pods w)) (pod_scheduled w) [PSet p'] (faults w)
      | KSucceed =>
          let p' := set_pod_fields p PSucceeded false (p_status_start p) (p_cont_start p) (Some now) in
          upd_pods w (set_pod p' (api_pods w)) (pod_scheduled w) [PSet p'] (faults w)
      | KFail =>
          let p' := set_pod_fields p PFailed false (p_status_start p) (p_cont_start p) (Some now) in
          upd_pods w (set_pod p' (api_pods w)) (pod_scheduled w) [PSet p'] (faults w)
      | KOom =>
          let p' := set_pod_fields p PFailed true (p_status_start p) (p_cont_start p) (Some now) in
          upd_pods w (set_pod p' (api_pods w)) (pod_scheduled w) [PSet p'] (faults w)
      | KTerminate =>
          match p_deletion p with
          | Some _ => upd_pods w (remove_pod name (api_pods w)) (pod_scheduled w) [PDel name] (faults w)
          | None => w
          end
      | KVanish => upd_pods w (remove_pod name (api_pods w)) (pod_scheduled w) [PDel name] (faults w)
      end
  end.

Definition with_clock (w : jworld) (t : Z) : jworld :=
  mkJW (api_job w) (api_rv w) (api_pods w) (pod_scheduled w) (cache_job w) (cache_rv w) (job_pending w)
       (cache_pods w) (pod_pending w) (Z.max t (clock w)) (faults w).

Definition jstep (cfg : jcfg) (w : jworld) (o : jop) : jworld * list action * bool * bool :=
  match o with
  | JClock t => (with_clock w t, [], true, false)
  | JKubelet name k => (kubelet w name k, [], true, false)
  | JForeign h retry =>
      let name := job_task_name h retry in
      if has_pod name (api_pods w) then (w, [], true, false)
      else
        let p := mkPod name h retry (clock w) false PPending false None None None None in
        (upd_pods w (api_pods w ++ [p]) (pod_scheduled w) [PSet p] (faults w), [], true, false)
  | JStart =>
      match api_job w with
      | Some a => match j_start a with
                  | None => (upd_job w (Some (set_job_start a (clock w))) (api_rv w + 1) (faults w), [], true, false)
                  | Some _ => (w, [], true, false)
                  end
      | None => (w, [], true, false)
      end
  | JKill t =>
      match api_job w with
      | Some a => (upd_job w (Some (set_job_kill a t)) (api_rv w + 1) (faults w), [], true, false)
      | None => (w, [], true, false)
      end
  | JDelete => (fst (api_delete_job w), [], true, false)
  | JAdvanceJob n =>
      let '(rest, (cj, crv)) := apply_job_events n (job_pending w) (cache_job w, cache_rv w) in
      (mkJW (api_job w) (api_rv w) (api_pods w) (pod_scheduled w) cj crv rest
            (cache_pods w) (pod_pending w) (clock w) (faults w), [], true, false)
  | JAdvancePods n =>
      let '(rest, cache) := apply_pod_events n (pod_pending w) (cache_pods w) in
      (mkJW (api_job w) (api_rv w) (api_pods w) (pod_scheduled w) (cache_job w) (cache_rv w) (job_pending w)
            cache rest (clock w) (faults w), [], true, false)
  | JFault f =>
      (set_faults w (faults w ++ [f]), [], true, false)
  | JSync => sync_one cfg w
  end.

Definition init_jworld (j : job) (now : Z) : jworld :=
  mkJW (Some j) 1 [] [] (Some j) 1 [] [] [] now [].

Fixpoint jrun (cfg : jcfg) (w : jworld) (ops : list jop) : list (jworld * list action * bool * bool) :=
  match ops with
  | [] => []
  | o :: r =>
      let res := jstep cfg w o in
      res :: jrun cfg (fst (fst (fst res))) r
  end.
