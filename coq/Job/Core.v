(** The Job/task status core (pure part): parallel/status.go (getIndexStatus,
    GetParallelStatusCounters, GetParallelTaskSummary), parallel/indexes.go
    (ComputeMissingIndexesForCreation), job/task_status.go (GetTaskRef,
    GenerateTaskRefs, UpdateJobTaskRefs), job/condition.go (GetCondition), job/phase.go
    (GetPhase), jobcontroller/util.go (canCreateTask, shouldKillJob,
    getJobStateFromCondition), jobcontroller/reconciler.go (UpdateJobStatusFromTaskRefs),
    podtaskexecutor/pod_task.go (Pod -> task state / result / timestamps).

    Times are whole Unix seconds ([Z]); "unset" timestamps are [None].  A parallel index
    is identified by its 6-character hash (parallel.HashIndex); the expansion of a
    parallelism spec into hashes is Job/Index.v (C14) and enters here as the list
    [j_indexes].  Model file: definitions only. *)
From Coq Require Export List ZArith Bool String.
Export ListNotations.
Open Scope Z_scope.

Inductive tstate := TStarting | TRunning | TKilling | TTerminated | TDeletedUnknown.
Inductive tresult := RNone | RSucceeded | RFailed | RKilled.
Inductive treason := ReNone | RePendingTimeout | ReForceDeleted | ReJobDeleted | RePod.

Record tstatus := mkSt { st_state : tstate; st_result : tresult; st_reason : treason }.

Record taskref := mkRef {
  tr_name : string;            (* <job>-<hash>-<retry> *)
  tr_hash : string;            (* hash of the ref's parallel index *)
  tr_retry : Z;
  tr_created : Z;
  tr_running : option Z;
  tr_finish : option Z;
  tr_status : tstatus;
  tr_deleted : option tstatus  (* deletedStatus tombstone *)
}.

(** ** Pod -> task (PodTask.GetTaskRef) *)
Inductive pphase := PPending | PRunning | PSucceeded | PFailed.
Record pod := mkPod {
  p_name : string;
  p_hash : string;             (* parallel-index annotation, hashed *)
  p_retry : Z;                 (* retry-index label *)
  p_created : Z;
  p_controlled : bool;         (* controller ownerReference: kind Job, this Job's UID *)
  p_phase : pphase;
  p_oom : bool;                (* a container terminated with reason OOMKilled *)
  p_deletion : option Z;       (* metadata.deletionTimestamp *)
  p_status_start : option Z;   (* status.startTime *)
  p_cont_start : option Z;     (* latest container startedAt (running or terminated) *)
  p_cont_finish : option Z     (* latest container finishedAt *)
}.

Definition pod_finished (p : pod) : bool :=
  match p_phase p with PSucceeded | PFailed => true | _ => false end.

Definition pod_state (p : pod) : tstate :=
  match p_deletion p with
  | Some _ => if pod_finished p then TTerminated else TKilling
  | None =>
      match p_phase p with
      | PRunning => TRunning
      | PSucceeded | PFailed => TTerminated
      | PPending => TStarting
      end
  end.

Definition pod_result (p : pod) : tresult :=
  if p_oom p then RFailed
  else match p_phase p with
       | PSucceeded => RSucceeded
       | PFailed => RFailed
       | _ => RNone
       end.

Definition pod_finish_ts (p : pod) : option Z :=
  if pod_finished p then
    match p_cont_finish p with
    | Some t => Some t
    | None => match p_status_start p with Some t => Some t | None => Some (p_created p) end
    end
  else None.

Definition pod_ref (p : pod) : taskref :=
  mkRef (p_name p) (p_hash p) (p_retry p) (p_created p) (p_cont_start p) (pod_finish_ts p)
        (mkSt (pod_state p) (pod_result p) (match pod_result p with RNone => ReNone | _ => RePod end))
        None.

(** ** job.GetTaskRef / GenerateTaskRefs *)
Definition get_task_ref (existing : option taskref) (p : pod) : taskref :=
  let r := pod_ref p in
  let fin := tr_finish r in
  let r1 :=
    match existing with
    | Some e =>
        mkRef (tr_name r) (tr_hash r) (tr_retry r) (tr_created r)
              (match tr_running r with Some t => Some t | None => tr_running e end)
              (match tr_finish r with Some t => Some t | None => tr_finish e end)
              (tr_status r) (tr_deleted e)
    | None => r
    end in
  match fin with
  | Some _ => mkRef (tr_name r1) (tr_hash r1) (tr_retry r1) (tr_created r1) (tr_running r1)
                    (tr_finish r1) (tr_status r1) (Some (tr_status r1))
  | None => r1
  end.

Fixpoint find_ref (name : string) (l : list taskref) : option taskref :=
  match l with
  | [] => None
  | r :: t => if String.eqb (tr_name r) name then Some r else find_ref name t
  end.
(** the map built by the Go loop keeps the LAST ref of a name *)
Definition find_ref_last (name : string) (l : list taskref) : option taskref := find_ref name (rev l).

Definition has_pod (name : string) (pods : list pod) : bool :=
  existsb (fun p => String.eqb (p_name p) name) pods.

Definition ref_le (a b : taskref) : bool :=
  (tr_created a <? tr_created b) ||
  ((tr_created a =? tr_created b) && negb (String.ltb (tr_name b) (tr_name a))).
Fixpoint insert_ref (r : taskref) (l : list taskref) : list taskref :=
  match l with
  | [] => [r]
  | x :: t => if ref_le r x then r :: l else x :: insert_ref r t
  end.
Definition sort_refs (l : list taskref) : list taskref := fold_right insert_ref [] l.

Definition vanished_ref (now : Z) (e : taskref) : taskref :=
  mkRef (tr_name e) (tr_hash e) (tr_retry e) (tr_created e) (tr_running e)
        (match tr_finish e with Some t => Some t | None => Some now end)
        (match tr_deleted e with
         | Some d => d
         | None => mkSt TDeletedUnknown (st_result (tr_status e)) (st_reason (tr_status e))
         end)
        (tr_deleted e).

(** GenerateTaskRefs(existing, tasks): refs of the tasks that are present (merged with the
    recorded ref), then the recorded refs whose task is gone; sorted by creation, name. *)
Definition generate_task_refs (now : Z) (existing : list taskref) (pods : list pod) : list taskref :=
  sort_refs
    (map (fun p => get_task_ref (find_ref_last (p_name p) existing) p) pods ++
     map (vanished_ref now) (filter (fun e => negb (has_pod (tr_name e) pods)) existing)).

(** ** per-index status *)
Inductive istate := INone | INotCreated | IRetryBackoff | IStarting | IRunning | ITerminated.
Record index_status := mkIdx {
  ix_hash : string; ix_created : Z; ix_state : istate; ix_result : tresult }.

Definition refs_of_hash (h : string) (tasks : list taskref) : list taskref :=
  filter (fun r => String.eqb (tr_hash r) h) tasks.

Definition count {A} (f : A -> bool) (l : list A) : Z := Z.of_nat (List.length (filter f l)).

Definition is_terminal_ref (r : taskref) : bool := match tr_finish r with Some _ => true | None => false end.
Definition is_running_ref (r : taskref) : bool :=
  negb (is_terminal_ref r) && match tr_running r with Some _ => true | None => false end.
Definition is_starting_ref (r : taskref) : bool :=
  negb (is_terminal_ref r) && match tr_running r with Some _ => false | None => true end.
Definition ref_succeeded (r : taskref) : bool :=
  match st_result (tr_status r) with RSucceeded => true | _ => false end.

Definition get_index_status (h : string) (tasks : list taskref) (max_attempts : Z) : index_status :=
  let ts := refs_of_hash h tasks in
  let n := Z.of_nat (List.length ts) in
  let n_term := count is_terminal_ref ts in
  let n_run := count is_running_ref ts in
  let n_start := count is_starting_ref ts in
  let succeeded := existsb ref_succeeded ts in
  let failed := negb succeeded && (max_attempts <=? n_term) in
  let state :=
    if n =? 0 then INotCreated
    else if (n_term =? n) && negb succeeded && negb failed then IRetryBackoff
    else if n_term =? n then ITerminated
    else if 0 <? n_run then IRunning
    else if 0 <? n_start then IStarting
    else INone in
  mkIdx h n state (if succeeded then RSucceeded else if failed then RFailed else RNone).

Record counters := mkCnt {
  c_created : Z; c_starting : Z; c_running : Z; c_backoff : Z; c_terminated : Z;
  c_succeeded : Z; c_failed : Z }.

Definition count_state (f : istate -> bool) (l : list index_status) : Z := count (fun i => f (ix_state i)) l.

Definition get_counters (l : list index_status) : counters :=
  mkCnt
    (count_state (fun s => match s with IRetryBackoff | IStarting | IRunning | ITerminated => true | _ => false end) l)
    (count_state (fun s => match s with IStarting => true | _ => false end) l)
    (count_state (fun s => match s with IRunning => true | _ => false end) l)
    (count_state (fun s => match s with IRetryBackoff => true | _ => false end) l)
    (count_state (fun s => match s with INotCreated | IRetryBackoff | ITerminated => true | _ => false end) l)
    (count (fun i => match ix_result i with RSucceeded => true | _ => false end) l)
    (count (fun i => match ix_result i with RFailed => true | _ => false end) l).

Inductive strategy := AllSuccessful | AnySuccessful.

Definition index_statuses (indexes : list string) (tasks : list taskref) (max_attempts : Z) : list index_status :=
  map (fun h => get_index_status h tasks max_attempts) indexes.

(** GetParallelTaskSummary: (complete, successful) *)
Definition summary (indexes : list string) (strat : strategy) (max_attempts : Z) (tasks : list taskref)
  : bool * option bool :=
  let c := get_counters (index_statuses indexes tasks max_attempts) in
  let n := Z.of_nat (List.length indexes) in
  let '(succ, fail) :=
    match strat with
    | AllSuccessful => (n <=? c_succeeded c, 0 <? c_failed c)
    | AnySuccessful => (0 <? c_succeeded c, n <=? c_failed c)
    end in
  if succ || fail then (true, Some succ) else (false, None).

(** ** the Job *)
Inductive jresult := JSuccess | JFailed | JAdmissionError | JKilled | JFinalStateUnknown.
Inductive qreason := QNone | QNotYetDue | QQueued.
Inductive wreason := WDeletingTasks | WPendingCreation | WRetryBackoff | WWaitingForTasks.
Inductive cond :=
| CQueueing (r : qreason)
| CWaiting (r : wreason)
| CRunning (terminating : Z) (latest_created latest_running : option Z)
| CFinished (result : jresult) (finish : option Z) (latest_created latest_running : option Z).
Inductive jphase :=
| PhQueued | PhStarting | PhAdmissionError | PhPending | PhRunning | PhTerminating
| PhRetryBackoff | PhRetrying | PhSucceeded | PhFailed | PhKilling | PhKilled | PhFinishedUnknown.
Inductive jstate := SQueued | SWaiting | SRunning | SFinished.

Record job := mkJob {
  j_indexes : list string;        (* hashes of GenerateIndexes(spec.template.parallelism) *)
  j_parallel : bool;              (* spec.template.parallelism != nil *)
  j_strategy : strategy;
  j_max_attempts : Z;             (* GetMaxAttempts *)
  j_retry_delay : Z;              (* seconds *)
  j_start_after : bool;           (* startPolicy.startAfter set *)
  j_enqueue : bool;               (* startPolicy.concurrencyPolicy = Enqueue *)
  j_kill : option Z;              (* spec.killTimestamp *)
  j_adm_err : bool;               (* admission-error annotation present *)
  j_ttl : option Z;               (* spec.ttlSecondsAfterFinished *)
  j_pending_timeout : option Z;   (* template.taskPendingTimeoutSeconds *)
  j_forbid_force : bool;
  j_finalizer : bool;             (* delete-dependents finalizer present *)
  j_deletion : option Z;          (* metadata.deletionTimestamp *)
  j_start : option Z;             (* status.startTime *)
  (* status *)
  j_tasks : list taskref;
  j_created_tasks : Z;
  j_running_tasks : Z;
  j_pstatus : option (list index_status * bool * option bool);
  j_cond : cond;
  j_phase : jphase;
  j_state : jstate
}.

Definition opt_max (a b : option Z) : option Z :=
  match a, b with
  | None, _ => b
  | _, None => a
  | Some x, Some y => if x <? y then Some y else Some x
  end.

Definition latest (f : taskref -> option Z) (l : list taskref) : option Z :=
  fold_left (fun acc r => opt_max acc (f r)) l None.

(** job.GetCondition *)
Definition get_condition (now : Z) (j : job) : cond :=
  if j_adm_err j then
    CFinished JAdmissionError
      (match j_cond j with
       | CFinished _ (Some t) _ _ => Some t
       | _ => Some now
       end) None None
  else
  match j_start j with
  | None =>
      CQueueing (if j_start_after j then QNotYetDue else if j_enqueue j then QQueued else QNone)
  | Some _ =>
      let idx := index_statuses (j_indexes j) (j_tasks j) (j_max_attempts j) in
      let c := get_counters idx in
      let n := Z.of_nat (List.length (j_indexes j)) in
      let '(complete, successful) := summary (j_indexes j) (j_strategy j) (j_max_attempts j) (j_tasks j) in
      let lc := latest (fun r => Some (tr_created r)) (j_tasks j) in
      let lr := latest tr_running (j_tasks j) in
      let lf := latest tr_finish (j_tasks j) in
      let kill_passed := match j_kill j with Some k => k <=? now | None => false end in
      if kill_passed then
        if n <=? c_terminated c then
          CFinished JKilled (match lf with Some t => Some t | None => j_kill j end) lc lr
        else CWaiting WDeletingTasks
      else if negb complete then
        if c_created c <? n then CWaiting WPendingCreation
        else if 0 <? c_backoff c then CWaiting WRetryBackoff
        else if 0 <? c_starting c then CWaiting WWaitingForTasks
        else CRunning 0 lc lr
      else if c_terminated c <? n then CRunning (n - c_terminated c) lc lr
      else
        CFinished
          (match j_kill j with
           | Some _ => JKilled
           | None => match successful with
                     | Some true => JSuccess
                     | Some false => JFailed
                     | None => JFinalStateUnknown
                     end
           end) lf lc lr
  end.

Definition state_of_cond (c : cond) : jstate :=
  match c with
  | CQueueing _ => SQueued
  | CWaiting _ => SWaiting
  | CRunning _ _ _ => SRunning
  | CFinished _ _ _ _ => SFinished
  end.

Definition last_ref (l : list taskref) : option taskref := List.last (map Some l) None.

(** job.GetPhase on a Job whose condition / tasks / parallel status are already set *)
Definition get_phase (now : Z) (j : job) : jphase :=
  match j_cond j with
  | CFinished r _ _ _ =>
      match r with
      | JSuccess => PhSucceeded
      | JFailed => PhFailed
      | JKilled => PhKilled
      | JAdmissionError => PhAdmissionError
      | JFinalStateUnknown => PhFinishedUnknown
      end
  | c =>
      if match j_kill j with Some k => k <=? now | None => false end then PhKilling
      else match c with
      | CRunning term _ _ => if 0 <? term then PhTerminating else PhRunning
      | CWaiting _ =>
          match j_tasks j with
          | [] => PhStarting
          | _ =>
              match j_pstatus j with
              | None =>
                  match last_ref (j_tasks j) with
                  | Some lt =>
                      if is_terminal_ref lt then PhRetryBackoff
                      else if 1 <? j_created_tasks j then PhRetrying
                      else PhPending
                  | None => PhPending
                  end
              | Some (idx, _, _) =>
                  if 0 <? count_state (fun s => match s with IRetryBackoff => true | _ => false end) idx
                  then PhRetryBackoff
                  else if 0 <? count (fun i => match ix_state i with IStarting => 1 <? ix_created i | _ => false end) idx
                  then PhRetrying
                  else PhPending
              end
          end
      | _ => PhQueued
      end
  end.

Definition set_status (j : job) (tasks : list taskref) (ct rt : Z)
           (ps : option (list index_status * bool * option bool)) (c : cond) (ph : jphase) (s : jstate) : job :=
  mkJob (j_indexes j) (j_parallel j) (j_strategy j) (j_max_attempts j) (j_retry_delay j)
        (j_start_after j) (j_enqueue j) (j_kill j) (j_adm_err j) (j_ttl j) (j_pending_timeout j)
        (j_forbid_force j) (j_finalizer j) (j_deletion j) (j_start j)
        tasks ct rt ps c ph s.

(** UpdateJobStatusFromTaskRefs *)
Definition update_status_from_refs (now : Z) (j : job) : job :=
  let ps :=
    if j_parallel j then
      let '(complete, successful) := summary (j_indexes j) (j_strategy j) (j_max_attempts j) (j_tasks j) in
      Some (index_statuses (j_indexes j) (j_tasks j) (j_max_attempts j), complete, successful)
    else j_pstatus j in
  let c0 := get_condition now j in
  let c :=
    match j_deletion j, c0 with
    | Some _, CFinished _ _ _ _ => c0
    | Some _, CRunning _ lc lr => CFinished JKilled lc lc lr   (* zero times stay unset *)
    | Some _, _ => CFinished JKilled (Some now) (Some now) None
    | None, _ => c0
    end in
  let j1 := set_status j (j_tasks j) (j_created_tasks j) (j_running_tasks j) ps c (j_phase j) (state_of_cond c) in
  set_status j1 (j_tasks j1) (j_created_tasks j1) (j_running_tasks j1) ps c (get_phase now j1) (state_of_cond c).

(** UpdateJobTaskRefs *)
Definition update_task_refs (now : Z) (j : job) (pods : list pod) : job :=
  let refs := generate_task_refs now (j_tasks j) pods in
  set_status j refs (Z.of_nat (List.length refs)) (count is_running_ref refs)
             (j_pstatus j) (j_cond j) (j_phase j) (j_state j).

(** ** creation *)
Definition can_create_task (j : job) : bool :=
  match j_kill j with Some _ => false | None => negb (j_adm_err j) end.

Record create_req := mkReq { rq_hash : string; rq_retry : Z; rq_earliest : option Z }.

(** ComputeMissingIndexesForCreation over the STORED refs *)
Definition next_retry (h : string) (tasks : list taskref) : Z :=
  fold_left (fun acc r => Z.max acc (tr_retry r + 1)) (refs_of_hash h tasks) 0.
Definition latest_finish (h : string) (tasks : list taskref) : option Z :=
  latest tr_finish (refs_of_hash h tasks).
Definition index_found (h : string) (tasks : list taskref) : bool :=
  existsb (fun r => negb (is_terminal_ref r) || ref_succeeded r) (refs_of_hash h tasks).

Definition compute_missing (j : job) : list create_req :=
  flat_map (fun h =>
    if index_found h (j_tasks j) then []
    else if j_max_attempts j <=? next_retry h (j_tasks j) then []
    else [mkReq h (next_retry h (j_tasks j))
                (match latest_finish h (j_tasks j) with
                 | Some t => Some (t + j_retry_delay j)
                 | None => None      (* zero time + delay: long past, never after now *)
                 end)]) (j_indexes j).

(** shouldKillJob *)
Definition should_kill_parallel (j : job) : bool :=
  if j_parallel j then
    match j_pstatus j with
    | Some (_, true, Some succ) =>
        match j_strategy j with AllSuccessful => negb succ | AnySuccessful => succ end
    | _ => false
    end
  else false.
Definition should_kill (now : Z) (j : job) : bool :=
  (match j_kill j with Some k => k <=? now | None => false end) || should_kill_parallel j.
