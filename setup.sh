#!/bin/sh
# Run once after a fresh restore (offline): builds the Coq development from
# clean and warms the Go build cache for the harness.
set -e
cd "$(dirname "$0")"
export GOFLAGS=-mod=mod GOPROXY=off GOSUMDB=off GOTOOLCHAIN=local CGO_ENABLED=0
(cd coq && coq_makefile -f _CoqProject -o Makefile >/dev/null && timeout 3000 make -j16 >/dev/null)
(cd harness && ./gen_gomod.sh && go build -tags verif -o bin/harness .)
echo setup-ok
