#!/bin/bash
# seed_all.sh: every seeded change against the check of its own property; one line per seed
# into /verif/seeded/RESULTS.txt (developer tool, not a registered command)
out=/verif/seeded/RESULTS.txt; : > $out
for id in C01 C02 C03 C04 C05 C06 C07 C08 C09 C10 C11 C12 C13 C14 C15 C16 C17 C18 C19 C20; do
  r=$(/verif/seed_test.sh $id $id 2>&1)
  rc=$(echo "$r" | grep -o "exit=[0-9]*" | head -1)
  sig=$(echo "$r" | grep "^# " | head -2 | cut -c1-160 | tr '\n' '|')
  echo "$id $rc $sig" >> $out
done
git -C /repo status --short >> $out
