#!/bin/bash
# seed_all.sh: every seeded change (all rounds) against the check of its own property; one line
# per seed into /verif/seeded/RESULTS.txt (developer tool, not a registered command).
# A seed whose patch no longer applies (e.g. a later fix: commit touched the same lines) is reported.
out=/verif/seeded/RESULTS.txt; : > $out
for d in /verif/seeded/C*/; do
  id=$(basename $d); prop=${id:0:3}
  if ! git -C /repo apply --check $d/patch.diff 2>/dev/null; then echo "$id patch-does-not-apply" >> $out; continue; fi
  r=$(/verif/seed_test.sh $id $prop 2>&1)
  rc=$(echo "$r" | grep -o "exit=[0-9]*" | head -1)
  sig=$(echo "$r" | grep "^# " | head -2 | cut -c1-160 | tr '\n' '|')
  echo "$id $rc $sig" >> $out
done
git -C /repo status --short >> $out
