#!/bin/bash
# seed_some.sh <seed-id>...: like seed_all.sh for the given seeds only; replaces their lines in
# /verif/seeded/RESULTS.txt (developer tool, not a registered command).
out=/verif/seeded/RESULTS.txt
for id in "$@"; do
  d=/verif/seeded/$id; prop=${id:0:3}
  grep -v "^$id " $out > $out.tmp; mv $out.tmp $out
  if ! git -C /repo apply --check $d/patch.diff 2>/dev/null; then echo "$id patch-does-not-apply" >> $out; continue; fi
  r=$(/verif/seed_test.sh $id $prop 2>&1)
  rc=$(echo "$r" | grep -o "exit=[0-9]*" | head -1)
  sig=$(echo "$r" | grep "^# " | head -2 | cut -c1-160 | tr '\n' '|')
  echo "$id $rc $sig" >> $out
done
sort -o $out $out
git -C /repo status --short >> $out
